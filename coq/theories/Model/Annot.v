(* Annot.v — sigtools.signatures.UpgradedAnnotation and what surrounds it
   (sigtools/_signatures.py 38-133, 160-175, 210-215, 235-254, 295-297,
   327-351; sigtools/modifiers.py _PokTranslator._prepare 79-131 and
   annotate.__call__ 346-380), written line by line from the code.

   Conventions
   * annotation *objects* and annotation *spellings* (the strings a function
     compiled with `from __future__ import annotations` stores) are interned by
     the harness as numbers from two disjoint ranges, so an object never equals
     a string, as in Python;
   * an environment [g : genv] gives the globals of every defining function:
     [g f raw] is the object the spelling [raw] denotes in the `__globals__` of
     function [f]; [None] = the name is not bound there (eval raises).  The
     harness only uses environments that bind every spelling it writes.
   No proofs in this file. *)
From Sigtools.Model Require Import Base Bind Algebra.

Definition genv := N -> N -> option N.

(* ---- UpgradedAnnotation.source_value ---------------------------------- *)
(* _EmptyAnnotation -> the empty marker (None);  _PreEvaluatedAnnotation -> the
   stored object;  _PostponedAnnotation -> eval(raw, function.__globals__, {}) *)
Definition source_value (g : genv) (u : uann) : option N :=
  match u with
  | UEmpty => None
  | UPre v => Some v
  | UPost raw f => g f raw
  end.

(* ---- UpgradedAnnotation.upgrade(raw_annotation, function, name) -------- *)
(* flag = _is_co_flag_enabled(function): None when the object has no __code__,
   Some true when CO_FUTURE_ANNOTATIONS is set in its code object *)
Definition upgrade (flag : option bool) (f : option N) (raw : option N) : uann :=
  match raw with
  | None => UEmpty                          (* raw_annotation is empty *)
  | Some a =>
      match f with
      | None => UEmpty                      (* `if not function` (warns) *)
      | Some fid =>
          match flag with
          | None => UEmpty
          | Some true => UPost a fid
          | Some false => UPre a
          end
      end
  end.

(* UpgradedAnnotation.preevaluated(value) *)
Definition preevaluated (v : option N) : uann :=
  match v with None => UEmpty | Some x => UPre x end.

(* ---- signatures.signature(function) ----------------------------------- *)
(* what inspect.signature reports: name, kind, default, raw annotation *)
Definition rawparam := (name * kind * option N * option N)%type.

(* UpgradedParameter._upgrade *)
Definition upgrade_param (flag : option bool) (f : N) (rp : rawparam) : param :=
  let '(x, k, d, a) := rp in mkParam x k d a (upgrade flag (Some f) a).

(* set_default_sources(inspect.signature(f), f) = UpgradedSignature._upgrade(sig, f, default_sources) *)
Definition upgrade_sig (flag : option bool) (f : N) (rps : list rawparam) (rawret : option N) : sigT :=
  mkSig (map (upgrade_param flag f) rps) rawret (upgrade flag (Some f) rawret)
        (map (fun rp => (fst (fst (fst rp)), [f])) rps) [(f, 0)].

(* ---- evaluated() -------------------------------------------------------- *)
(* UpgradedParameter.evaluated: replace(annotation=upgraded_annotation.source_value());
   the upgraded annotation itself and everything else stay *)
Definition evaluated_param (g : genv) (p : param) : param :=
  mkParam (pname p) (pkind p) (pdef p) (source_value g (puann p)) (puann p).

(* UpgradedSignature.evaluated *)
Definition evaluated (g : genv) (s : sigT) : sigT :=
  mkSig (map (evaluated_param g) (params s)) (source_value g (uret s)) (uret s)
        (srcs s) (deps s).

(* what `==` on two evaluated signatures looks at (UpgradedParameter.__eq__ :
   name, kind, default, annotation, and source_value of the upgraded one) *)
Definition observe_param (g : genv) (p : param) : name * kind * option N * option N :=
  (pname p, pkind p, pdef p, source_value g (puann p)).
Definition observe (g : genv) (s : sigT) : list (name * kind * option N * option N) * option N :=
  (map (observe_param g) (params s), source_value g (uret s)).

(* ---- modifiers.annotate(ret, **annotations)(func) ----------------------- *)
Fixpoint assoc_ann (x : name) (l : list (name * option N)) : option (option N) :=
  match l with
  | [] => None
  | (y, v) :: l' => if N.eqb x y then Some v else assoc_ann x l'
  end.

Definition annotate_param (anns : list (name * option N)) (p : param) : param :=
  match assoc_ann (pname p) anns with
  | Some v => set_ann v (preevaluated v) p
  | None => p
  end.

(* retv = None: __return_annotation is UNSET *)
Definition annotate (retv : option (option N)) (anns : list (name * option N)) (s : sigT)
  : res sigT :=
  if forallb (fun xv => mem (fst xv) (names_of (params s))) anns then
    let ps := map (annotate_param anns) (params s) in
    match retv with
    | None => Ok (mkSig ps (ret s) (uret s) (srcs s) (deps s))
    | Some r => Ok (mkSig ps r (preevaluated r) (srcs s) (deps s))
    end
  else Err ValueErr.          (* 'the following parameters to be annotated were not found' *)

(* ---- modifiers.kwoargs / posoargs: the parameter loop of _prepare ------- *)
(* for admissible selections (the three ValueErrors of _prepare are modelled
   with C12; here only where parameters go and what happens to them) *)
Fixpoint prepare_loop (posos kwos : list name) (ps : list param)
         (acc kwoparams : list param) (found_kws : bool) : list param :=
  match ps with
  | [] => if found_kws then acc else acc ++ kwoparams
  | p :: ps' =>
      match pkind p with
      | PK =>
          if mem (pname p) posos then
            prepare_loop posos kwos ps' (acc ++ [set_kind PO p]) kwoparams found_kws
          else if mem (pname p) kwos then
            prepare_loop posos kwos ps' acc (kwoparams ++ [set_kind KO p]) found_kws
          else prepare_loop posos kwos ps' (acc ++ [p]) kwoparams found_kws
      | VK => prepare_loop posos kwos ps' (acc ++ kwoparams ++ [p]) kwoparams true
      | _ => prepare_loop posos kwos ps' (acc ++ [p]) kwoparams found_kws
      end
  end.

(* sig.replace(parameters=params, sources=copy_sources(sig.sources, {func: self})) *)
Definition pok_prepare (posos kwos : list name) (self : N) (f : N) (s : sigT) : res sigT :=
  let ps := prepare_loop posos kwos (params s) [] [] false in
  if validate ps then
    Ok (mkSig ps (ret s) (uret s)
              (map (fun kv => (fst kv, map (fun x => if N.eqb x f then self else x) (snd kv))) (srcs s))
              (map (fun fd => (if N.eqb (fst fd) f then self else fst fd, snd fd)) (deps s)))
  else Err ValueErr.

(* ---- automatic discovery of one forwarding call -------------------------- *)
(* autoforwards_ast: merge of the list [forwards(sig, wrapped_sig, n, names...)] and,
   on UnknownForwards (any ValueError), the plain signature *)
Definition auto_one (outer inner : sigT) (n : nat) (names0 : list name)
           (ha hk uva uvk : bool) : sigT :=
  match (do f <- forwards outer inner n names0 ha hk uva uvk false ;; merge [f]) with
  | Ok r => r
  | Err _ => outer
  end.

(* ---- the twin encodings of one annotated function ------------------------ *)
(* eager twin of a signature whose annotations are spelled [raw]: every
   annotation is replaced by the object [rho raw] it denotes *)
Definition eagerize_param (rho : N -> N) (p : param) : param :=
  mkParam (pname p) (pkind p) (pdef p) (option_map rho (pann p))
          (match pann p with Some r => UPre (rho r) | None => UEmpty end).

Definition eagerize (rho : N -> N) (s : sigT) : sigT :=
  mkSig (map (eagerize_param rho) (params s)) (option_map rho (ret s))
        (match ret s with Some r => UPre (rho r) | None => UEmpty end)
        (srcs s) (deps s).
