(* Exec.v — a grammar of wrapper bodies (statements of the wrapper's own scope),
   its execution semantics with respect to the two star variables, and its
   rendering as the mini-AST the walker sees.  No proofs here.

   The semantics tracks, for *args and **kwargs, whether the variable still
   denotes the caller's untouched object ("pristine"); a forwarding call event
   records which pristine objects the callee actually receives.  The harness
   checks on every run that [compile] produces exactly the tree Python's `ast`
   gives for the rendered source, and that the events agree with really
   executing the rendered program. *)
From Sigtools.Model Require Export Base Visitor.

Inductive star := SA | SK.

Inductive stmt :=
| SFwd (callee : N) (nlit : nat) (kw : list N) (pa pk : bool)
                              (* callee(<nlit constants>, *args?, k=<constant>.., **kwargs?) *)
| SRebind (s : star)          (* args = <constant> *)
| SAug (s : star)             (* args += <constant> *)
| SDel (s : star)             (* del args *)
| SItemSet                    (* kwargs[<constant>] = <constant> *)
| SMethod (s : star) (m : N)  (* kwargs.m(<constant>) *)
| SPass (f : N) (s : star)    (* f(kwargs): the object is handed to other code *)
| SAlias (y : N) (s : star)   (* y = kwargs *)
| SOther (f : N)              (* f(<constant>) *)
| SIf (a b : list stmt)       (* if <constant>: a  else: b *)
| SLambdaMut (m : N).         (* (lambda: kwargs.m(<constant>, <constant>))() : a mutation in a
                                 nested scope, run on the spot; OUTSIDE the fragment the theorems
                                 cover ([flat] is false), it carries the refutation witness *)

(* ---- execution semantics ---- *)
Record sem := mkSem { pr_a : bool; pr_k : bool }.

(* what the callee of one call receives: for each star argument written in the
   call, whether it is the caller's untouched object.  [ev_site] is the index of
   the call expression in source order (= its index in the walker's call list) *)
Record event := mkEvent { ev_site : nat; ev_a : option bool; ev_k : option bool }.

Definition taint_sem (s : star) (st : sem) : sem :=
  match s with SA => mkSem false (pr_k st) | SK => mkSem (pr_a st) false end.

(* number of call expressions of a statement *)
Fixpoint ncalls (s : stmt) : nat :=
  match s with
  | SFwd _ _ _ _ _ | SMethod _ _ | SPass _ _ | SOther _ | SLambdaMut _ => 1
  | SIf a b =>
      (fix go (l : list stmt) : nat := match l with [] => O | x :: l' => (ncalls x + go l')%nat end) a
      + (fix go (l : list stmt) : nat := match l with [] => O | x :: l' => (ncalls x + go l')%nat end) b
  | _ => 0
  end%nat.

Fixpoint ncalls_block (l : list stmt) : nat :=
  match l with [] => O | x :: l' => (ncalls x + ncalls_block l')%nat end.

(* all executions of a statement whose first call expression has index [off]:
   final state and the call events in order (every executed call produces an
   event, forwarding or not) *)
Fixpoint exec_stmt (fuel : nat) (off : nat) (s : stmt) (st : sem) : list (sem * list event) :=
  match fuel with
  | O => []
  | S fuel' =>
      let exec_block :=
        (fix go (l : list stmt) (off : nat) (st : sem) : list (sem * list event) :=
           match l with
           | [] => [(st, [])]
           | x :: l' =>
               flat_map (fun r1 => map (fun r2 => (fst r2, snd r1 ++ snd r2))
                                       (go l' (off + ncalls x)%nat (fst r1)))
                        (exec_stmt fuel' off x st)
           end) in
      match s with
      | SFwd _ _ _ pa pk =>
          [(st, [mkEvent off (if pa then Some (pr_a st) else None) (if pk then Some (pr_k st) else None)])]
      | SRebind x | SAug x | SDel x => [(taint_sem x st, [])]
      | SItemSet => [(taint_sem SK st, [])]
      | SMethod SK _ => [(taint_sem SK st, [mkEvent off None None])]   (* a dict method may mutate it *)
      | SMethod SA _ => [(st, [mkEvent off None None])]                (* tuples are immutable *)
      | SPass _ SK => [(taint_sem SK st, [mkEvent off None None])]     (* other code may mutate the dict *)
      | SPass _ SA => [(st, [mkEvent off None None])]
      | SAlias _ _ => [(st, [])]
      | SOther _ => [(st, [mkEvent off None None])]
      | SLambdaMut _ => [(taint_sem SK st, [mkEvent off None None])]
      | SIf a b => exec_block a off st ++ exec_block b (off + ncalls_block a)%nat st
      end
  end.

Fixpoint exec_block (fuel : nat) (l : list stmt) (off : nat) (st : sem) : list (sem * list event) :=
  match l with
  | [] => [(st, [])]
  | x :: l' =>
      flat_map (fun r1 => map (fun r2 => (fst r2, snd r1 ++ snd r2))
                              (exec_block fuel l' (off + ncalls x)%nat (fst r1)))
               (exec_stmt fuel off x st)
  end.

(* depth of nesting, to give [exec_stmt] enough fuel *)
Fixpoint depth (s : stmt) : nat :=
  match s with
  | SIf a b =>
      S (Nat.max ((fix go (l : list stmt) : nat := match l with [] => O | x :: l' => Nat.max (depth x) (go l') end) a)
                 ((fix go (l : list stmt) : nat := match l with [] => O | x :: l' => Nat.max (depth x) (go l') end) b))
  | _ => 1
  end.

Fixpoint depth_block (l : list stmt) : nat :=
  match l with [] => O | x :: l' => Nat.max (depth x) (depth_block l') end.

(* the fragment the theorems cover: no mutation in a nested scope *)
Fixpoint flat (s : stmt) : bool :=
  match s with
  | SLambdaMut _ => false
  | SIf a b =>
      (fix go (l : list stmt) : bool := match l with [] => true | x :: l' => flat x && go l' end) a
      && (fix go (l : list stmt) : bool := match l with [] => true | x :: l' => flat x && go l' end) b
  | _ => true
  end.

Definition flat_block (l : list stmt) : bool := forallb flat l.

(* ---- the walker's view, as an abstract interpretation ---- *)
(* (ka, kk): the walker still regards *args / **kwargs as the pristine own star *)
Definition taint_abs (s : star) (k : bool * bool) : bool * bool :=
  match s with SA => (false, snd k) | SK => (fst k, false) end.

Definition flags := (bool * bool * bool * bool)%type.   (* use_varargs, use_varkwargs, hide_args, hide_kwargs *)

Fixpoint absint (s : stmt) (k : bool * bool) : (bool * bool) * list flags :=
  let block :=
    (fix go (l : list stmt) (k : bool * bool) : (bool * bool) * list flags :=
       match l with
       | [] => (k, [])
       | x :: l' => let '(k1, f1) := absint x k in let '(k2, f2) := go l' k1 in (k2, f1 ++ f2)
       end) in
  match s with
  | SFwd _ _ _ pa pk =>
      (k, [(pa && fst k, pk && snd k, pa && negb (fst k), pk && negb (snd k))])
  | SRebind x | SAug x | SDel x => (taint_abs x k, [])
  | SItemSet => (taint_abs SK k, [])
  | SMethod x _ => (taint_abs x k, [(false, false, false, false)])
  | SPass _ SK => (taint_abs SK k, [(false, false, false, false)])
  | SPass _ SA => (k, [(false, false, false, false)])
  | SAlias _ SK => (taint_abs SK k, [])
  | SAlias _ SA => (k, [])
  | SOther _ => (k, [(false, false, false, false)])
  | SLambdaMut _ => (k, [(false, false, false, false)])       (* not meaningful: outside [flat] *)
  | SIf a b => let '(k1, f1) := block a k in let '(k2, f2) := block b k1 in (k2, f1 ++ f2)
  end.

Fixpoint absint_block (l : list stmt) (k : bool * bool) : (bool * bool) * list flags :=
  match l with
  | [] => (k, [])
  | x :: l' => let '(k1, f1) := absint x k in let '(k2, f2) := absint_block l' k1 in (k2, f1 ++ f2)
  end.

(* ---- rendering as the mini-AST (what ast.parse + the harness converter give) ---- *)
Definition const : node := NOpaque [].          (* ast.Constant *)
Definition ctxnode : node := NOpaque [].        (* Store() / Load() / Add() ... under generic_visit *)

Section Compile.
Variables va vk : N.        (* the names of the wrapper's *args and **kwargs *)
Definition sname (s : star) : N := match s with SA => va | SK => vk end.

Fixpoint compile (s : stmt) : node :=
  match s with
  | SFwd c n kw pa pk =>
      (* Expr(value=Call(func=Name(c), args=[...], keywords=[...])) *)
      NOpaque [NCall (NName c Load)
                     (repeat const n ++ (if pa then [NStarred (NName va Load)] else []))
                     (map (fun k => NKeyword (Some k) const) kw
                      ++ (if pk then [NKeyword None (NName vk Load)] else []))]
  | SRebind x => NOpaque [NName (sname x) Store; const]               (* Assign(targets, value) *)
  | SAug x => NOpaque [NName (sname x) Store; ctxnode; const]          (* AugAssign(target, op, value) *)
  | SDel x => NOpaque [NName (sname x) Del]                            (* Delete(targets) *)
  | SItemSet =>                                                        (* Assign([Subscript(value, slice, ctx)], value) *)
      NOpaque [NOpaque [NName vk Load; const; ctxnode]; const]
  | SMethod x m => NOpaque [NCall (NAttr (NName (sname x) Load) m) [const] []]
  | SPass f x => NOpaque [NCall (NName f Load) [NName (sname x) Load] []]
  | SAlias y x => NOpaque [NName y Store; NName (sname x) Load]
  | SOther f => NOpaque [NCall (NName f Load) [const] []]
  | SLambdaMut m =>                          (* Expr(Call(func=Lambda(args, body=Call(...)), [], [])) *)
      NOpaque [NCall (NFunc [] [] None None [NCall (NAttr (NName vk Load) m) [const; const] []]) [] []]
  | SIf a b =>                                                         (* If(test, body, orelse) *)
      NOpaque (const :: (fix go (l : list stmt) : list node :=
                           match l with [] => [] | x :: l' => compile x :: go l' end) a
                     ++ (fix go (l : list stmt) : list node :=
                           match l with [] => [] | x :: l' => compile x :: go l' end) b)
  end.

Definition compile_block (l : list stmt) : list node := map compile l.

(* names a program may use for callees / helper functions / alias targets *)
Fixpoint names_ok (s : stmt) : bool :=
  let ok := fun x => negb (N.eqb x va) && negb (N.eqb x vk) in
  match s with
  | SFwd c _ _ _ _ => ok c
  | SPass f _ | SOther f => ok f
  | SAlias y _ => ok y
  | SLambdaMut _ => false
  | SIf a b =>
      (fix go (l : list stmt) : bool := match l with [] => true | x :: l' => names_ok x && go l' end) a
      && (fix go (l : list stmt) : bool := match l with [] => true | x :: l' => names_ok x && go l' end) b
  | _ => true
  end.
End Compile.

(* the walker's flags for the wrapper  def w( *va, **vk ): <block> *)
Definition visitor_flags (va vk : N) (l : list stmt) : option (list flags) :=
  match visit_function [] [] (Some va) (Some vk) (compile_block va vk l) with
  | Some calls => Some (map (fun c => (c_use_varargs c, c_use_varkwargs c, c_hide_args c, c_hide_kwargs c)) calls)
  | None => None
  end.

(* ---- numeric rendering of trees and results, for the correspondence run ---- *)
Definition ctxN (c : ctx) : N := match c with Load => 0 | Store => 1 | Del => 2 end.
Definition optN (o : option N) : N := match o with None => 0 | Some x => x + 1 end.

Fixpoint enc (n : node) : list N :=
  let encs := (fix go (l : list node) : list N :=
                 match l with [] => [] | x :: l' => enc x ++ go l' end) in
  match n with
  | NName id c => [0; id; ctxN c]
  | NAttr v a => [1; a] ++ enc v
  | NCall f args kws =>
      [2] ++ enc f ++ [N.of_nat (length args)] ++ encs args ++ [N.of_nat (length kws)] ++ encs kws
  | NStarred v => [3] ++ enc v
  | NKeyword a v => [4; optN a] ++ enc v
  | NFunc a k va kw body =>
      [5; N.of_nat (length a)] ++ a ++ [N.of_nat (length k)] ++ k ++ [optN va; optN kw; N.of_nat (length body)]
      ++ encs body
  | NNonlocal names => [6; N.of_nat (length names)] ++ names
  | NOpaque ch => [7; N.of_nat (length ch)] ++ encs ch
  end%N.

Definition bN (b : bool) : N := if b then 1%N else 0%N.
Definition obN (o : option bool) : N := match o with None => 0 | Some false => 1 | Some true => 2 end%N.

(* one flat list: the compiled body, the walker's flags, every execution *)
Definition exec_report (va vk : N) (l : list stmt) : list N :=
  let body := compile_block va vk l in
  let e := flat_map enc body in
  let fl := match visitor_flags va vk l with
            | Some fs => [1%N; N.of_nat (length fs)]
                         ++ flat_map (fun f => let '(a, b, c, d) := f in [bN a; bN b; bN c; bN d]) fs
            | None => [0%N]
            end in
  let outs := exec_block (depth_block l) l 0 (mkSem true true) in
  [N.of_nat (length body); N.of_nat (length e)] ++ e ++ fl ++ [N.of_nat (length outs)]
  ++ flat_map (fun r => [bN (pr_a (fst r)); bN (pr_k (fst r)); N.of_nat (length (snd r))]
                        ++ flat_map (fun ev => [N.of_nat (ev_site ev); obN (ev_a ev); obN (ev_k ev)]) (snd r))
              outs.
