(* Eq.v — model of C14: UpgradedSignature / UpgradedParameter as drop-in
   inspect.Signature / inspect.Parameter objects.

   Written from sigtools/_signatures.py:38-147 (UpgradedAnnotation.__eq__,
   _unevaluated, source_value), then (line numbers before f8d05b6) :136-223 (UpgradedSignature: replace, __eq__, __hash__),
   :229-305 (UpgradedParameter: replace, __eq__, __hash__), :308-324
   (_upgrade_parameters_with_warning) and from CPython 3.12:
   inspect.Parameter.__eq__/__hash__, inspect.Signature._hash_basis/__eq__/
   __hash__, Objects/object.c do_richcompare / PyObject_RichCompareBool,
   Objects/tupleobject.c tuplerichcompare, Objects/dictobject.c dict_equal,
   Objects/typeobject.c (object.__ne__, and "a class that defines __eq__ without
   __hash__ gets __hash__ = None").

   The model of CPython's comparison protocol is the trusted part; the harness
   validates it against CPython with small ad-hoc classes on every run.
   No proofs in this file. *)
From Sigtools.Model Require Export Base Bind Algebra.

(* ------------------------------------------------------------------ *)
(* outcomes                                                            *)

(* what a comparison method (slot) or operator can produce *)
Inductive out := Val (b : bool) | NotImpl | Raise.

Definition out_eqb (a b : out) : bool :=
  match a, b with
  | Val x, Val y => Bool.eqb x y
  | NotImpl, NotImpl => true
  | Raise, Raise => true
  | _, _ => false
  end.

(* behaviour of type(x).__eq__ of an object that is neither a Parameter nor a
   Signature: object.__eq__ / None / str / int return NotImplemented for our
   objects; ad-hoc classes may return a constant or raise *)
Inductive fbeh := FNotImpl | FConst (b : bool) | FRaise.

Definition fbeh_out (fb : fbeh) : out :=
  match fb with FNotImpl => NotImpl | FConst c => Val c | FRaise => Raise end.

(* ------------------------------------------------------------------ *)
(* objects                                                             *)

(* plain data of a Parameter: _name, _kind, _default, _annotation *)
Record pdata := mkPD { d_name : name; d_kind : kind; d_def : option N; d_ann : option N }.

(* an UpgradedAnnotation instance: identity and content.  EmptyAnnotation is a
   singleton (the harness gives it one fixed identity). *)
Record aobj := mkA { a_id : N; a_u : uann }.

(* extra slots of UpgradedParameter *)
Record pextra := mkPX {
  x_uann : aobj;          (* upgraded_annotation *)
  x_srcs : list N;        (* sources *)
  x_deps : depths;        (* source_depths *)
  x_fn   : option N       (* _function *)
}.

(* real Parameter instances; i = object identity *)
Inductive pobj :=
| PPlain (i : N) (d : pdata)
| PUpgraded (i : N) (d : pdata) (x : pextra).

(* any Python object a parameter may be compared with *)
Inductive pany := PObj (p : pobj) | PForeign (i : N) (fb : fbeh).

(* plain data of a Signature: _parameters (values), _return_annotation *)
Record sdata := mkSD { s_params : list pobj; s_ret : option N }.

(* extra slots of UpgradedSignature: upgraded_return_annotation, sources
   (the dict without '+depths', and '+depths') *)
Record sextra := mkSX { x_uret : aobj; x_ssrcs : srcmap; x_sdeps : depths }.

Inductive sobj :=
| Plain (i : N) (d : sdata)
| Upgraded (i : N) (d : sdata) (x : sextra).

Inductive sany := SObj (s : sobj) | Foreign (i : N) (fb : fbeh).

Definition pid (p : pobj) : N := match p with PPlain i _ => i | PUpgraded i _ _ => i end.
Definition pd (p : pobj) : pdata := match p with PPlain _ d => d | PUpgraded _ d _ => d end.
Definition pany_id (a : pany) : N := match a with PObj p => pid p | PForeign i _ => i end.
Definition sid (s : sobj) : N := match s with Plain i _ => i | Upgraded i _ _ => i end.
Definition sd (s : sobj) : sdata := match s with Plain _ d => d | Upgraded _ d _ => d end.
Definition sany_id (a : sany) : N := match a with SObj s => sid s | Foreign i _ => i end.

Definition p_is_upgraded (p : pobj) : bool :=
  match p with PUpgraded _ _ _ => true | PPlain _ _ => false end.
Definition s_is_upgraded (s : sobj) : bool :=
  match s with Upgraded _ _ _ => true | Plain _ _ => false end.

(* ------------------------------------------------------------------ *)
(* classes and Python's rich comparison protocol                       *)

Inductive cls := CObject | CParam | CUParam | CSig | CUSig.

Definition cls_eqb (a b : cls) : bool :=
  match a, b with
  | CObject, CObject | CParam, CParam | CUParam, CUParam | CSig, CSig | CUSig, CUSig => true
  | _, _ => false
  end.

(* issubclass(w, v) and w is not v *)
Definition proper_subclass (w v : cls) : bool :=
  match w, v with
  | CUParam, CParam => true
  | CUSig, CSig => true
  | _, _ => false
  end.

Definition pany_cls (a : pany) : cls :=
  match a with
  | PObj (PPlain _ _) => CParam
  | PObj (PUpgraded _ _ _) => CUParam
  | PForeign _ _ => CObject
  end.

Definition sany_cls (a : sany) : cls :=
  match a with
  | SObj (Plain _ _) => CSig
  | SObj (Upgraded _ _ _) => CUSig
  | Foreign _ _ => CObject
  end.

(* do_richcompare(v, w, Py_EQ):
     if type(v) is not type(w) and issubclass(type(w), type(v)):   # reflected first
         res = type(w).__eq__(w, v);  if res is not NotImplemented: return res
     res = type(v).__eq__(v, w);      if res is not NotImplemented: return res
     if not tried_reflected:
         res = type(w).__eq__(w, v);  if res is not NotImplemented: return res
     return v is w                     # Py_NE: v is not w
   `slot x y` stands for type(x).__eq__(x, y) (resp. __ne__). *)
Definition richcmp {A : Type} (cl : A -> cls) (ident : A -> N)
           (slot : A -> A -> out) (dflt : bool -> bool) (v w : A) : out :=
  let rev := negb (cls_eqb (cl v) (cl w)) && proper_subclass (cl w) (cl v) in
  match (if rev then slot w v else NotImpl) with
  | NotImpl =>
      match slot v w with
      | NotImpl =>
          match (if rev then NotImpl else slot w v) with
          | NotImpl => Val (dflt (N.eqb (ident v) (ident w)))
          | r => r
          end
      | r => r
      end
  | r => r
  end.

(* object.__ne__(self, other): res = type(self).__eq__(self, other);
   NotImplemented stays, anything else is negated (its truth value) *)
Definition ne_of_eq (r : out) : out :=
  match r with Val b => Val (negb b) | NotImpl => NotImpl | Raise => Raise end.

(* ------------------------------------------------------------------ *)
(* upgraded annotations                                                *)

(* evaluation environment of postponed annotations:
   e_vals: (function, raw) -> value; absent = eval() raises (NameError, ...)
   e_glob: function -> identity of its __globals__ dict *)
Record env := mkEnv { e_vals : list (N * N * N); e_glob : list (N * N) }.

Fixpoint vals_get (l : list (N * N * N)) (f raw : N) : option N :=
  match l with
  | [] => None
  | (f', raw', v) :: l' => if N.eqb f f' && N.eqb raw raw' then Some v else vals_get l' f raw
  end.

Fixpoint glob_get (l : list (N * N)) (f : N) : N :=
  match l with
  | [] => f
  | (f', g) :: l' => if N.eqb f f' then g else glob_get l' f
  end.

(* source_value(): None stands for the `empty` marker *)
Inductive svres := SV (v : option N) | SVRaise.

Definition source_value (e : env) (u : uann) : svres :=
  match u with
  | UEmpty => SV None
  | UPre v => SV (Some v)
  | UPost raw f => match vals_get (e_vals e) f raw with Some v => SV (Some v) | None => SVRaise end
  end.

(* _unevaluated(): (id(self),) in general, (raw, id(function.__globals__)) for
   a postponed annotation *)
Inductive uneval := UnId (i : N) | UnRaw (raw g : N).

Definition unevaluated (e : env) (a : aobj) : uneval :=
  match a_u a with
  | UPost raw f => UnRaw raw (glob_get (e_glob e) f)
  | _ => UnId (a_id a)
  end.

(* tuple comparison of the two _unevaluated() results: a 1-tuple holding an int
   never equals a 2-tuple starting with a str *)
Definition uneval_eqb (x y : uneval) : bool :=
  match x, y with
  | UnId i, UnId j => N.eqb i j
  | UnRaw r g, UnRaw r' g' => N.eqb r r' && N.eqb g g'
  | _, _ => false
  end.

(* a == b on two UpgradedAnnotation instances (current tree).  The concrete
   classes are siblings sharing UpgradedAnnotation.__eq__, which never returns
   NotImplemented:
     if self is other: return True
     try: return self.source_value() == other.source_value()
     except Exception: return self._unevaluated() == other._unevaluated() *)
Definition uann_eq (e : env) (a b : aobj) : out :=
  if N.eqb (a_id a) (a_id b) then Val true
  else match source_value e (a_u a), source_value e (a_u b) with
       | SV x, SV y => Val (opt_N_eqb x y)
       | _, _ => Val (uneval_eqb (unevaluated e a) (unevaluated e b))
       end.

(* before f8d05b6: return self.source_value() == other.source_value()
   (no identity shortcut, an eval() failure propagates) *)
Definition uann_eq_pre (e : env) (a b : aobj) : out :=
  match source_value e (a_u a) with
  | SVRaise => Raise
  | SV x => match source_value e (a_u b) with
            | SVRaise => Raise
            | SV y => Val (opt_N_eqb x y)
            end
  end.

(* ------------------------------------------------------------------ *)
(* parameters                                                          *)

Section Protocol.
  (* the body of UpgradedAnnotation.__eq__ (current: uann_eq; before f8d05b6:
     uann_eq_pre) *)
  Variable aeq : env -> aobj -> aobj -> out.

Definition pdata_eqb (a b : pdata) : bool :=
  N.eqb (d_name a) (d_name b) && kind_eqb (d_kind a) (d_kind b)
  && opt_N_eqb (d_def a) (d_def b) && opt_N_eqb (d_ann a) (d_ann b).

(* inspect.Parameter.__eq__ *)
Definition param_base_eq (self : pobj) (other : pany) : out :=
  match other with
  | PForeign _ _ => NotImpl                (* never `self`; not isinstance(other, Parameter) *)
  | PObj o => if N.eqb (pid self) (pid o) then Val true          (* self is other *)
              else Val (pdata_eqb (pd self) (pd o))
  end.

(* UpgradedParameter.__eq__ (current tree):
     ret = super().__eq__(other)
     if ret is not True or not isinstance(other, UpgradedParameter): return ret
     return self.upgraded_annotation == other.upgraded_annotation *)
Definition uparam_eq (e : env) (self : pobj) (x : pextra) (other : pany) : out :=
  let ret := param_base_eq self other in
  match ret, other with
  | Val true, PObj (PUpgraded _ _ x') => aeq e (x_uann x) (x_uann x')
  | _, _ => ret
  end.

(* type(a).__eq__(a, b) *)
Definition p_slot (e : env) (a b : pany) : out :=
  match a with
  | PObj (PPlain i d) => param_base_eq (PPlain i d) b
  | PObj (PUpgraded i d x) => uparam_eq e (PUpgraded i d x) x b
  | PForeign _ fb => fbeh_out fb
  end.

Definition p_eq (e : env) (a b : pany) : out :=
  richcmp pany_cls pany_id (p_slot e) (fun same => same) a b.

Definition p_ne (e : env) (a b : pany) : out :=
  richcmp pany_cls pany_id (fun x y => ne_of_eq (p_slot e x y)) negb a b.

(* PyObject_RichCompareBool(a, b, Py_EQ): identity shortcut, then == *)
Definition p_eq_bool (e : env) (a b : pobj) : out :=
  if N.eqb (pid a) (pid b) then Val true else p_eq e (PObj a) (PObj b).

(* ------------------------------------------------------------------ *)
(* signatures                                                          *)

Definition is_ko (p : pobj) : bool := kind_eqb (d_kind (pd p)) KO.

(* _hash_basis: params = tuple(non keyword-only), kwo_params = {name: param} *)
Definition pos_of (d : sdata) : list pobj := filter (fun p => negb (is_ko p)) (s_params d).

Fixpoint pod_set (dct : list pobj) (p : pobj) : list pobj :=
  match dct with
  | [] => [p]
  | q :: d' => if N.eqb (d_name (pd p)) (d_name (pd q)) then p :: d' else q :: pod_set d' p
  end.

Definition kwo_of (d : sdata) : list pobj := fold_left pod_set (filter is_ko (s_params d)) [].

Fixpoint pfind (n : name) (l : list pobj) : option pobj :=
  match l with
  | [] => None
  | p :: l' => if N.eqb n (d_name (pd p)) then Some p else pfind n l'
  end.

(* tuplerichcompare(Py_EQ): first differing item over the common prefix
   (RichCompareBool each), only then the lengths *)
Fixpoint tuple_eq (e : env) (a b : list pobj) : out :=
  match a, b with
  | x :: a', y :: b' =>
      match p_eq_bool e x y with
      | Val true => tuple_eq e a' b'
      | r => r
      end
  | [], [] => Val true
  | _, _ => Val false
  end.

(* dict_equal: sizes; then for every item of a (insertion order) the key must
   be in b with an equal value (RichCompareBool) *)
Fixpoint dict_eq_aux (e : env) (a b : list pobj) : out :=
  match a with
  | [] => Val true
  | x :: a' =>
      match pfind (d_name (pd x)) b with
      | None => Val false
      | Some y =>
          match p_eq_bool e x y with
          | Val true => dict_eq_aux e a' b
          | r => r
          end
      end
  end.

Definition dict_eq (e : env) (a b : list pobj) : out :=
  if Nat.eqb (length a) (length b) then dict_eq_aux e a b else Val false.

(* self._hash_basis() == other._hash_basis()  on 3-tuples *)
Definition basis_eq (e : env) (a b : sdata) : out :=
  match tuple_eq e (pos_of a) (pos_of b) with
  | Val true =>
      match dict_eq e (kwo_of a) (kwo_of b) with
      | Val true => Val (opt_N_eqb (s_ret a) (s_ret b))
      | r => r
      end
  | r => r
  end.

(* inspect.Signature.__eq__ *)
Definition sig_base_eq (e : env) (self : sobj) (other : sany) : out :=
  match other with
  | Foreign _ _ => NotImpl                 (* never `self`; not isinstance(other, Signature) *)
  | SObj o => if N.eqb (sid self) (sid o) then Val true            (* self is other *)
              else basis_eq e (sd self) (sd o)
  end.

(* UpgradedSignature.__eq__ (current tree) *)
Definition usig_eq (e : env) (self : sobj) (x : sextra) (other : sany) : out :=
  let ret := sig_base_eq e self other in
  match ret, other with
  | Val true, SObj (Upgraded _ _ x') => aeq e (x_uret x) (x_uret x')
  | _, _ => ret
  end.

(* the protocol is parametrised by the body of UpgradedSignature.__eq__ so
   that the pre-fix body can be plugged in (Proofs/Eq.v, section Legacy) *)
Definition s_slot_with (ueq : env -> sobj -> sextra -> sany -> out)
           (e : env) (a b : sany) : out :=
  match a with
  | SObj (Plain i d) => sig_base_eq e (Plain i d) b
  | SObj (Upgraded i d x) => ueq e (Upgraded i d x) x b
  | Foreign _ fb => fbeh_out fb
  end.

Definition py_eq_with ueq (e : env) (a b : sany) : out :=
  richcmp sany_cls sany_id (s_slot_with ueq e) (fun same => same) a b.

Definition py_ne_with ueq (e : env) (a b : sany) : out :=
  richcmp sany_cls sany_id (fun x y => ne_of_eq (s_slot_with ueq e x y)) negb a b.

End Protocol.

(* the current tree *)
Definition ppy_eq := p_eq uann_eq.                          (* a == b on parameters *)
Definition ppy_ne := p_ne uann_eq.                          (* a != b on parameters *)
Definition s_slot := s_slot_with uann_eq (usig_eq uann_eq).
Definition py_eq := py_eq_with uann_eq (usig_eq uann_eq).   (* a == b *)
Definition py_ne := py_ne_with uann_eq (usig_eq uann_eq).   (* a != b *)

(* ------------------------------------------------------------------ *)
(* hashing                                                             *)

(* Python: a class whose body defines __eq__ but not __hash__ gets
   __hash__ = None; otherwise __hash__ is inherited / as defined. *)
Record clsdef := mkCls { def_eq : bool; def_hash : bool }.
Definition has_hash (c : clsdef) : bool := negb (def_eq c) || def_hash c.

(* the current tree: both upgraded classes define __eq__ and restore
   __hash__ = <base>.__hash__ *)
Definition usig_cls : clsdef := mkCls true true.
Definition uparam_cls : clsdef := mkCls true true.
Definition plain_cls : clsdef := mkCls true true.   (* inspect defines both *)

Section Hash.
  (* which values are hashable; None = Parameter.empty *)
  Variable vhash_ok : option N -> bool.
  (* hash of a str, a kind, a value, a tuple, a frozenset (given the element hashes) *)
  Variable hname : N -> N.
  Variable hkind : kind -> N.
  Variable hval : option N -> N.
  Variable htuple : list N -> N.
  Variable hfset : list N -> N.

  (* Parameter.__hash__: hash((name, kind, annotation, default)) *)
  Definition pdata_hashable (d : pdata) : bool := vhash_ok (d_ann d) && vhash_ok (d_def d).
  Definition pdata_hash (d : pdata) : N :=
    htuple [hname (d_name d); hkind (d_kind d); hval (d_ann d); hval (d_def d)].

  Definition p_cls_of (p : pobj) : clsdef :=
    match p with PPlain _ _ => plain_cls | PUpgraded _ _ _ => uparam_cls end.

  (* hash(p): None = TypeError *)
  Definition p_hash (p : pobj) : option N :=
    if has_hash (p_cls_of p) && pdata_hashable (pd p) then Some (pdata_hash (pd p)) else None.

  Definition all_some (l : list (option N)) : option (list N) :=
    fold_right (fun o acc => match o, acc with Some x, Some r => Some (x :: r) | _, _ => None end)
               (Some []) l.

  (* Signature.__hash__: hash((params, frozenset(kwo_params.values()), return_annotation)) *)
  Definition sdata_hash (d : sdata) : option N :=
    match all_some (map p_hash (pos_of d)), all_some (map p_hash (kwo_of d)) with
    | Some hp, Some hk =>
        if vhash_ok (s_ret d) then Some (htuple [htuple hp; hfset hk; hval (s_ret d)]) else None
    | _, _ => None
    end.

  Definition s_cls_with (uc : clsdef) (s : sobj) : clsdef :=
    match s with Plain _ _ => plain_cls | Upgraded _ _ _ => uc end.

  Definition py_hash_with (uc : clsdef) (s : sobj) : option N :=
    if has_hash (s_cls_with uc s) then sdata_hash (sd s) else None.

  Definition py_hash := py_hash_with usig_cls.

  Definition hashable (s : sobj) : bool :=
    match py_hash s with Some _ => true | None => false end.
End Hash.

(* ------------------------------------------------------------------ *)
(* replace                                                             *)

(* keyword arguments of UpgradedParameter.replace; None = not passed *)
Record preplace := mkPR {
  r_name : option name; r_kind : option kind;
  r_def : option (option N); r_ann : option (option N);
  r_fn : option (option N); r_srcs : option (list N); r_deps : option depths;
  r_uann : option aobj
}.

Definition dflt {A} (o : option A) (d : A) : A := match o with Some a => a | None => d end.

(* inspect.Parameter.__init__: *args / **kwargs cannot have a default *)
Definition pdata_valid (d : pdata) : bool :=
  match d_kind d, d_def d with
  | VP, Some _ | VK, Some _ => false
  | _, _ => true
  end.

(* UpgradedParameter.replace (lines 281-293): the four extra fields are taken
   from the argument if given, else from self; the rest goes to
   Parameter.replace, which constructs type(self)(...) *)
Definition uparam_replace (newid : N) (d : pdata) (x : pextra) (r : preplace) : res pobj :=
  let d' := mkPD (dflt (r_name r) (d_name d)) (dflt (r_kind r) (d_kind d))
                 (dflt (r_def r) (d_def d)) (dflt (r_ann r) (d_ann d)) in
  if pdata_valid d'
  then Ok (PUpgraded newid d'
             (mkPX (dflt (r_uann r) (x_uann x)) (dflt (r_srcs r) (x_srcs x))
                   (dflt (r_deps r) (x_deps x)) (dflt (r_fn r) (x_fn x))))
  else Err ValueErr.

(* _upgrade_parameters_with_warning: all upgraded -> the same objects;
   otherwise each plain one is upgraded with function=None, no sources
   (UpgradedAnnotation.upgrade(..., None, ...) is EmptyAnnotation, the singleton
   with identity 1) *)
Fixpoint upgrade_params (newid : N) (ps : list pobj) : list pobj :=
  match ps with
  | [] => []
  | PPlain _ d :: ps' => PUpgraded newid d (mkPX (mkA 1 UEmpty) [] [] None) :: upgrade_params (N.succ newid) ps'
  | p :: ps' => p :: upgrade_params newid ps'
  end.

Record sreplace := mkSR {
  r_params : option (list pobj);
  r_ret : option (option N);
  r_sources : option (srcmap * depths);
  r_uret : option aobj
}.

Definition to_param (p : pobj) : param :=
  mkParam (d_name (pd p)) (d_kind (pd p)) (d_def (pd p)) (d_ann (pd p))
          (match p with PUpgraded _ _ x => a_u (x_uann x) | PPlain _ _ => UEmpty end).

Definition plain_params (s : sobj) : list param := map to_param (s_params (sd s)).

(* UpgradedSignature.replace (lines 189-208) *)
Definition usig_replace (newid : N) (d : sdata) (x : sextra) (r : sreplace) : res sobj :=
  let ps := match r_params r with
            | Some ps => upgrade_params (N.succ newid) ps
            | None => s_params d
            end in
  if validate (map to_param ps)
  then Ok (Upgraded newid (mkSD ps (dflt (r_ret r) (s_ret d)))
             (mkSX (dflt (r_uret r) (x_uret x))
                   (match r_sources r with Some sd => fst sd | None => x_ssrcs x end)
                   (match r_sources r with Some sd => snd sd | None => x_sdeps x end)))
  else Err ValueErr.

(* str / bind / bind_partial are inherited: the same CPython function applied
   to the same parameter mapping.  `sig_accepts` is the binding model on the
   object's parameters. *)
Definition sig_accepts (s : sobj) (c : call) : bool := accepts (plain_params s) c.

(* ------------------------------------------------------------------ *)
(* canonical projections used by the correspondence run                *)

Definition enc_opt (o : option N) : N := match o with None => 0 | Some v => N.succ v end.
Definition enc_kind (k : kind) : N := N.of_nat (kind_rank k).
Definition enc_uann (u : uann) : list N :=
  match u with UEmpty => [0] | UPre v => [1; v] | UPost r f => [2; r; f] end.
Definition enc_list (l : list N) : list N := N.of_nat (length l) :: l.
Definition enc_deps (d : depths) : list N :=
  N.of_nat (length d) :: flat_map (fun fd => [fst fd; snd fd]) d.

Definition enc_pobj (p : pobj) : list N :=
  match p with
  | PPlain _ d => [0; d_name d; enc_kind (d_kind d); enc_opt (d_def d); enc_opt (d_ann d)]
  | PUpgraded _ d x =>
      [1; d_name d; enc_kind (d_kind d); enc_opt (d_def d); enc_opt (d_ann d)]
      ++ enc_uann (a_u (x_uann x)) ++ enc_list (x_srcs x) ++ enc_deps (x_deps x) ++ [enc_opt (x_fn x)]
  end.

Definition enc_srcmap (m : srcmap) : list N :=
  N.of_nat (length m) :: flat_map (fun kv => fst kv :: enc_list (snd kv)) m.

Definition enc_sobj (s : sobj) : list N :=
  match s with
  | Plain _ d => [0; N.of_nat (length (s_params d))] ++ flat_map enc_pobj (s_params d) ++ [enc_opt (s_ret d)]
  | Upgraded _ d x =>
      [1; N.of_nat (length (s_params d))] ++ flat_map enc_pobj (s_params d) ++ [enc_opt (s_ret d)]
      ++ enc_uann (a_u (x_uret x)) ++ enc_srcmap (x_ssrcs x) ++ enc_deps (x_sdeps x)
  end.

Definition enc_res {A} (f : A -> list N) (r : res A) : list N :=
  match r with Ok a => 1 :: f a | Err _ => [0] end.

Fixpoint listN_eqb (a b : list N) : bool :=
  match a, b with
  | [], [] => true
  | x :: a', y :: b' => N.eqb x y && listN_eqb a' b'
  | _, _ => false
  end.

(* indices of the cases on which model and implementation differ *)
Fixpoint diff_idx_aux {A} (eqb : A -> A -> bool) (i : nat) (l : list (A * A)) : list nat :=
  match l with
  | [] => []
  | (m, x) :: l' => if eqb m x then diff_idx_aux eqb (S i) l' else i :: diff_idx_aux eqb (S i) l'
  end.
Definition diff_idx {A} (eqb : A -> A -> bool) (l : list (A * A)) : list nat := diff_idx_aux eqb 0%nat l.

(* values the harness makes unhashable (lists): ids 800..899 *)
Definition std_vhash_ok (o : option N) : bool :=
  match o with None => true | Some v => negb (N.leb 800 v && N.ltb v 900) end.
