(* ExecNested.v -- wrapper bodies with nested scopes that FORWARD but do not mutate.

   The grammar adds to the flat statements of Model/Exec.v (the leaf language)
     NDef h body     def h():            (no parameters; body = forwarding / unrelated calls only,
                         <call>           `pass` when the list is empty)
                         ...
     NCallH h        h()
     NLam c          (lambda: <call>)()
   where <call> is   callee(<nlit constants>, *args?, k=<constant>.., **kwargs?)   (NCFwd)
   or                f(<constant>)                                                 (NCOther).
   A nested body never rebinds, deletes, mutates or hands off the star variables: the
   known refutation witness (a MUTATION in a nested scope, SLambdaMut) is outside.

   Call sites are numbered as the walker's call list is ordered: the calls of the wrapper's
   own scope first, in source order (h() and the call of a lambda are such calls); then the
   calls inside nested scopes, in the order in which the walker meets (defers) them, i.e. in
   source order of the nested bodies.  No proofs here. *)
From Sigtools.Model Require Export Base Visitor Exec.

Inductive ncall :=
| NCFwd (callee : N) (nlit : nat) (kw : list N) (pa pk : bool)
| NCOther (f : N).

Inductive nstmt :=
| NLeaf (s : stmt)
| NDef (h : N) (body : list ncall)
| NCallH (h : N)
| NLam (c : ncall).

(* ---- counting call expressions ---- *)
Definition mcalls (x : nstmt) : nat :=           (* in the wrapper's own scope *)
  match x with NLeaf s => ncalls s | NDef _ _ => 0 | NCallH _ => 1 | NLam _ => 1 end.
Definition dcalls (x : nstmt) : nat :=           (* in nested scopes (deferred by the walker) *)
  match x with NDef _ body => length body | NLam _ => 1 | _ => 0 end.

Fixpoint mcalls_block (l : list nstmt) : nat :=
  match l with [] => O | x :: l' => (mcalls x + mcalls_block l')%nat end.

(* the nested calls, in the order the walker defers them *)
Definition deferred1 (x : nstmt) : list ncall :=
  match x with NDef _ body => body | NLam c => [c] | _ => [] end.
Definition deferred (l : list nstmt) : list ncall := flat_map deferred1 l.

(* ---- execution semantics ---- *)
(* what a nested function is bound to: its body and the index of its first call among the
   nested calls of the whole program *)
Definition fenv := list (N * (list ncall * nat)).

Definition call_event (site : nat) (c : ncall) (st : sem) : event :=
  match c with
  | NCFwd _ _ _ pa pk =>
      mkEvent site (if pa then Some (pr_a st) else None) (if pk then Some (pr_k st) else None)
  | NCOther _ => mkEvent site None None
  end.

(* running a nested body NOW: its calls see the star variables as they are at this moment *)
Fixpoint body_events (site : nat) (body : list ncall) (st : sem) : list event :=
  match body with
  | [] => []
  | c :: body' => call_event site c st :: body_events (S site) body' st
  end.

(* all executions of a block.  [M]: number of main-scope calls of the WHOLE program (nested
   sites start there); [off] / [noff]: main-scope / nested calls before this point *)
Fixpoint exec_n (fuel : nat) (M : nat) (l : list nstmt) (off noff : nat) (env : fenv) (st : sem)
  : list (sem * list event) :=
  match l with
  | [] => [(st, [])]
  | x :: l' =>
      match x with
      | NLeaf s =>
          flat_map (fun r1 => map (fun r2 => (fst r2, snd r1 ++ snd r2))
                                  (exec_n fuel M l' (off + ncalls s)%nat noff env (fst r1)))
                   (exec_stmt fuel off s st)
      | NDef h body =>
          exec_n fuel M l' off (noff + length body)%nat ((h, (body, noff)) :: env) st
      | NCallH h =>
          let evs := mkEvent off None None ::
                     match assoc h env with
                     | Some (body, base) => body_events (M + base)%nat body st
                     | None => []          (* h is not a nested function of the wrapper *)
                     end in
          map (fun r2 => (fst r2, evs ++ snd r2)) (exec_n fuel M l' (S off) noff env st)
      | NLam c =>
          let evs := [mkEvent off None None; call_event (M + noff)%nat c st] in
          map (fun r2 => (fst r2, evs ++ snd r2)) (exec_n fuel M l' (S off) (S noff) env st)
      end
  end.

Definition ndepth (x : nstmt) : nat := match x with NLeaf s => depth s | _ => 1 end.
Fixpoint ndepth_block (l : list nstmt) : nat :=
  match l with [] => O | x :: l' => Nat.max (ndepth x) (ndepth_block l') end.

Definition run_n (l : list nstmt) : list (sem * list event) :=
  exec_n (ndepth_block l) (mcalls_block l) l 0 0 [] (mkSem true true).

(* ---- rendering as the mini-AST ---- *)
Section Compile.
Variables va vk : N.

(* the Call expression *)
Definition ncall_node (c : ncall) : node :=
  match c with
  | NCFwd c n kw pa pk =>
      NCall (NName c Load)
            (repeat const n ++ (if pa then [NStarred (NName va Load)] else []))
            (map (fun k => NKeyword (Some k) const) kw
             ++ (if pk then [NKeyword None (NName vk Load)] else []))
  | NCOther f => NCall (NName f Load) [const] []
  end.

Definition compile_n (x : nstmt) : node :=
  match x with
  | NLeaf s => compile va vk s
  | NDef h body =>                       (* FunctionDef: args, body; Expr(value=Call) statements *)
      NFunc [] [] None None
            (match body with
             | [] => [NOpaque []]         (* Pass *)
             | _ => map (fun c => NOpaque [ncall_node c]) body
             end)
  | NCallH h => NOpaque [NCall (NName h Load) [] []]
  | NLam c => NOpaque [NCall (NFunc [] [] None None [ncall_node c]) [] []]
  end.

Definition compile_nblock (l : list nstmt) : list node := map compile_n l.

Definition name_ok (x : N) : bool := negb (N.eqb x va) && negb (N.eqb x vk).

Definition ncall_ok (c : ncall) : bool :=
  match c with NCFwd c _ _ _ _ => name_ok c | NCOther f => name_ok f end.

(* names of callees, helper and nested functions differ from the star variables; leaves are
   flat (no mutation in a nested scope) *)
Definition nnames_ok (x : nstmt) : bool :=
  match x with
  | NLeaf s => names_ok va vk s
  | NDef h body => name_ok h && forallb ncall_ok body
  | NCallH h => name_ok h
  | NLam c => ncall_ok c
  end.
Definition nblock_ok (l : list nstmt) : bool := forallb nnames_ok l.
End Compile.

(* every h() is preceded by a def h (what the harness should generate; the theorems do not need it) *)
Fixpoint defs_before (defined : list N) (l : list nstmt) : bool :=
  match l with
  | [] => true
  | NDef h _ :: l' => defs_before (h :: defined) l'
  | NCallH h :: l' => mem h defined && defs_before defined l'
  | _ :: l' => defs_before defined l'
  end.

(* the walker's flags for  def w( *va, **vk ): <block> *)
Definition visitor_flags_n (va vk : N) (l : list nstmt) : option (list flags) :=
  match visit_function [] [] (Some va) (Some vk) (compile_nblock va vk l) with
  | Some calls => Some (map (fun c => (c_use_varargs c, c_use_varkwargs c, c_hide_args c, c_hide_kwargs c)) calls)
  | None => None
  end.

(* ---- the walker's view as an abstract interpretation ---- *)
Definition nflags (k : bool * bool) (c : ncall) : flags :=
  match c with
  | NCFwd _ _ _ pa pk => (pa && fst k, pk && snd k, pa && negb (fst k), pk && negb (snd k))
  | NCOther _ => (false, false, false, false)
  end.

(* main-scope flags, threading the abstract state *)
Fixpoint absint_n (l : list nstmt) (k : bool * bool) : (bool * bool) * list flags :=
  match l with
  | [] => (k, [])
  | NLeaf s :: l' => let '(k1, f1) := absint s k in let '(k2, f2) := absint_n l' k1 in (k2, f1 ++ f2)
  | NDef _ _ :: l' => absint_n l' k
  | NCallH _ :: l' => let '(k2, f2) := absint_n l' k in (k2, (false, false, false, false) :: f2)
  | NLam _ :: l' => let '(k2, f2) := absint_n l' k in (k2, (false, false, false, false) :: f2)
  end.

(* nested calls are judged against the FINAL state of the wrapper's own scope *)
Definition absflags_n (l : list nstmt) : list flags :=
  let '(kF, fm) := absint_n l (true, true) in fm ++ map (nflags kF) (deferred l).

(* ---- numeric rendering for the correspondence run (as exec_report of Exec.v) ---- *)
Definition exec_report_n (va vk : N) (l : list nstmt) : list N :=
  let body := compile_nblock va vk l in
  let e := flat_map enc body in
  let fl := match visitor_flags_n va vk l with
            | Some fs => [1%N; N.of_nat (length fs)]
                         ++ flat_map (fun f => let '(a, b, c, d) := f in [bN a; bN b; bN c; bN d]) fs
            | None => [0%N]
            end in
  let outs := run_n l in
  [N.of_nat (length body); N.of_nat (length e)] ++ e ++ fl ++ [N.of_nat (length outs)]
  ++ flat_map (fun r => [bN (pr_a (fst r)); bN (pr_k (fst r)); N.of_nat (length (snd r))]
                        ++ flat_map (fun ev => [N.of_nat (ev_site ev); obN (ev_a ev); obN (ev_k ev)]) (snd r))
              outs.
