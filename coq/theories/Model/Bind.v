(* Bind.v — CPython's argument binding, decided on call shapes
   (number of positional arguments, set of keyword names). *)
From Sigtools.Model Require Export Base.

Record call := mkCall { npos : nat; kws : list name }.

Definition is_positional (p : param) : bool :=
  match pkind p with PO | PK => true | _ => false end.
Definition is_named (p : param) : bool :=
  match pkind p with PO | PK | KO => true | _ => false end.
Definition is_kwpassable (p : param) : bool :=
  match pkind p with PK | KO => true | _ => false end.
Definition is_kind (k : kind) (p : param) : bool := kind_eqb (pkind p) k.

Definition positional (ps : list param) : list param := filter is_positional ps.
Definition kwonly (ps : list param) : list param := filter (is_kind KO) ps.
Definition has_kind (k : kind) (ps : list param) : bool := existsb (is_kind k) ps.

(* How a keyword [k] relates to a parameter list when [n] arguments were passed
   positionally. *)
Inductive kwclass := KDirect | KDup | KExtra.

Fixpoint kw_class_pos (pos : list param) (n : nat) (k : name) : option kwclass :=
  match pos with
  | [] => None
  | p :: pos' =>
      if N.eqb k (pname p) then
        Some (match pkind p with
              | PK => match n with O => KDirect | S _ => KDup end
              | _ => KExtra     (* positional-only: can only go to **kwargs *)
              end)
      else kw_class_pos pos' (Nat.pred n) k
  end.

Definition kw_class (ps : list param) (n : nat) (k : name) : kwclass :=
  match kw_class_pos (positional ps) n k with
  | Some c => c
  | None => if mem k (names_of (kwonly ps)) then KDirect else KExtra
  end.

Definition kw_ok (ps : list param) (n : nat) (k : name) : bool :=
  match kw_class ps n k with
  | KDirect => true
  | KDup => false
  | KExtra => has_kind VK ps
  end.

(* every default-less positional parameter is bound *)
Fixpoint req_pos (pos : list param) (n : nat) (ks : list name) : bool :=
  match pos with
  | [] => true
  | p :: pos' =>
      match n with
      | S n' => req_pos pos' n' ks
      | O => (has_def p || (is_kind PK p && mem (pname p) ks)) && req_pos pos' O ks
      end
  end.

Definition req_kwo (ps : list param) (ks : list name) : bool :=
  forallb (fun p => has_def p || mem (pname p) ks) (kwonly ps).

Definition accepts (ps : list param) (c : call) : bool :=
  (Nat.leb (npos c) (length (positional ps)) || has_kind VP ps)
  && forallb (kw_ok ps (npos c)) (kws c)
  && req_pos (positional ps) (npos c) (kws c)
  && req_kwo ps (kws c).

(* ---- non-colliding calls ---- *)
Definition kwpassable_name (ps : list param) (k : name) : bool :=
  existsb (fun p => is_kwpassable p && N.eqb k (pname p)) ps.

Definition all_names (inputs : list (list param)) : list name :=
  flat_map names_of inputs.

Definition noncolliding (c : call) (r : list param) (inputs : list (list param)) : bool :=
  forallb (fun k => kwpassable_name r k || negb (mem k (all_names inputs))) (kws c).

(* ---- finite family of call shapes (see Proofs/SmallModel.v) ---- *)
Fixpoint sublists (l : list name) : list (list name) :=
  match l with
  | [] => [[]]
  | x :: l' => let r := sublists l' in map (cons x) r ++ r
  end.

Definition shapes (M : nat) (ns : list name) (fresh : name) : list call :=
  flat_map (fun n => map (mkCall n) (sublists (ns ++ [fresh]))) (seq 0 (S (S M))).

Fixpoint dedup (l : list name) : list name :=
  match l with
  | [] => []
  | x :: l' => if mem x l' then dedup l' else x :: dedup l'
  end.

Definition max_pos (sigs : list (list param)) : nat :=
  fold_left Nat.max (map (fun s => length (positional s)) sigs) 0%nat.

Definition fresh_for (ns : list name) : name := N.succ (fold_left N.max ns 0).

Definition shapes_for (sigs : list (list param)) : list call :=
  let ns := dedup (all_names sigs) in
  shapes (max_pos sigs) ns (fresh_for ns).

Fixpoint find_cex (P : call -> bool) (cs : list call) : option call :=
  match cs with
  | [] => None
  | c :: cs' => if P c then find_cex P cs' else Some c
  end.

(* ---- deciders returning a counter-example ---- *)

(* C01: every non-colliding call accepted by r is accepted by all inputs *)
Definition sound_cex (r : list param) (inputs : list (list param)) : option call :=
  find_cex (fun c => negb (noncolliding c r inputs && accepts r c)
                     || forallb (fun s => accepts s c) inputs)
           (shapes_for (r :: inputs)).

(* all-positional or all-keyword calls only *)
Definition sound_pure_cex (r : list param) (inputs : list (list param)) : option call :=
  find_cex (fun c => negb ((Nat.eqb (npos c) 0 || match kws c with [] => true | _ => false end)
                           && accepts r c)
                     || forallb (fun s => accepts s c) inputs)
           (shapes_for (r :: inputs)).

(* C09: r accepts exactly the non-colliding calls all inputs accept *)
Definition exact_cex (r : list param) (inputs : list (list param)) : option call :=
  find_cex (fun c => negb (noncolliding c r inputs)
                     || Bool.eqb (accepts r c) (forallb (fun s => accepts s c) inputs))
           (shapes_for (r :: inputs)).

(* no call accepted by all inputs *)
Definition none_cex (inputs : list (list param)) : option call :=
  find_cex (fun c => negb (forallb (fun s => accepts s c) inputs))
           (shapes_for inputs).

(* ---- forwarding chain: calling outer, which forwards its surplus to inner ---- *)
(* number of positionals outer collects in *args, keywords it collects in **kwargs *)
Definition surplus_pos (o : list param) (c : call) : nat :=
  npos c - length (positional o).
Definition surplus_kws (o : list param) (c : call) : list name :=
  filter (fun k => match kw_class o (npos c) k with KExtra => true | _ => false end) (kws c).

(* inner is called as inner(<n0 literals>, *args?, <names0>=..., **kwargs?) *)
Definition chain (o i : list param) (uva uvk : bool) (n0 : nat) (names0 : list name)
           (c : call) : bool :=
  accepts o c &&
  accepts i (mkCall (n0 + (if uva then surplus_pos o c else 0))
                    (names0 ++ (if uvk then surplus_kws o c else []))).

(* The forwarding chain looks at the surplus of the outer call, so positional
   counts up to |positional o| + |positional i| + 1 matter (found while proving
   completeness: with the per-signature maximum a surplus larger than inner's
   positional count was never tried when the result has few positionals). *)
Definition sum_pos (sigs : list (list param)) : nat :=
  fold_left Nat.add (map (fun s => length (positional s)) sigs) 0%nat.

Definition shapes_chain (sigs : list (list param)) : list call :=
  let ns := dedup (all_names sigs) in
  shapes (sum_pos sigs) ns (fresh_for ns).

(* surplus must exist only in forwarded stars for "calling outer" to be what the
   result describes: when a star is not forwarded, outer keeps it. *)
Definition chain_sound_cex (r o i : list param) (uva uvk : bool) (n0 : nat)
           (names0 : list name) (extra_inputs : list (list param)) : option call :=
  find_cex (fun c => negb (noncolliding c r (o :: i :: extra_inputs) && accepts r c)
                     || chain o i uva uvk n0 names0 c)
           (shapes_chain (r :: o :: i :: extra_inputs)).

Definition chain_exact_cex (r o i : list param) (uva uvk : bool) (n0 : nat)
           (names0 : list name) (extra_inputs : list (list param)) : option call :=
  find_cex (fun c => negb (noncolliding c r (o :: i :: extra_inputs))
                     || Bool.eqb (accepts r c) (chain o i uva uvk n0 names0 c))
           (shapes_chain (r :: o :: i :: extra_inputs)).

Definition chain_none_cex (o i : list param) (uva uvk : bool) (n0 : nat)
           (names0 : list name) : option call :=
  find_cex (fun c => negb (chain o i uva uvk n0 names0 c))
           (shapes_chain [o; i]).

(* C03/C19: r accepts c  <->  s accepts (n + npos c, names ++ kws c), for calls
   whose keywords are disjoint from names (mask) *)
Definition shift_call (n : nat) (names0 : list name) (c : call) : call :=
  mkCall (n + npos c) (names0 ++ kws c).

Definition disjointb (a b : list name) : bool :=
  forallb (fun x => negb (mem x b)) a.

Definition mask_exact_cex (r s : list param) (n : nat) (names0 : list name) : option call :=
  find_cex (fun c => negb (disjointb (kws c) names0 && noncolliding c r [s])
                     || Bool.eqb (accepts r c) (accepts s (shift_call n names0 c)))
           (shapes_for [r; s]).

Definition mask_none_cex (s : list param) (n : nat) (names0 : list name) : option call :=
  find_cex (fun c => negb (disjointb (kws c) names0)
                     || negb (accepts s (shift_call n names0 c)))
           (shapes_for [s]).

(* partial: keywords may be overridden by the call *)
Definition partial_call (n : nat) (names0 : list name) (c : call) : call :=
  mkCall (n + npos c) (filter (fun k => negb (mem k (kws c))) names0 ++ kws c).

Definition partial_exact_cex (r s : list param) (n : nat) (names0 : list name) : option call :=
  find_cex (fun c => negb (noncolliding c r [s])
                     || Bool.eqb (accepts r c) (accepts s (partial_call n names0 c)))
           (shapes_for [r; s]).

Definition incl_cex (a b : list param) : option call :=
  find_cex (fun c => negb (noncolliding c a [b] && accepts a c) || accepts b c)
           (shapes_for [a; b]).

(* C03, hide_* flags: every call the result accepts is accepted by s for some
   choice of the hidden arguments (m positionals when hide_args, a keyword set K
   when hide_kwargs; the named / counted arguments are themselves hidden then) *)
Definition mask_hide_cex (r s : list param) (n : nat) (names0 : list name)
           (ha hk : bool) : option call :=
  let ns := dedup (all_names [r; s]) in
  let fresh2 := N.succ (fresh_for ns) in
  let M := max_pos [r; s] in
  let ms := if ha then seq 0 (S (S M)) else [n] in
  let Ks := if hk then sublists (ns ++ [fresh2]) else [[]] in
  let names1 := if hk then [] else names0 in
  find_cex (fun c =>
              negb (disjointb (kws c) names1 && noncolliding c r [s] && accepts r c)
              || existsb (fun m =>
                   existsb (fun K => disjointb K (kws c)
                                     && accepts s (mkCall (m + npos c) (names1 ++ kws c ++ K)))
                           Ks) ms)
           (shapes_for [r; s]).

(* C19: signature(partial) raises exactly when no call of the partial object
   can succeed *)
Definition partial_none_cex (s : list param) (n : nat) (names0 : list name) : option call :=
  find_cex (fun c => negb (accepts s (partial_call n names0 c)))
           (shapes_for [s]).
