(* C17 - small-step, line-granular model of concurrent signature retrieval.

   Machine W ("window"): threads calling sigtools.signature(w) / inspect.signature(w)
   on ONE shared function object w whose attributes __wrapped__ / __signature__
   are temporarily deleted by cleanup_functools_wrapper
   (sigtools/_autoforwards.py:434-469, autoforwards_function :476-501,
   forged_signature sigtools/_specifiers.py:26-119).

   One transition = one source line of a modelled function (a 'line' trace
   event of CPython whose frame belongs to a modelled function working on the
   shared object).  A thread at pc p is ABOUT TO EXECUTE line p; everything the
   line calls outside the modelled functions (inspect.signature, the AST walk,
   get_introspectable, ...) is part of that one transition.  The harness
   (harness/props/c17.py) parks real threads at exactly these events.

   Trace codes: fid*100 + (line - line of the def), fid: 1 forged_signature
   (def at :26), 2 autoforwards_function (:476), 3 cleanup.__init__ (:437),
   4 cleanup.__enter__ (:440), 5 cleanup.__exit__ (:467), 6 _AsForged.__get__
   (specifiers.py:63), 7 OverrideableDataDesc.__get__ (_util.py:83).

   No proofs in this file. *)
From Coq Require Import List NArith Bool Arith.
Import ListNotations.
Open Scope N_scope.

(* ------------------------------------------------------------------ *)
(** * Machine W: the delete / restore window *)

(* cleanup_functools_wrapper.attrs = ['__wrapped__', '__signature__'], in this order *)
Inductive attr := AW | AS.

Definition attr_eqb (a b : attr) : bool :=
  match a, b with AW, AW => true | AS, AS => true | _, _ => false end.

(* a <= b in the order of the attrs list *)
Definition attr_le (a b : attr) : bool :=
  match a, b with AS, AW => false | _, _ => true end.

Definition attr_next (a : attr) : option attr :=
  match a with AW => Some AS | AS => None end.

(* attribute values are interned as numbers; absent = None *)
Record store := mkStore { st_w : option N; st_s : option N }.

Definition sget (s : store) (a : attr) : option N :=
  match a with AW => st_w s | AS => st_s s end.

Definition sset (s : store) (a : attr) (v : option N) : store :=
  match a with AW => mkStore v (st_s s) | AS => mkStore (st_w s) v end.

Definition empty_store := mkStore None None.

(* What inspect.signature(w) looks at, as ONE atomic read (no line event of a
   modelled function lies inside inspect):  unwrap(stop = has __signature__)
   then obj.__signature__.
     __signature__ present            -> the explicit signature     (VSig)
     only __wrapped__ present         -> the wrapped function's own (VWrapped)
     neither                          -> the wrapper's own          (VRaw) *)
Inductive view := VRaw | VWrapped | VSig.

Definition view_of (s : store) : view :=
  match st_s s, st_w s with
  | Some _, _ => VSig
  | None, Some _ => VWrapped
  | None, None => VRaw
  end.

(* what a retrieval returns:
     APlain v : the plain signature under view v
     AFwd v   : the result of the forwarding analysis (autoforwards_ast) run
                on the plain signature under view v *)
Inductive answer := APlain (v : view) | AFwd (v : view).

(* scenario constants: does the plain signature under view v have *args/**kwargs
   (any_params_star, _autoforwards.py:420-427) *)
Record cfg := mkCfg { star_raw : bool; star_wrapped : bool; star_sig : bool }.

Definition star (c : cfg) (v : view) : bool :=
  match v with VRaw => star_raw c | VWrapped => star_wrapped c | VSig => star_sig c end.

(* thread kinds *)
Inductive kind :=
| KPlain   (* inspect.signature(w) *)
| KSig.    (* sigtools.signature(w) = forged_signature(w) *)

Inductive pc :=
| PStart                       (* parked before the call *)
| PSeg (l : list N) (k : pc)   (* straight-line lines that touch no shared state; head = next line; then k *)
(* constructor names keep the line numbers of the first modelled revision; the
   current absolute lines are in the comments *)
| E444 (oa : option attr)      (* :449  for attr in self.attrs:        (oa = next attr, None = exhausted) *)
| E445 (a : attr)              (* :450  try:                                            *)
| E445b (a : attr)             (* :451  try:                                            *)
| E446 (a : attr)              (* :454  value = vars(self.func)[attr]     (first read)  *)
| E446k (a : attr)             (* :455  except (TypeError, KeyError):                   *)
| E446g (a : attr)             (* :456  value = getattr(self.func, attr)  (second read) *)
| E447 (a : attr)              (* :457  delattr(self.func, attr)                        *)
| E448 (a : attr)              (* :458  except AttributeError:                          *)
| E449 (a : attr)              (* :459  pass                                            *)
| E451 (a : attr)              (* :461  self.saved_attrs[attr] = value                  *)
| A473                         (* :478  try:      (inside the with block, attributes set aside) *)
| A460                         (* :479  sig = _signatures.signature(func)   (atomic read) *)
| A459x                        (* :477  the with line again: calls __exit__             *)
| X454 (oa : option attr)      (* :468  for attr, val in self.saved_attrs.items():  (search from oa) *)
| X455 (a : attr)              (* :469  setattr(self.func, attr, val)                   *)
| A461                         (* :484  if not any_params_star(sig):                    *)
| A466                         (* :499  return autoforwards_ast(func, func_ast, sig, args, kwargs) *)
| F119                         (* _specifiers.py:119  return upgrade(_signatures.signature(obj))  (atomic read) *)
| PDone.

(* straight-line segments (trace codes; absolute lines in comments) *)
(* forged_signature :89 :90 :91 :95 :96 :97 :98 :99 :111 :112 :113, autoforwards_function :472,
   __init__ :438, __enter__ :441 :442 :443 :444 :447 :448 (try: around the loop) *)
Definition seg_pre : list N :=
  [163; 164; 165; 169; 170; 171; 172; 173; 185; 186; 187; 201; 301; 401; 402; 403; 404; 407; 408].
(* :480 raise UnknownForwards ; forged_signature :115 except, :116 pass *)
Definition seg_unknown : list N := [209; 189; 190].
(* :481 func_ast = get_ast(func) ; :482 if func_ast is None ; the per-thread
   self-forwarding guard :486 :487 :488 :489 :487 :490 :492 :493 (threading.local stack) *)
Definition seg_ast : list N := [210; 211; 215; 216; 217; 218; 216; 219; 221; 222].
(* :496 finally: stack.pop() ; forged_signature :112 (the multi-line call expression resumes) ; :118 return *)
Definition seg_ret : list N := [225; 186; 192].

Fixpoint code_of_pc (p : pc) : N :=
  match p with
  | PStart => 0
  | PSeg (c :: _) _ => c
  | PSeg [] k => code_of_pc k
  | E444 _ => 409 | E445 _ => 410 | E445b _ => 411 | E446 _ => 414 | E446k _ => 415
  | E446g _ => 416 | E447 _ => 417 | E448 _ => 418 | E449 _ => 419 | E451 _ => 421
  | A473 => 202 | A460 => 203 | A459x => 201
  | X454 _ => 501 | X455 _ => 502
  | A461 => 208 | A466 => 223 | F119 => 193
  | PDone => 0
  end.

Record thread := mkThread {
  th_kind : kind;
  th_pc : pc;
  th_saved : store;        (* self.saved_attrs *)
  th_val : option N;       (* local `value` of __enter__ *)
  th_sigv : view;          (* local `sig` of autoforwards_function, as the view it was read under *)
  th_ans : option answer;
  th_trace : list N        (* ghost: trace codes of the yield points reached, newest first *)
}.

Definition init_thread (k : kind) : thread :=
  mkThread k PStart empty_store None VRaw None [].

(* first saved item at or after a, in dict (= insertion = attrs) order *)
Definition find_item (sv : store) (a : attr) : option attr :=
  match a with
  | AW => match st_w sv with Some _ => Some AW
                          | None => match st_s sv with Some _ => Some AS | None => None end end
  | AS => match st_s sv with Some _ => Some AS | None => None end
  end.

Definition seg (l : list N) (k : pc) : pc :=
  match l with [] => k | _ => PSeg l k end.

(* one line of one thread.  Returns the new shared store and the new thread
   (without the ghost trace update, added by [step_thread]). *)
Definition exec (c : cfg) (s : store) (th : thread) : option (store * thread) :=
  let upd p := mkThread (th_kind th) p (th_saved th) (th_val th) (th_sigv th) (th_ans th) (th_trace th) in
  match th_pc th with
  | PDone => None
  | PStart =>
      match th_kind th with
      | KPlain =>  (* inspect.signature(w): the whole call is one transition *)
          Some (s, mkThread (th_kind th) PDone (th_saved th) (th_val th) (th_sigv th)
                            (Some (APlain (view_of s))) (th_trace th))
      | KSig => Some (s, upd (seg seg_pre (E444 (Some AW))))
      end
  | PSeg l k => Some (s, upd (seg (tl l) k))
  | E444 None => Some (s, upd A473)                 (* loop exhausted: __enter__ returns, next line is :473 *)
  | A473 => Some (s, upd A460)
  | E444 (Some a) => Some (s, upd (E445 a))
  | E445 a => Some (s, upd (E445b a))
  | E445b a => Some (s, upd (E446 a))
  | E446 a =>
      match sget s a with
      | Some v => Some (s, mkThread (th_kind th) (E447 a) (th_saved th) (Some v) (th_sigv th) (th_ans th) (th_trace th))
      | None => Some (s, upd (E446k a))             (* KeyError: not in the function's __dict__ *)
      end
  | E446k a => Some (s, upd (E446g a))
  | E446g a =>
      match sget s a with
      | Some v => Some (s, mkThread (th_kind th) (E447 a) (th_saved th) (Some v) (th_sigv th) (th_ans th) (th_trace th))
      | None => Some (s, upd (E448 a))              (* AttributeError *)
      end
  | E447 a =>
      match sget s a with
      | Some _ => Some (sset s a None, upd (E451 a))
      | None => Some (s, upd (E448 a))              (* AttributeError: somebody else deleted it *)
      end
  | E448 a => Some (s, upd (E449 a))
  | E449 a => Some (s, upd (E444 (attr_next a)))
  | E451 a =>
      Some (s, mkThread (th_kind th) (E444 (attr_next a)) (sset (th_saved th) a (th_val th))
                        (th_val th) (th_sigv th) (th_ans th) (th_trace th))
  | A460 =>
      Some (s, mkThread (th_kind th) A459x (th_saved th) (th_val th) (view_of s) (th_ans th) (th_trace th))
  | A459x => Some (s, upd (X454 (Some AW)))
  | X454 None => Some (s, upd A461)
  | X454 (Some a) =>
      match find_item (th_saved th) a with
      | Some a' => Some (s, upd (X455 a'))
      | None => Some (s, upd A461)
      end
  | X455 a => Some (sset s a (sget (th_saved th) a), upd (X454 (attr_next a)))
  | A461 =>
      if star c (th_sigv th) then Some (s, upd (seg seg_ast A466))
      else Some (s, upd (seg seg_unknown F119))
  | A466 =>
      Some (s, mkThread (th_kind th) (seg seg_ret PDone) (th_saved th) (th_val th) (th_sigv th)
                        (Some (AFwd (th_sigv th))) (th_trace th))
  | F119 =>
      Some (s, mkThread (th_kind th) PDone (th_saved th) (th_val th) (th_sigv th)
                        (Some (APlain (view_of s))) (th_trace th))
  end.

Definition push_trace (th : thread) : thread :=
  match th_pc th with
  | PDone => th
  | p => mkThread (th_kind th) p (th_saved th) (th_val th) (th_sigv th) (th_ans th)
                  (code_of_pc p :: th_trace th)
  end.

Definition step_thread (c : cfg) (s : store) (th : thread) : option (store * thread) :=
  match exec c s th with
  | Some (s', th') => Some (s', push_trace th')
  | None => None
  end.

Record state := mkState { g_store : store; g_threads : list thread }.

Fixpoint update {A} (l : list A) (i : nat) (x : A) : list A :=
  match l, i with
  | [], _ => []
  | _ :: r, O => x :: r
  | y :: r, S j => y :: update r j x
  end.

(* step st t = None when t is not a thread or has finished *)
Definition step (c : cfg) (st : state) (t : nat) : option state :=
  match nth_error (g_threads st) t with
  | None => None
  | Some th =>
      match step_thread c (g_store st) th with
      | None => None
      | Some (s', th') => Some (mkState s' (update (g_threads st) t th'))
      end
  end.

(* schedules = lists of thread ids; scheduling a finished thread is a no-op *)
Fixpoint run (c : cfg) (st : state) (sched : list nat) : state :=
  match sched with
  | [] => st
  | t :: r => match step c st t with Some st' => run c st' r | None => run c st r end
  end.

Definition init_state (init : store) (kinds : list kind) : state :=
  mkState init (map init_thread kinds).

Definition is_done (th : thread) : bool :=
  match th_pc th with PDone => true | _ => false end.

Definition all_done (st : state) : bool := forallb is_done (g_threads st).

(* the sequential answer: what the call returns when it runs alone from [init] *)
Definition seq_answer (c : cfg) (init : store) (k : kind) : answer :=
  match k with
  | KPlain => APlain (view_of init)
  | KSig => if star c VRaw then AFwd VRaw else APlain (view_of init)
  end.

Definition answer_eqb (x y : answer) : bool :=
  match x, y with
  | APlain VRaw, APlain VRaw | APlain VWrapped, APlain VWrapped | APlain VSig, APlain VSig
  | AFwd VRaw, AFwd VRaw | AFwd VWrapped, AFwd VWrapped | AFwd VSig, AFwd VSig => true
  | _, _ => false
  end.

Definition thread_seq_ok (c : cfg) (init : store) (th : thread) : bool :=
  match th_ans th with
  | Some x => answer_eqb x (seq_answer c init (th_kind th))
  | None => false
  end.

Definition optN_eqb (x y : option N) : bool :=
  match x, y with
  | Some a, Some b => N.eqb a b
  | None, None => true
  | _, _ => false
  end.

Definition store_eqb (x y : store) : bool :=
  optN_eqb (st_w x) (st_w y) && optN_eqb (st_s x) (st_s y).

(* ------------------------------------------------------------------ *)
(** * Windows, and the delimiting hypothesis "windows do not overlap" *)

(* between the first iteration of __enter__'s loop and the end of __exit__'s loop *)
Definition in_window (p : pc) : bool :=
  match p with
  | E444 _ | E445 _ | E445b _ | E446 _ | E446k _ | E446g _ | E447 _ | E448 _ | E449 _ | E451 _
  | A473 | A460 | A459x | X454 _ | X455 _ => true
  | _ => false
  end.

(* the lines whose effect depends on / changes the shared attributes, plus the
   line that enters the window *)
Definition sensitive (th : thread) : bool :=
  in_window (th_pc th)
  || match th_pc th with
     | PSeg (_ :: _ :: _) _ => false
     | PSeg _ k => in_window k           (* the last line of a segment that leads into the window *)
     | F119 => true
     | PStart => match th_kind th with KPlain => true | KSig => false end
     | _ => false
     end.

Fixpoint others_outside (l : list thread) (t : nat) : bool :=
  match l with
  | [] => true
  | th :: r =>
      match t with
      | O => forallb (fun u => negb (in_window (th_pc u))) r
      | S j => negb (in_window (th_pc th)) && others_outside r j
      end
  end.

(* thread t may take its next step without overlapping another thread's window *)
Definition step_excl (st : state) (t : nat) : bool :=
  match nth_error (g_threads st) t with
  | None => true
  | Some th => if sensitive th then others_outside (g_threads st) t else true
  end.

(* the whole schedule keeps windows (and plain reads) disjoint *)
Fixpoint exclusive (c : cfg) (st : state) (sched : list nat) : bool :=
  match sched with
  | [] => true
  | t :: r =>
      match step c st t with
      | Some st' => step_excl st t && exclusive c st' r
      | None => exclusive c st r
      end
  end.

(* ------------------------------------------------------------------ *)
(** * Plans: schedules with a bounded number of preemptions *)

(* a segment (t, Some n): run t for exactly n steps, then preempt it (it must
   not have finished); (t, None): run t to completion *)
Definition plan := list (nat * option nat).

Fixpoint run_n (c : cfg) (st : state) (t : nat) (n : nat) : option state :=
  match n with
  | O => Some st
  | S m => match step c st t with Some st' => run_n c st' t m | None => None end
  end.

Fixpoint run_done (fuel : nat) (c : cfg) (st : state) (t : nat) : state :=
  match fuel with
  | O => st
  | S f => match step c st t with Some st' => run_done f c st' t | None => st end
  end.

Definition thread_done (st : state) (t : nat) : bool :=
  match nth_error (g_threads st) t with Some th => is_done th | None => true end.

Definition FUEL : nat := 200.

(* None = invalid plan (names a finished thread / preempts a thread at or after its end) *)
Fixpoint run_plan (c : cfg) (st : state) (p : plan) : option state :=
  match p with
  | [] => if all_done st then Some st else None
  | (t, None) :: r =>
      if thread_done st t then None else run_plan c (run_done FUEL c st t) r
  | (t, Some n) :: r =>
      match run_n c st t n with
      | Some st' => if thread_done st' t then None else run_plan c st' r
      | None => None
      end
  end.

(* the same plan as a flat schedule (used to relate plans to [run]/[exclusive]) *)
Fixpoint sched_of_plan (c : cfg) (st : state) (p : plan) : list nat :=
  match p with
  | [] => []
  | (t, None) :: r => repeat t FUEL ++ sched_of_plan c (run_done FUEL c st t) r
  | (t, Some n) :: r =>
      repeat t n ++ match run_n c st t n with
                    | Some st' => sched_of_plan c st' r
                    | None => []
                    end
  end.

(* exclusivity along a plan *)
Fixpoint excl_n (c : cfg) (st : state) (t : nat) (n : nat) : bool :=
  match n with
  | O => true
  | S m => match step c st t with
           | Some st' => step_excl st t && excl_n c st' t m
           | None => true
           end
  end.

Fixpoint plan_excl (c : cfg) (st : state) (p : plan) : bool :=
  match p with
  | [] => true
  | (t, None) :: r => excl_n c st t FUEL && plan_excl c (run_done FUEL c st t) r
  | (t, Some n) :: r =>
      excl_n c st t n && match run_n c st t n with
                         | Some st' => plan_excl c st' r
                         | None => true
                         end
  end.

(* all plans over threads [alive] with at most [budget] preemptions, every
   preempted segment of length 1..K.  [last] = thread of the previous segment
   if that segment was preempted (the next segment must be another thread). *)
Fixpoint remove_nat (x : nat) (l : list nat) : list nat :=
  match l with
  | [] => []
  | y :: r => if Nat.eqb x y then r else y :: remove_nat x r
  end.

Fixpoint plans (fuel : nat) (K : nat) (alive : list nat) (last : option nat) (budget : nat) : list plan :=
  match fuel with
  | O => []
  | S f =>
      match alive with
      | [] => [[]]
      | _ =>
          flat_map (fun t =>
            if match last with Some u => Nat.eqb u t | None => false end then []
            else
              map (fun r => (t, None) :: r) (plans f K (remove_nat t alive) None budget)
              ++ match budget with
                 | O => []
                 | S b =>
                     match alive with
                     | _ :: _ :: _ =>
                         flat_map (fun n => map (fun r => (t, Some n) :: r) (plans f K alive (Some t) b))
                                  (seq 1 K)
                     | _ => []
                     end
                 end) alive
      end
  end.

(* the first segment, then the rest: all_plans is one unfolding of [plans], kept
   as a flat_map over first segments so that bounded checks can run shard by
   shard (nested forallb) without building the whole list *)
Definition first_segments (K : nat) (alive : list nat) (budget : nat) : list (nat * option nat) :=
  flat_map (fun t =>
    (t, None) :: match budget, alive with
                 | S _, _ :: _ :: _ => map (fun n => (t, Some n)) (seq 1 K)
                 | _, _ => []
                 end) alive.

Definition rest_plans (fuel K : nat) (alive : list nat) (budget : nat) (first : nat * option nat) : list plan :=
  match first with
  | (t, None) => plans fuel K (remove_nat t alive) None budget
  | (t, Some _) => plans fuel K alive (Some t) (pred budget)
  end.

Definition plan_fuel (nthreads budget : nat) : nat := 2 * nthreads + budget + 1.

Definition all_plans (K nthreads budget : nat) : list plan :=
  flat_map (fun first =>
              map (fun r => first :: r)
                  (rest_plans (plan_fuel nthreads budget) K (seq 0 nthreads) budget first))
           (first_segments K (seq 0 nthreads) budget).

(* forallb over all_plans, shard by shard *)
Definition forall_plans (K nthreads budget : nat) (f : plan -> bool) : bool :=
  forallb (fun first =>
             forallb (fun r => f (first :: r))
                     (rest_plans (plan_fuel nthreads budget) K (seq 0 nthreads) budget first))
          (first_segments K (seq 0 nthreads) budget).

Definition count_plans (K nthreads budget : nat) (f : plan -> bool) : N :=
  fold_left (fun acc first =>
               fold_left (fun acc2 r => if f (first :: r) then N.succ acc2 else acc2)
                         (rest_plans (plan_fuel nthreads budget) K (seq 0 nthreads) budget first) acc)
            (first_segments K (seq 0 nthreads) budget) 0.

(* per-plan verdicts used by the bounded theorems and by the harness *)
Definition answers_ok (c : cfg) (init : store) (st : state) : bool :=
  forallb (thread_seq_ok c init) (g_threads st).

Definition is_plain_answer (th : thread) : bool :=
  match th_ans th with Some (APlain _) => true | _ => false end.

(* canonical numbers for the harness: 0 none, 1..3 APlain Raw/Wrapped/Sig, 4..6 AFwd ... *)
Definition view_num (v : view) : N := match v with VRaw => 1 | VWrapped => 2 | VSig => 3 end.
Definition answer_num (a : option answer) : N :=
  match a with None => 0 | Some (APlain v) => view_num v | Some (AFwd v) => 3 + view_num v end.

(* observable outcome of a plan: per thread (answer, trace oldest first), final store *)
Definition outcome (st : state) : list (N * list N) * store :=
  (map (fun th => (answer_num (th_ans th), rev (th_trace th))) (g_threads st), g_store st).

Fixpoint listN_eqb (x y : list N) : bool :=
  match x, y with
  | [], [] => true
  | a :: r, b :: q => N.eqb a b && listN_eqb r q
  | _, _ => false
  end.

Fixpoint obs_eqb (x y : list (N * list N)) : bool :=
  match x, y with
  | [], [] => true
  | (a, l) :: r, (b, m) :: q => N.eqb a b && listN_eqb l m && obs_eqb r q
  | _, _ => false
  end.

(* correspondence case: the implementation's observation of a plan (None = the
   scheduler found the plan invalid) against the model's *)
Definition case_agrees (c : cfg) (init : store) (ks : list kind) (p : plan)
           (impl : option (list (N * list N) * store * bool)) : bool :=
  match run_plan c (init_state init ks) p, impl with
  | None, None => true
  | Some st, Some (o, s, ex) =>
      obs_eqb (fst (outcome st)) o && store_eqb (g_store st) s
      && Bool.eqb (plan_excl c (init_state init ks) p) ex
  | _, _ => false
  end.

Fixpoint disagreeing {A} (f : A -> bool) (l : list A) (i : N) : list N :=
  match l with
  | [] => []
  | x :: r => if f x then disagreeing f r (N.succ i) else i :: disagreeing f r (N.succ i)
  end.

(* ------------------------------------------------------------------ *)
(** * Machine G: the recursion guard of as_forged
    (sigtools/specifiers.py:59-72, _AsForged.__get__; one shared object o whose
    class has __signature__ = as_forged; every thread calls inspect.signature(o)).

    Shared: whether o is in as_forged.currently_computing (a set: add is
    idempotent, discard removes it for everybody).
    Modelled region: the outer __get__ and the nested __get__ that
    get_introspectable triggers and that the guard is meant to stop.  If the
    nested check finds the guard gone (another thread discarded it) the real
    code recurses deeper (through cleanup_functools_wrapper on o, ...): the
    model does not follow it and reports GOut; such plans are outside the
    modelled region (the harness still judges them on the real answers). *)
Inductive gpc :=
| GStart
| G64      (* :64  obj = owner if instance is None else instance   (outer __get__) *)
| G65      (* :65  if obj in self.currently_computing:                        *)
| G66      (* :66  raise AttributeError  -> inspect falls back to type(o).__call__ *)
| G67      (* :67  try:                                                        *)
| G68      (* :68  self.currently_computing.add(obj)                           *)
| G69      (* :69  sig = signature(obj)      -> forged_signature(o)             *)
| GF89     (* _specifiers.py:89  get_introspectable(obj): obj.__signature__ -> nested __get__ *)
| N64 | N65 | N66            (* the nested __get__: :64 :65 :66                 *)
| GSeg (l : list N)          (* forged_signature :90 :91 :92 :93 :94 (forger found on o.__call__) *)
| G71      (* :71  finally: self.currently_computing.discard(obj)              *)
| G72      (* :72  return sig                                                   *)
| GOut     (* left the modelled region *)
| GDone.

Definition gseg_forger : list N := [164; 165; 166; 167; 168].

Definition gcode (p : gpc) : N :=
  match p with
  | GStart => 0 | G64 => 601 | G65 => 602 | G66 => 603 | G67 => 604 | G68 => 605 | G69 => 606
  | GF89 => 163 | N64 => 601 | N65 => 602 | N66 => 603
  | GSeg (x :: _) => x | GSeg [] => 0
  | G71 => 608 | G72 => 609 | GOut => 0 | GDone => 0
  end.

(* answers: 1 = the forged signature, 2 = the signature of type(o).__call__ (guard hit) *)
Record gthread := mkG { g_pc : gpc; g_ans : N; g_trace : list N }.
Record gstate := mkGS { gs_guard : bool; gs_threads : list gthread }.

Definition gexec (guard : bool) (th : gthread) : option (bool * gpc * N) :=
  match g_pc th with
  | GStart => Some (guard, G64, 0%N)
  | G64 => Some (guard, G65, 0%N)
  | G65 => Some (guard, if guard then G66 else G67, 0%N)
  | G66 => Some (guard, GDone, 2%N)
  | G67 => Some (guard, G68, 0%N)
  | G68 => Some (true, G69, 0%N)
  | G69 => Some (guard, GF89, 0%N)
  | GF89 => Some (guard, N64, 0%N)
  | N64 => Some (guard, N65, 0%N)
  | N65 => Some (guard, if guard then N66 else GOut, 0%N)
  | N66 => Some (guard, GSeg gseg_forger, 0%N)
  | GSeg (_ :: (_ :: _) as r) => Some (guard, GSeg r, 0%N)
  | GSeg _ => Some (guard, G71, 0%N)
  | G71 => Some (false, G72, 0%N)
  | G72 => Some (guard, GDone, 1%N)
  | GOut => None
  | GDone => None
  end.

Definition gstep (st : gstate) (t : nat) : option gstate :=
  match nth_error (gs_threads st) t with
  | None => None
  | Some th =>
      match gexec (gs_guard st) th with
      | None => None
      | Some (g', p', a) =>
          let tr := match p' with GDone | GOut => g_trace th | _ => gcode p' :: g_trace th end in
          Some (mkGS g' (update (gs_threads st) t
                                (mkG p' (match a with 0%N => g_ans th | _ => a end) tr)))
      end
  end.

Fixpoint grun (st : gstate) (sched : list nat) : gstate :=
  match sched with
  | [] => st
  | t :: r => match gstep st t with Some st' => grun st' r | None => grun st r end
  end.

Definition ginit (n : nat) : gstate := mkGS false (repeat (mkG GStart 0%N []) n).

Definition g_is_done (th : gthread) : bool := match g_pc th with GDone => true | _ => false end.
Definition g_is_out (th : gthread) : bool := match g_pc th with GOut => true | _ => false end.
Definition g_all_done (st : gstate) : bool := forallb g_is_done (gs_threads st).
Definition g_any_out (st : gstate) : bool := existsb g_is_out (gs_threads st).

Fixpoint grun_n (st : gstate) (t n : nat) : option gstate :=
  match n with
  | O => Some st
  | S m => match gstep st t with Some st' => grun_n st' t m | None => None end
  end.

Fixpoint grun_done (fuel : nat) (st : gstate) (t : nat) : gstate :=
  match fuel with
  | O => st
  | S f => match gstep st t with Some st' => grun_done f st' t | None => st end
  end.

Definition g_thread_stopped (st : gstate) (t : nat) : bool :=
  match nth_error (gs_threads st) t with
  | Some th => g_is_done th || g_is_out th
  | None => true
  end.

(* result of a plan: None = invalid plan; Some (out, st): out = some thread left the region *)
Fixpoint grun_plan (st : gstate) (p : plan) : option gstate :=
  if g_any_out st then Some st else
  match p with
  | [] => if g_all_done st then Some st else None
  | (t, None) :: r => if g_thread_stopped st t then None else grun_plan (grun_done FUEL st t) r
  | (t, Some n) :: r =>
      match grun_n st t n with
      | Some st' => if g_any_out st' then Some st'
                    else if g_thread_stopped st' t then None else grun_plan st' r
      | None => None
      end
  end.

Definition goutcome (st : gstate) : list (N * list N) :=
  map (fun th => (g_ans th, rev (g_trace th))) (gs_threads st).

(* impl = None: invalid plan; model out of region: agrees with anything *)
Definition gcase_agrees (n : nat) (p : plan) (impl : option (list (N * list N))) : bool :=
  match grun_plan (ginit n) p, impl with
  | None, None => true
  | Some st, Some o => g_any_out st || obs_eqb (goutcome st) o
  | Some st, None => g_any_out st
  | None, Some _ => false
  end.

Definition g_answers_ok (st : gstate) : bool :=
  forallb (fun th => N.eqb (g_ans th) 1) (gs_threads st).
