(* A tiny imperative IR for the control-flow skeletons of signature retrieval
   (sigtools/_autoforwards.py: cleanup_functools_wrapper, autoforwards_function;
    sigtools/specifiers.py: _AsForged.__get__).

   Terms of this IR are NOT written by hand: harness/translate_ir.py regenerates
   them from the Python source on every run (Gen/GenRetrieval.v).  This file is
   the meaning of the IR: a big-step interpreter with explicit fuel over an
   abstract object store, with an oracle that decides the outcome of every call
   that leaves sigtools and of every attribute getter of the inspected object.

   No proofs in this file. *)
From Coq Require Import List NArith Bool Arith.
Import ListNotations.
Local Open Scope N_scope.

(* ------------------------------------------------------------------ names *)
(* well-known interned names; the translator emits these symbols, everything
   else is interned as a numeral >= 100 *)
Definition A_wrapped : N := 1.          (* '__wrapped__' *)
Definition A_signature : N := 2.        (* '__signature__' *)

Definition X_AttributeError : N := 1.   (* exception classes *)
Definition X_Other : N := 2.            (* the injected non-AttributeError class *)
Definition X_NotImplementedError : N := 3.
Definition X_UnknownForwards : N := 4.
Definition X_TypeError : N := 5.        (* dynamic type error of the IR itself: never expected *)
Definition X_BaseException : N := 6.    (* as a handler class: catches everything *)
Definition X_Exception : N := 7.        (* as a handler class: catches everything of the fault model *)
Definition X_KeyError : N := 8.         (* vars(o)[a] when a is not in o's own __dict__ *)

Definition EXC_VAR : N := 0.            (* pseudo local: the exception being handled (for a bare `raise`) *)

Definition C_user : N := 1.             (* class of the inspected object *)
Definition C_cleanup : N := 10.         (* cleanup_functools_wrapper *)
Definition C_asforged : N := 11.        (* _AsForged *)

Definition M_init : N := 1.
Definition M_enter : N := 2.
Definition M_exit : N := 3.
Definition M_get : N := 4.

(* ------------------------------------------------------------------ values *)
Inductive sval :=
| VNone | VBool (b : bool) | VStr (s : N) | VOpq (n : N) | VObj (o : N)
| VDesc (d c : N).   (* a descriptor object d stored in the own __dict__ of a CLASS: reading the
                        attribute through getattr yields the computed value c, vars(o)[a] yields d itself *)

Inductive value :=
| VS (s : sval)
| VList (l : list sval)
| VDict (d : list (sval * sval))      (* insertion ordered *)
| VSet (l : list sval).

Definition sval_eqb (a b : sval) : bool :=
  match a, b with
  | VNone, VNone => true
  | VBool x, VBool y => Bool.eqb x y
  | VStr x, VStr y => N.eqb x y
  | VOpq x, VOpq y => N.eqb x y
  | VObj x, VObj y => N.eqb x y
  | VDesc d1 c1, VDesc d2 c2 => N.eqb d1 d2 && N.eqb c1 c2
  | _, _ => false
  end.

Fixpoint svals_eqb (a b : list sval) : bool :=
  match a, b with
  | [], [] => true
  | x :: a', y :: b' => sval_eqb x y && svals_eqb a' b'
  | _, _ => false
  end.

Fixpoint spairs_eqb (a b : list (sval * sval)) : bool :=
  match a, b with
  | [], [] => true
  | (k1, v1) :: a', (k2, v2) :: b' => sval_eqb k1 k2 && sval_eqb v1 v2 && spairs_eqb a' b'
  | _, _ => false
  end.

Definition value_eqb (a b : value) : bool :=
  match a, b with
  | VS x, VS y => sval_eqb x y
  | VList x, VList y => svals_eqb x y
  | VDict x, VDict y => spairs_eqb x y
  | VSet x, VSet y => svals_eqb x y
  | _, _ => false
  end.

Definition truthy (v : value) : bool :=
  match v with
  | VS VNone => false
  | VS (VBool b) => b
  | VS _ => true
  | VList l => negb (Nat.eqb (length l) 0)
  | VDict d => negb (Nat.eqb (length d) 0)
  | VSet l => negb (Nat.eqb (length l) 0)
  end.

(* ------------------------------------------------------------------ syntax *)
Inductive expr :=
| EConst (v : value)
| EVar (x : N)
| EAttr (e : expr) (a : N)              (* e.a *)
| EGetAttr (e : expr) (a : expr)        (* getattr(e, a) *)
| ENewDict                              (* {} *)
| ENewSet                               (* set() *)
| ENew (cls : N) (args : list expr)     (* instantiate a translated class: runs its __init__ *)
| ECallExt (f : N) (args : list expr)   (* a call that leaves the translated code: oracle *)
| EIn (e s : expr)                      (* e in s   (s a set value) *)
| ENot (e : expr)
| EIsNone (e : expr)                    (* e is None *)
| EIfExp (c a b : expr)                 (* a if c else b *)
| ECallMethod (e : expr) (m : N) (args : list expr)    (* e.m(args), m a translated method of e's class *)
| EVarsItem (e : expr) (a : expr).      (* vars(e)[a]: the attribute as stored in e's own __dict__ *)

Inductive stmt :=
| SSkip
| SSeq (a b : stmt)
| SExpr (e : expr)
| SAssign (x : N) (e : expr)
| SSetAttr (o : expr) (a : N) (v : expr)          (* o.a = v *)
| SSetAttrDyn (o : expr) (a : expr) (v : expr)    (* setattr(o, a, v) *)
| SDelAttrDyn (o : expr) (a : expr)               (* delattr(o, a) *)
| SSetItem (o : expr) (a : N) (k v : expr)        (* o.a[k] = v *)
| SSetAdd (o : expr) (a : N) (v : expr)           (* o.a.add(v) *)
| SSetDiscard (o : expr) (a : N) (v : expr)       (* o.a.discard(v) *)
| SIf (c : expr) (t e : stmt)
| SFor (x : N) (it : expr) (body : stmt)          (* for x in <list value>: body *)
| SForItems (k v : N) (it : expr) (body : stmt)   (* for k, v in <dict value>.items(): body *)
| STry (body : stmt) (handlers : list (list N * stmt)) (orelse : stmt) (final : stmt)
| SWith (mgr : expr) (body : stmt)
| SRaise (cls : N)
| SReraise                                        (* bare `raise` inside a handler *)
| SReturn (e : expr).

(* translated methods and class-level constants *)
Record program := {
  methods : list ((N * N) * (list N * stmt));   (* (class, method) -> (parameters, body) *)
  cattrs : list (N * list (N * value))          (* class -> class-level attributes *)
}.

(* ------------------------------------------------------------------ store *)
Record obj := { ocls : N; oinst : list (N * value); oclass : list (N * value) }.

Fixpoint alist_get {A} (k : N) (l : list (N * A)) : option A :=
  match l with
  | [] => None
  | (k', v) :: l' => if N.eqb k k' then Some v else alist_get k l'
  end.

Fixpoint alist_del {A} (k : N) (l : list (N * A)) : list (N * A) :=
  match l with
  | [] => []
  | (k', v) :: l' => if N.eqb k k' then alist_del k l' else (k', v) :: alist_del k l'
  end.

(* Python dict store: overwrite in place, else append *)
Fixpoint alist_set {A} (k : N) (v : A) (l : list (N * A)) : list (N * A) :=
  match l with
  | [] => [(k, v)]
  | (k', v') :: l' => if N.eqb k k' then (k, v) :: l' else (k', v') :: alist_set k v l'
  end.

Fixpoint sdict_set (k v : sval) (l : list (sval * sval)) : list (sval * sval) :=
  match l with
  | [] => [(k, v)]
  | (k', v') :: l' => if sval_eqb k k' then (k, v) :: l' else (k', v') :: sdict_set k v l'
  end.

Definition sset_mem (x : sval) (l : list sval) : bool := existsb (sval_eqb x) l.
Definition sset_add (x : sval) (l : list sval) : list sval := if sset_mem x l then l else l ++ [x].
Definition sset_discard (x : sval) (l : list sval) : list sval := filter (fun y => negb (sval_eqb x y)) l.

(* what the k-th call that leaves sigtools does before it returns or raises *)
Inductive callback :=
| CBNone
| CBMethod (cls meth : N) (args : list value).   (* re-enters translated code (descriptor protocol) *)

Inductive crash :=
| NoCrash
| CallCrash (k : nat) (e : N)     (* the k-th external call raises exception class e *)
| GetCrash (k : nat) (e : N).     (* the k-th attribute read on an object of class C_user raises e *)

Record oracle := {
  ocrash : crash;
  orets : list bool;          (* k-th external call returns a true value (opaque) / None; default true *)
  ocbs : list callback        (* k-th external call first performs this callback; default none *)
}.

Record state := {
  heap : list (N * obj);
  nextid : N;
  ncalls : nat;               (* external calls executed so far *)
  ngets : nat                 (* attribute reads on user objects so far *)
}.

Definition set_heap (st : state) (h : list (N * obj)) : state :=
  {| heap := h; nextid := nextid st; ncalls := ncalls st; ngets := ngets st |}.

Definition upd_obj (st : state) (o : N) (ob : obj) : state := set_heap st (alist_set o ob (heap st)).

Inductive outcome :=
| ONorm
| ORet (v : value)
| ORaise (e : N)
| OStuck (why : N).        (* 0 = out of fuel; otherwise an ill-formed term (never expected) *)

Inductive eres :=
| EV (v : value)
| EX (e : N)
| ESt (why : N).

Definition env := list (N * value).

(* getattr: instance dictionary first, then the class; else AttributeError *)
Definition obj_getattr (ob : obj) (a : N) : option value :=
  match alist_get a (oinst ob) with
  | Some (VS (VDesc _ c)) => Some (VS (VOpq c))     (* descriptor protocol: the computed value *)
  | Some v => Some v
  | None => alist_get a (oclass ob)
  end.

(* vars(o)[a]: own dictionary only, no descriptor protocol; KeyError when absent *)
Definition do_varsitem (st : state) (o a : N) : eres :=
  match alist_get o (heap st) with
  | None => ESt 2
  | Some ob => match alist_get a (oinst ob) with Some v => EV v | None => EX X_KeyError end
  end.

Definition crash_get (orc : oracle) (k : nat) : option N :=
  match ocrash orc with GetCrash k' e => if Nat.eqb k k' then Some e else None | _ => None end.

Definition crash_call (orc : oracle) (k : nat) : option N :=
  match ocrash orc with CallCrash k' e => if Nat.eqb k k' then Some e else None | _ => None end.

Definition do_getattr (orc : oracle) (st : state) (o a : N) : eres * state :=
  match alist_get o (heap st) with
  | None => (ESt 2, st)
  | Some ob =>
    if N.eqb (ocls ob) C_user then
      let st' := {| heap := heap st; nextid := nextid st; ncalls := ncalls st; ngets := S (ngets st) |} in
      match crash_get orc (ngets st) with
      | Some e => (EX e, st')
      | None => match obj_getattr ob a with Some v => (EV v, st') | None => (EX X_AttributeError, st') end
      end
    else
      match obj_getattr ob a with Some v => (EV v, st) | None => (EX X_AttributeError, st) end
  end.

Definition do_setattr (st : state) (o a : N) (v : value) : outcome * state :=
  match alist_get o (heap st) with
  | None => (OStuck 2, st)
  | Some ob => (ONorm, upd_obj st o {| ocls := ocls ob; oinst := alist_set a v (oinst ob); oclass := oclass ob |})
  end.

(* delattr: only instance attributes can be deleted; a class-level attribute
   makes getattr succeed and delattr raise AttributeError *)
Definition do_delattr (st : state) (o a : N) : outcome * state :=
  match alist_get o (heap st) with
  | None => (OStuck 2, st)
  | Some ob =>
    match alist_get a (oinst ob) with
    | Some _ => (ONorm, upd_obj st o {| ocls := ocls ob; oinst := alist_del a (oinst ob); oclass := oclass ob |})
    | None => (ORaise X_AttributeError, st)
    end
  end.

Fixpoint bind_params (ps : list N) (vs : list value) : env :=
  match ps, vs with
  | p :: ps', v :: vs' => (p, v) :: bind_params ps' vs'
  | _, _ => []
  end.

Fixpoint find_handler (e : N) (hs : list (list N * stmt)) : option stmt :=
  match hs with
  | [] => None
  | (cs, h) :: hs' =>
    if existsb (fun c => N.eqb e c || N.eqb c X_BaseException || N.eqb c X_Exception) cs
    then Some h else find_handler e hs'
  end.

(* entering a handler binds the exception being handled; leaving it restores
   the enclosing handler's one (Python's exception context) *)
Definition restore_exc (old : option value) (en : env) : env :=
  match old with Some v => alist_set EXC_VAR v en | None => alist_del EXC_VAR en end.

Definition lookup_method (p : program) (c m : N) : option (list N * stmt) :=
  (fix go (l : list ((N * N) * (list N * stmt))) :=
     match l with
     | [] => None
     | ((c', m'), d) :: l' => if N.eqb c c' && N.eqb m m' then Some d else go l'
     end) (methods p).

Definition class_attrs (p : program) (c : N) : list (N * value) :=
  match alist_get c (cattrs p) with Some l => l | None => [] end.

Definition as_obj (v : value) : option N := match v with VS (VObj o) => Some o | _ => None end.
Definition as_str (v : value) : option N := match v with VS (VStr s) => Some s | _ => None end.
Definition as_sval (v : value) : option sval := match v with VS s => Some s | _ => None end.

Section Interp.
Variable p : program.
Variable orc : oracle.

(* one fuel for everything; all functions decrease on it *)
Fixpoint eval (fuel : nat) (e : expr) (en : env) (st : state) {struct fuel} : eres * state :=
  match fuel with
  | O => (ESt 0, st)
  | S f =>
    match e with
    | EConst v => (EV v, st)
    | EVar x => match alist_get x en with Some v => (EV v, st) | None => (ESt 3, st) end
    | EAttr e1 a =>
      match eval f e1 en st with
      | (EV v, st1) => match as_obj v with Some o => do_getattr orc st1 o a | None => (ESt 4, st1) end
      | r => r
      end
    | EGetAttr e1 ea =>
      match eval f e1 en st with
      | (EV v, st1) =>
        match eval f ea en st1 with
        | (EV va, st2) =>
          match as_obj v, as_str va with
          | Some o, Some a => do_getattr orc st2 o a
          | _, _ => (ESt 4, st2)
          end
        | r => r
        end
      | r => r
      end
    | ENewDict => (EV (VDict []), st)
    | ENewSet => (EV (VSet []), st)
    | ENew c args =>
      match eval_args f args en st with
      | (inl vs, st1) =>
        let o := nextid st1 in
        let st2 := {| heap := alist_set o {| ocls := c; oinst := []; oclass := class_attrs p c |} (heap st1);
                      nextid := N.succ o; ncalls := ncalls st1; ngets := ngets st1 |} in
        match lookup_method p c M_init with
        | None => (EV (VS (VObj o)), st2)
        | Some _ =>
          match call_method f c M_init (VS (VObj o) :: vs) st2 with
          | (EV _, st3) => (EV (VS (VObj o)), st3)
          | r => r
          end
        end
      | (inr r, st1) => (r, st1)
      end
    | ECallExt _ args =>
      match eval_args f args en st with
      | (inl _, st1) =>
        let k := ncalls st1 in
        let st2 := {| heap := heap st1; nextid := nextid st1; ncalls := S k; ngets := ngets st1 |} in
        (* the outside code may first call back into translated code; it
           swallows AttributeError (getattr with a default / hasattr) and
           propagates everything else *)
        let after_cb :=
          match nth k (ocbs orc) CBNone with
          | CBNone => (None, st2)
          | CBMethod c m vs =>
            match call_method f c m vs st2 with
            | (EV _, st3) => (None, st3)
            | (EX e, st3) => if N.eqb e X_AttributeError then (None, st3) else (Some (EX e), st3)
            | (ESt w, st3) => (Some (ESt w), st3)
            end
          end in
        match after_cb with
        | (Some r, st3) => (r, st3)
        | (None, st3) =>
          match crash_call orc k with
          | Some e => (EX e, st3)
          | None => (EV (VS (if nth k (orets orc) true then VOpq (1000 + N.of_nat k) else VNone)), st3)
          end
        end
      | (inr r, st1) => (r, st1)
      end
    | EIn e1 es =>
      match eval f e1 en st with
      | (EV v, st1) =>
        match eval f es en st1 with
        | (EV (VSet l), st2) =>
          match as_sval v with Some x => (EV (VS (VBool (sset_mem x l))), st2) | None => (ESt 4, st2) end
        | (EV _, st2) => (ESt 4, st2)
        | r => r
        end
      | r => r
      end
    | ENot e1 =>
      match eval f e1 en st with
      | (EV v, st1) => (EV (VS (VBool (negb (truthy v)))), st1)
      | r => r
      end
    | EIsNone e1 =>
      match eval f e1 en st with
      | (EV v, st1) => (EV (VS (VBool (value_eqb v (VS VNone)))), st1)
      | r => r
      end
    | EIfExp c a b =>
      match eval f c en st with
      | (EV v, st1) => if truthy v then eval f a en st1 else eval f b en st1
      | r => r
      end
    | EVarsItem e1 ea =>
      match eval f e1 en st with
      | (EV v, st1) =>
        match eval f ea en st1 with
        | (EV va, st2) =>
          match as_obj v, as_str va with
          | Some o, Some a => (do_varsitem st2 o a, st2)
          | _, _ => (ESt 4, st2)
          end
        | r => r
        end
      | r => r
      end
    | ECallMethod e1 m args =>
      match eval f e1 en st with
      | (EV vo, st1) =>
        match eval_args f args en st1 with
        | (inl vs, st2) =>
          match as_obj vo with
          | Some o =>
            match alist_get o (heap st2) with
            | Some ob => call_method f (ocls ob) m (vo :: vs) st2
            | None => (ESt 2, st2)
            end
          | None => (ESt 4, st2)
          end
        | (inr r, st2) => (r, st2)
        end
      | r => r
      end
    end
  end

with eval_args (fuel : nat) (es : list expr) (en : env) (st : state) {struct fuel}
  : (list value + eres) * state :=
  match fuel with
  | O => (inr (ESt 0), st)
  | S f =>
    match es with
    | [] => (inl [], st)
    | e :: es' =>
      match eval f e en st with
      | (EV v, st1) =>
        match eval_args f es' en st1 with
        | (inl vs, st2) => (inl (v :: vs), st2)
        | r => r
        end
      | (r, st1) => (inr r, st1)
      end
    end
  end

(* call of a translated method: fresh frame; a body that falls off the end returns None *)
with call_method (fuel : nat) (c m : N) (vs : list value) (st : state) {struct fuel} : eres * state :=
  match fuel with
  | O => (ESt 0, st)
  | S f =>
    match lookup_method p c m with
    | None => (ESt 5, st)
    | Some (ps, body) =>
      match exec f body (bind_params ps vs) st with
      | (ONorm, _, st1) => (EV (VS VNone), st1)
      | (ORet v, _, st1) => (EV v, st1)
      | (ORaise e, _, st1) => (EX e, st1)
      | (OStuck w, _, st1) => (ESt w, st1)
      end
    end
  end

with exec (fuel : nat) (s : stmt) (en : env) (st : state) {struct fuel} : outcome * env * state :=
  match fuel with
  | O => (OStuck 0, en, st)
  | S f =>
    match s with
    | SSkip => (ONorm, en, st)
    | SSeq a b =>
      match exec f a en st with
      | (ONorm, en1, st1) => exec f b en1 st1
      | r => r
      end
    | SExpr e =>
      match eval f e en st with
      | (EV _, st1) => (ONorm, en, st1)
      | (EX x, st1) => (ORaise x, en, st1)
      | (ESt w, st1) => (OStuck w, en, st1)
      end
    | SAssign x e =>
      match eval f e en st with
      | (EV v, st1) => (ONorm, alist_set x v en, st1)
      | (EX x', st1) => (ORaise x', en, st1)
      | (ESt w, st1) => (OStuck w, en, st1)
      end
    | SSetAttr eo a ev =>
      (* Python evaluates the right-hand side first, then the target object *)
      match eval f ev en st with
      | (EV v, st1) =>
        match eval f eo en st1 with
        | (EV vo, st2) =>
          match as_obj vo with
          | Some o => let (r, st3) := do_setattr st2 o a v in (r, en, st3)
          | None => (OStuck 4, en, st2)
          end
        | (EX x, st2) => (ORaise x, en, st2)
        | (ESt w, st2) => (OStuck w, en, st2)
        end
      | (EX x, st1) => (ORaise x, en, st1)
      | (ESt w, st1) => (OStuck w, en, st1)
      end
    | SSetAttrDyn eo ea ev =>
      match eval_args f [eo; ea; ev] en st with
      | (inl [vo; va; v], st1) =>
        match as_obj vo, as_str va with
        | Some o, Some a => let (r, st2) := do_setattr st1 o a v in (r, en, st2)
        | _, _ => (OStuck 4, en, st1)
        end
      | (inl _, st1) => (OStuck 4, en, st1)
      | (inr (EX x), st1) => (ORaise x, en, st1)
      | (inr (ESt w), st1) => (OStuck w, en, st1)
      | (inr (EV _), st1) => (OStuck 6, en, st1)
      end
    | SDelAttrDyn eo ea =>
      match eval_args f [eo; ea] en st with
      | (inl [vo; va], st1) =>
        match as_obj vo, as_str va with
        | Some o, Some a => let (r, st2) := do_delattr st1 o a in (r, en, st2)
        | _, _ => (OStuck 4, en, st1)
        end
      | (inl _, st1) => (OStuck 4, en, st1)
      | (inr (EX x), st1) => (ORaise x, en, st1)
      | (inr (ESt w), st1) => (OStuck w, en, st1)
      | (inr (EV _), st1) => (OStuck 6, en, st1)
      end
    | SSetItem eo a ek ev =>
      (* o.a[k] = v : value, then the container o.a, then the key *)
      match eval f ev en st with
      | (EV v, st1) =>
        match eval f (EAttr eo a) en st1 with
        | (EV (VDict d), st2) =>
          match eval f ek en st2 with
          | (EV vk, st3) =>
            match eval f eo en st3, as_sval vk, as_sval v with
            | (EV vo, st4), Some k', Some v' =>
              match as_obj vo with
              | Some o =>
                (* the dict is held only by this attribute: update in place *)
                match alist_get o (heap st4) with
                | Some ob =>
                  let nv := VDict (sdict_set k' v' d) in
                  let ob' := match alist_get a (oinst ob) with
                             | Some _ => {| ocls := ocls ob; oinst := alist_set a nv (oinst ob); oclass := oclass ob |}
                             | None => {| ocls := ocls ob; oinst := oinst ob; oclass := alist_set a nv (oclass ob) |}
                             end in
                  (ONorm, en, upd_obj st4 o ob')
                | None => (OStuck 2, en, st4)
                end
              | None => (OStuck 4, en, st4)
              end
            | (EX x, st4), _, _ => (ORaise x, en, st4)
            | (ESt w, st4), _, _ => (OStuck w, en, st4)
            | (_, st4), _, _ => (OStuck 4, en, st4)
            end
          | (EX x, st3) => (ORaise x, en, st3)
          | (ESt w, st3) => (OStuck w, en, st3)
          end
        | (EV _, st2) => (OStuck 4, en, st2)
        | (EX x, st2) => (ORaise x, en, st2)
        | (ESt w, st2) => (OStuck w, en, st2)
        end
      | (EX x, st1) => (ORaise x, en, st1)
      | (ESt w, st1) => (OStuck w, en, st1)
      end
    | SSetAdd eo a ev | SSetDiscard eo a ev =>
      (* o.a.add(v): the container first, then the argument *)
      match eval f (EAttr eo a) en st with
      | (EV (VSet l), st1) =>
        match eval f ev en st1 with
        | (EV v, st2) =>
          match eval f eo en st2, as_sval v with
          | (EV vo, st3), Some x =>
            match as_obj vo with
            | Some o =>
              match alist_get o (heap st3) with
              | Some ob =>
                (* re-read the set: the argument evaluation cannot have changed it
                   (translator: the argument is a local), but stay faithful *)
                let cur := match obj_getattr ob a with Some (VSet l') => l' | _ => l end in
                let nl := match s with SSetAdd _ _ _ => sset_add x cur | _ => sset_discard x cur end in
                let nv := VSet nl in
                let ob' := match alist_get a (oinst ob) with
                           | Some _ => {| ocls := ocls ob; oinst := alist_set a nv (oinst ob); oclass := oclass ob |}
                           | None => {| ocls := ocls ob; oinst := oinst ob; oclass := alist_set a nv (oclass ob) |}
                           end in
                (ONorm, en, upd_obj st3 o ob')
              | None => (OStuck 2, en, st3)
              end
            | None => (OStuck 4, en, st3)
            end
          | (EX x, st3), _ => (ORaise x, en, st3)
          | (ESt w, st3), _ => (OStuck w, en, st3)
          | (_, st3), _ => (OStuck 4, en, st3)
          end
        | (EX x, st2) => (ORaise x, en, st2)
        | (ESt w, st2) => (OStuck w, en, st2)
        end
      | (EV _, st1) => (OStuck 4, en, st1)
      | (EX x, st1) => (ORaise x, en, st1)
      | (ESt w, st1) => (OStuck w, en, st1)
      end
    | SIf c t e =>
      match eval f c en st with
      | (EV v, st1) => if truthy v then exec f t en st1 else exec f e en st1
      | (EX x, st1) => (ORaise x, en, st1)
      | (ESt w, st1) => (OStuck w, en, st1)
      end
    | SFor x it body =>
      match eval f it en st with
      | (EV (VList l), st1) => exec_for f x l body en st1
      | (EV _, st1) => (OStuck 4, en, st1)
      | (EX x', st1) => (ORaise x', en, st1)
      | (ESt w, st1) => (OStuck w, en, st1)
      end
    | SForItems k v it body =>
      match eval f it en st with
      | (EV (VDict d), st1) => exec_for_items f k v d body en st1
      | (EV _, st1) => (OStuck 4, en, st1)
      | (EX x', st1) => (ORaise x', en, st1)
      | (ESt w, st1) => (OStuck w, en, st1)
      end
    | STry body hs orelse fin =>
      let r1 :=
        match exec f body en st with
        | (ORaise e, en1, st1) =>
          match find_handler e hs with
          | Some h =>
            match exec f h (alist_set EXC_VAR (VS (VOpq e)) en1) st1 with
            | (o2, en2, st2) => (o2, restore_exc (alist_get EXC_VAR en1) en2, st2)
            end
          | None => (ORaise e, en1, st1)
          end
        | (ONorm, en1, st1) => exec f orelse en1 st1
        | r => r
        end in
      match r1 with
      | (OStuck w, en1, st1) => (OStuck w, en1, st1)
      | (o1, en1, st1) =>
        match exec f fin en1 st1 with
        | (ONorm, en2, st2) => (o1, en2, st2)
        | r => r                   (* the finaliser's own raise/return wins *)
        end
      end
    | SWith em body =>
      match eval f em en st with
      | (EV vm, st1) =>
        match as_obj vm with
        | None => (OStuck 4, en, st1)
        | Some o =>
          match alist_get o (heap st1) with
          | None => (OStuck 2, en, st1)
          | Some ob =>
            let c := ocls ob in
            match call_method f c M_enter [vm] st1 with
            | (EX x, st2) => (ORaise x, en, st2)       (* __exit__ is NOT called *)
            | (ESt w, st2) => (OStuck w, en, st2)
            | (EV _, st2) =>
              match exec f body en st2 with
              | (OStuck w, en3, st3) => (OStuck w, en3, st3)
              | (o3, en3, st3) =>
                match call_method f c M_exit [vm; VS VNone] st3 with
                | (EX x, st4) => (ORaise x, en3, st4)
                | (ESt w, st4) => (OStuck w, en3, st4)
                | (EV rv, st4) =>
                  match o3 with
                  | ORaise e => if truthy rv then (ONorm, en3, st4) else (ORaise e, en3, st4)
                  | _ => (o3, en3, st4)
                  end
                end
              end
            end
          end
        end
      | (EX x, st1) => (ORaise x, en, st1)
      | (ESt w, st1) => (OStuck w, en, st1)
      end
    | SRaise c => (ORaise c, en, st)
    | SReraise =>
      match alist_get EXC_VAR en with
      | Some (VS (VOpq e)) => (ORaise e, en, st)
      | _ => (OStuck 7, en, st)
      end
    | SReturn e =>
      match eval f e en st with
      | (EV v, st1) => (ORet v, en, st1)
      | (EX x, st1) => (ORaise x, en, st1)
      | (ESt w, st1) => (OStuck w, en, st1)
      end
    end
  end

with exec_for (fuel : nat) (x : N) (l : list sval) (body : stmt) (en : env) (st : state) {struct fuel}
  : outcome * env * state :=
  match fuel with
  | O => (OStuck 0, en, st)
  | S f =>
    match l with
    | [] => (ONorm, en, st)
    | v :: l' =>
      match exec f body (alist_set x (VS v) en) st with
      | (ONorm, en1, st1) => exec_for f x l' body en1 st1
      | r => r
      end
    end
  end

with exec_for_items (fuel : nat) (k v : N) (d : list (sval * sval)) (body : stmt) (en : env) (st : state)
  {struct fuel} : outcome * env * state :=
  match fuel with
  | O => (OStuck 0, en, st)
  | S f =>
    match d with
    | [] => (ONorm, en, st)
    | (kv, vv) :: d' =>
      match exec f body (alist_set v (VS vv) (alist_set k (VS kv) en)) st with
      | (ONorm, en1, st1) => exec_for_items f k v d' body en1 st1
      | r => r
      end
    end
  end.

End Interp.

(* ------------------------------------------------------------------ scenarios *)
(* configuration of one attribute of the inspected object *)
Inductive slotcfg :=
| Absent          (* getattr raises AttributeError *)
| Inst            (* instance attribute: getattr succeeds, delattr succeeds *)
| ClassLevel      (* class-level: getattr succeeds, delattr raises AttributeError *)
| Both            (* instance attribute shadowing a class-level one *)
| OwnDesc.        (* the object is a class and its own __dict__ holds a DESCRIPTOR under this name:
                     getattr computes a value, vars(o)[a] is the descriptor, delattr succeeds *)

Record config := { c_wrapped : slotcfg; c_signature : slotcfg }.

Definition all_slotcfg : list slotcfg := [Absent; Inst; ClassLevel; Both; OwnDesc].
Definition all_config : list config :=
  flat_map (fun w => map (fun s => {| c_wrapped := w; c_signature := s |}) all_slotcfg) all_slotcfg.

Definition slot_inst (a : N) (c : slotcfg) (v : N) : list (N * value) :=
  match c with Inst | Both => [(a, VS (VOpq v))] | OwnDesc => [(a, VS (VDesc v (v + 20)))] | _ => [] end.
Definition slot_class (a : N) (c : slotcfg) (v : N) : list (N * value) :=
  match c with ClassLevel | Both => [(a, VS (VOpq v))] | _ => [] end.

(* the inspected object: id 1; its original attribute values are the opaque
   values 11/12 (instance) and 21/22 (class level); a descriptor 11/12 computes
   31/32; 'other' = 99 stands for the rest of its __dict__ *)
Definition user_obj (c : config) : obj :=
  {| ocls := C_user;
     oinst := slot_inst A_wrapped (c_wrapped c) 11 ++ slot_inst A_signature (c_signature c) 12 ++ [(99, VS (VOpq 7))];
     oclass := slot_class A_wrapped (c_wrapped c) 21 ++ slot_class A_signature (c_signature c) 22 |}.

Definition O_user : N := 1.
Definition O_desc : N := 2.       (* the _AsForged instance *)
Definition O_owner : N := 3.      (* the class of the inspected object, as a value *)
Definition O_user2 : N := 4.      (* a second inspected object (nested retrieval) *)

Definition A_currently_computing : N := 3.

Definition desc_obj (guard : list sval) : obj :=
  {| ocls := C_asforged; oinst := [(A_currently_computing, VSet guard)]; oclass := [] |}.

Definition init_state (c : config) : state :=
  {| heap := [(O_user, user_obj c); (O_desc, desc_obj []); (O_owner, {| ocls := 0; oinst := []; oclass := [] |});
              (O_user2, user_obj c)];
     nextid := 10; ncalls := 0; ngets := 0 |}.

Definition obj_eqb (a b : obj) : bool :=
  N.eqb (ocls a) (ocls b)
  && (fix go (x y : list (N * value)) := match x, y with
        | [], [] => true
        | (k1, v1) :: x', (k2, v2) :: y' => N.eqb k1 k2 && value_eqb v1 v2 && go x' y'
        | _, _ => false end) (oinst a) (oinst b)
  && (fix go (x y : list (N * value)) := match x, y with
        | [], [] => true
        | (k1, v1) :: x', (k2, v2) :: y' => N.eqb k1 k2 && value_eqb v1 v2 && go x' y'
        | _, _ => false end) (oclass a) (oclass b).

(* same attributes with the same values, in any order (vars(f) == before) *)
Definition alist_same (x y : list (N * value)) : bool :=
  Nat.eqb (length x) (length y)
  && forallb (fun kv => match alist_get (fst kv) y with Some v => value_eqb (snd kv) v | None => false end) x.

Definition obj_same (a b : obj) : bool :=
  N.eqb (ocls a) (ocls b) && alist_same (oinst a) (oinst b) && alist_same (oclass a) (oclass b).

Definition user_restored (c : config) (st : state) : bool :=
  match alist_get O_user (heap st), alist_get O_user2 (heap st) with
  | Some ob, Some ob2 => obj_same ob (user_obj c) && obj_same ob2 (user_obj c)
  | _, _ => false
  end.

Definition guard_of (st : state) : option (list sval) :=
  match alist_get O_desc (heap st) with
  | Some ob => match obj_getattr ob A_currently_computing with Some (VSet l) => Some l | _ => None end
  | None => None
  end.

Definition guard_empty (st : state) : bool :=
  match guard_of st with Some [] => true | _ => false end.

Definition is_stuck (o : outcome) : bool := match o with OStuck _ => true | _ => false end.

Definition FUEL : nat := 60.

(* names of the parameters are whatever the translator interned; the entry
   points are given with their parameter lists, arguments are passed by position *)
Definition run_method (fuel : nat) (p : program) (orc : oracle) (c m : N) (args : list value) (st : state)
  : eres * state :=
  call_method p orc fuel c m args st.

(* module-level functions are stored as methods of the pseudo class 0 *)
Definition C_module : N := 0.
Definition F_autoforwards_function : N := 10.

(* autoforwards_function(func, args, kwargs) on the inspected object *)
Definition run_aff (fuel : nat) (p : program) (c : config) (orc : oracle) : eres * state :=
  run_method fuel p orc C_module F_autoforwards_function
             [VS (VObj O_user); VS (VOpq 50); VS (VOpq 51)] (init_state c).

(* _AsForged.__get__(self, instance, owner); instance None = access on the class *)
Definition run_get (fuel : nat) (p : program) (c : config) (orc : oracle) (on_class : bool) : eres * state :=
  run_method fuel p orc C_asforged M_get
             [VS (VObj O_desc); VS (if on_class then VNone else VObj O_user); VS (VObj O_owner)] (init_state c).

Definition eres_stuck (r : eres) : bool := match r with ESt _ => true | _ => false end.

(* canonical rendering of a run for the correspondence with CPython:
   (kind, payload): 0 = returned None, 1 = returned a true value, 2 n = raised class n, 9 = stuck *)
Definition eres_code (r : eres) : N * N :=
  match r with
  | EV (VS VNone) => (0, 0)
  | EV _ => (1, 0)
  | EX e => (2, e)
  | ESt w => (9, w)
  end.

(* attribute configuration of the inspected object after the run:
   per attribute 0 absent, 1 instance, 2 class-level, 3 both, 4 wrong value,
   6 own descriptor intact, 7 own descriptor replaced by the value it computed *)
Definition slot_code (ob : obj) (a : N) (vi vc : N) : N :=
  match alist_get a (oinst ob), alist_get a (oclass ob) with
  | None, None => 0
  | Some (VS (VDesc d c)), None => if N.eqb d vi && N.eqb c (vi + 20) then 6 else 4
  | Some v, None => if value_eqb v (VS (VOpq vi)) then 1
                    else if value_eqb v (VS (VOpq (vi + 20))) then 7 else 4
  | None, Some v => if value_eqb v (VS (VOpq vc)) then 2 else 4
  | Some v, Some w => if value_eqb v (VS (VOpq vi)) && value_eqb w (VS (VOpq vc)) then 3
                      else if value_eqb v (VS (VOpq vc)) && value_eqb w (VS (VOpq vc)) then 5  (* class value copied into the instance *)
                      else 4
  end.

Definition state_code (st : state) : N * N * N * nat * nat :=
  match alist_get O_user (heap st) with
  | Some ob => (slot_code ob A_wrapped 11 21, slot_code ob A_signature 12 22,
                match guard_of st with Some l => N.of_nat (length l) | None => 99 end,
                ncalls st, ngets st)
  | None => (9, 9, 99, ncalls st, ngets st)
  end.
