(* Roles.v — the side conditions C01/C09 put on merge inputs. *)
From Sigtools.Model Require Export Base Bind.

(* kind and positional index (0 for non-positional parameters) of name x *)
Fixpoint role_aux (ps : list param) (idx : nat) (x : name) : option (kind * nat) :=
  match ps with
  | [] => None
  | p :: ps' =>
      if N.eqb x (pname p) then Some (pkind p, if is_positional p then idx else 0%nat)
      else role_aux ps' (if is_positional p then S idx else idx) x
  end.
Definition role (ps : list param) (x : name) : option (kind * nat) := role_aux ps 0 x.

Definition role_eqb (a b : kind * nat) : bool :=
  kind_eqb (fst a) (fst b) && Nat.eqb (snd a) (snd b).

(* every name of a that b also declares has the same role in both *)
Definition roles_agree (a b : list param) : bool :=
  forallb (fun p => match role a (pname p), role b (pname p) with
                    | Some ra, Some rb => role_eqb ra rb
                    | _, _ => true
                    end) a.

Fixpoint role_consistent (ss : list (list param)) : bool :=
  match ss with
  | [] => true
  | s :: ss' => forallb (fun t => roles_agree s t && roles_agree t s) ss' && role_consistent ss'
  end.

(* positional parameters have equal names index by index *)
Fixpoint aligned_lists (a b : list param) : bool :=
  match a, b with
  | p :: a', q :: b' => N.eqb (pname p) (pname q) && aligned_lists a' b'
  | _, _ => true
  end.
Definition name_aligned (a b : list param) : bool :=
  aligned_lists (positional a) (positional b).

Fixpoint all_aligned (ss : list (list param)) : bool :=
  match ss with
  | [] => true
  | s :: ss' => forallb (name_aligned s) ss' && all_aligned ss'
  end.
