(* Wrappers.v — sigtools/wrappers.py: decorator / wrapper_decorator / Combination /
   wrappers(), written from the current /repo tree.  No proofs here.

   Two layers.
   * Calls.  A call is (positional values, keyword values); results are terms.
     An object is a plain def, a decorated object (_SimpleWrapped / _Wrapped:
     fields wrapper, __wrapped__; func = partial(wrapper, wrapped)), a
     Combination, a staticmethod / classmethod object or a bound method.
     `call` is __call__, `get` is the descriptor protocol (__get__), `wrappers`
     is wrappers.wrappers().
   * Signatures.  `sig_of` is sigtools.signature(obj) (also what
     inspect.signature sees through `__signature__ = as_forged`), built from
     Model/Algebra.v: forwards / sig_partial / merge / mask.

   Names are the numbers of harness/core.py NAME_TABLE. *)
From Sigtools.Model Require Export Base Bind Algebra.

(* ------------------------------------------------------------------ *)
(* values, calls, results                                               *)

Inductive term :=
| Val (v : N)                                       (* an atomic value *)
| Tup (tag : N) (items : list term)                 (* a tuple built by a body; tag 0 = a *args tuple *)
| Kw (items : list (name * term))                   (* a **kwargs dict, in insertion order *)
| App (f : N) (args : list term) (kwargs : list (name * term))   (* uninterpreted result of calling base callable f *)
| Raise (e : N).                                    (* an exception escaping; 1 = argument-binding TypeError *)

Record vcall := mkV { vpos : list term; vkws : list (name * term) }.

Definition behaviour := vcall -> term.

Definition type_error : N := 1.

Definition is_raise (t : term) : bool := match t with Raise _ => true | _ => false end.

(* building a tuple evaluates the items left to right: the first exception escapes *)
Definition tup (tag : N) (items : list term) : term :=
  match find is_raise items with
  | Some r => r
  | None => Tup tag items
  end.

(* the uninterpreted base callable number f *)
Definition app_behaviour (f : N) : behaviour := fun c => App f (vpos c) (vkws c).

(* ------------------------------------------------------------------ *)
(* CPython's binding at value level, for the generated bodies           *)

Fixpoint has_kw (k : name) (kws : list (name * term)) : bool :=
  match kws with
  | [] => false
  | (k', _) :: kws' => N.eqb k k' || has_kw k kws'
  end.

Fixpoint take_kw (k : name) (kws : list (name * term)) : option (term * list (name * term)) :=
  match kws with
  | [] => None
  | (k', v) :: kws' =>
      if N.eqb k k' then Some (v, kws')
      else match take_kw k kws' with
           | Some (r, rest) => Some (r, (k', v) :: rest)
           | None => None
           end
  end.

Definition default_of (p : param) : option term :=
  match pdef p with Some d => Some (Val d) | None => None end.

(* named parameters in declaration order; star parameters are skipped (the
   leftovers are theirs).  -> values of the named parameters, leftover
   positionals, leftover keywords *)
Fixpoint bind_named (ps : list param) (pos : list term) (kws : list (name * term))
         (acc : list term) : option (list term * list term * list (name * term)) :=
  match ps with
  | [] => Some (acc, pos, kws)
  | p :: ps' =>
      match pkind p with
      | PO =>
          match pos with
          | v :: pos' => bind_named ps' pos' kws (acc ++ [v])
          | [] => match default_of p with
                  | Some d => bind_named ps' [] kws (acc ++ [d])
                  | None => None
                  end
          end
      | PK =>
          match pos with
          | v :: pos' => if has_kw (pname p) kws then None     (* multiple values *)
                         else bind_named ps' pos' kws (acc ++ [v])
          | [] => match take_kw (pname p) kws with
                  | Some (v, kws') => bind_named ps' [] kws' (acc ++ [v])
                  | None => match default_of p with
                            | Some d => bind_named ps' [] kws (acc ++ [d])
                            | None => None
                            end
                  end
          end
      | KO =>
          match take_kw (pname p) kws with
          | Some (v, kws') => bind_named ps' pos kws' (acc ++ [v])
          | None => match default_of p with
                    | Some d => bind_named ps' pos kws (acc ++ [d])
                    | None => None
                    end
          end
      | VP | VK => bind_named ps' pos kws acc
      end
  end.

(* ------------------------------------------------------------------ *)
(* objects                                                              *)

(* a function meant to be used through wrappers.decorator / wrapper_decorator:
   def w(func, <own params>, *args, **kwargs).  Its behaviour is a Gallina
   function of the wrapped callable and the call (which does not include func:
   partial(wrapper, wrapped) supplies it). *)
Record wrapperT := mkW {
  w_id : N;
  w_sig : sigT;                          (* (func, <own params>, *args, **kwargs) *)
  w_run : behaviour -> behaviour
}.

(* what the body passes to func besides *args, **kwargs: n literal positionals
   and literal keywords.  For wrapper_decorator these are its num_args /
   named_args; for decorator they are read off the body by discovery. *)
Record fwd := mkF { f_n : nat; f_names : list name }.

Inductive flavour := Simple | Declared.     (* wrappers.decorator | wrappers.wrapper_decorator *)

Inductive obj :=
| Plain (id : N) (s : sigT) (b : behaviour)               (* a plain def *)
| Fwd (id : N) (declared : bool) (s : sigT) (n : nat) (x : obj)
      (* def m(<s>): return x(<first n named parameters>, *args, **kwargs); its effective
         signature is known to sigtools only: by discovery, or (declared) through
         specifiers.forwards_to_function(x, n) without emulate *)
| Deco (fl : flavour) (fa : fwd) (w : wrapperT) (x : obj) (* _SimpleWrapped(w, x) | _Wrapped(deco, w, x) *)
| Comb (fs : list obj)                                    (* Combination: .functions *)
| Static (x : obj)                                        (* staticmethod(x) *)
| ClassM (x : obj)                                        (* classmethod(x) *)
| Bound (x : obj) (self : term).                          (* types.MethodType(x, self) *)

(* Combination.__call__:  for function in self.functions: arg = function(arg, *args, **kwargs)
   (an exception leaves the loop) *)
Definition n_arg : name := 17.      (* 'arg' *)
Definition n_self : name := 13.     (* 'self' *)

(* def __call__(self, *args, **kwargs) of _SimpleWrapped / _Wrapped / Combination:
   a keyword argument named `self` collides with the method's own parameter *)
Definition self_guard (g : behaviour) : behaviour :=
  fun c => if has_kw n_self (vkws c) then Raise type_error else g c.

(* binding (arg, *args, **kwargs): arg may also be passed by keyword *)
Definition comb_bind (c : vcall) : option (term * list term * list (name * term)) :=
  match bind_named [mkParam n_arg PK None None UEmpty] (vpos c) (vkws c) [] with
  | Some ([arg], rest, kw) => Some (arg, rest, kw)
  | _ => None
  end.

Definition comb_step (rest : list term) (kw : list (name * term)) (a : term) (f : behaviour) : term :=
  if is_raise a then a else f (mkV (a :: rest) kw).

Definition combination (fs : list behaviour) (arg : term) (rest : list term)
           (kw : list (name * term)) : term :=
  fold_left (comb_step rest kw) fs arg.

(* calling the object:  obj( *args, **kwargs ) *)
Fixpoint call (o : obj) : behaviour :=
  match o with
  | Plain _ _ b => b
  | Fwd _ _ s _ x =>
      fun c => match bind_named (params s) (vpos c) (vkws c) [] with
               | Some (vals, rest, restk) => call x (mkV (vals ++ rest) restk)
               | None => Raise type_error
               end
  | Deco _ _ w x => self_guard (w_run w (call x))    (* self.func( *a, **k ) = partial(wrapper, wrapped)( *a, **k ) = wrapper(wrapped, *a, **k) *)
  | Comb fs =>                            (* __call__(self, arg, *args, **kwargs) *)
      self_guard
        (fun c => match comb_bind c with
                  | Some (arg, rest, kw) => combination (map call fs) arg rest kw
                  | None => Raise type_error
                  end)
  | Static x => call x                    (* staticmethod objects are callable (3.10+) *)
  | ClassM _ => fun _ => Raise type_error (* classmethod objects are not *)
  | Bound x v => fun c => call x (mkV (v :: vpos c) (vkws c))
  end.

(* type(o).__get__(o, inst, cls) through _util.safe_get; inst = None is access
   on the class *)
Fixpoint get (o : obj) (inst : option term) (cls : term) : obj :=
  match o with
  | Plain _ _ _ | Fwd _ _ _ _ _ => match inst with Some v => Bound o v | None => o end
  | Deco fl fa w x => Deco fl fa w (get x inst cls)   (* type(self)(..., self.wrapper, safe_get(self.__wrapped__, instance, owner)) *)
  | Comb _ => o                                       (* Combination defines no __get__ *)
  | Static x => x
  | ClassM x => match x with
                | Comb _ => Bound x cls
                | _ => get x (Some cls) cls           (* 3.9-3.12: classmethod chains to the wrapped descriptor *)
                end
  | Bound _ _ => o
  end.

(* wrappers.wrappers(obj): while obj has _sigtools__wrappers: yield them; obj = obj.__wrapped__ *)
Fixpoint wrappers (o : obj) : list N :=
  match o with
  | Deco _ _ w x => w_id w :: wrappers x
  | _ => []
  end.

(* Combination( *functions ): members that are Combinations are spliced in *)
Definition mk_comb (fs : list obj) : obj :=
  Comb (flat_map (fun f => match f with Comb gs => gs | _ => [f] end) fs).

(* decorating: applying the decorators of a stack, innermost last *)
Definition layer := (flavour * fwd * wrapperT)%type.
Definition decorate (l : layer) (x : obj) : obj := Deco (fst (fst l)) (snd (fst l)) (snd l) x.
Definition stack (ls : list layer) (f : obj) : obj := fold_right decorate f ls.

(* the hand-written composition w1(w2(...(f))) *)
Definition compose (ws : list wrapperT) (b : behaviour) : behaviour :=
  fold_right (fun w g => w_run w g) b ws.

(* the same composition when every layer refuses a keyword named `self` *)
Definition compose_guarded (ws : list wrapperT) (b : behaviour) : behaviour :=
  fold_right (fun w g => self_guard (w_run w g)) b ws.

(* ------------------------------------------------------------------ *)
(* signatures                                                           *)

Definition nohide := mkHide false false false false.

Definition n_args : name := 9.      (* 'args' *)
Definition n_kwargs : name := 10.   (* 'kwargs' *)
Definition plain_param (x : name) (k : kind) : param := mkParam x k None None UEmpty.
Definition sig_of_params (ps : list param) : sigT := mkSig ps None UEmpty [] [].

(* _SimpleWrapped.__call__ / _Wrapped.__call__ :  (self, *args, **kwargs) *)
Definition call_sig : sigT :=
  sig_of_params [plain_param n_self PK; plain_param n_args VP; plain_param n_kwargs VK].

(* signatures.signature(combination) = the bound Combination.__call__ : (arg, *args, **kwargs) *)
Definition comb_self_sig : sigT :=
  sig_of_params [plain_param n_arg PK; plain_param n_args VP; plain_param n_kwargs VK].

(* signatures.signature(partial(wrapper, wrapped)): the partial branch, no discovery *)
Definition generic_partial (w : wrapperT) : res sigT := sig_partial (w_sig w) 1 [] (w_id w).

(* discovery through  def __call__(self, *args, **kwargs): return self.func( *args, **kwargs )
   bound to the object: forwards onto the signature of self.func, merge of the
   single forwarding call, then the bound method drops `self` *)
Definition via_call (q : sigT) : res sigT :=
  do r <- forwards call_sig q 0 [] false false true true false ;;
  do r' <- merge [r] ;;
  mask r' 1 [] nohide.

Definition crash : err := OtherErr 13.

(* sigtools.signature(_SimpleWrapped(w, x)); xs = signature of x.
   partial(w, x) is discovered from w's body (forwards onto x, then the partial
   consumes `func`); any failure there falls back to the undiscovered partial.
   A failure of the __call__ step has no fallback left (as_forged is already
   computing the object): the retrieval dies, with an exception that is not a
   ValueError, so that enclosing retrievals die too. *)
Definition is_crash (r : res sigT) : bool :=
  match r with Err (OtherErr 13) => true | _ => false end.

Definition simple_sig (w : wrapperT) (fa : fwd) (xs : res sigT) : res sigT :=
  if is_crash xs then Err crash else
  let discovered :=
    do x <- xs ;;
    do p <- forwards (w_sig w) x (f_n fa) (f_names fa) false false true true false ;;
    do p' <- merge [p] ;;
    sig_partial p' 1 [] (w_id w) in
  let q := match discovered with Ok q => Ok q | Err _ => generic_partial w end in
  match (do q' <- q ;; via_call q') with
  | Ok r => Ok r
  | Err _ => Err crash
  end.

(* _Wrapped._sigtools__forger: specifiers.forwards(self.func, self.__wrapped__, *f_args, **f_kwargs) *)
Definition declared_sig (w : wrapperT) (fa : fwd) (xs : res sigT) : res sigT :=
  do q <- generic_partial w ;;
  do x <- xs ;;
  forwards q x (f_n fa) (f_names fa) false false true true false.

Fixpoint all_ok (l : list (res sigT)) : res (list sigT) :=
  match l with
  | [] => Ok []
  | r :: l' => do s <- r ;; do ss <- all_ok l' ;; Ok (s :: ss)
  end.

(* sigtools.signature(obj) *)
Fixpoint sig_of (o : obj) : res sigT :=
  match o with
  | Plain _ s _ => Ok s
  | Fwd _ true s n x =>        (* the forger: forwards(m, x, n); errors escape *)
      do xs <- sig_of x ;; forwards s xs n [] false false true true false
  | Fwd _ false s n x =>       (* discovery; gives up to the literal signature *)
      match (do xs <- sig_of x ;;
             do r <- forwards s xs n [] false false true true false ;; merge [r]) with
      | Ok r => Ok r
      | Err e => if is_crash (Err e) then Err crash else Ok s
      end
  | Deco Simple fa w x => simple_sig w fa (sig_of x)
  | Deco Declared fa w x => declared_sig w fa (sig_of x)
  | Comb fs => do ss <- all_ok (map sig_of fs) ;; merge (comb_self_sig :: ss)   (* Combination.get_signature *)
  | Static x => sig_of x
  | ClassM _ => Err (OtherErr 2)          (* not callable *)
  | Bound x _ => do s <- sig_of x ;; mask s 1 [] nohide
  end.

(* inspect.signature(obj): decorated objects carry __signature__ = as_forged;
   a Combination only carries a forger, which inspect does not know *)
Definition inspect_sig (o : obj) : res sigT :=
  match o with
  | Comb _ => Ok comb_self_sig
  | _ => sig_of o
  end.

(* the signature of a bound method: the first parameter is consumed *)
Definition bound_sig (s : sigT) : res sigT := mask s 1 [] nohide.

Definition is_nil {A} (l : list A) : bool := match l with [] => true | _ => false end.

(* def f(<ps>): return ('f', <named parameters>, args?, kwargs?) *)
Definition def_behaviour (tag : N) (ps : list param) : behaviour :=
  fun c =>
    match bind_named ps (vpos c) (vkws c) [] with
    | None => Raise type_error
    | Some (vals, rest, restk) =>
        if (negb (has_kind VP ps) && negb (is_nil rest))
           || (negb (has_kind VK ps) && negb (is_nil restk))
        then Raise type_error
        else Tup tag (vals ++ (if has_kind VP ps then [Tup 0 rest] else [])
                           ++ (if has_kind VK ps then [Kw restk] else []))
    end.

Inductive body_mode :=
| Return                  (* return ('w', <own>, func(<lits>, *args, <klits>, **kwargs)) *)
| RaiseBefore (e : N)     (* raise e without calling func *)
| RaiseAfter (e : N).     (* call func, then raise e *)

(* def w(func, <own>, *args, **kwargs) with the three kinds of generated body *)
Definition wrapper_behaviour (tag : N) (fparam : param) (own : list param) (lits : list term)
           (klits : list (name * term)) (mode : body_mode) : behaviour -> behaviour :=
  fun func c =>
    (* partial(wrapper, wrapped) supplies the first positional argument *)
    match bind_named (fparam :: own) (Val 0 :: vpos c) (vkws c) [] with
    | None | Some ([], _, _) => Raise type_error
    | Some (_ :: vals, rest, restk) =>
        match mode with
        | RaiseBefore e => Raise e
        | _ =>
            if existsb (fun kv => has_kw (fst kv) restk) klits
            then Raise type_error         (* multiple values for keyword argument *)
            else
              let r := func (mkV (lits ++ rest) (klits ++ restk)) in
              match mode with
              | RaiseAfter e => if is_raise r then r else Raise e
              | _ => tup tag (vals ++ [r])
              end
        end
    end.

(* ------------------------------------------------------------------ *)
(* deciding equality of result terms (used by the correspondence run)   *)

Fixpoint term_eqb (a b : term) : bool :=
  let fix list_eqb (xs ys : list term) : bool :=
      match xs, ys with
      | [], [] => true
      | x :: xs', y :: ys' => term_eqb x y && list_eqb xs' ys'
      | _, _ => false
      end in
  let fix kw_eqb (xs ys : list (name * term)) : bool :=
      match xs, ys with
      | [], [] => true
      | (k, x) :: xs', (k', y) :: ys' => N.eqb k k' && term_eqb x y && kw_eqb xs' ys'
      | _, _ => false
      end in
  match a, b with
  | Val x, Val y => N.eqb x y
  | Tup t xs, Tup u ys => N.eqb t u && list_eqb xs ys
  | Kw xs, Kw ys => kw_eqb xs ys
  | App f xs ks, App g ys ls => N.eqb f g && list_eqb xs ys && kw_eqb ks ls
  | Raise e, Raise e' => N.eqb e e'
  | _, _ => false
  end.

(* acceptance projection of a signature result: name, kind rank, has default *)
Definition shape (r : res sigT) : option (list (N * nat * bool)) :=
  match r with
  | Ok s => Some (map (fun p => (pname p, kind_rank (pkind p), has_def p)) (params s))
  | Err _ => None
  end.
