(* Base.v — data types shared by every part of the sigtools model.
   No proofs live in Model/*.v, so the model still runs when a proof breaks. *)
From Coq Require Export List NArith Bool Arith.
Export ListNotations.
Open Scope N_scope.

(* inspect.Parameter kinds, in CPython's rank order. *)
Inductive kind := PO | PK | VP | KO | VK.

Definition kind_rank (k : kind) : nat :=
  match k with PO => 0 | PK => 1 | VP => 2 | KO => 3 | VK => 4 end%nat.

Definition kind_eqb (a b : kind) : bool := Nat.eqb (kind_rank a) (kind_rank b).

(* Names, default values, annotation values and callables are interned by the
   harness as numbers.  Default value 0 stands for Python's None. *)
Definition name := N.

(* sigtools.signatures.UpgradedAnnotation variants *)
Inductive uann :=
| UEmpty
| UPre (v : N)                (* _PreEvaluatedAnnotation(value) *)
| UPost (raw : N) (f : N).    (* _PostponedAnnotation(raw string, defining function) *)

Record param := mkParam {
  pname : name;
  pkind : kind;
  pdef  : option N;     (* None = Parameter.empty *)
  pann  : option N;     (* raw .annotation; None = Parameter.empty *)
  puann : uann          (* .upgraded_annotation *)
}.

Definition set_kind (k : kind) (p : param) : param :=
  mkParam (pname p) k (pdef p) (pann p) (puann p).
Definition set_def (d : option N) (p : param) : param :=
  mkParam (pname p) (pkind p) d (pann p) (puann p).
Definition set_ann (a : option N) (u : uann) (p : param) : param :=
  mkParam (pname p) (pkind p) (pdef p) a u.

Definition has_def (p : param) : bool :=
  match pdef p with Some _ => true | None => false end.

Definition opt_N_eqb (a b : option N) : bool :=
  match a, b with
  | Some x, Some y => N.eqb x y
  | None, None => true
  | _, _ => false
  end.

Definition uann_eqb (a b : uann) : bool :=
  match a, b with
  | UEmpty, UEmpty => true
  | UPre x, UPre y => N.eqb x y
  | UPost r f, UPost r' f' => N.eqb r r' && N.eqb f f'
  | _, _ => false
  end.

Definition param_eqb (a b : param) : bool :=
  N.eqb (pname a) (pname b) && kind_eqb (pkind a) (pkind b)
  && opt_N_eqb (pdef a) (pdef b) && opt_N_eqb (pann a) (pann b)
  && uann_eqb (puann a) (puann b).

(* Provenance: sig.sources without the '+depths' entry, and '+depths' itself.
   Python dicts; only membership and the order inside each list are observable
   after canonicalisation (the harness sorts keys). *)
Definition srcmap := list (name * list N).
Definition depths := list (N * N).

Fixpoint src_get (m : srcmap) (k : name) : list N :=
  match m with
  | [] => []
  | (k', v) :: m' => if N.eqb k k' then v else src_get m' k
  end.

Fixpoint src_mem (m : srcmap) (k : name) : bool :=
  match m with
  | [] => false
  | (k', _) :: m' => N.eqb k k' || src_mem m' k
  end.

(* d[k] = v *)
Fixpoint src_set (m : srcmap) (k : name) (v : list N) : srcmap :=
  match m with
  | [] => [(k, v)]
  | (k', v') :: m' => if N.eqb k k' then (k, v) :: m' else (k', v') :: src_set m' k v
  end.

(* d.setdefault(k, []).extend(vs) *)
Fixpoint src_add (m : srcmap) (k : name) (vs : list N) : srcmap :=
  match m with
  | [] => [(k, vs)]
  | (k', v') :: m' => if N.eqb k k' then (k, v' ++ vs) :: m' else (k', v') :: src_add m' k vs
  end.

(* d.pop(k, None) *)
Fixpoint src_pop (m : srcmap) (k : name) : srcmap :=
  match m with
  | [] => []
  | (k', v') :: m' => if N.eqb k k' then src_pop m' k else (k', v') :: src_pop m' k
  end.

Definition src_pop_all (m : srcmap) (ks : list name) : srcmap :=
  fold_left src_pop ks m.

Fixpoint dep_get (d : depths) (f : N) : option N :=
  match d with
  | [] => None
  | (f', v) :: d' => if N.eqb f f' then Some v else dep_get d' f
  end.

Fixpoint dep_set (d : depths) (f : N) (v : N) : depths :=
  match d with
  | [] => [(f, v)]
  | (f', v') :: d' => if N.eqb f f' then (f, v) :: d' else (f', v') :: dep_set d' f v
  end.

(* sigtools._signatures.merge_depths *)
Fixpoint merge_depths (l r : depths) : depths :=
  match r with
  | [] => l
  | (f, d) :: r' =>
      let l' := match dep_get l f with
                | Some d0 => if N.ltb d0 d then l else dep_set l f d
                | None => dep_set l f d
                end in
      merge_depths l' r'
  end.

Definition dep_incr (k : N) (d : depths) : depths :=
  map (fun fd => (fst fd, snd fd + k)) d.

(* A signature: parameters, return annotation (raw and upgraded), provenance. *)
Record sigT := mkSig {
  params : list param;
  ret    : option N;
  uret   : uann;
  srcs   : srcmap;
  deps   : depths
}.

Inductive err := Incompatible | ValueErr | OtherErr (tag : N).
Inductive res (A : Type) := Ok (a : A) | Err (e : err).
Arguments Ok {A} a.
Arguments Err {A} e.

Definition bind {A B} (r : res A) (f : A -> res B) : res B :=
  match r with Ok a => f a | Err e => Err e end.
Notation "'do' x <- r ;; k" := (bind r (fun x => k))
  (at level 200, x pattern, r at level 100, k at level 200).

(* except ValueError: raise IncompatibleSignatures  (IncompatibleSignatures is a
   ValueError itself; any other exception passes through) *)
Definition to_incompatible {A} (r : res A) : res A :=
  match r with
  | Ok a => Ok a
  | Err Incompatible => Err Incompatible
  | Err ValueErr => Err Incompatible
  | Err (OtherErr t) => Err (OtherErr t)
  end.

Definition names_of (ps : list param) : list name := map pname ps.

Fixpoint mem (x : N) (l : list N) : bool :=
  match l with [] => false | y :: l' => N.eqb x y || mem x l' end.

Fixpoint find_param (x : name) (ps : list param) : option param :=
  match ps with
  | [] => None
  | p :: ps' => if N.eqb x (pname p) then Some p else find_param x ps'
  end.

Fixpoint remove_param (x : name) (ps : list param) : list param :=
  match ps with
  | [] => []
  | p :: ps' => if N.eqb x (pname p) then remove_param x ps' else p :: remove_param x ps'
  end.

(* OrderedDict assignment d[p.name] = p : replace in place or append *)
Fixpoint od_set (d : list param) (p : param) : list param :=
  match d with
  | [] => [p]
  | q :: d' => if N.eqb (pname p) (pname q) then p :: d' else q :: od_set d' p
  end.

Definition od_update (d : list param) (ps : list param) : list param :=
  fold_left od_set ps d.
