(* Universe.v — finite universes of valid signatures, used by the bounded
   reflective theorems.  U(k, pool, va, vk): every valid parameter list with at
   most k named parameters, each drawn from
   {x:kind[=default] | x in pool, kind in PO/PK/KO} plus *va and **vk. *)
From Sigtools.Model Require Export Base Bind Roles Algebra.

Definition alphabet (pool : list name) (va vk : name) : list param :=
  flat_map (fun x => flat_map (fun k => [mkParam x k None None UEmpty;
                                         mkParam x k (Some 1) None UEmpty]) [PO; PK; KO]) pool
  ++ [mkParam va VP None None UEmpty; mkParam vk VK None None UEmpty].

Fixpoint lists_exact (A : list param) (n : nat) : list (list param) :=
  match n with
  | O => [[]]
  | S n' => flat_map (fun p => map (cons p) (lists_exact A n')) A
  end.

Definition named_count (ps : list param) : nat := length (filter is_named ps).

Definition universe (k : nat) (pool : list name) (va vk : name) : list (list param) :=
  filter (fun ps => valid_sig ps && Nat.leb (named_count ps) k)
         (flat_map (lists_exact (alphabet pool va vk)) (seq 0 (k + 3))).

Definition mk (ps : list param) : sigT := mkSig ps None UEmpty [] [].

(* names used by the harness: a=1 b=2 c=3 d=4 args=9 kwargs=10 *)
Definition U1ab := universe 1 [1; 2] 9 10.
Definition U2ab := universe 2 [1; 2] 9 10.
Definition U2cd := universe 2 [3; 4] 9 10.
