(* Cache.v — model for property C18 (order of decorators, repetition, lifetimes).

   (a) the modifier stacking algebra of sigtools/modifiers.py: _PokTranslator
       (__new__/__init__/_merge_other/_prepare/__call__), kwoargs / posoargs with
       their start= / end= forms, autokwoargs, annotate;
   (b) the descriptor cache of sigtools/_util.py OverrideableDataDesc.__get__
       (insts : WeakKeyDictionary keyed by the bound function) as a state
       machine over histories, next to the cache-less descriptors of
       specifiers.py (function with a forger attribute, _ForgerWrapper) and
       wrappers.py (_SimpleWrapped, _Wrapped), with the cache-less specification;
   (c) an abstract heap (strong edges, WeakKeyDictionary entries, roots) with
       reachability by fuel.  This is an abstraction of CPython's collector:
       an object is reclaimed by `del` + gc.collect() iff it is not reachable
       from the roots through strong references, a WeakKeyDictionary holds its
       values strongly and its keys weakly and drops an entry when the key dies.

   No proofs in this file. *)
From Sigtools.Model Require Import Base.

(* ------------------------------------------------------------------ *)
(* (a) modifier stacking                                               *)
(* ------------------------------------------------------------------ *)

(* Python sets of names as lists; only membership is ever used. *)
Definition nset := list name.
Definition union (a b : nset) : nset := a ++ b.                 (* a |= b *)
Definition disjoint (a b : nset) : bool := forallb (fun x => negb (mem x b)) a.

(* accumulator of _PokTranslator._prepare's loop *)
Record prep_acc := mkPA {
  pa_params : list param;          (* params *)
  pa_kwoparams : list param;       (* kwoparams *)
  pa_kwopos : list (nat * param);  (* self.kwopos *)
  pa_found_pok : bool;
  pa_found_kws : bool;
  pa_used : list name              (* names removed from to_use *)
}.

Definition pa_init : prep_acc := mkPA [] [] [] false false [].

(* one iteration of `for i, param in enumerate(sig.parameters.values())`;
   inP / inK are `name in self.posoarg_names` / `name in self.kwoarg_names`.
   Parameter names of a signature are unique, so `name in to_use` at the time a
   parameter is visited is `inP name || inK name`. *)
Definition prep_step (inP inK : name -> bool) (acc : option prep_acc) (ip : nat * param)
  : option prep_acc :=
  match acc with
  | None => None
  | Some a =>
    let i := fst ip in
    let p := snd ip in
    let nm := pname p in
    match pkind p with
    | PK =>
      if inP nm then
        if pa_found_pok a then None        (* comes after a regular parameter *)
        else Some (mkPA (pa_params a ++ [set_kind PO p]) (pa_kwoparams a) (pa_kwopos a)
                        (pa_found_pok a) (pa_found_kws a) (nm :: pa_used a))
      else if inK nm then
        Some (mkPA (pa_params a) (pa_kwoparams a ++ [set_kind KO p]) (pa_kwopos a ++ [(i, p)])
                   (pa_found_pok a) (pa_found_kws a) (nm :: pa_used a))
      else
        Some (mkPA (pa_params a ++ [p]) (pa_kwoparams a) (pa_kwopos a)
                   true (pa_found_kws a) (pa_used a))
    | k =>
      let okk :=
        if inP nm || inK nm then
          (kind_eqb k PO && inP nm) || (kind_eqb k KO && inK nm)
        else true in
      if negb okk then None               (* is not of kind POSITIONAL_OR_KEYWORD *)
      else
        let used := if inP nm || inK nm then nm :: pa_used a else pa_used a in
        if kind_eqb k VK then
          Some (mkPA (pa_params a ++ pa_kwoparams a ++ [p]) (pa_kwoparams a) (pa_kwopos a)
                     (pa_found_pok a) true used)
        else
          Some (mkPA (pa_params a ++ [p]) (pa_kwoparams a) (pa_kwopos a)
                     (pa_found_pok a) (pa_found_kws a) used)
    end
  end.

Definition indexed (ps : list param) : list (nat * param) := combine (seq 0 (length ps)) ps.

(* _PokTranslator._prepare: None = ValueError; Some (advertised parameters, kwopos) *)
Definition prepare (pos kwo : nset) (ps : list param) : option (list param * list (nat * param)) :=
  if negb (disjoint pos kwo) then None
  else
    match fold_left (prep_step (fun x => mem x pos) (fun x => mem x kwo)) (indexed ps) (Some pa_init) with
    | None => None
    | Some a =>
      if forallb (fun x => mem x (pa_used a)) (union pos kwo)     (* if to_use: raise *)
      then Some ((if pa_found_kws a then pa_params a else pa_params a ++ pa_kwoparams a),
                 pa_kwopos a)
      else None
    end.

(* The decorated object: the innermost function's own signature (annotate
   rewrites it) and the name sets of the (single, merged) translator around it.
   Both sets empty = no translator (_PokTranslator.__new__ returns func). *)
Record dobj := mkD {
  d_params : list param;
  d_ret : option N;
  d_pos : nset;
  d_kwo : nset
}.

Definition advertised (d : dobj) : option (list param * list (nat * param)) :=
  prepare (d_pos d) (d_kwo d) (d_params d).

Definition adv_params (d : dobj) : list param :=
  match advertised d with Some r => fst r | None => d_params d end.

(* _PokTranslator(func, posoargs=pos, kwoargs=kwo): __new__, __init__,
   _merge_other (set union), _prepare *)
Definition mk_translator (d : dobj) (pos kwo : nset) : option dobj :=
  match pos, kwo with
  | [], [] => Some d
  | _, _ =>
    let pos' := union pos (d_pos d) in
    let kwo' := union kwo (d_kwo d) in
    match prepare pos' kwo' (d_params d) with
    | Some _ => Some (mkD (d_params d) (d_ret d) pos' kwo')
    | None => None
    end
  end.

(* _kwoargs_start: names of the POK parameters from `start` on *)
Fixpoint start_names (start : name) (found : bool) (ps : list param) : list name * bool :=
  match ps with
  | [] => ([], found)
  | p :: r =>
    match pkind p with
    | PK => let found' := found || N.eqb (pname p) start in
            let nf := start_names start found' r in
            ((if found' then pname p :: fst nf else fst nf), snd nf)
    | PO => start_names start found r
    | _ => ([], found)
    end
  end.

(* _posoargs_end: names of the POK parameters up to and including `end` *)
Fixpoint end_names (e : name) (found : bool) (ps : list param) : list name * bool :=
  match ps with
  | [] => ([], found)
  | p :: r =>
    match pkind p with
    | PK => let found' := found || N.eqb (pname p) e in
            let nf := end_names e found' r in
            ((if found then fst nf else pname p :: fst nf), snd nf)
    | PO => end_names e found r
    | _ => ([], found)
    end
  end.

Definition is_pk_default (p : param) : bool := kind_eqb (pkind p) PK && has_def p.

(* _autokwoargs *)
Definition auto_names (exceptions : list name) (ps : list param) : option (list name) :=
  if forallb (fun e => existsb (fun p => is_pk_default p && N.eqb (pname p) e) ps) exceptions
  then Some (map pname (filter (fun p => is_pk_default p && negb (mem (pname p) exceptions)) ps))
  else None.

Fixpoint ann_lookup (anns : list (name * N)) (x : name) : option N :=
  match anns with
  | [] => None
  | (k, v) :: r => if N.eqb x k then Some v else ann_lookup r x
  end.

Definition ann_param (anns : list (name * N)) (p : param) : param :=
  match ann_lookup anns (pname p) with
  | Some v => set_ann (Some v) (UPre v) p
  | None => p
  end.

Inductive modifier :=
| MKwo (names : list name)                     (* kwoargs( *names ) *)
| MPos (names : list name)                     (* posoargs( *names ) *)
| MKwoStart (start : name) (names : list name) (* kwoargs(start=..., *names ) *)
| MPosEnd (e : name) (names : list name)       (* posoargs(end=..., *names ) *)
| MAuto (exceptions : list name)               (* autokwoargs(exceptions=...) *)
| MAnn (ret : option N) (anns : list (name * N)). (* annotate(ret, **anns) *)

(* one decorator application; None = ValueError (the step is not admissible) *)
Definition apply_mod (d : dobj) (m : modifier) : option dobj :=
  match m with
  | MKwo names => mk_translator d [] names
  | MPos names => mk_translator d names []
  | MKwoStart s names =>
    let nf := start_names s false (adv_params d) in
    if snd nf then mk_translator d [] (union names (fst nf)) else None
  | MPosEnd e names =>
    let nf := end_names e false (adv_params d) in
    if snd nf then mk_translator d (union names (fst nf)) [] else None
  | MAuto exc =>
    match auto_names exc (adv_params d) with
    | Some names => mk_translator d [] names
    | None => None
    end
  | MAnn ret anns =>
    (* annotate.__call__: walks to the innermost function, rewrites its
       __signature__, re-prepares the translator *)
    if forallb (fun a => mem (fst a) (names_of (d_params d))) anns
    then Some (mkD (map (ann_param anns) (d_params d))
                   (match ret with Some r => Some r | None => d_ret d end)
                   (d_pos d) (d_kwo d))
    else None
  end.

Fixpoint run_mods (d : dobj) (ms : list modifier) : option dobj :=
  match ms with
  | [] => Some d
  | m :: r => match apply_mod d m with Some d' => run_mods d' r | None => None end
  end.

(* _PokTranslator.__call__ : what is forwarded to self.func, or TypeError *)
Inductive callres := CTypeErr | CForward (args : list N) (kwargs : list (name * N)).

Fixpoint kw_get (kwargs : list (name * N)) (x : name) : option N :=
  match kwargs with
  | [] => None
  | (k, v) :: r => if N.eqb x k then Some v else kw_get r x
  end.

Fixpoint kw_pop (kwargs : list (name * N)) (x : name) : list (name * N) :=
  match kwargs with
  | [] => []
  | (k, v) :: r => if N.eqb x k then r else (k, v) :: kw_pop r x
  end.

Fixpoint insert_at (n : nat) (v : N) (l : list N) : list N :=
  match n, l with
  | O, _ => v :: l
  | S n', x :: r => x :: insert_at n' v r
  | S _, [] => [v]
  end.

Fixpoint call_loop (kwopos : list (nat * param)) (args : list N) (kwargs : list (name * N))
         (missing : bool) : list N * list (name * N) * bool :=
  match kwopos with
  | [] => (args, kwargs, missing)
  | (pos, p) :: r =>
    match kw_get kwargs (pname p) with
    | Some v =>
      if Nat.ltb pos (length args)
      then call_loop r (insert_at pos v args) (kw_pop kwargs (pname p)) missing
      else call_loop r args kwargs missing
    | None =>
      match pdef p with
      | None => call_loop r args kwargs true
      | Some dv =>
        if Nat.ltb pos (length args)
        then call_loop r (insert_at pos dv args) kwargs missing
        else call_loop r args kwargs missing
      end
    end
  end.

Definition pok_call_with (inP : name -> bool) (kwopos : list (nat * param))
           (args : list N) (kwargs : list (name * N)) : callres :=
  if existsb (fun kv => inP (fst kv)) kwargs then CTypeErr
  else
    match call_loop kwopos args kwargs false with
    | (a, k, true) => CTypeErr
    | (a, k, false) => CForward a k
    end.

(* calling the decorated object: a bare function forwards unchanged *)
Definition pok_call (d : dobj) (args : list N) (kwargs : list (name * N)) : callres :=
  match advertised d with
  | Some r => pok_call_with (fun x => mem x (d_pos d)) (snd r) args kwargs
  | None => CTypeErr
  end.

(* ------------------------------------------------------------------ *)
(* (c) abstract heap                                                   *)
(* ------------------------------------------------------------------ *)

Definition edge := (N * N)%type.

Definition step_reach (es : list edge) (seen : list N) : list N :=
  seen ++ filter (fun y => negb (mem y seen)) (map snd (filter (fun e => mem (fst e) seen) es)).

Fixpoint closure (fuel : nat) (es : list edge) (seen : list N) : list N :=
  match fuel with
  | O => seen
  | S f => closure f es (step_reach es seen)
  end.

(* fixed objects, alive as long as the class is (module global = root) *)
Definition n_class : N := 0.
Definition n_desc : N := 1.
Definition n_dict : N := 2.     (* desc.insts *)
Definition n_func : N := 3.     (* the innermost function *)

(* one WeakKeyDictionary entry of desc.insts *)
Record wentry := mkWE { we_key : N; we_val : N }.

Definition weak_edges (ws : list wentry) : list edge :=
  map (fun w => (n_dict, we_val w)) ws.

Definition all_edges (strong : list edge) (ws : list wentry) : list edge :=
  strong ++ weak_edges ws.

Definition live (strong : list edge) (ws : list wentry) (roots : list N) : list N :=
  let es := all_edges strong ws in closure (S (length es)) es roots.

(* gc.collect(): entries whose key is not strongly reachable disappear, which
   may free their values and further keys *)
Fixpoint collect (fuel : nat) (strong : list edge) (ws : list wentry) (roots : list N)
  : list wentry * list N :=
  match fuel with
  | O => (ws, live strong ws roots)
  | S f =>
    let lv := live strong ws roots in
    let ws' := filter (fun w => mem (we_key w) lv) ws in
    if Nat.eqb (length ws') (length ws) then (ws, lv) else collect f strong ws' roots
  end.

(* ------------------------------------------------------------------ *)
(* (b) descriptor cache state machine                                  *)
(* ------------------------------------------------------------------ *)

Inductive dkind :=
| DPok     (* modifiers._PokTranslator : _util.OverrideableDataDesc, cached *)
| DFunc    (* plain function carrying _sigtools__forger (forwards_to_method): Python's own bound method *)
| DWrap.   (* specifiers._ForgerWrapper / wrappers._SimpleWrapped / wrappers._Wrapped: fresh wrapper per __get__ *)

(* what attribute access returns *)
Record wrapper := mkW {
  w_id : N;      (* object identity *)
  w_inst : N;    (* the instance object it is bound to *)
  w_ver : N      (* the decoration version its advertised signature was computed from *)
}.

Record cstate := mkC {
  c_next : N;                      (* next fresh object id *)
  c_ver : N;                       (* number of re-decorations of the class-level object *)
  c_slot0 : N;                     (* instance object currently held in slot 0 (class A) *)
  c_slot1 : N;                     (* slot 1 (subclass B) *)
  c_cache : list (N * wrapper);    (* insts, keyed by bound function = (func, instance object) *)
  c_strong : list edge;
  c_weak : list wentry;
  c_owner : list (N * N);          (* object -> instance it was obtained from *)
  c_locals : list N                (* references held by the caller *)
}.

Definition c_init : cstate :=
  mkC 12 0 10 11 []
      [(n_class, n_desc); (n_desc, n_dict); (n_desc, n_func)]
      [] [] [10; 11].

Definition slot_inst (st : cstate) (s : bool) : N := if s then c_slot1 st else c_slot0 st.

Fixpoint cache_find (c : list (N * wrapper)) (x : N) : option wrapper :=
  match c with
  | [] => None
  | (k, w) :: r => if N.eqb x k then Some w else cache_find r x
  end.

Definition vis_ver (k : dkind) (v : N) : N := match k with DWrap => 0 | _ => v end.

(* getattr(instance x, name); keep = the caller keeps the result *)
Definition touch (k : dkind) (st : cstate) (x : N) (keep : bool) : cstate * wrapper :=
  match k with
  | DPok =>
    match cache_find (c_cache st) x with
    | Some w =>                                   (* return self.insts[func] *)
      (mkC (c_next st) (c_ver st) (c_slot0 st) (c_slot1 st) (c_cache st) (c_strong st)
           (c_weak st) (c_owner st) (if keep then w_id w :: c_locals st else c_locals st), w)
    | None =>
      let b := c_next st in                       (* the bound function: the key *)
      let wid := N.succ b in                      (* custom_getter(func, original=self) *)
      let w := mkW wid x (c_ver st) in
      (mkC (N.succ wid) (c_ver st) (c_slot0 st) (c_slot1 st)
           ((x, w) :: c_cache st)
           ((wid, b) :: (wid, n_desc) :: (b, x) :: (b, n_func) :: c_strong st)   (* w.func = key ! *)
           (mkWE b wid :: c_weak st)
           ((b, x) :: (wid, x) :: c_owner st)
           (if keep then wid :: c_locals st else c_locals st), w)
    end
  | DFunc =>
    let b := c_next st in
    let w := mkW b x (c_ver st) in
    (mkC (N.succ b) (c_ver st) (c_slot0 st) (c_slot1 st) (c_cache st)
         ((b, x) :: (b, n_func) :: c_strong st) (c_weak st)
         ((b, x) :: c_owner st)
         (if keep then b :: c_locals st else c_locals st), w)
  | DWrap =>
    let b := c_next st in
    let wid := N.succ b in
    let w := mkW wid x 0 in
    (mkC (N.succ wid) (c_ver st) (c_slot0 st) (c_slot1 st) (c_cache st)
         ((wid, b) :: (b, x) :: (b, n_func) :: c_strong st) (c_weak st)
         ((b, x) :: (wid, x) :: c_owner st)
         (if keep then wid :: c_locals st else c_locals st), w)
  end.

Definition owned_by (st : cstate) (y x : N) : bool :=
  N.eqb y x || existsb (fun p => N.eqb (fst p) y && N.eqb (snd p) x) (c_owner st).

Inductive op :=
| OpGet (s : option bool)        (* getattr(instance in slot s / the class, name), result kept *)
| OpRetrieve (s : option bool)   (* signature(getattr(...)) *)
| OpCall (s : bool)              (* getattr(instance, name)(...) -> returns self *)
| OpRedecorate                   (* annotate(...)(cls.__dict__[name]) *)
| OpDrop (s : bool)              (* del instance and everything obtained from it; gc.collect(); new instance in the slot *)
| OpConnect (s : bool).          (* instance.target = ... : the attribute a forwards_to_ivar method forwards to becomes
                                    available.  Before it, a retrieval fails or silently falls back; a failing
                                    retrieval must leave nothing behind (the as_forged guard set is empty between
                                    operations), so in the model neither the failing retrieval nor this step
                                    changes the cache or the heap. *)

Record obs := mkObs {
  o_tag : N;
  o_ok : bool;          (* the returned object is bound to the instance asked for *)
  o_ver : N;            (* advertised signature = that of decoration version ... *)
  o_reclaimed : bool    (* OpDrop: the weak reference to the instance is dead *)
}.

Definition impl_step (k : dkind) (st : cstate) (o : op) : cstate * obs :=
  match o with
  | OpGet None => (st, mkObs 1 true (vis_ver k (c_ver st)) true)
  | OpRetrieve None => (st, mkObs 2 true (vis_ver k (c_ver st)) true)
  | OpGet (Some s) =>
    let x := slot_inst st s in
    let r := touch k st x true in
    (fst r, mkObs 1 (N.eqb (w_inst (snd r)) x) (w_ver (snd r)) true)
  | OpRetrieve (Some s) =>
    let x := slot_inst st s in
    let r := touch k st x false in
    (fst r, mkObs 2 (N.eqb (w_inst (snd r)) x) (w_ver (snd r)) true)
  | OpCall s =>
    let x := slot_inst st s in
    let r := touch k st x false in
    (fst r, mkObs 3 (N.eqb (w_inst (snd r)) x) 0 true)
  | OpRedecorate =>
    (mkC (c_next st) (N.succ (c_ver st)) (c_slot0 st) (c_slot1 st) (c_cache st) (c_strong st)
         (c_weak st) (c_owner st) (c_locals st), mkObs 4 true 0 true)
  | OpDrop s =>
    let x := slot_inst st s in
    let locals' := filter (fun y => negb (owned_by st y x)) (c_locals st) in
    let r := collect (length (c_weak st)) (c_strong st) (c_weak st) (n_class :: locals') in
    let reclaimed := negb (mem x (snd r)) in
    let x' := c_next st in
    (mkC (N.succ x') (c_ver st) (if s then c_slot0 st else x') (if s then x' else c_slot1 st)
         (filter (fun e => existsb (fun w => N.eqb (we_val w) (w_id (snd e))) (fst r)) (c_cache st))
         (c_strong st) (fst r) (c_owner st) (x' :: locals'),
     mkObs 5 true 0 reclaimed)
  | OpConnect _ => (st, mkObs 6 true 0 true)
  end.

Fixpoint run_impl (k : dkind) (st : cstate) (h : list op) : list obs :=
  match h with
  | [] => []
  | o :: r => let so := impl_step k st o in snd so :: run_impl k (fst so) r
  end.

Fixpoint run_state (k : dkind) (st : cstate) (h : list op) : cstate :=
  match h with
  | [] => st
  | o :: r => run_state k (fst (impl_step k st o)) r
  end.

(* the specification: no cache, a fresh wrapper at every access *)
Definition spec_step (k : dkind) (ver : N) (o : op) : N * obs :=
  match o with
  | OpGet _ => (ver, mkObs 1 true (vis_ver k ver) true)
  | OpRetrieve _ => (ver, mkObs 2 true (vis_ver k ver) true)
  | OpCall _ => (ver, mkObs 3 true 0 true)
  | OpRedecorate => (N.succ ver, mkObs 4 true 0 true)
  | OpDrop _ => (ver, mkObs 5 true 0 true)
  | OpConnect _ => (ver, mkObs 6 true 0 true)
  end.

Fixpoint run_spec (k : dkind) (ver : N) (h : list op) : list obs :=
  match h with
  | [] => []
  | o :: r => let so := spec_step k ver o in snd so :: run_spec k (fst so) r
  end.

(* histories in which no re-decoration follows an instance access *)
Fixpoint no_redecorate_after_touch (touched : bool) (h : list op) : bool :=
  match h with
  | [] => true
  | OpRedecorate :: r => if touched then false else no_redecorate_after_touch touched r
  | OpGet (Some _) :: r | OpRetrieve (Some _) :: r | OpCall _ :: r => no_redecorate_after_touch true r
  | _ :: r => no_redecorate_after_touch touched r
  end.

(* canonical projection used by the correspondence check *)
Definition obs_code (o : obs) : N :=
  o_tag o * 1000 + (if o_ok o then 100 else 0) + (if o_reclaimed o then 10 else 0)
  + N.min (o_ver o) 9.
