(* ExecLoop.v -- Model/ExecTry.v EXTENDED WITH `for` LOOPS (constructor TFor, the predicates
   loop_free / loop_stable / loop_quiet).  It is a self-contained copy of that model (same names,
   its own module: import one of the two, not both); everything that is not about TFor is
   identical to Model/ExecTry.v, and for loop-free programs the two models coincide.
   Wrapper bodies with COMPOUND STATEMENT CONTEXTS around the flat statements of
   Model/Exec.v (the leaf language): try / except / else / finally, with, a call repeated by a
   comprehension, a `for` loop.  Exceptions are part of the semantics.  No proofs here.

   ---- grammar and the Python source each constructor stands for -------------------------
     TLeaf s                         the flat statement s (Model/Exec.v), rendered by [compile]
     TTry body (Some h) orelse final     try: <body>
                                         except <exc>: <h>
                                         else: <orelse>            (clause absent when orelse = [])
                                         finally: <final>          (clause absent when final = [])
     TTry body None orelse final         try: <body>
                                         finally: <final>          (`finally: pass` when final = [];
                                                                    orelse must be [] to be valid
                                                                    Python, see [wf_t])
     TWith body                          with <cm>(): <body>
     TRepeat s                           [<call of s> for <tgt> in <rng>(<constant>)]
                                         (an expression statement; s is a single-call statement
                                          that leaves the stars alone, see [repeatable])
     TRepeatMut m s                      [<call of s> for <tgt> in kwargs.<m>(<constant>)]
                                         (the iterable is a method call on the dict: it may
                                          mutate it, and it runs BEFORE the element)
     TRepeatShadow x s                   [<call of s> for kwargs in [<constant>]]    (x = SK)
                                         [<call of s> for args in [<constant>]]      (x = SA)
                                         (the loop TARGET is the star variable itself: inside the
                                          comprehension the name denotes the loop value)
     TFor body                           for <tgt> in <rng>(<constant>): <body>     (no else clause)
                                         The walker reads the body ONCE; the theorems need
                                         [loop_free] or [loop_stable] (one more pass of the
                                         abstract interpretation over the body changes nothing)
   An empty body / handler / with-body / loop-body list is the statement `pass`.
   <exc> <cm> <tgt> <rng> are four fixed names (record [tnames]; [default_tnames] = 60 61 62 63,
   to be read as  Exception / a context manager factory / the loop variable / range).

   ---- rendering (what ast.parse + the generic_visit conversion of the harness give) ------
   Children in _fields order, every node without a walker handler is NOpaque children:
     Try(body, handlers, orelse, finalbody)
        = NOpaque (B(body) ++ [ExceptHandler] (if a handler exists) ++ map compile_t orelse ++ F)
          ExceptHandler(type, name=None, body) = NOpaque (NName exc Load :: B(h))
          F = map compile_t final  with a handler,  B(final)  without
          B(l) = map compile_t l, or [NOpaque []] (Pass) when l = []
     With(items, body)
        = NOpaque (NOpaque [NCall (NName cm Load) [] []] :: B(body))
          (withitem(context_expr, optional_vars=None) = NOpaque [the call])
     For(target, iter, body, orelse=[])          (generic_visit: target, iter, body)
        = NOpaque (NName tgt Store :: NCall (NName rng Load) [const] [] :: B(body))
          (the walker meets the target before the iterable's call; both are unrelated names)
     Expr(value=ListComp(elt, generators=[comprehension(target, iter, ifs=[], is_async)]))
        since repair 562a505 the walker reads a comprehension in EVALUATION order (visit_ListComp:
        the for clauses, then the element; visit_comprehension: iter, target, ifs), and so does
        the conversion of the harness (children_in_visit_order):
        = NOpaque [NOpaque [ NOpaque [<iter>; <target>]; <elt call> ]]
          <elt call> = the Call node of s (compile s = Expr(value=Call) = NOpaque [call])
          TRepeat:        <iter> = NCall (NName rng Load) [const] []       <target> = NName tgt Store
          TRepeatMut:     <iter> = NCall (NAttr (NName vk Load) m) [const] []   <target> = NName tgt Store
          TRepeatShadow:  <iter> = NOpaque [const; ctxnode]  (ast.List(elts, ctx))
                          <target> = NName vk Store  /  NName va Store
        (before the repair generic_visit met the element first:
           NOpaque [NOpaque [ <elt call>; NOpaque [<target>; <iter>] ]]
         and the walker was UNSOUND on TRepeatMut and TRepeatShadow; the old order and its
         refutation are kept in Proofs/ExecTry.v and Proofs/ExecLoop.v, section OldOrder)

   ---- call sites ---------------------------------------------------------------------
   Numbered as the walker's call list is ordered = the order in which generic_visit meets the
   Call nodes of the rendered tree:
     TTry:    the calls of body, then of the handler, then orelse, then final;
     TWith:   the context expression cm() is ONE MORE site (first), then the calls of the body;
     TFor:    the iterable's call rng(<c>) is ONE MORE site (first, site off), then the calls of
              the body (from off + 1), listed once;
     TRepeat / TRepeatMut:  the iterable call rng(<c>) / kwargs.m(<c>) is ONE MORE site, the
              first (site off); the element call is site off + 1 -- the execution order;
     TRepeatShadow: no call in the iterable, the element call is site off.
   [tcalls] counts them.

   ---- execution semantics -------------------------------------------------------------
   An outcome is (final star state, call events in execution order, propagating): propagating
   = an exception is leaving the construct.
   * blocks ([seq_t] / [blk_t]): an exception may be raised after any prefix of the block: before
     its first statement (non-empty blocks) and after every statement that completed (for a call
     statement the event HAS happened: the callee raised).  A leaf is atomic in this respect (no
     exception from the middle of an SIf leaf).  The rest of the block is skipped.
   * TTry: body; if it raised and there is a handler, the handler runs and the exception is
     cleared (the handler may raise itself) -- or the handler does not match (BaseException)
     and is skipped; if the body completed, orelse runs (not protected by the handler); final
     always runs; the outcome propagates iff an exception is pending or final raises.
   * TWith: the event of cm(), then the body; cm() may raise after its event; exceptions of
     the body propagate (the context manager does not swallow them).
   * TFor body: the event of rng(c) (it may raise after its event), then the body runs k times in
     sequence, for every k in {0,1,2}, each round starting in the state the previous one left;
     an exception raised in a round leaves the loop (no else clause, no break / continue).
   * TRepeat s: the event of rng(c) (site off), then s runs k times (site off+1), for every k
     in {0,1,2} (an exception from the i-th round = the outcome for k = i followed by the
     raise-after-statement of the enclosing block).
   * TRepeatMut m s: the event of kwargs.m(c), which may mutate the dict, then as TRepeat.
   * TRepeatShadow x s: s runs once (the list literal has one element) in a state where the
     star x is NOT the caller's object (the name denotes the loop value); the comprehension has
     its own scope, so afterwards the star variable denotes what it did before.
   [run_t] starts from both stars pristine. *)
From Sigtools.Model Require Export Base Visitor Exec.

Inductive tstmt :=
| TLeaf (s : stmt)
| TTry (body : list tstmt) (handler : option (list tstmt)) (orelse final : list tstmt)
| TWith (body : list tstmt)
| TRepeat (s : stmt)
| TRepeatMut (m : N) (s : stmt)
| TRepeatShadow (x : star) (s : stmt)
| TFor (body : list tstmt).

(* statements that may be the element of the comprehension: one call expression, and running
   it does not change what the star variables denote *)
Definition repeatable (s : stmt) : bool :=
  match s with
  | SFwd _ _ _ _ _ | SOther _ | SPass _ SA | SMethod SA _ => true
  | _ => false
  end.

(* ---- list combinators (the function is a parameter of the fix: usable inside Fixpoints) ---- *)
Definition sumf {A} (f : A -> nat) : list A -> nat :=
  fix go (l : list A) : nat := match l with [] => O | x :: l' => (f x + go l')%nat end.

Definition noflags : flags := (false, false, false, false).

(* ---- counting call sites ---- *)
Fixpoint tcalls (x : tstmt) : nat :=
  match x with
  | TLeaf s => ncalls s
  | TTry b h o f =>
      (sumf tcalls b + (match h with Some hb => sumf tcalls hb | None => O end
                        + (sumf tcalls o + sumf tcalls f)))%nat
  | TWith b | TFor b => S (sumf tcalls b)
  | TRepeat s | TRepeatMut _ s => S (ncalls s)
  | TRepeatShadow _ s => ncalls s
  end.

Definition tcalls_block : list tstmt -> nat := sumf tcalls.

(* ---- execution semantics ---- *)
Definition outcome := (sem * list event * bool)%type.
Definition o_st (r : outcome) : sem := fst (fst r).
Definition o_ev (r : outcome) : list event := snd (fst r).
Definition o_prop (r : outcome) : bool := snd r.

(* r1 completed; the run goes on with [k] *)
Definition then_ (r1 : outcome) (k : sem -> list outcome) : list outcome :=
  map (fun r2 => (o_st r2, o_ev r1 ++ o_ev r2, o_prop r2)) (k (o_st r1)).

(* the statements of a block in sequence; after each one that completed, an exception may be
   raised; a propagating outcome skips the rest *)
Definition seq_t {A} (f : A -> nat -> sem -> list outcome) (cnt : A -> nat)
  : list A -> nat -> sem -> list outcome :=
  fix go (l : list A) (off : nat) (st : sem) : list outcome :=
    match l with
    | [] => [(st, [], false)]
    | x :: l' =>
        flat_map (fun r1 => if o_prop r1 then [r1]
                            else (o_st r1, o_ev r1, true) :: then_ r1 (go l' (off + cnt x)%nat))
                 (f x off st)
    end.

(* a block: a non-empty one may also be interrupted before its first statement *)
Definition blk_t {A} (f : A -> nat -> sem -> list outcome) (cnt : A -> nat)
           (l : list A) (off : nat) (st : sem) : list outcome :=
  match l with
  | [] => [(st, [], false)]
  | _ => (st, [], true) :: seq_t f cnt l off st
  end.

(* s executed n times, every call at the same site(s) *)
Fixpoint iter_stmt (n : nat) (off : nat) (s : stmt) (st : sem) : list (sem * list event) :=
  match n with
  | O => [(st, [])]
  | S n' =>
      flat_map (fun r1 => map (fun r2 => (fst r2, snd r1 ++ snd r2)) (iter_stmt n' off s (fst r1)))
               (exec_stmt (depth s) off s st)
  end.

Definition rounds : list nat := [0; 1; 2]%nat.

(* [run] executed n times in sequence; a propagating outcome leaves the loop *)
Definition loop_t (run : sem -> list outcome) : nat -> sem -> list outcome :=
  fix go (n : nat) (st : sem) : list outcome :=
    match n with
    | O => [(st, [], false)]
    | S n' => flat_map (fun r1 => if o_prop r1 then [r1] else then_ r1 (go n')) (run st)
    end.

Fixpoint exec_t (x : tstmt) (off : nat) (st : sem) : list outcome :=
  match x with
  | TLeaf s => map (fun r => (fst r, snd r, false)) (exec_stmt (depth s) off s st)
  | TTry body handler orelse final =>
      let oh := (off + sumf tcalls body)%nat in
      let oo := (oh + match handler with Some hb => sumf tcalls hb | None => O end)%nat in
      let ofin := (oo + sumf tcalls orelse)%nat in
      (* [final] after the run r, whose exception (if any) is still pending *)
      let fin := fun r : outcome =>
        map (fun rf => (o_st rf, o_ev r ++ o_ev rf, o_prop r || o_prop rf))
            (blk_t exec_t tcalls final ofin (o_st r)) in
      flat_map
        (fun rb =>
           if o_prop rb then
             match handler with
             | Some hb =>
                 flat_map (fun rh => fin (o_st rh, o_ev rb ++ o_ev rh, o_prop rh))
                          (blk_t exec_t tcalls hb oh (o_st rb))
             | None => []
             end
             ++ fin rb                           (* no handler, or it does not match *)
           else
             flat_map (fun ro => fin (o_st ro, o_ev rb ++ o_ev ro, o_prop ro))
                      (blk_t exec_t tcalls orelse oo (o_st rb)))
        (blk_t exec_t tcalls body off st)
  | TWith body =>
      let ev := mkEvent off None None in
      (st, [ev], true)
      :: map (fun r => (o_st r, ev :: o_ev r, o_prop r)) (seq_t exec_t tcalls body (S off) st)
  | TRepeat s =>
      let ev := mkEvent off None None in
      flat_map (fun k => map (fun r => (fst r, ev :: snd r, false)) (iter_stmt k (S off) s st)) rounds
  | TRepeatMut _ s =>
      let ev := mkEvent off None None in
      flat_map (fun k => map (fun r => (fst r, ev :: snd r, false))
                             (iter_stmt k (S off) s (taint_sem SK st))) rounds
  | TRepeatShadow x s =>
      map (fun r => (st, snd r, false)) (iter_stmt 1 off s (taint_sem x st))
  | TFor body =>
      let ev := mkEvent off None None in
      (st, [ev], true)
      :: flat_map (fun k => map (fun r => (o_st r, ev :: o_ev r, o_prop r))
                                (loop_t (seq_t exec_t tcalls body (S off)) k st)) rounds
  end.

Definition exec_tb : list tstmt -> nat -> sem -> list outcome := blk_t exec_t tcalls.

Definition run_t (l : list tstmt) : list outcome := exec_tb l 0 (mkSem true true).

(* ---- the walker's view as an abstract interpretation ---- *)
Definition thread {A} (f : A -> bool * bool -> (bool * bool) * list flags)
  : list A -> bool * bool -> (bool * bool) * list flags :=
  fix go (l : list A) (k : bool * bool) : (bool * bool) * list flags :=
    match l with
    | [] => (k, [])
    | x :: l' => let '(k1, f1) := f x k in let '(k2, f2) := go l' k1 in (k2, f1 ++ f2)
    end.

(* one pass in source order: body, handler, orelse, final *)
Fixpoint absint_t (x : tstmt) (k : bool * bool) : (bool * bool) * list flags :=
  match x with
  | TLeaf s => absint s k
  | TTry b h o f =>
      let '(k1, f1) := thread absint_t b k in
      let '(k2, f2) := match h with Some hb => thread absint_t hb k1 | None => (k1, []) end in
      let '(k3, f3) := thread absint_t o k2 in
      let '(k4, f4) := thread absint_t f k3 in
      (k4, f1 ++ f2 ++ f3 ++ f4)
  | TWith b | TFor b => let '(k1, f1) := thread absint_t b k in (k1, noflags :: f1)
  | TRepeat s => let '(k1, f1) := absint s k in (k1, noflags :: f1)
  | TRepeatMut _ s => let '(k1, f1) := absint s (taint_abs SK k) in (k1, noflags :: f1)
  | TRepeatShadow x s => absint s (taint_abs x k)
  end.

Definition absint_tb : list tstmt -> bool * bool -> (bool * bool) * list flags := thread absint_t.

(* ---- rendering as the mini-AST ---- *)
Record tnames := mkTN { tn_exc : N; tn_cm : N; tn_tgt : N; tn_rng : N }.
Definition default_tnames : tnames := mkTN 60 61 62 63.

Definition or_pass (l : list node) : list node :=
  match l with [] => [NOpaque []] | _ => l end.       (* ast.Pass *)

Section CompileT.
Variables va vk : N.
Variable nm : tnames.

(* the Call node of an expression statement *)
Definition call_of (s : stmt) : node :=
  match compile va vk s with NOpaque [c] => c | n => n end.

(* Expr(ListComp): the for clause (iterable, target), then the element *)
Definition comp_node (iter target elt : node) : node :=
  NOpaque [NOpaque [NOpaque [iter; target]; elt]].

Fixpoint compile_t (x : tstmt) : node :=
  match x with
  | TLeaf s => compile va vk s
  | TTry b h o f =>
      NOpaque (or_pass (map compile_t b)
               ++ match h with
                  | Some hb => [NOpaque (NName (tn_exc nm) Load :: or_pass (map compile_t hb))]
                  | None => []
                  end
               ++ map compile_t o
               ++ match h with
                  | Some _ => map compile_t f
                  | None => or_pass (map compile_t f)
                  end)
  | TWith b => NOpaque (NOpaque [NCall (NName (tn_cm nm) Load) [] []] :: or_pass (map compile_t b))
  | TRepeat s =>
      comp_node (NCall (NName (tn_rng nm) Load) [const] []) (NName (tn_tgt nm) Store) (call_of s)
  | TRepeatMut m s =>
      comp_node (NCall (NAttr (NName vk Load) m) [const] []) (NName (tn_tgt nm) Store) (call_of s)
  | TRepeatShadow x s =>
      comp_node (NOpaque [const; ctxnode]) (NName (sname va vk x) Store) (call_of s)
  | TFor b =>
      NOpaque (NName (tn_tgt nm) Store :: NCall (NName (tn_rng nm) Load) [const] []
               :: or_pass (map compile_t b))
  end.

Definition compile_tblock (l : list tstmt) : list node := map compile_t l.

Definition tname_ok (x : N) : bool := negb (N.eqb x va) && negb (N.eqb x vk).

(* the names the walker BINDS while it walks the contexts (the handler's type expression is a
   Name in Load context, visited; the loop variable is stored) are not the star variables *)
Definition fixed_ok : bool := tname_ok (tn_exc nm) && tname_ok (tn_tgt nm).

(* the fragment the theorems cover *)
Fixpoint names_ok_t (x : tstmt) : bool :=
  match x with
  | TLeaf s => names_ok va vk s
  | TTry b h o f =>
      forallb names_ok_t b
      && match h with Some hb => forallb names_ok_t hb | None => true end
      && forallb names_ok_t o && forallb names_ok_t f
  | TWith b | TFor b => forallb names_ok_t b
  | TRepeat s | TRepeatMut _ s | TRepeatShadow _ s => repeatable s && names_ok va vk s
  end.

Definition tblock_ok (l : list tstmt) : bool := forallb names_ok_t l.
End CompileT.

(* the rendered source is valid Python (what the harness should generate; the theorems do not
   need it): `else:` needs an `except` clause *)
Fixpoint wf_t (x : tstmt) : bool :=
  match x with
  | TTry b h o f =>
      forallb wf_t b && match h with Some hb => forallb wf_t hb | None => is_empty o end
      && forallb wf_t o && forallb wf_t f
  | TWith b | TFor b => forallb wf_t b
  | TRepeat s | TRepeatMut _ s | TRepeatShadow _ s => repeatable s
  | TLeaf _ => true
  end.

(* ---- loops: the hypotheses under which one pass over a loop body is enough ---- *)
(* no loop at all *)
Fixpoint loop_free (x : tstmt) : bool :=
  match x with
  | TTry b h o f =>
      forallb loop_free b && match h with Some hb => forallb loop_free hb | None => true end
      && forallb loop_free o && forallb loop_free f
  | TWith b => forallb loop_free b
  | TFor _ => false
  | _ => true
  end.
Definition tblock_loop_free (l : list tstmt) : bool := forallb loop_free l.

Definition flags_eqb (a b : flags) : bool :=
  let '(a1, a2, a3, a4) := a in let '(b1, b2, b3, b4) := b in
  Bool.eqb a1 b1 && Bool.eqb a2 b2 && Bool.eqb a3 b3 && Bool.eqb a4 b4.

Fixpoint flist_eqb (a b : list flags) : bool :=
  match a, b with
  | [], [] => true
  | x :: a', y :: b' => flags_eqb x y && flist_eqb a' b'
  | _, _ => false
  end.

Definition absres_eqb (x y : (bool * bool) * list flags) : bool :=
  Bool.eqb (fst (fst x)) (fst (fst y)) && Bool.eqb (snd (fst x)) (snd (fst y))
  && flist_eqb (snd x) (snd y).

(* a predicate of (statement, abstract state at its entry), threaded through a block *)
Definition thread_ok {A} (ok : A -> bool * bool -> bool)
           (step : A -> bool * bool -> (bool * bool) * list flags) : list A -> bool * bool -> bool :=
  fix go (l : list A) (k : bool * bool) : bool :=
    match l with
    | [] => true
    | x :: l' => ok x k && go l' (fst (step x k))
    end.

(* every loop body, entered in abstract state k (what the walker knows when it reaches the
   loop), is a fixed point after one pass: a second pass, started where the first one ended,
   ends in the same abstract state and computes the same flags -- checked for the loops nested
   in it too, in both passes *)
Fixpoint stable_t (x : tstmt) (k : bool * bool) : bool :=
  match x with
  | TTry b h o f =>
      let k1 := fst (thread absint_t b k) in
      let k2 := fst (match h with Some hb => thread absint_t hb k1 | None => (k1, []) end) in
      let k3 := fst (thread absint_t o k2) in
      thread_ok stable_t absint_t b k
      && match h with Some hb => thread_ok stable_t absint_t hb k1 | None => true end
      && thread_ok stable_t absint_t o k2 && thread_ok stable_t absint_t f k3
  | TWith b => thread_ok stable_t absint_t b k
  | TFor b =>
      let r1 := thread absint_t b k in
      thread_ok stable_t absint_t b k
      && absres_eqb (thread absint_t b (fst r1)) r1
      && thread_ok stable_t absint_t b (fst r1)
  | _ => true
  end.

Definition stable_tb : list tstmt -> bool * bool -> bool := thread_ok stable_t absint_t.
Definition loop_stable (l : list tstmt) : bool := stable_tb l (true, true).

(* a syntactic sufficient condition: loop bodies do not touch the star variables at all
   ([quiet_t]: the abstract state is left as it is) *)
Definition quiet (s : stmt) : bool :=
  match s with
  | SFwd _ _ _ _ _ | SOther _ | SPass _ SA | SAlias _ SA => true
  | _ => false
  end.

Fixpoint quiet_t (x : tstmt) : bool :=
  match x with
  | TLeaf s | TRepeat s => quiet s
  | TTry b h o f =>
      forallb quiet_t b && match h with Some hb => forallb quiet_t hb | None => true end
      && forallb quiet_t o && forallb quiet_t f
  | TWith b | TFor b => forallb quiet_t b
  | TRepeatMut _ _ | TRepeatShadow _ _ => false
  end.

Fixpoint loop_quiet (x : tstmt) : bool :=
  match x with
  | TTry b h o f =>
      forallb loop_quiet b && match h with Some hb => forallb loop_quiet hb | None => true end
      && forallb loop_quiet o && forallb loop_quiet f
  | TWith b => forallb loop_quiet b
  | TFor b => forallb quiet_t b && forallb loop_quiet b
  | _ => true
  end.
Definition tblock_loop_quiet (l : list tstmt) : bool := forallb loop_quiet l.

(* the walker's flags for  def w( *va, **vk ): <block> *)
Definition visitor_flags_t (va vk : N) (nm : tnames) (l : list tstmt) : option (list flags) :=
  match visit_function [] [] (Some va) (Some vk) (compile_tblock va vk nm l) with
  | Some calls => Some (map (fun c => (c_use_varargs c, c_use_varkwargs c, c_hide_args c, c_hide_kwargs c)) calls)
  | None => None
  end.

(* ---- numeric rendering for the correspondence run (as exec_report_n; every outcome row has
   one more number, the propagating bit:  pr_a pr_k propagating #events (site a k)* ; the
   outcomes are a SET: equal rows are listed once, in order of first occurrence) ---- *)
Definition outcome_row (r : outcome) : list N :=
  [bN (pr_a (o_st r)); bN (pr_k (o_st r)); bN (o_prop r); N.of_nat (length (o_ev r))]
  ++ flat_map (fun ev => [N.of_nat (ev_site ev); obN (ev_a ev); obN (ev_k ev)]) (o_ev r).

Fixpoint row_eqb (a b : list N) : bool :=
  match a, b with
  | [], [] => true
  | x :: a', y :: b' => N.eqb x y && row_eqb a' b'
  | _, _ => false
  end.

Fixpoint dedup_rows (seen : list (list N)) (l : list (list N)) : list (list N) :=
  match l with
  | [] => []
  | x :: l' => if existsb (row_eqb x) seen then dedup_rows seen l' else x :: dedup_rows (x :: seen) l'
  end.

Definition exec_report_t (va vk : N) (l : list tstmt) : list N :=
  let body := compile_tblock va vk default_tnames l in
  let e := flat_map enc body in
  let fl := match visitor_flags_t va vk default_tnames l with
            | Some fs => [1%N; N.of_nat (length fs)]
                         ++ flat_map (fun f => let '(a, b, c, d) := f in [bN a; bN b; bN c; bN d]) fs
            | None => [0%N]
            end in
  let rows := dedup_rows [] (map outcome_row (run_t l)) in
  [N.of_nat (length body); N.of_nat (length e)] ++ e ++ fl ++ [N.of_nat (length rows)]
  ++ concat rows.
