(* Modifiers.v — sigtools.modifiers._PokTranslator (kwoargs / posoargs /
   autokwoargs), written line by line from sigtools/modifiers.py, plus a
   value-level model of CPython's argument binding.  No proofs here.

   Conventions
   * a Python set of names is a list; only membership and emptiness are used
     (Proofs/Modifiers.v shows `prepare` depends on nothing else);
   * TypeError is [TypeErr] = OtherErr 1;
   * argument values, default values and names are interned numbers. *)
From Sigtools.Model Require Export Base Bind Algebra.

Definition TypeErr : err := OtherErr 1.

(* ------------------------------------------------------------------ sets *)
Definition set_add (x : name) (s : list name) : list name :=
  if mem x s then s else s ++ [x].
Definition set_union (a b : list name) : list name := fold_left (fun s x => set_add x s) b a.
(* set.remove(x) on a list representation that may hold x several times *)
Definition set_remove (x : name) (s : list name) : list name :=
  filter (fun y => negb (N.eqb x y)) s.
Definition set_inter (a b : list name) : list name := filter (fun x => mem x b) a.
Definition is_nil {A} (l : list A) : bool := match l with [] => true | _ => false end.

(* ------------------------------------------------------------------ _prepare *)
Record pstate := mkPS {
  st_params : list param;          (* params *)
  st_kwoparams : list param;       (* kwoparams *)
  st_kwopos : list (nat * param);  (* self.kwopos *)
  st_found_pok : bool;
  st_found_kws : bool;
  st_to_use : list name
}.

(* one iteration of `for i, param in enumerate(sig.parameters.values())` *)
Definition prep_step (posos kwos : list name) (i : nat) (p : param) (st : pstate) : res pstate :=
  match pkind p with
  | PK =>
      if mem (pname p) posos then
        if st_found_pok st then Err ValueErr
        else Ok (mkPS (st_params st ++ [set_kind PO p]) (st_kwoparams st) (st_kwopos st)
                      (st_found_pok st) (st_found_kws st) (set_remove (pname p) (st_to_use st)))
      else if mem (pname p) kwos then
        Ok (mkPS (st_params st) (st_kwoparams st ++ [set_kind KO p]) (st_kwopos st ++ [(i, p)])
                 (st_found_pok st) (st_found_kws st) (set_remove (pname p) (st_to_use st)))
      else
        Ok (mkPS (st_params st ++ [p]) (st_kwoparams st) (st_kwopos st)
                 true (st_found_kws st) (st_to_use st))
  | k =>
      do tu <- (if mem (pname p) (st_to_use st) then
                  if kind_eqb k PO && mem (pname p) posos then Ok (set_remove (pname p) (st_to_use st))
                  else if kind_eqb k KO && mem (pname p) kwos then Ok (set_remove (pname p) (st_to_use st))
                  else Err ValueErr
                else Ok (st_to_use st)) ;;
      if kind_eqb k VK then
        Ok (mkPS ((st_params st ++ st_kwoparams st) ++ [p]) (st_kwoparams st) (st_kwopos st)
                 (st_found_pok st) true tu)
      else
        Ok (mkPS (st_params st ++ [p]) (st_kwoparams st) (st_kwopos st)
                 (st_found_pok st) (st_found_kws st) tu)
  end.

Fixpoint prep_loop (posos kwos : list name) (ps : list param) (i : nat) (st : pstate)
  : res pstate :=
  match ps with
  | [] => Ok st
  | p :: ps' => do st' <- prep_step posos kwos i p st ;; prep_loop posos kwos ps' (S i) st'
  end.

(* _prepare: advertised parameters and kwopos, or ValueError *)
Definition prepare (ps : list param) (posos kwos : list name)
  : res (list param * list (nat * param)) :=
  if negb (is_nil (set_inter posos kwos)) then Err ValueErr
  else
    do st <- prep_loop posos kwos ps 0%nat (mkPS [] [] [] false false (posos ++ kwos)) ;;
    let params := if st_found_kws st then st_params st else st_params st ++ st_kwoparams st in
    if negb (is_nil (st_to_use st)) then Err ValueErr
    else if validate params then Ok (params, st_kwopos st)     (* sig.replace(parameters=...) *)
    else Err ValueErr.

(* _merge_other: stacking two translators *)
Definition merge_other (posos kwos posos' kwos' : list name) : list name * list name :=
  (set_union posos posos', set_union kwos kwos').

(* ------------------------------------------------------------------ __call__ *)
Definition kwargs := list (name * N).

Fixpoint klookup (k : name) (kws : kwargs) : option N :=
  match kws with
  | [] => None
  | (k', v) :: kws' => if N.eqb k k' then Some v else klookup k kws'
  end.
Definition kmem (k : name) (kws : kwargs) : bool := isSome (klookup k kws).
(* kwargs.pop(k) *)
Fixpoint kremove (k : name) (kws : kwargs) : kwargs :=
  match kws with
  | [] => []
  | (k', v) :: kws' => if N.eqb k k' then kremove k kws' else (k', v) :: kremove k kws'
  end.

(* list.insert(pos, v) *)
Fixpoint insert_at (pos : nat) (v : N) (l : list N) : list N :=
  match pos, l with
  | O, _ => v :: l
  | S n, x :: l' => x :: insert_at n v l'
  | S _, [] => [v]
  end.

(* `for pos, param in self.kwopos:` — state (args, kwargs, missing) *)
Fixpoint call_loop (kp : list (nat * param)) (args : list N) (kws : kwargs)
         (missing : list name) : list N * kwargs * list name :=
  match kp with
  | [] => (args, kws, missing)
  | (pos, p) :: kp' =>
      match klookup (pname p) kws with
      | Some v =>
          if Nat.ltb pos (length args)
          then call_loop kp' (insert_at pos v args) (kremove (pname p) kws) missing
          else call_loop kp' args kws missing
      | None =>
          match pdef p with
          | None => call_loop kp' args kws (missing ++ [pname p])
          | Some d =>
              if Nat.ltb pos (length args)
              then call_loop kp' (insert_at pos d args) kws missing
              else call_loop kp' args kws missing
          end
      end
  end.

(* the arguments self.func is finally called with, or TypeError *)
Definition pok_call (kp : list (nat * param)) (posos : list name) (args : list N)
           (kws : kwargs) : res (list N * kwargs) :=
  if negb (is_nil (set_inter posos (map fst kws))) then Err TypeErr
  else
    match call_loop kp args kws [] with
    | (args', kws', []) => Ok (args', kws')
    | (_, _, _ :: _) => Err TypeErr
    end.

(* ------------------------------------------------------------------ front ends *)
(* _kwoargs_start: the kwoarg_names set, or ValueError when start is not found *)
Fixpoint start_loop (ps : list param) (start : name) (found : bool) (acc : list name)
  : bool * list name :=
  match ps with
  | [] => (found, acc)
  | p :: ps' =>
      match pkind p with
      | PK => if found || N.eqb (pname p) start
              then start_loop ps' start true (set_add (pname p) acc)
              else start_loop ps' start found acc
      | PO => start_loop ps' start found acc
      | _ => (found, acc)            (* break: no more POKs now *)
      end
  end.
Definition kwoargs_start (ps : list param) (start : name) (names0 : list name)
  : res (list name) :=
  match start_loop ps start false (set_union [] names0) with
  | (true, acc) => Ok acc
  | (false, _) => Err ValueErr
  end.

(* _posoargs_end *)
Fixpoint end_loop (ps : list param) (end_ : name) (found : bool) (acc : list name)
  : bool * list name :=
  match ps with
  | [] => (found, acc)
  | p :: ps' =>
      match pkind p with
      | PK => let acc' := if found then acc else set_add (pname p) acc in
              end_loop ps' end_ (found || N.eqb (pname p) end_) acc'
      | PO => end_loop ps' end_ found acc
      | _ => (found, acc)
      end
  end.
Definition posoargs_end (ps : list param) (end_ : name) (names0 : list name)
  : res (list name) :=
  match end_loop ps end_ false (set_union [] names0) with
  | (true, acc) => Ok acc
  | (false, _) => Err ValueErr
  end.

(* _autokwoargs: the names handed to kwoargs( *args ), or ValueError *)
Fixpoint auto_loop (ps : list param) (exc : list name) (args : list name)
  : list name * list name :=
  match ps with
  | [] => (exc, args)
  | p :: ps' =>
      if kind_eqb (pkind p) PK && has_def p then
        if mem (pname p) exc then auto_loop ps' (set_remove (pname p) exc) args
        else auto_loop ps' exc (args ++ [pname p])
      else auto_loop ps' exc args
  end.
Definition autokwoargs_names (ps : list param) (exceptions : list name) : res (list name) :=
  match auto_loop ps exceptions [] with
  | ([], args) => Ok args
  | (_ :: _, _) => Err ValueErr
  end.

(* A decorator form and the (posoargs, kwoargs) name sets it hands to
   _PokTranslator for a function with parameters ps. *)
Inductive form :=
| FExplicit (posos kwos : list name)        (* posoargs( *p ) / kwoargs( *k ), possibly stacked *)
| FStart (start : name) (names0 : list name)  (* kwoargs(start=..., *names0) *)
| FEnd (end_ : name) (names0 : list name)     (* posoargs(end=..., *names0) *)
| FAuto (exceptions : list name).             (* autokwoargs(exceptions=...) *)

Definition select (ps : list param) (f : form) : res (list name * list name) :=
  match f with
  | FExplicit posos kwos => Ok (posos, kwos)
  | FStart s n0 => do k <- kwoargs_start ps s n0 ;; Ok ([], k)
  | FEnd e n0 => do p <- posoargs_end ps e n0 ;; Ok (p, [])
  | FAuto ex => do k <- autokwoargs_names ps ex ;; Ok ([], k)
  end.

(* _PokTranslator.__new__ returns func itself when both sets are empty *)
Definition decorate (ps : list param) (f : form)
  : res (list param * list (nat * param) * list name) :=
  do pk <- select ps f ;;
  let '(posos, kwos) := pk in
  match posos, kwos with
  | [], [] => Ok (ps, [], [])
  | _, _ => do r <- prepare ps posos kwos ;; Ok (fst r, snd r, posos)
  end.

(* OverrideableDataDesc.__get__ on an instance: the translator is rebuilt
   around the bound method, whose parameters are the function's without the
   first positional one.  Explicit and auto forms reuse the name sets
   (parameters()), the start / end forms rerun their selection
   (get=partial(_kwoargs_start, ...)). *)
Definition drop_first (ps : list param) : list param :=
  match ps with
  | p :: ps' => if is_positional p then ps' else ps
  | [] => []
  end.

Definition decorate_bound (ps : list param) (f : form)
  : res (list param * list (nat * param) * list name) :=
  do _ <- decorate ps f ;;              (* the class-level decoration comes first *)
  do pk <- select ps f ;;
  let '(posos, kwos) := pk in
  match posos, kwos with
  | [], [] => Ok (drop_first ps, [], [])
  | _, _ =>
      do pk' <- (match f with
                 | FStart _ _ | FEnd _ _ => select (drop_first ps) f
                 | _ => Ok pk
                 end) ;;
      do r <- prepare (drop_first ps) (fst pk') (snd pk') ;; Ok (fst r, snd r, fst pk')
  end.

(* ------------------------------------------------------------------ CPython binding on values *)
Inductive bval :=
| BV (v : N)                 (* an argument or a default *)
| BTup (l : list N)          (* *args *)
| BDict (l : kwargs).        (* **kwargs *)

Definition env := list (name * bval).

(* keywords that name no keyword-passable parameter: they go to **kwargs *)
Definition kw_extra (all : list param) (kws : kwargs) : kwargs :=
  filter (fun kv => negb (kwpassable_name all (fst kv))) kws.

Definition opt_cons {A} (x : A) (o : option (list A * list N)) : option (list A * list N) :=
  match o with Some (l, r) => Some (x :: l, r) | None => None end.

(* binds the parameters ps in order, consuming positional arguments;
   returns the bindings and the positional arguments left over *)
Fixpoint bind_params (all ps : list param) (args : list N) (kws : kwargs)
  : option (env * list N) :=
  match ps with
  | [] => Some ([], args)
  | p :: ps' =>
      match pkind p with
      | PO =>
          match args with
          | a :: args' => opt_cons (pname p, BV a) (bind_params all ps' args' kws)
          | [] => match pdef p with
                  | Some d => opt_cons (pname p, BV d) (bind_params all ps' [] kws)
                  | None => None
                  end
          end
      | PK =>
          match args with
          | a :: args' =>
              if kmem (pname p) kws then None       (* multiple values *)
              else opt_cons (pname p, BV a) (bind_params all ps' args' kws)
          | [] =>
              match klookup (pname p) kws with
              | Some v => opt_cons (pname p, BV v) (bind_params all ps' [] kws)
              | None =>
                  match pdef p with
                  | Some d => opt_cons (pname p, BV d) (bind_params all ps' [] kws)
                  | None => None
                  end
              end
          end
      | VP => opt_cons (pname p, BTup args) (bind_params all ps' [] kws)
      | KO =>
          match klookup (pname p) kws with
          | Some v => opt_cons (pname p, BV v) (bind_params all ps' args kws)
          | None =>
              match pdef p with
              | Some d => opt_cons (pname p, BV d) (bind_params all ps' args kws)
              | None => None
              end
          end
      | VK => opt_cons (pname p, BDict (kw_extra all kws)) (bind_params all ps' args kws)
      end
  end.

(* calling f with args and kws for a function with parameters ps: the local variables, or
   None for TypeError.  kws has pairwise different names (Python guarantees it). *)
Definition bindv (ps : list param) (args : list N) (kws : kwargs) : option env :=
  if has_kind VK ps || is_nil (kw_extra ps kws) then
    match bind_params ps ps args kws with
    | Some (e, []) => Some e
    | Some (_, _ :: _) => None        (* too many positional arguments *)
    | None => None
    end
  else None.                          (* unexpected keyword argument *)

Fixpoint elookup (x : name) (e : env) : option bval :=
  match e with
  | [] => None
  | (y, v) :: e' => if N.eqb x y then Some v else elookup x e'
  end.

(* the same bindings listed in the order of the names ns *)
Definition reorder (ns : list name) (e : env) : list (name * option bval) :=
  map (fun x => (x, elookup x e)) ns.

(* calls excluded by the property: a keyword naming a positional-only parameter
   of the advertised signature while it has **kwargs *)
Definition excluded (adv : list param) (kws : kwargs) : bool :=
  has_kind VK adv
  && existsb (fun kv => existsb (fun p => is_kind PO p && N.eqb (fst kv) (pname p)) adv) kws.

(* what calling the decorated function does: shuffle, then call the function *)
Definition decorated_call (ps : list param) (kp : list (nat * param)) (posos : list name)
           (args : list N) (kws : kwargs) : option env :=
  match pok_call kp posos args kws with
  | Ok (args', kws') => bindv ps args' kws'
  | Err _ => None
  end.

(* ------------------------------------------------------------------ the descriptor cache *)
(* OverrideableDataDesc: every translator owns its `insts` dictionary (created
   in __init__), whose keys are the functions that type(self.func).__get__
   produced (the function itself for class access, the bound method for
   instance access).  All the dictionaries together are one table keyed by
   (translator, function).  [build t f] stands for what a miss stores:
   `self` when f is self.func, otherwise custom_getter(f, original=self).
   Weak-reference eviction is not modelled (it only removes entries). *)
Definition ckey := (N * N)%type.          (* translator id, function id *)
Definition ckey_eqb (a b : ckey) : bool := N.eqb (fst a) (fst b) && N.eqb (snd a) (snd b).

Fixpoint cache_get {V} (c : list (ckey * V)) (k : ckey) : option V :=
  match c with
  | [] => None
  | (k', v) :: c' => if ckey_eqb k k' then Some v else cache_get c' k
  end.
Definition cache_set {V} (c : list (ckey * V)) (k : ckey) (v : V) : list (ckey * V) := (k, v) :: c.

(* __get__ : try self.insts[func], else build, store, return *)
Definition desc_get {V} (build : N -> N -> V) (c : list (ckey * V)) (t f : N)
  : V * list (ckey * V) :=
  match cache_get c (t, f) with
  | Some v => (v, c)
  | None => let v := build t f in (v, cache_set c (t, f) v)
  end.

(* a history of lookups (translator, function), in order *)
Fixpoint desc_gets {V} (build : N -> N -> V) (c : list (ckey * V)) (h : list (N * N))
  : list V * list (ckey * V) :=
  match h with
  | [] => ([], c)
  | (t, f) :: h' =>
      let r := desc_get build c t f in
      let rs := desc_gets build (snd r) h' in
      (fst r :: fst rs, snd rs)
  end.
