(* Visitor.v — sigtools/_autoforwards.py: Namespace, markers, CallListerVisitor,
   written line by line from the code (current /repo tree).  No proofs here.

   The harness converts a real `ast` tree into the inductive [node] following
   exactly what ast.NodeVisitor.generic_visit does (children in _fields order);
   only the node types for which CallListerVisitor has a handler are
   distinguished, everything else is [NOpaque children].

   Modelling conventions
   * marker objects are mutable and compared by identity in the code
     (`found == original`, `.tainted = node`): every Arg marker carries a unique
     id [uid]; the set of tainted Arg markers is part of the visitor state.
     Name / Attribute markers are created fresh on every resolution and are
     never tainted by the code, Unknown carries no observable data.
   * Namespace objects are mutable and shared (nonlocals, parents, deferred
     calls keep a reference): they live in a heap [v_frames], addressed by index.
   * `if self.parent:` in Namespace.__getitem__ is a truth test on a
     MutableMapping: an EMPTY parent namespace stops the lookup (kept). *)
From Sigtools.Model Require Export Base.

Inductive ctx := Load | Store | Del.

Inductive node :=
| NName (id : N) (c : ctx)
| NAttr (value : node) (attr : N)
| NCall (func : node) (args : list node) (kws : list node)   (* kws: NKeyword only *)
| NStarred (value : node)
| NKeyword (arg : option N) (value : node)
| NFunc (fargs : list N) (fkwonly : list N) (fvararg : option N) (fkwarg : option N)
        (body : list node)                                   (* FunctionDef and Lambda *)
| NNonlocal (names : list N)
| NOpaque (children : list node).

Inductive marker :=
| MName (id : N)
| MAttr (v : marker) (attr : N)
| MArg (uid : nat) (name : N)
| MUnknown.

Fixpoint marker_eqb (a b : marker) : bool :=
  match a, b with
  | MName x, MName y => N.eqb x y
  | MAttr v x, MAttr w y => marker_eqb v w && N.eqb x y
  | MArg u x, MArg w y => Nat.eqb u w && N.eqb x y
  | MUnknown, MUnknown => true
  | _, _ => false
  end.

(* object identity of markers: only Arg markers are ever compared with `==`
   against self.varargs / self.varkwargs (which are Arg markers or None) *)
Definition same_object (found : marker) (original : option marker) : bool :=
  match found, original with
  | MArg u _, Some (MArg w _) => Nat.eqb u w
  | _, _ => false
  end.

Record frame := mkFrame {
  f_parent : option nat;
  f_names : list (N * marker);
  f_nonlocals : list (N * nat);
  f_immut : list N
}.

Record callrec := mkCallRec {
  c_wrapped : marker;
  c_args : list marker;
  c_kwargs : list (N * marker);
  c_varargs : option marker;
  c_varkwargs : option marker;
  c_use_varargs : bool; c_use_varkwargs : bool;
  c_hide_args : bool; c_hide_kwargs : bool
}.

Record vstate := mkV {
  v_frames : list frame;
  v_cur : nat;
  v_calls : list callrec;            (* in append order *)
  v_todo : list (node * nat);        (* to_revisit: (call node, namespace) *)
  v_taint : list nat;                (* uids of Arg markers whose .tainted is set *)
  v_next : nat;                      (* next fresh marker uid *)
  v_varargs : option marker;
  v_varkwargs : option marker;
  v_rev : bool                       (* self.revisiting: the deferred calls are being processed *)
}.

Definition set_frames st fs := mkV fs (v_cur st) (v_calls st) (v_todo st) (v_taint st) (v_next st) (v_varargs st) (v_varkwargs st) (v_rev st).
Definition set_cur st c := mkV (v_frames st) c (v_calls st) (v_todo st) (v_taint st) (v_next st) (v_varargs st) (v_varkwargs st) (v_rev st).
Definition add_call st c := mkV (v_frames st) (v_cur st) (v_calls st ++ [c]) (v_todo st) (v_taint st) (v_next st) (v_varargs st) (v_varkwargs st) (v_rev st).
Definition set_todo st t := mkV (v_frames st) (v_cur st) (v_calls st) t (v_taint st) (v_next st) (v_varargs st) (v_varkwargs st) (v_rev st).
Definition add_taint st u := mkV (v_frames st) (v_cur st) (v_calls st) (v_todo st) (u :: v_taint st) (v_next st) (v_varargs st) (v_varkwargs st) (v_rev st).
Definition bump st := mkV (v_frames st) (v_cur st) (v_calls st) (v_todo st) (v_taint st) (S (v_next st)) (v_varargs st) (v_varkwargs st) (v_rev st).
Definition set_stars st va vk := mkV (v_frames st) (v_cur st) (v_calls st) (v_todo st) (v_taint st) (v_next st) va vk (v_rev st).
Definition set_rev st b := mkV (v_frames st) (v_cur st) (v_calls st) (v_todo st) (v_taint st) (v_next st) (v_varargs st) (v_varkwargs st) b.

Definition empty_frame (parent : option nat) : frame := mkFrame parent [] [] [].

Definition get_frame (fs : list frame) (i : nat) : frame := nth i fs (empty_frame None).

Fixpoint update_nth {A} (l : list A) (i : nat) (x : A) : list A :=
  match l, i with
  | [], _ => []
  | _ :: l', O => x :: l'
  | y :: l', S i' => y :: update_nth l' i' x
  end.

Fixpoint assoc {A} (k : N) (l : list (N * A)) : option A :=
  match l with
  | [] => None
  | (k', v) :: l' => if N.eqb k k' then Some v else assoc k l'
  end.

Fixpoint assoc_set {A} (k : N) (v : A) (l : list (N * A)) : list (N * A) :=
  match l with
  | [] => [(k, v)]
  | (k', v') :: l' => if N.eqb k k' then (k, v) :: l' else (k', v') :: assoc_set k v l'
  end.

Fixpoint remove_N (k : N) (l : list N) : list N :=
  match l with
  | [] => []
  | x :: l' => if N.eqb k x then remove_N k l' else x :: remove_N k l'
  end.

Definition is_some {A} (o : option A) : bool := match o with Some _ => true | None => false end.
Definition is_empty {A} (l : list A) : bool := match l with [] => true | _ => false end.

(* ns = self.nonlocals.get(name, self) *)
Definition target_of (fs : list frame) (fid : nat) (name : N) : nat :=
  match assoc name (f_nonlocals (get_frame fs fid)) with
  | Some t => t
  | None => fid
  end.

(* Namespace.__getitem__ ; None = KeyError.  fuel bounds the parent chain. *)
Fixpoint ns_lookup (fuel : nat) (fs : list frame) (fid : nat) (name : N) : option marker :=
  match fuel with
  | O => None
  | S fuel' =>
      let f := get_frame fs fid in
      match assoc name (f_names (get_frame fs (target_of fs fid name))) with
      | Some m => Some m
      | None =>
          match f_parent f with
          | Some p =>
              (* `if self.parent:` — an empty mapping is falsy *)
              if is_empty (f_names (get_frame fs p)) then None
              else ns_lookup fuel' fs p name
          | None => None
          end
      end
  end.

(* self.namespace.get(id, Name(id)) *)
Definition ns_get (st : vstate) (id : N) : marker :=
  match ns_lookup (S (length (v_frames st))) (v_frames st) (v_cur st) id with
  | Some m => m
  | None => MName id
  end.

(* Namespace.__setitem__ *)
Definition ns_set (st : vstate) (name : N) (m : marker) : vstate :=
  let fs := v_frames st in
  let t := target_of fs (v_cur st) name in
  let f := get_frame fs t in
  set_frames st (update_nth fs t (mkFrame (f_parent f) (assoc_set name m (f_names f))
                                          (f_nonlocals f) (remove_N name (f_immut f)))).

Definition ns_is_immutable (st : vstate) (name : N) : bool :=
  let fs := v_frames st in
  mem name (f_immut (get_frame fs (target_of fs (v_cur st) name))).

Definition ns_set_immutable (st : vstate) (name : N) : vstate :=
  let fs := v_frames st in
  let t := target_of fs (v_cur st) name in
  let f := get_frame fs t in
  set_frames st (update_nth fs t (mkFrame (f_parent f) (f_names f) (f_nonlocals f)
                                          (name :: f_immut f))).

(* Namespace.add_nonlocal: first ancestor that has the name in .names *)
Fixpoint find_ancestor (fuel : nat) (fs : list frame) (ns : option nat) (name : N) : option nat :=
  match fuel with
  | O => None
  | S fuel' =>
      match ns with
      | None => None
      | Some i =>
          match assoc name (f_names (get_frame fs i)) with
          | Some _ => Some i
          | None => find_ancestor fuel' fs (f_parent (get_frame fs i)) name
          end
      end
  end.

Definition ns_add_nonlocal (st : vstate) (name : N) : vstate :=
  let fs := v_frames st in
  let cur := v_cur st in
  let f := get_frame fs cur in
  match find_ancestor (S (length fs)) fs (f_parent f) name with
  | Some a =>
      set_frames st (update_nth fs cur (mkFrame (f_parent f) (f_names f)
                                                (assoc_set name a (f_nonlocals f)) (f_immut f)))
  | None =>
      (* refers to a variable outside the function being examined:
         self.names[name] = Name(name), directly *)
      set_frames st (update_nth fs cur (mkFrame (f_parent f) (assoc_set name (MName name) (f_names f))
                                                (f_nonlocals f) (f_immut f)))
  end.

(* Marker.get_untainted *)
Definition get_untainted (st : vstate) (m : marker) : marker :=
  match m with
  | MArg u _ => if existsb (Nat.eqb u) (v_taint st) then MUnknown else m
  | _ => m
  end.

(* visit_Name *)
Definition visit_name (id : N) (c : ctx) (st : vstate) : vstate :=
  let immutable := ns_is_immutable st id in
  let is_load := match c with Load => true | _ => false end in
  if immutable && is_load then st else ns_set st id MUnknown.

(* process_parameters *)
Definition fresh_arg (st : vstate) (name : N) : marker * vstate :=
  (MArg (v_next st) name, bump st).

Definition process_parameters (main : bool) (fargs fkwonly : list N) (va kw : option N)
           (st : vstate) : vstate :=
  let bind_one := fun st name =>
    if main then let '(m, st1) := fresh_arg st name in ns_set st1 name m
    else ns_set st name MUnknown in
  let st1 := fold_left bind_one fargs st in
  let st2 := fold_left bind_one fkwonly st1 in
  let '(mva, st3) :=
    match va with
    | Some name => let '(m, s) := fresh_arg st2 name in
                   (Some m, ns_set_immutable (ns_set s name m) name)
    | None => (None, st2)
    end in
  let '(mvk, st4) :=
    match kw with
    | Some name => let '(m, s) := fresh_arg st3 name in (Some m, ns_set s name m)
    | None => (None, st3)
    end in
  if main then set_stars st4 mva mvk else st4.

(* has_hide_starargs(found, original) -> (use, hide) *)
Definition has_hide (found : option marker) (original : option marker) : bool * bool :=
  match found with
  | Some m => if same_object m original then (true, false) else (false, true)
  | None => (false, false)
  end.

(* base of an attribute chain *)
Fixpoint attr_base (m : marker) : marker :=
  match m with MAttr v _ => attr_base v | _ => m end.

Definition is_attr (m : marker) : bool := match m with MAttr _ _ => true | _ => false end.

(* get_starargs / get_kwargs *)
Inductive starsel := StarNone | StarOne (value : node) | StarMany.

Fixpoint starred_values (args : list node) : list node :=
  match args with
  | [] => []
  | NStarred v :: l => v :: starred_values l
  | _ :: l => starred_values l
  end.

Fixpoint dstar_values (kws : list node) : list node :=
  match kws with
  | [] => []
  | NKeyword None v :: l => v :: dstar_values l
  | _ :: l => dstar_values l
  end.

Definition sel_of (l : list node) : starsel :=
  match l with [] => StarNone | [v] => StarOne v | _ => StarMany end.

(* resolve_name(name, ro, tainted): for Name / Attribute nodes see [resolve_na];
   for any other node resolve_name returns Unknown(name) and visits the node.
   Parametrised by the two recursive functions so that it can be used inside
   their definition (the guard checker unfolds it). *)
Definition res_with (walk0 : node -> vstate -> vstate)
           (resolve0 : node -> bool -> bool -> vstate -> marker * vstate)
           (n : node) (ro t : bool) (s : vstate) : marker * vstate :=
  match n with
  | NName _ _ | NAttr _ _ => resolve0 n ro t s
  | _ => (MUnknown, walk0 n s)
  end.

Fixpoint walk (force : bool) (n : node) (st : vstate) {struct n} : vstate :=
  match n with
  | NName id c => visit_name id c st
  | NAttr _ _ => st                                  (* visit_Attribute: pass *)
  | NNonlocal names => fold_left ns_add_nonlocal names st
  | NFunc fargs fkwonly va kw body =>
      let fs := v_frames st in
      let parent := v_cur st in
      let st1 := set_cur (set_frames st (fs ++ [empty_frame (Some parent)])) (length fs) in
      let st2 := process_parameters false fargs fkwonly va kw st1 in
      let st3 := (fix go (l : list node) (s : vstate) : vstate :=
                    match l with [] => s | x :: l' => go l' (walk false x s) end) body st2 in
      (* self.namespace = self.namespace.parent *)
      match f_parent (get_frame (v_frames st3) (v_cur st3)) with
      | Some p => set_cur st3 p
      | None => st3
      end
  | NCall func args kws =>
      if negb force && negb (v_rev st) && is_some (f_parent (get_frame (v_frames st) (v_cur st))) then
        (* visit_Call in a nested scope: deferred *)
        set_todo st (v_todo st ++ [(n, v_cur st)])
      else
        (* process_Call *)
        let '(wrapped, st1) := res_with (walk false) resolve_na func true true st in
        let st2 :=
          if is_attr wrapped then
            match attr_base wrapped with
            | MArg u _ => add_taint st1 u
            | _ => st1
            end
          else st1 in
        let '(margs, st3) :=
          (fix go (l : list node) (s : vstate) : list marker * vstate :=
             match l with
             | [] => ([], s)
             | NStarred _ :: l' => go l' s
             | a :: l' =>
                 let '(m, s1) := res_with (walk false) resolve_na a false false s in
                 let '(ms, s2) := go l' s1 in (m :: ms, s2)
             end) args st2 in
        let '(mkws, st4) :=
          (fix go (l : list node) (s : vstate) : list (N * marker) * vstate :=
             match l with
             | [] => ([], s)
             | NKeyword (Some k) v :: l' =>
                 let '(m, s1) := res_with (walk false) resolve_na v false false s in
                 let '(ms, s2) := go l' s1 in ((k, m) :: ms, s2)
             | _ :: l' => go l' s
             end) kws st3 in
        (* the single starred / double-starred argument, resolved with ro=True *)
        let '(mva, st5) :=
          (fix one (l : list node) (seen : nat) (s : vstate) : option marker * vstate :=
             match l with
             | [] => (None, s)
             | NStarred v :: l' =>
                 match seen with
                 | O =>
                     if is_empty (starred_values l') then
                       let r := res_with (walk false) resolve_na v true false s in (Some (fst r), snd r)
                     else (Some MUnknown, s)
                 | S _ => (Some MUnknown, s)
                 end
             | _ :: l' => one l' seen s
             end) args O st4 in
        let '(mvk, st6) :=
          (fix one (l : list node) (s : vstate) : option marker * vstate :=
             match l with
             | [] => (None, s)
             | NKeyword None v :: l' =>
                 if is_empty (dstar_values l') then
                   let r := res_with (walk false) resolve_na v true false s in (Some (fst r), snd r)
                 else (Some MUnknown, s)
             | _ :: l' => one l' s
             end) kws st5 in
        let '(uva, ha) := has_hide mva (v_varargs st6) in
        let '(uvk, hk) := has_hide mvk (v_varkwargs st6) in
        add_call st6 (mkCallRec wrapped margs mkws mva mvk uva uvk ha hk)
  | NStarred v => walk false v st
  | NKeyword _ v => walk false v st
  | NOpaque children =>
      (fix go (l : list node) (s : vstate) : vstate :=
         match l with [] => s | x :: l' => go l' (walk false x s) end) children st
  end
with resolve_na (n : node) (ro tainted : bool) (st : vstate) {struct n} : marker * vstate :=
  match n with
  | NName id c =>
      let ret := ns_get st id in
      let ret' := if tainted then ret else get_untainted st ret in
      (ret', if ro then st else visit_name id c st)
  | NAttr v a =>
      let '(mv, st1) :=
        match v with
        | NName _ _ | NAttr _ _ => resolve_na v true tainted st
        | _ => (MUnknown, walk false v st)
        end in
      (MAttr mv a, st1)
  | _ => (MUnknown, st)
  end.

(* number of Call nodes: each is processed exactly once, immediately or from
   to_revisit, so this bounds the length of the deferred work list *)
Fixpoint count_calls (n : node) : nat :=
  match n with
  | NName _ _ => O
  | NAttr v _ => count_calls v
  | NCall f args kws =>
      S ((count_calls f
         + (fix go (l : list node) : nat := match l with [] => O | x :: l' => (count_calls x + go l')%nat end) args
         + (fix go (l : list node) : nat := match l with [] => O | x :: l' => (count_calls x + go l')%nat end) kws)%nat)
  | NStarred v => count_calls v
  | NKeyword _ v => count_calls v
  | NFunc _ _ _ _ body =>
      (fix go (l : list node) : nat := match l with [] => O | x :: l' => (count_calls x + go l')%nat end) body
  | NNonlocal _ => O
  | NOpaque ch =>
      (fix go (l : list node) : nat := match l with [] => O | x :: l' => (count_calls x + go l')%nat end) ch
  end.

(* for node, ns in self.to_revisit: self.namespace = ns; self.process_Call(node)
   (the list may grow while it is iterated) *)
Fixpoint drain (fuel : nat) (st : vstate) : option vstate :=
  match v_todo st with
  | [] => Some st
  | (n, ns) :: rest =>
      match fuel with
      | O => None
      | S fuel' => drain fuel' (walk true n (set_cur (set_todo st rest) ns))
      end
  end.

Definition init_state : vstate :=
  mkV [empty_frame None] O [] [] [] O None None false.

(* CallListerVisitor(func): func.args / func.body of the root definition *)
Definition visit_function (fargs fkwonly : list N) (va kw : option N) (body : list node)
  : option (list callrec) :=
  let st1 := process_parameters true fargs fkwonly va kw init_state in
  let st2 := fold_left (fun s x => walk false x s) body st1 in
  let fuel := S (fold_left (fun a x => (a + count_calls x)%nat) body O) in
  match drain fuel (set_rev st2 true) with
  | Some st3 => Some (v_calls st3)
  | None => None
  end.
