(* Algebra.v — sort_params / apply_params / _Merger / merge / _embed / embed /
   _mask / mask / forwards / the functools.partial branch of signature(),
   written line by line from sigtools/_signatures.py (current /repo tree).

   Modelling conventions
   * parameter objects of different inputs are distinct objects (the harness
     always builds fresh ones), so `_exclude_from_seq`'s `is` test selects the
     slot of the side it is given;
   * Python dict ordering of provenance maps is not modelled (the harness sorts
     keys); the order inside each list is. *)
From Sigtools.Model Require Export Base Bind.

Record sorted := mkSorted {
  posargs : list param;
  pokargs : list param;
  varargs : option param;
  kwoargs : list param;       (* OrderedDict name -> param *)
  varkwargs : option param;
  ssrc : srcmap;
  sdep : depths
}.

(* ---- inspect.Signature.__init__ validation (CPython 3.12) ---- *)
Fixpoint validate_aux (ps : list param) (top : nat) (seen_default : bool)
         (seen : list name) : bool :=
  match ps with
  | [] => true
  | p :: ps' =>
      let k := kind_rank (pkind p) in
      if Nat.ltb k top then false
      else
        let top' := Nat.max k top in
        let pos := is_positional p in
        if pos && negb (has_def p) && seen_default then false
        else
          let sd := seen_default || (pos && has_def p) in
          if mem (pname p) seen then false
          else validate_aux ps' top' sd (pname p :: seen)
  end.

Definition validate (ps : list param) : bool := validate_aux ps 0%nat false [].

Definition count_kind (k : kind) (ps : list param) : nat :=
  length (filter (is_kind k) ps).

(* a valid *input* signature: what def / inspect can produce *)
Definition valid_sig (ps : list param) : bool :=
  validate ps && Nat.leb (count_kind VP ps) 1 && Nat.leb (count_kind VK ps) 1.

(* ---- sort_params / apply_params ---- *)
Fixpoint sort_aux (ps : list param) (acc : sorted) : sorted :=
  match ps with
  | [] => acc
  | p :: ps' =>
      let acc' :=
        match pkind p with
        | PO => mkSorted (posargs acc ++ [p]) (pokargs acc) (varargs acc) (kwoargs acc)
                         (varkwargs acc) (ssrc acc) (sdep acc)
        | PK => mkSorted (posargs acc) (pokargs acc ++ [p]) (varargs acc) (kwoargs acc)
                         (varkwargs acc) (ssrc acc) (sdep acc)
        | VP => mkSorted (posargs acc) (pokargs acc) (Some p) (kwoargs acc)
                         (varkwargs acc) (ssrc acc) (sdep acc)
        | KO => mkSorted (posargs acc) (pokargs acc) (varargs acc) (od_set (kwoargs acc) p)
                         (varkwargs acc) (ssrc acc) (sdep acc)
        | VK => mkSorted (posargs acc) (pokargs acc) (varargs acc) (kwoargs acc)
                         (Some p) (ssrc acc) (sdep acc)
        end in
      sort_aux ps' acc'
  end.

Definition sort_params (s : sigT) : sorted :=
  sort_aux (params s) (mkSorted [] [] None [] None (srcs s) (deps s)).

Definition opt_list {A} (o : option A) : list A :=
  match o with Some a => [a] | None => [] end.

Definition flatten (s : sorted) : list param :=
  posargs s ++ pokargs s ++ opt_list (varargs s) ++ kwoargs s ++ opt_list (varkwargs s).

(* apply_params(sig, *sorted): sig.replace(parameters=...) validates *)
Definition apply_params (base : sigT) (s : sorted) : res sigT :=
  let ps := flatten s in
  if validate ps then Ok (mkSig ps (ret base) (uret base) (ssrc s) (sdep s))
  else Err ValueErr.

(* ---- _concile_meta ---- *)
Definition concile (l r : param) : param :=
  let d := match pdef l, pdef r with
           | Some a, Some b => if N.eqb a b then Some a else Some 0
           | _, _ => None
           end in
  let au := match pann l, pann r with
            | Some a, Some b => if N.eqb a b then (Some a, puann l) else (None, UEmpty)
            | Some a, None => (Some a, puann l)
            | None, Some b => (Some b, puann r)
            | None, None => (None, UEmpty)
            end in
  mkParam (pname l) (pkind l) d (fst au) (snd au).

(* ---- _Merger ---- *)
Inductive side := L | R.

Record mstate := mkM {
  m_pos : list param;
  m_pok : list param;
  m_kwo : list param;
  m_src : srcmap;
  m_xva_l : bool; m_xva_r : bool;     (* varargs_src[0] / [1] set to None *)
  m_xvk_l : bool; m_xvk_r : bool;     (* varkwargs_src[0] / [1] set to None *)
  m_lunm : list param;                (* l_unmatched_kwoargs *)
  m_runm : list param                 (* r_unmatched_kwoargs *)
}.

Definition isSome {A} (o : option A) : bool := match o with Some _ => true | None => false end.

Section Merger.
Variables l r : sorted.

Definition my (s : side) : sorted := match s with L => l | R => r end.
Definition other (s : side) : sorted := match s with L => r | R => l end.

Definition set_pos st v := mkM v (m_pok st) (m_kwo st) (m_src st) (m_xva_l st) (m_xva_r st)
                               (m_xvk_l st) (m_xvk_r st) (m_lunm st) (m_runm st).
Definition set_pok st v := mkM (m_pos st) v (m_kwo st) (m_src st) (m_xva_l st) (m_xva_r st)
                               (m_xvk_l st) (m_xvk_r st) (m_lunm st) (m_runm st).
Definition set_kwo st v := mkM (m_pos st) (m_pok st) v (m_src st) (m_xva_l st) (m_xva_r st)
                               (m_xvk_l st) (m_xvk_r st) (m_lunm st) (m_runm st).
Definition set_src st v := mkM (m_pos st) (m_pok st) (m_kwo st) v (m_xva_l st) (m_xva_r st)
                               (m_xvk_l st) (m_xvk_r st) (m_lunm st) (m_runm st).
(* _exclude_from_seq(self.varargs_src, <the star of side s>) *)
Definition excl_va st (s : side) :=
  match s with
  | L => mkM (m_pos st) (m_pok st) (m_kwo st) (m_src st) true (m_xva_r st)
             (m_xvk_l st) (m_xvk_r st) (m_lunm st) (m_runm st)
  | R => mkM (m_pos st) (m_pok st) (m_kwo st) (m_src st) (m_xva_l st) true
             (m_xvk_l st) (m_xvk_r st) (m_lunm st) (m_runm st)
  end.
Definition excl_vk st (s : side) :=
  match s with
  | L => mkM (m_pos st) (m_pok st) (m_kwo st) (m_src st) (m_xva_l st) (m_xva_r st)
             true (m_xvk_r st) (m_lunm st) (m_runm st)
  | R => mkM (m_pos st) (m_pok st) (m_kwo st) (m_src st) (m_xva_l st) (m_xva_r st)
             (m_xvk_l st) true (m_lunm st) (m_runm st)
  end.
Definition unm st (s : side) := match s with L => m_lunm st | R => m_runm st end.
Definition set_unm st (s : side) v :=
  match s with
  | L => mkM (m_pos st) (m_pok st) (m_kwo st) (m_src st) (m_xva_l st) (m_xva_r st)
             (m_xvk_l st) (m_xvk_r st) v (m_runm st)
  | R => mkM (m_pos st) (m_pok st) (m_kwo st) (m_src st) (m_xva_l st) (m_xva_r st)
             (m_xvk_l st) (m_xvk_r st) (m_lunm st) v
  end.

(* _add_sources(self.src, name, <sources of side s>) *)
Definition add_src1 st (x : name) (s : side) :=
  set_src st (src_add (m_src st) x (src_get (ssrc (my s)) x)).
(* _add_sources(self.src, name, a.sources, b.sources) *)
Definition add_src2 st (x : name) (a b : side) :=
  set_src st (src_add (m_src st) x (src_get (ssrc (my a)) x ++ src_get (ssrc (my b)) x)).

(* matched keyword-only parameters, first loop of _merge *)
Fixpoint kwo_match (lk : list param) (st : mstate) : mstate :=
  match lk with
  | [] => st
  | p :: lk' =>
      let st' :=
        match find_param (pname p) (kwoargs r) with
        | Some q =>
            let st1 := set_kwo st (od_set (m_kwo st) (concile p q)) in
            set_src st1 (src_set (m_src st1) (pname p)
                                 (src_get (ssrc l) (pname p) ++ src_get (ssrc r) (pname p)))
        | None => set_unm st L (od_set (m_lunm st) p)
        end in
      kwo_match lk' st'
  end.

Definition r_unmatched : list param :=
  filter (fun p => negb (isSome (find_param (pname p) (kwoargs l)))) (kwoargs r).

(* _merge_unbalanced_pos for a parameter of side s; conv = the other side's
   remaining positional-or-keyword parameters *)
Definition unb_pos1 (s : side) (existing : param) (conv : list param) (st : mstate)
  : res (mstate * list param) :=
  match conv with
  | o :: conv' =>
      let st1 := set_pos st (m_pos st ++ [concile existing o]) in
      Ok (if N.eqb (pname o) (pname existing)
          then add_src2 st1 (pname existing) s (match s with L => R | R => L end)
          else add_src1 st1 (pname existing) s, conv')
  | [] =>
      if isSome (varargs (other s)) then
        Ok (excl_va (add_src1 (set_pos st (m_pos st ++ [existing])) (pname existing) s)
                    (match s with L => R | R => L end), [])
      else if negb (has_def existing) then Err ValueErr
      else Ok (st, [])
  end.

Fixpoint unb_pos_all (s : side) (ps : list param) (conv : list param) (st : mstate)
  : res (mstate * list param) :=
  match ps with
  | [] => Ok (st, conv)
  | p :: ps' =>
      do sc <- unb_pos1 s p conv st ;;
      unb_pos_all s ps' (snd sc) (fst sc)
  end.

(* zip_longest(l.posargs, r.posargs); il / ir are the pok iterators *)
Fixpoint zip_pos (lp rp : list param) (il ir : list param) (st : mstate)
  : res (mstate * list param * list param) :=
  match lp, rp with
  | a :: lp', b :: rp' =>
      let st1 := set_pos st (m_pos st ++ [concile a b]) in
      let st2 := if N.eqb (pname a) (pname b)
                 then add_src2 st1 (pname a) L R
                 else add_src1 st1 (pname a) L in
      zip_pos lp' rp' il ir st2
  | _ :: _, [] =>
      do sc <- unb_pos_all L lp ir st ;; Ok (fst sc, il, snd sc)
  | [], _ =>
      do sc <- unb_pos_all R rp il st ;; Ok (fst sc, snd sc, ir)
  end.

(* _merge_unbalanced_pok for a parameter of side s *)
Definition unb_pok1 (s : side) (existing : param) (st : mstate) : res mstate :=
  let o := other s in
  let os := match s with L => R | R => L end in
  match find_param (pname existing) (unm st os) with
  | Some q =>
      let st1 := set_unm st os (remove_param (pname existing) (unm st os)) in
      let st2 := set_kwo st1 (od_set (m_kwo st1) (set_kind KO (concile existing q))) in
      Ok (add_src2 st2 (pname existing) os s)
  | None =>
      if isSome (varargs o) && isSome (varkwargs o) then
        Ok (add_src1 (set_pok st (m_pok st ++ [existing])) (pname existing) s)
      else if isSome (varkwargs o) then
        Ok (add_src1 (set_kwo st (od_set (m_kwo st) (set_kind KO existing))) (pname existing) s)
      else if isSome (varargs o) then
        let st1 := set_pos st (m_pos st ++ map (set_kind PO) (m_pok st)
                                       ++ [set_kind PO existing]) in
        Ok (add_src1 (set_pok st1 []) (pname existing) s)
      else if negb (has_def existing) then Err ValueErr
      else Ok st
  end.

Fixpoint unb_pok_all (s : side) (ps : list param) (st : mstate) : res mstate :=
  match ps with
  | [] => Ok st
  | p :: ps' => do st' <- unb_pok1 s p st ;; unb_pok_all s ps' st'
  end.

Fixpoint zip_pok (il ir : list param) (st : mstate) : res mstate :=
  match il, ir with
  | a :: il', b :: ir' =>
      let st' :=
        if N.eqb (pname a) (pname b) then
          add_src2 (set_pok st (m_pok st ++ [concile a b])) (pname a) L R
        else
          add_src1 (set_pok st (map (set_kind PO) (m_pok st) ++ [set_kind PO (concile a b)]))
                   (pname a) L in
      zip_pok il' ir' st'
  | _ :: _, [] => unb_pok_all L il st
  | [], _ => unb_pok_all R ir st
  end.

(* _merge_unmatched_kwoargs for the unmatched keyword-only parameters of side s *)
Definition unmatched_kwo (s : side) (st : mstate) : res mstate :=
  let u := unm st s in
  match u with
  | [] => Ok st
  | _ =>
      if isSome (varkwargs (other s)) then
        let st1 := set_kwo st (od_update (m_kwo st) u) in
        let st2 := fold_left (fun a p => add_src1 a (pname p) s) u st1 in
        Ok (excl_vk st2 (match s with L => R | R => L end))
      else if forallb has_def u then Ok st
      else Err ValueErr
  end.

(* positional-only *kinded* parameters are classified as such before the
   result is handed to the next fold step *)
Fixpoint split_po_prefix (ps : list param) : list param * list param :=
  match ps with
  | p :: ps' =>
      if is_kind PO p then let '(a, b) := split_po_prefix ps' in (p :: a, b)
      else ([], ps)
  | [] => ([], [])
  end.

Definition normalise_pok (st : mstate) : mstate :=
  let '(a, b) := split_po_prefix (m_pok st) in
  set_pok (set_pos st (m_pos st ++ a)) b.

(* _add_starargs: xl / xr say whether the slot of varargs_src was cleared *)
Definition add_star (xl xr : bool) (sl sr : option param) (st : mstate)
  : option param * mstate :=
  match sl, sr with
  | Some a, Some b =>
      if negb xl && negb xr then
        let p := concile a b in
        (Some p, if N.eqb (pname a) (pname b) then add_src2 st (pname p) L R
                 else add_src1 st (pname p) L)
      else if negb xl then (Some a, add_src1 st (pname a) L)
      else (Some b, add_src1 st (pname b) R)
  | _, _ => (None, st)
  end.

Definition merger : res sorted :=
  let st0 := mkM [] [] [] [] false false false false [] [] in
  let st1 := kwo_match (kwoargs l) st0 in
  let st2 := set_unm st1 R r_unmatched in
  do z <- zip_pos (posargs l) (posargs r) (pokargs l) (pokargs r) st2 ;;
  let '(st3, il, ir) := z in
  do st4 <- zip_pok il ir st3 ;;
  do st5 <- unmatched_kwo L st4 ;;
  do st6 <- unmatched_kwo R st5 ;;
  let st7 := normalise_pok st6 in
  let '(va, st8) := add_star (m_xva_l st7) (m_xva_r st7) (varargs l) (varargs r) st7 in
  let '(vk, st9) := add_star (m_xvk_l st8) (m_xvk_r st8) (varkwargs l) (varkwargs r) st8 in
  Ok (mkSorted (m_pos st9) (m_pok st9) va (m_kwo st9) vk (m_src st9)
               (merge_depths (sdep l) (sdep r))).
End Merger.

(* ---- merge ---- *)
Fixpoint merge_steps (acc : sorted) (ss : list sigT) : res sorted :=
  match ss with
  | [] => Ok acc
  | s :: ss' =>
      do acc' <- to_incompatible (merger acc (sort_params s)) ;;
      merge_steps acc' ss'
  end.

Definition merge (ss : list sigT) : res sigT :=
  match ss with
  | [] => Err (OtherErr 1)       (* assert signatures *)
  | s0 :: ss' =>
      do acc <- merge_steps (sort_params s0) ss' ;;
      apply_params s0 acc
  end.

(* merge(merge(merge(a, b), c), ...) through the public function *)
Fixpoint merge_nested_from (acc : sigT) (ss : list sigT) : res sigT :=
  match ss with
  | [] => Ok acc
  | s :: ss' => do acc' <- merge [acc; s] ;; merge_nested_from acc' ss'
  end.
Definition merge_nested (ss : list sigT) : res sigT :=
  match ss with
  | [] => Err (OtherErr 1)
  | s0 :: ss' => merge_nested_from s0 ss'
  end.

(* ---- _embed / embed ---- *)
Definition check_no_dupes (seen : list name) (ps : list param) : res (list name) :=
  (* dupes = collect.intersection(names); collect.update(names) *)
  if existsb (fun p => mem (pname p) seen) ps then Err ValueErr
  else Ok (seen ++ names_of ps).

Definition clear_defaults (ps : list param) : list param := map (set_def None) ps.

Definition opt_if {A} (b : bool) (o : option A) : option A := if b then o else None.

Definition embed_step (outer inner : sorted) (uva uvk : bool) (depth : N) : res sorted :=
  let stars := mkSorted [] [] (opt_if uva (varargs outer)) []
                        (opt_if uvk (varkwargs outer)) [] [] in
  do i <- merger inner stars ;;
  do n1 <- check_no_dupes [] (posargs outer) ;;
  do n2 <- check_no_dupes n1 (pokargs outer) ;;
  do e <-
    match posargs i with
    | ip0 :: _ =>
        let ep := posargs outer ++ map (set_kind PO) (pokargs outer) in
        let ep := if has_def ip0 then ep else clear_defaults ep in
        do n3 <- check_no_dupes n2 (posargs i) ;;
        Ok (ep ++ posargs i, @nil param, n3)
    | [] =>
        match pokargs i with
        | ik0 :: _ =>
            if has_def ik0 then Ok (posargs outer, pokargs outer, n2)
            else Ok (clear_defaults (posargs outer), clear_defaults (pokargs outer), n2)
        | [] => Ok (posargs outer, pokargs outer, n2)
        end
    end ;;
  let '(e_pos, e_pok, n3) := e in
  do n4 <- check_no_dupes n3 (pokargs i) ;;
  let e_pok := e_pok ++ pokargs i in
  do n5 <- check_no_dupes n4 (kwoargs outer) ;;
  do n6 <- check_no_dupes n5 (kwoargs i) ;;
  let e_kwo := od_update (od_update [] (kwoargs outer)) (kwoargs i) in
  let o_src := ssrc outer in
  let o_src := match varargs outer with
               | Some p => if uva then src_pop o_src (pname p) else o_src
               | None => o_src end in
  let o_src := match varkwargs outer with
               | Some p => if uvk then src_pop o_src (pname p) else o_src
               | None => o_src end in
  (* dict(i_src, **o_src) *)
  let src := fold_left (fun m kv => src_set m (fst kv) (snd kv)) o_src (ssrc i) in
  Ok (mkSorted e_pos e_pok (if uva then varargs i else varargs outer)
               e_kwo (if uvk then varkwargs i else varkwargs outer)
               src (merge_depths (sdep outer) (dep_incr depth (sdep i)))).

Fixpoint embed_steps (acc : sorted) (ss : list sigT) (uva uvk : bool) (depth : N) : res sorted :=
  match ss with
  | [] => Ok acc
  | s :: ss' =>
      do acc' <- to_incompatible (embed_step acc (sort_params s) uva uvk depth) ;;
      embed_steps acc' ss' uva uvk (depth + 1)
  end.

Definition embed (ss : list sigT) (uva uvk : bool) : res sigT :=
  match ss with
  | [] => Err (OtherErr 1)
  | s0 :: ss' =>
      do acc <- embed_steps (sort_params s0) ss' uva uvk 1 ;;
      apply_params s0 acc
  end.

(* ---- _mask ---- *)
Record hideflags := mkHide { h_args : bool; h_kwargs : bool; h_varargs : bool; h_varkwargs : bool }.

(* partial_obj and the bound keyword values, when in partial mode *)
Definition pmode := option N.

Fixpoint split_at_name (x : name) (ps : list param) : option (list param * param * list param) :=
  match ps with
  | [] => None
  | p :: ps' =>
      if N.eqb x (pname p) then Some ([], p, ps')
      else match split_at_name x ps' with
           | Some (a, q, b) => Some (p :: a, q, b)
           | None => None
           end
  end.

Record kstate := mkK {
  k_pok : list param; k_va : option param; k_kwo : list param;
  k_src : srcmap; k_consumed : list name
}.

Definition mask_name (pm : pmode) (has_vk : bool) (st : kstate) (kv : name * N) : res kstate :=
  let x := fst kv in
  if mem x (k_consumed st) then Err ValueErr
  else
    match split_at_name x (k_pok st) with
    | Some (before, p, after) =>
        let kwo1 := od_update (k_kwo st) (map (set_kind KO) after) in
        let kwo2 := match pm with
                    | Some _ => od_set kwo1 (set_def (Some (snd kv)) (set_kind KO p))
                    | None => kwo1 end in
        let src1 := match pm with Some _ => k_src st | None => src_pop (k_src st) x end in
        let src2 := match k_va st with
                    | Some v => if isSome (find_param (pname v) kwo2) then src1
                                else src_pop src1 (pname v)
                    | None => src1 end in
        Ok (mkK before None kwo2 src2 (x :: k_consumed st))
    | None =>
        match find_param x (k_kwo st) with
        | Some p =>
            match pm with
            | Some _ => Ok (mkK (k_pok st) (k_va st)
                                (od_set (k_kwo st) (set_def (Some (snd kv)) (set_kind KO p)))
                                (k_src st) (x :: k_consumed st))
            | None => Ok (mkK (k_pok st) (k_va st) (remove_param x (k_kwo st))
                              (src_pop (k_src st) x) (x :: k_consumed st))
            end
        | None =>
            if negb has_vk then Err ValueErr
            else match pm with
                 | Some pobj =>
                     Ok (mkK (k_pok st) (k_va st)
                             (od_set (k_kwo st) (mkParam x KO (Some (snd kv)) None UEmpty))
                             (src_set (k_src st) x [pobj]) (x :: k_consumed st))
                 | None => Ok (mkK (k_pok st) (k_va st) (k_kwo st) (k_src st)
                                   (x :: k_consumed st))
                 end
        end
    end.

Fixpoint mask_names (pm : pmode) (has_vk : bool) (st : kstate) (kvs : list (name * N))
  : res kstate :=
  match kvs with
  | [] => Ok st
  | kv :: kvs' => do st' <- mask_name pm has_vk st kv ;; mask_names pm has_vk st' kvs'
  end.

Definition mask_gen (s : sigT) (n : nat) (h : hideflags) (named : list (name * N)) (pm : pmode)
  : res sigT :=
  let so := sort_params s in
  let allpos := posargs so ++ pokargs so in
  (* consumption of leading positionals *)
  do c <-
    (if h_args h then Ok (@nil param, @nil param, names_of allpos)
     else if Nat.eqb n 0 then Ok (posargs so, pokargs so, [])
     else if Nat.ltb (length allpos) n && negb (isSome (varargs so)) then Err ValueErr
     else Ok (skipn n (posargs so), skipn (n - length (posargs so)) (pokargs so),
              names_of (firstn n allpos))) ;;
  let '(pos1, pok1, consumed) := c in
  (* a consumed positional-only parameter cannot be named by a keyword: only the consumed
     positional-or-keyword names make a later keyword of that name a duplicate *)
  let bound :=
    if h_args h then names_of (pokargs so)
    else names_of (firstn (n - length (posargs so)) (pokargs so)) in
  let src1 := src_pop_all (ssrc so) consumed in
  let '(va1, src2) :=
    if h_args h || h_varargs h then
      (None, match varargs so with Some v => src_pop src1 (pname v) | None => src1 end)
    else (varargs so, src1) in
  let '(pok2, kwo2, src3, named2) :=
    if h_kwargs h then
      (@nil param, @nil param,
       src_pop_all (src_pop_all src2 (names_of pok1)) (names_of (kwoargs so)),
       @nil (name * N))
    else (pok1, kwoargs so, src2, named) in
  do st <- mask_names pm (isSome (varkwargs so)) (mkK pok2 va1 kwo2 src3 bound) named2 ;;
  let '(vk3, src4) :=
    if h_kwargs h || h_varkwargs h then
      (None, match varkwargs so with Some v => src_pop (k_src st) (pname v) | None => k_src st end)
    else (varkwargs so, k_src st) in
  let '(src5, dep5) :=
    match pm with
    | Some pobj => (src4, dep_set (dep_incr 1 (sdep so)) pobj 0)
    | None => (src4, sdep so)
    end in
  apply_params s (mkSorted pos1 (k_pok st) (k_va st) (k_kwo st) vk3 src5 dep5).

Definition mask (s : sigT) (n : nat) (names0 : list name) (h : hideflags) : res sigT :=
  mask_gen s n h (map (fun x => (x, 0)) names0) None.

(* signatures.signature(functools.partial(f, *args, **keywords)) given f's own
   signature with default sources *)
Definition sig_partial (s : sigT) (n : nat) (kw : list (name * N)) (pobj : N) : res sigT :=
  mask_gen s n (mkHide false false false false) kw (Some pobj).

(* ---- forwards ---- *)
Definition forwards (outer inner : sigT) (n : nat) (names0 : list name)
           (hide_args hide_kwargs uva uvk partial : bool) : res sigT :=
  let inner' :=
    if partial then
      mkSig (map (fun p => match pkind p with
                           | VP | VK => p
                           | _ => set_def (Some 0) p end) (params inner))
            (ret inner) (uret inner) (srcs inner) (deps inner)
    else inner in
  do m <- mask inner' n names0 (mkHide hide_args hide_kwargs false false) ;;
  embed [outer; m] uva uvk.
