(* Support.v — model of sigtools/support.py.

   Part 1 (value level): bind_callsig, sort_callsigs, make_up_callsigs written
   line by line from support.py:258-390 (zip of enumerate, for/else, the three
   loops, dict assignment order), and an independent value-level CPython binder
   [bindv] (what really calling  def func(<sig>): return {name: name ...}
   returns).

   Part 2 (token level): read_sig / func_code (support.py:56-182) on token
   lists, and the reading of a def parameter list [def_sig].  The regular
   expression, str.split and CPython's compiler are outside the model (tied by
   the differential run of harness/props/c20.py).

   No proofs here. *)
From Sigtools.Model Require Export Base Bind Algebra.

(* ------------------------------------------------------------------ values *)
(* Argument values and default values are interned numbers. *)
Inductive bval :=
| BV (v : N)                       (* a plain value *)
| BTuple (vs : list N)             (* what *args receives *)
| BDict (kvs : list (name * N)).   (* what **kwargs receives, insertion order *)

(* Python dict with insertion order *)
Fixpoint dget {A} (d : list (name * A)) (k : name) : option A :=
  match d with
  | [] => None
  | (k', v) :: d' => if N.eqb k k' then Some v else dget d' k
  end.

Definition dhas {A} (d : list (name * A)) (k : name) : bool :=
  match dget d k with Some _ => true | None => false end.

(* d[k] = v : replace in place or append *)
Fixpoint dset {A} (d : list (name * A)) (k : name) (v : A) : list (name * A) :=
  match d with
  | [] => [(k, v)]
  | (k', v') :: d' => if N.eqb k k' then (k, v) :: d' else (k', v') :: dset d' k v
  end.

Definition asg := list (name * bval).

Inductive berr :=
| ETooMany                 (* 'too many positional arguments' *)
| EPosOnly (k : name)      (* '<k> is positional-only' *)
| ETwice (k : name)        (* '<k> was specified twice' *)
| EUnknown (k : name)      (* 'unknown parameter <k>' *)
| EOmitted (k : name)      (* 'omitted required parameter <k>' *)
| EInternal.               (* item assignment on a non-dict: unreachable for signatures *)

Inductive bres := BOk (a : asg) | BErr (e : berr).

Fixpoint list_N_eqb (a b : list N) : bool :=
  match a, b with
  | [], [] => true
  | x :: a', y :: b' => N.eqb x y && list_N_eqb a' b'
  | _, _ => false
  end.

(* ------------------------------------------------------------ bind_callsig *)
(* varkwargs = next((param ... if param.kind == param.VAR_KEYWORD), None) *)
Definition first_vk (ps : list param) : option param := find (is_kind VK) ps.

(* for (i, posarg), param in zip(enumerate(args_, 1), params): ... else: ...
   zip advances its first iterator first: when the parameters run out an
   argument has already been pulled from args_ but i is not updated. *)
Inductive posloop :=
| PBreak (a : asg)
| PRaise
| PDone (i : nat) (a : asg).      (* loop exhausted: the else clause runs *)

Fixpoint pos_loop (args : list N) (ps : list param) (i : nat) (a : asg) : posloop :=
  match args with
  | [] => PDone i a
  | v :: args' =>
      match ps with
      | [] => PDone i a
      | p :: ps' =>
          match pkind p with
          | PO | PK => pos_loop args' ps' (S i) (dset a (pname p) (BV v))
          | VP => PBreak (dset a (pname p) (BTuple (v :: args')))   (* (posarg,) + tuple(args_) *)
          | _ => PRaise
          end
      end
  end.

(* assigned[varkwargs.name][key] = value *)
Definition kwargs_add (a : asg) (vkname key : name) (value : N) : berr + asg :=
  match dget a vkname with
  | Some (BDict d) => inr (dset a vkname (BDict (dset d key value)))
  | _ => inl EInternal
  end.

(* body of: for key, value in kwargs.items() *)
Definition kw_step (ps : list param) (vk : option param) (a : asg) (kv : name * N)
  : berr + asg :=
  let key := fst kv in
  let value := snd kv in
  let fallthrough :=
      match vk with
      | Some q => kwargs_add a (pname q) key value
      | None => inl (EUnknown key)
      end in
  match find_param key ps with           (* key in sig.parameters *)
  | Some p =>
      match pkind p with
      | PO => inl (EPosOnly key)
      | PK | KO => if dhas a key then inl (ETwice key)
                   else inr (dset a key (BV value))       (* continue *)
      | _ => fallthrough
      end
  | None => fallthrough
  end.

Fixpoint kw_loop (ps : list param) (vk : option param) (kws : list (name * N)) (a : asg)
  : berr + asg :=
  match kws with
  | [] => inr a
  | kv :: kws' =>
      match kw_step ps vk a kv with
      | inl e => inl e
      | inr a' => kw_loop ps vk kws' a'
      end
  end.

(* for param in sig.parameters.values(): if param.name not in assigned: ... *)
Fixpoint fill_loop (ps : list param) (a : asg) : berr + asg :=
  match ps with
  | [] => inr a
  | p :: ps' =>
      if dhas a (pname p) then fill_loop ps' a
      else match pkind p with
           | VP => fill_loop ps' (dset a (pname p) (BTuple []))
           | _ => match pdef p with
                  | Some d => fill_loop ps' (dset a (pname p) (BV d))
                  | None => inl (EOmitted (pname p))
                  end
           end
  end.

Definition bind_callsig (ps : list param) (args : list N) (kws : list (name * N)) : bres :=
  let vk := first_vk ps in
  let a0 : asg := match vk with Some q => [(pname q, BDict [])] | None => [] end in
  let after_pos :=
      match pos_loop args ps 0 a0 with
      | PRaise => inl ETooMany
      | PBreak a => inr a
      | PDone i a => if list_N_eqb (firstn i args) args then inr a else inl ETooMany
      end in
  match after_pos with
  | inl e => BErr e
  | inr a1 =>
      match kw_loop ps vk kws a1 with
      | inl e => BErr e
      | inr a2 =>
          match fill_loop ps a2 with
          | inl e => BErr e
          | inr a3 => BOk a3
          end
      end
  end.

(* ----------------------------------------------------------- sort_callsigs *)
Definition callsig := (list N * list (name * N))%type.

Fixpoint sort_callsigs (ps : list param) (cs : list callsig)
  : list (callsig * asg) * list callsig :=
  match cs with
  | [] => ([], [])
  | c :: cs' =>
      let r := sort_callsigs ps cs' in
      match bind_callsig ps (fst c) (snd c) with
      | BOk bound => ((c, bound) :: fst r, snd r)      (* valid.append((args, kwargs, bound)) *)
      | BErr _ => (fst r, c :: snd r)                  (* invalid.append((args, kwargs)) *)
      end
  end.

(* -------------------------------------------------------- make_up_callsigs *)
(* '__make_up_callsigs__extra_{i}' is interned as 1000 + i *)
Definition extra_name (i : nat) : name := 1000 + N.of_nat i.

(* itertools.combinations(l, r), in its order *)
Fixpoint combinations (l : list name) (r : nat) : list (list name) :=
  match r with
  | O => [[]]
  | S r' =>
      match l with
      | [] => []
      | x :: l' => map (cons x) (combinations l' r') ++ combinations l' r
      end
  end.

(* dict((name, name) for name in names_) *)
Definition self_dict (ns : list name) : list (name * N) :=
  fold_left (fun d n => dset d n n) ns [].

Definition opt_name (o : option param) : list name :=
  match o with Some p => [pname p] | None => [] end.

(* the parameter buckets of signatures.sort_params, for a signature *)
Definition last_of_kind (k : kind) (ps : list param) : option param :=
  fold_left (fun acc p => if is_kind k p then Some p else acc) ps None.

Definition mu_names (ps : list param) (extra : nat) : list name :=
  names_of (filter (is_kind PO) ps ++ filter (is_kind PK) ps ++ filter (is_kind KO) ps)
  ++ map extra_name (seq 0 extra).

Definition mu_kwnames (ps : list param) (extra : nat) : list name :=
  mu_names ps extra ++ opt_name (last_of_kind VP ps) ++ opt_name (last_of_kind VK ps).

Definition make_up_callsigs (ps : list param) (extra : nat) : list (list name * list (name * N)) :=
  let names1 := mu_names ps extra in
  let args := map (fun i => firstn i names1) (seq 0 (S (length names1))) in
  let names2 := mu_kwnames ps extra in
  let kwargs := map self_dict
                    (flat_map (fun i => combinations names2 i) (seq 0 (S (length names2)))) in
  flat_map (fun a => map (pair a) kwargs) args.        (* itertools.product *)

(* ------------------------------------------------- CPython's binding, values *)
(* What calling  def func(<ps>): return {'x': x, ...}  with the given positional
   values and keywords returns (None = TypeError), parameter by parameter in signature order. *)
Definition kw_extra (ps : list param) (kv : name * N) : bool :=
  negb (kwpassable_name ps (fst kv)).

Definition opt_cons (x : name * bval) (o : option asg) : option asg :=
  match o with Some l => Some (x :: l) | None => None end.

Fixpoint bindv_go (ps : list param) (args : list N) (kws extras : list (name * N))
  : option asg :=
  match ps with
  | [] => match args with [] => Some [] | _ => None end    (* too many positionals *)
  | p :: ps' =>
      match pkind p with
      | PO =>
          match args with
          | v :: args' => opt_cons (pname p, BV v) (bindv_go ps' args' kws extras)
          | [] => match pdef p with
                  | Some d => opt_cons (pname p, BV d) (bindv_go ps' [] kws extras)
                  | None => None
                  end
          end
      | PK =>
          match args with
          | v :: args' =>
              if dhas kws (pname p) then None           (* multiple values *)
              else opt_cons (pname p, BV v) (bindv_go ps' args' kws extras)
          | [] =>
              match dget kws (pname p) with
              | Some v => opt_cons (pname p, BV v) (bindv_go ps' [] kws extras)
              | None => match pdef p with
                        | Some d => opt_cons (pname p, BV d) (bindv_go ps' [] kws extras)
                        | None => None
                        end
              end
          end
      | VP => opt_cons (pname p, BTuple args) (bindv_go ps' [] kws extras)
      | KO =>
          match dget kws (pname p) with
          | Some v => opt_cons (pname p, BV v) (bindv_go ps' args kws extras)
          | None => match pdef p with
                    | Some d => opt_cons (pname p, BV d) (bindv_go ps' args kws extras)
                    | None => None
                    end
          end
      | VK => opt_cons (pname p, BDict extras) (bindv_go ps' args kws extras)
      end
  end.

Definition bindv (ps : list param) (args : list N) (kws : list (name * N)) : option asg :=
  let extras := filter (kw_extra ps) kws in
  match extras with
  | _ :: _ => if has_kind VK ps then bindv_go ps args kws extras else None
  | [] => bindv_go ps args kws extras
  end.

(* the excluded case: a keyword naming a positional-only parameter while the
   signature has **kwargs (a real call puts it in kwargs; bind_callsig raises) *)
Definition po_name (ps : list param) (k : name) : bool :=
  existsb (fun p => is_kind PO p && N.eqb k (pname p)) ps.

Definition po_kw_collision (ps : list param) (kws : list (name * N)) : bool :=
  has_kind VK ps && existsb (fun kv => po_name ps (fst kv)) kws.

(* comparison of two bound mappings as Python dicts (key order ignored for the
   outer dict; exact for the values) *)
Definition bval_eqb (a b : bval) : bool :=
  match a, b with
  | BV x, BV y => N.eqb x y
  | BTuple x, BTuple y => list_N_eqb x y
  | BDict x, BDict y =>
      list_N_eqb (map fst x) (map fst y) && list_N_eqb (map snd x) (map snd y)
  | _, _ => false
  end.

Definition opt_bval_eqb (a b : option bval) : bool :=
  match a, b with
  | Some x, Some y => bval_eqb x y
  | None, None => true
  | _, _ => false
  end.

Definition asg_eqb (a b : asg) : bool :=
  Nat.eqb (length a) (length b)
  && forallb (fun kv => opt_bval_eqb (dget a (fst kv)) (dget b (fst kv))) (a ++ b).

(* ------------------------------------------- exact comparison (harness use) *)
Fixpoint list_eqb {A} (e : A -> A -> bool) (a b : list A) : bool :=
  match a, b with
  | [], [] => true
  | x :: a', y :: b' => e x y && list_eqb e a' b'
  | _, _ => false
  end.

Definition asg_exact_eqb (a b : asg) : bool :=
  list_eqb (fun x y => N.eqb (fst x) (fst y) && bval_eqb (snd x) (snd y)) a b.

(* error -> (code, name) as the harness encodes TypeError messages *)
Definition berr_code (e : berr) : N * N :=
  match e with
  | ETooMany => (1, 0)
  | EPosOnly k => (2, k)
  | ETwice k => (3, k)
  | EUnknown k => (4, k)
  | EOmitted k => (5, k)
  | EInternal => (6, 0)
  end.

Definition bres_matches (r : bres) (exp : (N * N) + asg) : bool :=
  match r, exp with
  | BOk a, inr b => asg_exact_eqb a b
  | BErr e, inl c => N.eqb (fst (berr_code e)) (fst c) && N.eqb (snd (berr_code e)) (snd c)
  | _, _ => false
  end.

Definition opt_asg_matches (r : option asg) (exp : option asg) : bool :=
  match r, exp with
  | Some a, Some b => asg_exact_eqb a b
  | None, None => true
  | _, _ => false
  end.

Definition is_some {A} (o : option A) : bool := match o with Some _ => true | None => false end.

(* the statement of C20_bind, as a boolean *)
Definition bind_agrees (ps : list param) (args : list N) (kws : list (name * N)) : bool :=
  po_kw_collision ps kws ||
  match bind_callsig ps args kws, bindv ps args kws with
  | BOk a, Some b => asg_eqb a b
  | BErr _, None => true
  | _, _ => false
  end.

(* indices of the cases on which a check fails *)
Fixpoint bad_indices_from {A} (f : A -> bool) (l : list A) (i : nat) : list nat :=
  match l with
  | [] => []
  | x :: l' => if f x then bad_indices_from f l' (S i) else i :: bad_indices_from f l' (S i)
  end.
Definition bad_indices {A} (f : A -> bool) (l : list A) : list nat := bad_indices_from f l 0.

Definition pp (n : name) (k : kind) (d a : option N) : param :=
  mkParam n k d a (match a with Some v => UPre v | None => UEmpty end).

(* ================================================================== part 2 *)
(* read_sig / func_code on token lists.  One token per piece of
   sig_str.split(','), already split by re_paramname into (arg, annotation
   text, default text); texts are interned numbers.  The bare markers '/', '*'
   and the empty piece carry no annotation / default (the harness only
   produces such texts). *)
Inductive argtok :=
| AName (n : name)        (* a *)
| AChev (n : name)        (* <a>   (re_posoarg) *)
| ASlash                  (* / *)
| AStar                   (* * *)
| AVarPos (n : name)      (* *a *)
| AVarKw (n : name)       (* **a *)
| AEmpty.                 (* ''  -> continue *)

Record tok := mkTok { targ : argtok; tann : option N; tdef : option N }.

(* an entry of read_sig's params list (text of one item of the def) *)
Inductive ptok :=
| PSlash
| PStar
| PItem (stars : nat) (n : name) (ann : option N) (def : option N).

Definition starts_with_star (p : ptok) : bool :=
  match p with PStar => true | PItem (S _) _ _ _ => true | _ => false end.

(* list.insert(i, x) for i >= 0 *)
Fixpoint insert_at {A} (i : nat) (x : A) (l : list A) : list A :=
  match i, l with
  | O, _ => x :: l
  | S i', y :: l' => y :: insert_at i' x l'
  | S _, [] => [x]
  end.
(* list.insert(-1, x) *)
Definition insert_before_last {A} (x : A) (l : list A) : list A :=
  insert_at (length l - 1) x l.

Definition last_starts_with_star (l : list ptok) : bool :=
  match rev l with p :: _ => starts_with_star p | [] => false end.

Record rstate := mkRS {
  r_names : list name;
  r_anns : list (name * N);
  r_poso : list name;
  r_kwo : list name;
  r_params : list ptok;
  r_found_star : bool;
  r_varargs : option name;
  r_varkwargs : option name;
  r_chevron : option nat;
  r_default : option nat
}.

Definition rs_init : rstate := mkRS [] [] [] [] [] false None None None None.

Definition opt_list_name (o : option name) : list name :=
  match o with Some n => [n] | None => [] end.

Definition is_some_nat (o : option nat) : bool := match o with Some _ => true | None => false end.

(* body of: for i, param in enumerate(sig_str.split(',')) ;
   oa / op / ok = use_modifiers_annotate / _posoargs / _kwoargs *)
Definition rs_step (oa op ok : bool) (i : nat) (st : rstate) (t : tok) : rstate :=
  match targ t with
  | AEmpty => st
  | a =>
      let is_chev := match a with AChev _ => true | _ => false end in
      let stars := match a with AVarPos _ => 1 | AVarKw _ => 2 | _ => 0 end%nat in
      let oname := match a with AName n | AChev n | AVarPos n | AVarKw n => Some n | _ => None end in
      (* chevrons *)
      let poso1 := if is_chev && op then r_poso st ++ opt_list_name oname else r_poso st in
      let chev1 := if is_chev && negb op then Some i else r_chevron st in
      (* annotation *)
      let anns1 := match tann t, oname with
                   | Some an, Some n => if oa then dset (r_anns st) n an else r_anns st
                   | _, _ => r_anns st
                   end in
      let ins := match oname with
                 | Some n => PItem stars n (if oa then None else tann t) (tdef t)
                 | None => PStar   (* unused *)
                 end in
      (* default *)
      let def1 := match tdef t with
                  | Some _ => match r_default st with
                              | None => Some (if r_found_star st then i - 1 else i)%nat
                              | d => d
                              end
                  | None => r_default st
                  end in
      let has_default := match tdef t with Some _ => true | None => false end in
      match a with
      | ASlash =>
          if op then mkRS (r_names st) anns1 (poso1 ++ r_names st) (r_kwo st) (r_params st)
                          (r_found_star st) (r_varargs st) (r_varkwargs st) chev1 def1
          else mkRS (r_names st) anns1 poso1 (r_kwo st) (r_params st ++ [PSlash])
                    (r_found_star st) (r_varargs st) (r_varkwargs st) None def1
      | AStar | AVarPos _ | AVarKw _ =>
          let '(params1, chev2) :=
              match chev1 with
              | Some c => if negb op then (insert_at (S c) PSlash (r_params st), None)
                          else (r_params st, chev1)
              | None => (r_params st, chev1)
              end in
          match a with
          | AVarPos n => mkRS (r_names st) anns1 poso1 (r_kwo st) (params1 ++ [ins]) true
                              (Some n) (r_varkwargs st) chev2 def1
          | AVarKw n => mkRS (r_names st) anns1 poso1 (r_kwo st) (params1 ++ [ins]) true
                             (r_varargs st) (Some n) chev2 def1
          | _ => mkRS (r_names st) anns1 poso1 (r_kwo st)
                      (if ok then params1 else params1 ++ [PStar]) true
                      (r_varargs st) (r_varkwargs st) chev2 def1
          end
      | AName n | AChev n =>
          if r_found_star st then
            if negb ok then
              mkRS (r_names st ++ [n]) anns1 poso1 (r_kwo st) (r_params st ++ [ins]) true
                   (r_varargs st) (r_varkwargs st) chev1 def1
            else
              let '(params1, def2) :=
                  match has_default, def1 with
                  | false, Some d => (insert_at d ins (r_params st), Some (S d))
                  | _, _ => (if last_starts_with_star (r_params st)
                             then insert_before_last ins (r_params st)
                             else r_params st ++ [ins], def1)
                  end in
              mkRS (r_names st ++ [n]) anns1 poso1 (r_kwo st ++ [n]) params1 true
                   (r_varargs st) (r_varkwargs st) chev1 def2
          else
            mkRS (r_names st ++ [n]) anns1 poso1 (r_kwo st) (r_params st ++ [ins]) false
                 (r_varargs st) (r_varkwargs st) chev1 def1
      | AEmpty => st
      end
  end.

Fixpoint rs_loop (oa op ok : bool) (i : nat) (ts : list tok) (st : rstate) : rstate :=
  match ts with
  | [] => st
  | t :: ts' => rs_loop oa op ok (S i) ts' (rs_step oa op ok i st t)
  end.

Record rsig := mkRSig {
  rs_names : list name;
  rs_anns : list (name * N);
  rs_poso : list name;
  rs_kwo : list name;
  rs_params : list ptok
}.

Definition read_sig (ts : list tok) (oa op ok : bool) : rsig :=
  let st := rs_loop oa op ok 0 ts rs_init in
  let params1 := match r_chevron st with
                 | Some c => if negb op then insert_at (S c) PSlash (r_params st) else r_params st
                 | None => r_params st
                 end in
  mkRSig (r_names st ++ opt_list_name (r_varargs st) ++ opt_list_name (r_varkwargs st))
         (r_anns st) (r_poso st) (r_kwo st) params1.

(* func_code: the decorators, the def line, the returned dict *)
Record fcode := mkFC {
  fc_annotate : option (option N * list (name * N));   (* @modifiers.annotate(ret?, **anns) *)
  fc_poso : list name;          (* @modifiers.posoargs(...) when non-empty *)
  fc_kwo : list name;           (* @modifiers.kwoargs(...) when non-empty *)
  fc_params : list ptok;
  fc_ret : option N;            (* -> ret *)
  fc_body : list name           (* return {'a': a, ...} *)
}.

Definition func_code (r : rsig) (ret : option N) (oa : bool) : fcode :=
  let nonempty := match rs_anns r with [] => false | _ => true end in
  let ann :=
      match ret with
      | Some rv => if oa && nonempty then Some (Some rv, rs_anns r)
                   else if oa then Some (Some rv, [])
                   else if nonempty then Some (None, rs_anns r) else None
      | None => if nonempty then Some (None, rs_anns r) else None
      end in
  mkFC ann (rs_poso r) (rs_kwo r) (rs_params r) (if oa then None else ret) (rs_names r).

(* How the compiler reads the parameter list of a def (no decorators). *)
Definition set_all_po (ps : list param) : list param := map (set_kind PO) ps.

Fixpoint def_params (l : list ptok) (after_star seen_slash : bool) (acc : list param)
  : option (list param) :=
  match l with
  | [] => Some acc
  | PSlash :: l' =>
      if after_star || seen_slash then None
      else match acc with [] => None | _ => def_params l' false true (set_all_po acc) end
  | PStar :: l' => if after_star then None else def_params l' true seen_slash acc
  | PItem O n a d :: l' =>
      def_params l' after_star seen_slash
                 (acc ++ [pp n (if after_star then KO else PK) d a])
  | PItem 1 n a d :: l' =>
      if after_star then None
      else match d with Some _ => None | None => def_params l' true seen_slash (acc ++ [pp n VP None a]) end
  | PItem _ n a d :: l' =>
      match d, l' with
      | None, [] => Some (acc ++ [pp n VK None a])
      | _, _ => None
      end
  end.

Definition def_sig (c : fcode) : option (list param) :=
  match def_params (fc_params c) false false [] with
  | Some ps => if valid_sig ps then Some ps else None
  | None => None
  end.

(* str(inspect.Signature) as tokens *)
Fixpoint print_from (ps : list param) (prev : option kind) : list tok :=
  match ps with
  | [] => match prev with Some PO => [mkTok ASlash None None] | _ => [] end
  | p :: ps' =>
      let slash := match prev, pkind p with
                   | Some PO, PO => []
                   | Some PO, _ => [mkTok ASlash None None]
                   | _, _ => []
                   end in
      let star := match pkind p, prev with
                  | KO, Some VP => []
                  | KO, Some KO => []
                  | KO, _ => [mkTok AStar None None]
                  | _, _ => []
                  end in
      let a := match pkind p with
               | VP => AVarPos (pname p)
               | VK => AVarKw (pname p)
               | _ => AName (pname p)
               end in
      slash ++ star ++ [mkTok a (pann p) (pdef p)] ++ print_from ps' (Some (pkind p))
  end.

Definition print_sig (ps : list param) : list tok :=
  match ps with [] => [mkTok AEmpty None None] | _ => print_from ps None end.

Definition param_list_eqb (a b : list param) : bool := list_eqb param_eqb a b.

(* native round trip, as a boolean *)
Definition roundtrip_native (ps : list param) (ret : option N) : bool :=
  let c := func_code (read_sig (print_sig ps) false false false) ret false in
  match def_sig c with
  | Some ps' => param_list_eqb ps' ps
  | None => false
  end
  && opt_N_eqb (fc_ret c) ret
  && list_N_eqb (fc_body c)
       (names_of (filter is_named ps) ++ names_of (filter (is_kind VP) ps) ++ names_of (filter (is_kind VK) ps))
  && match fc_annotate c, fc_poso c, fc_kwo c with None, [], [] => true | _, _, _ => false end.

(* exact comparison of read_sig / func_code results (harness use) *)
Definition ptok_eqb (a b : ptok) : bool :=
  match a, b with
  | PSlash, PSlash => true
  | PStar, PStar => true
  | PItem s n an d, PItem s' n' an' d' =>
      Nat.eqb s s' && N.eqb n n' && opt_N_eqb an an' && opt_N_eqb d d'
  | _, _ => false
  end.

Definition kvs_eqb (a b : list (name * N)) : bool :=
  list_N_eqb (map fst a) (map fst b) && list_N_eqb (map snd a) (map snd b).

Definition rsig_eqb (a b : rsig) : bool :=
  list_N_eqb (rs_names a) (rs_names b) && kvs_eqb (rs_anns a) (rs_anns b)
  && list_N_eqb (rs_poso a) (rs_poso b) && list_N_eqb (rs_kwo a) (rs_kwo b)
  && list_eqb ptok_eqb (rs_params a) (rs_params b).

Definition fcode_eqb (a b : fcode) : bool :=
  match fc_annotate a, fc_annotate b with
  | Some (r, l), Some (r', l') => opt_N_eqb r r' && kvs_eqb l l'
  | None, None => true
  | _, _ => false
  end
  && list_N_eqb (fc_poso a) (fc_poso b) && list_N_eqb (fc_kwo a) (fc_kwo b)
  && list_eqb ptok_eqb (fc_params a) (fc_params b)
  && opt_N_eqb (fc_ret a) (fc_ret b) && list_N_eqb (fc_body a) (fc_body b).
