(* Discover.v — forward_signatures / autoforwards_ast / the fallback of
   forged_signature (sigtools/_autoforwards.py:371-410, 475-489;
   sigtools/_specifiers.py:89-119), on top of the signature algebra.

   What leaves the model: resolving a marker to a Python object and computing
   the callee's own signature (recursively, by forged_signature).  The harness
   supplies, per call, the outcome of that step ([resolved]). *)
From Sigtools.Model Require Export Base Bind Algebra Visitor.

Inductive resolved :=
| RUnresolvable                      (* UnresolvableName -> UnknownForwards *)
| RNoSig                             (* forged_signature raised ValueError / TypeError *)
| RSig (s : sigT) (partial : bool).  (* callee signature; partial: wrapped_func == functools.partial *)

Record callinfo := mkCallInfo {
  ci_use_varargs : bool; ci_use_varkwargs : bool;
  ci_hide_args : bool; ci_hide_kwargs : bool;
  ci_nargs : nat;                    (* len(fwdargs): non-starred positional arguments *)
  ci_kwnames : list N;               (* names of the keyword arguments, in order *)
  ci_res : resolved
}.

Definition info_of (c : callrec) (r : resolved) : callinfo :=
  mkCallInfo (c_use_varargs c) (c_use_varkwargs c) (c_hide_args c) (c_hide_kwargs c)
             (length (c_args c)) (map fst (c_kwargs c)) r.

(* list(forward_signatures(...)); None = UnknownForwards *)
Fixpoint forward_sigs (own : sigT) (calls : list callinfo) : option (list sigT) :=
  match calls with
  | [] => Some []
  | c :: cs =>
      if negb (ci_use_varargs c || ci_use_varkwargs c) then forward_sigs own cs
      else
        match ci_res c with
        | RUnresolvable | RNoSig => None
        | RSig s partial =>
            if partial && Nat.eqb (ci_nargs c) 0 then None      (* nothing to pop *)
            else
              match forwards own s (ci_nargs c - (if partial then 1 else 0)) (ci_kwnames c)
                             (ci_hide_args c) (ci_hide_kwargs c)
                             (ci_use_varargs c) (ci_use_varkwargs c) partial with
              | Ok r => match forward_sigs own cs with
                        | Some rs => Some (r :: rs)
                        | None => None
                        end
              | Err _ => None
              end
        end
  end.

Definition has_star (s : sigT) : bool :=
  existsb (fun p => match pkind p with VP | VK => true | _ => false end) (params s).

(* autoforwards_function + autoforwards_ast; None = UnknownForwards *)
Definition autoforwards (own : sigT) (have_ast : bool) (calls : list callinfo) : option sigT :=
  if negb (has_star own) then None
  else if negb have_ast then None
  else match forward_sigs own calls with
       | None | Some [] => None
       | Some sigs => match merge sigs with Ok r => Some r | Err _ => None end
       end.

(* forged_signature for an object without forger / hint: discovery, else the
   plain signature (which follows __wrapped__, unlike [own]) *)
Definition discover (own plain : sigT) (have_ast : bool) (calls : list callinfo) : sigT :=
  match autoforwards own have_ast calls with
  | Some r => r
  | None => plain
  end.
