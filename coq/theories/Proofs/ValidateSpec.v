(* ValidateSpec.v -- a declarative reading of the validating constructor
   (inspect.Signature.__init__ as modelled by [validate]): kinds in rank order,
   no required positional after an optional one, no duplicate name.
   Shared by MergeNeutralL.v and RcValid.v. *)
From Sigtools.Model Require Import Base Bind Roles Algebra.
From Sigtools.Proofs Require Import SmallModel Basics.
From Coq Require Import Lia.

(* kinds are in rank order *)
Fixpoint ksorted (ps : list param) : Prop :=
  match ps with
  | [] => True
  | p :: ps' => Forall (fun q => (kind_rank (pkind p) <= kind_rank (pkind q))%nat) ps' /\ ksorted ps'
  end.

(* a positional parameter is "optional-or-not-positional" *)
Definition optp (q : param) : Prop := is_positional q = true -> has_def q = true.

(* no required positional parameter after an optional positional one *)
Fixpoint dsuffix (ps : list param) : Prop :=
  match ps with
  | [] => True
  | p :: ps' => (is_positional p = true -> has_def p = true -> Forall optp ps') /\ dsuffix ps'
  end.

Lemma validate_aux_spec ps : forall top sd seen,
  validate_aux ps top sd seen = true <->
  (Forall (fun q => (top <= kind_rank (pkind q))%nat) ps /\ ksorted ps) /\
  ((sd = true -> Forall optp ps) /\ dsuffix ps) /\
  (NoDup (names_of ps) /\ forall x, In x (names_of ps) -> ~ In x seen).
Proof.
  induction ps as [|p ps IH]; intros top sd seen.
  - cbn. split; [intros _|reflexivity]. repeat split; auto; try constructor; intros x [].
  - cbn [validate_aux ksorted dsuffix names_of map].
    destruct (Nat.ltb (kind_rank (pkind p)) top) eqn:E1.
    { split; [discriminate|]. intros [[H _] _]. inversion H; subst. apply Nat.ltb_lt in E1. lia. }
    apply Nat.ltb_ge in E1. rewrite (Nat.max_l _ _ E1).
    destruct (is_positional p && negb (has_def p) && sd) eqn:E2.
    { split; [discriminate|]. intros [_ [[H _] _]].
      apply andb_true_iff in E2. destruct E2 as [E2 E3]. apply andb_true_iff in E2. destruct E2 as [E2 E4].
      specialize (H E3). inversion H as [|? ? Hp _]; subst. rewrite (Hp E2) in E4. discriminate. }
    destruct (mem (pname p) seen) eqn:E3.
    { split; [discriminate|]. intros [_ [_ [_ H]]]. apply mem_In in E3. exfalso. apply (H (pname p)); [left; reflexivity|exact E3]. }
    apply mem_false_In in E3. rewrite IH. clear IH. split.
    + intros [[K1 K2] [[D1 D2] [N1 N2]]]. repeat split.
      * constructor; [exact E1|]. eapply Forall_impl; [|exact K1]. cbv beta. intros; lia.
      * exact K1.
      * exact K2.
      * intros ->. rewrite andb_true_r in E2. constructor.
        -- intros Hp. rewrite Hp in E2. cbn in E2. destruct (has_def p); [reflexivity|discriminate].
        -- apply D1. reflexivity.
      * intros Hp Hd. apply D1. rewrite Hp, Hd. apply orb_true_r.
      * exact D2.
      * constructor; [|exact N1]. intros Hin. apply (N2 _ Hin). left. reflexivity.
      * intros x [<-|Hx]; [exact E3|]. intros Hs. apply (N2 _ Hx). right. exact Hs.
    + intros [[K1 [K2 K3]] [[D1 [D2 D3]] [N1 N2]]]. inversion N1 as [|? ? N3 N4]; subst. repeat split.
      * exact K2.
      * exact K3.
      * intros Hs. apply orb_true_iff in Hs. destruct Hs as [->|Hs].
        -- specialize (D1 eq_refl). inversion D1; subst; assumption.
        -- apply andb_true_iff in Hs. destruct Hs as [Hp Hd]. apply D2; assumption.
      * exact D3.
      * exact N4.
      * intros x Hx [<-|Hs]; [apply N3; exact Hx|]. apply (N2 x); [right; exact Hx|exact Hs].
Qed.

Theorem validate_spec ps :
  validate ps = true <-> ksorted ps /\ dsuffix ps /\ NoDup (names_of ps).
Proof.
  unfold validate. rewrite validate_aux_spec. split.
  - intros [[_ K] [[_ D] [N _]]]. auto.
  - intros [K [D N]]. repeat split; auto.
    + apply Forall_forall. intros; lia.
    + discriminate.
Qed.

(* the shape (kinds and optionality) decides everything but the names *)
Definition same_shape (p q : param) : Prop := pkind p = pkind q /\ has_def p = has_def q.

Lemma optp_shape p q : same_shape p q -> optp p -> optp q.
Proof. unfold same_shape, optp, is_positional. intros [-> ->]. auto. Qed.

Lemma Forall_shape (Q : param -> param -> Prop) (P1 P2 : param -> Prop) ps ps' :
  (forall p q, Q p q -> P1 p -> P2 q) -> Forall2 Q ps ps' -> Forall P1 ps -> Forall P2 ps'.
Proof.
  intros HQ H. induction H as [|p q ps ps' Hpq _ IH]; intros HF; [constructor|].
  inversion HF; subst. constructor; [eapply HQ; eauto|apply IH; assumption].
Qed.

Lemma ksorted_shape ps ps' : Forall2 same_shape ps ps' -> ksorted ps -> ksorted ps'.
Proof.
  induction 1 as [|p q ps ps' Hpq Hr IH]; [auto|]. cbn [ksorted]. intros [H1 H2]. split; [|apply IH; exact H2].
  eapply (Forall_shape same_shape); [|exact Hr|exact H1]. cbv beta.
  intros a b [Hk _]. destruct Hpq as [Hk' _]. rewrite <- Hk, <- Hk'. auto.
Qed.

Lemma dsuffix_shape ps ps' : Forall2 same_shape ps ps' -> dsuffix ps -> dsuffix ps'.
Proof.
  induction 1 as [|p q ps ps' Hpq Hr IH]; [auto|]. cbn [dsuffix]. intros [H1 H2]. split; [|apply IH; exact H2].
  intros Hp Hd. eapply (Forall_shape same_shape); [exact optp_shape|exact Hr|].
  destruct Hpq as [Hk Hh]. apply H1; [unfold is_positional in *; rewrite Hk; exact Hp|rewrite Hh; exact Hd].
Qed.

Theorem validate_same_shape ps ps' :
  Forall2 same_shape ps ps' -> validate ps = true -> NoDup (names_of ps') -> validate ps' = true.
Proof.
  intros HS HV HN. apply validate_spec in HV. destruct HV as (K & D & _).
  apply validate_spec. repeat split; [eapply ksorted_shape|eapply dsuffix_shape|]; eauto.
Qed.

(* ---- list helpers ---- *)
Lemma ksorted_app a b :
  ksorted (a ++ b) <->
  ksorted a /\ ksorted b /\
  forall p q, In p a -> In q b -> (kind_rank (pkind p) <= kind_rank (pkind q))%nat.
Proof.
  induction a as [|x a IH]; cbn [app ksorted].
  - split; [intros H; repeat split; auto; intros ? ? []|tauto].
  - rewrite IH, Forall_app. split.
    + intros [[F1 F2] [K1 [K2 K3]]]. repeat split; auto.
      intros p q [<-|Hp] Hq; [rewrite Forall_forall in F2; apply F2; exact Hq|apply K3; assumption].
    + intros [[F1 K1] [K2 K3]]. repeat split; auto.
      * apply Forall_forall. intros q Hq. apply K3; [left; reflexivity|exact Hq].
      * intros p q Hp Hq. apply K3; [right; exact Hp|exact Hq].
Qed.

Lemma dsuffix_app a b :
  dsuffix (a ++ b) <->
  dsuffix a /\ dsuffix b /\
  ((exists p, In p a /\ is_positional p = true /\ has_def p = true) -> Forall optp b).
Proof.
  induction a as [|x a IH]; cbn [app dsuffix].
  - split; [intros H; repeat split; auto; intros [p [[] _]]|tauto].
  - rewrite IH. split.
    + intros [F [D1 [D2 D3]]]. repeat split; auto.
      * intros Hp Hd. specialize (F Hp Hd). apply Forall_app in F. tauto.
      * intros [p [[<-|Hp] [Hq Hd]]]; [specialize (F Hq Hd); apply Forall_app in F; tauto|].
        apply D3. exists p. auto.
    + intros [[F D1] [D2 D3]]. repeat split; auto.
      * intros Hp Hd. apply Forall_app. split; [apply F; assumption|]. apply D3. exists x. split; [left; reflexivity|auto].
      * intros [p [Hp Hq]]. apply D3. exists p. split; [right; exact Hp|exact Hq].
Qed.

Lemma dsuffix_nonpos b : Forall (fun q => is_positional q = false) b -> dsuffix b /\ Forall optp b.
Proof.
  induction 1 as [|q b Hq _ [IH1 IH2]]; [split; constructor|]. split.
  - cbn [dsuffix]. split; [intros _ _; exact IH2|exact IH1].
  - constructor; [|exact IH2]. unfold optp. rewrite Hq. discriminate.
Qed.

(* ---- duplicate-free name lists ---- *)
Lemma nodup_names_inj ps p q :
  NoDup (names_of ps) -> In p ps -> In q ps -> pname p = pname q -> p = q.
Proof.
  induction ps as [|x ps IH]; intros Hn Hp Hq E; [destruct Hp|].
  cbn in Hn. inversion Hn as [|? ? Hx Hn']; subst.
  destruct Hp as [->|Hp], Hq as [->|Hq]; auto.
  - exfalso. apply Hx. rewrite E. apply in_map. exact Hq.
  - exfalso. apply Hx. rewrite <- E. apply in_map. exact Hp.
Qed.

Lemma nodup_map_inj {A B} (f : A -> B) l :
  (forall x y, In x l -> In y l -> f x = f y -> x = y) -> NoDup l -> NoDup (map f l).
Proof.
  intros Hi Hn. induction Hn as [|x l Hx Hn IH]; [constructor|]. cbn. constructor.
  - intros Hin. apply in_map_iff in Hin. destruct Hin as [y [E Hy]].
    assert (y = x) by (apply Hi; [right; exact Hy|left; reflexivity|exact E]). subst y. contradiction.
  - apply IH. intros a b Ha Hb. apply Hi; right; assumption.
Qed.

Lemma nodup_of_names ps : NoDup (names_of ps) -> NoDup ps.
Proof.
  induction ps as [|p ps IH]; intros H; [constructor|]. cbn in H. inversion H; subst. constructor; [|apply IH; assumption].
  intros Hin. apply H2. apply in_map. exact Hin.
Qed.

Lemma valid_sig_parts ps :
  valid_sig ps = true -> validate ps = true /\ (count_kind VP ps <= 1)%nat /\ (count_kind VK ps <= 1)%nat.
Proof.
  unfold valid_sig. intros H. apply andb_true_iff in H. destruct H as [H H2]. apply andb_true_iff in H.
  destruct H as [H0 H1]. apply Nat.leb_le in H1. apply Nat.leb_le in H2. auto.
Qed.

Print Assumptions validate_spec.
Print Assumptions validate_same_shape.
