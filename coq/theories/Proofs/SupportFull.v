(* SupportFull.v -- C20: the token-level round trip of sigtools.support
   (read_sig / func_code / the reading of a def) for ALL signatures, native
   spelling and modifiers spellings.  Model: Model/Support.v part 2,
   Model/Modifiers.v (_prepare), Model/Annot.v (annotate). *)
From Coq Require Import List NArith Bool Arith Lia Permutation.
From Sigtools.Model Require Import Base Bind Algebra Support.
From Sigtools.Model Require Modifiers Annot.
Import ListNotations.
Open Scope N_scope.

Module MM := Sigtools.Model.Modifiers.
Module MA := Sigtools.Model.Annot.

(* ================================================================ part 0 *)
(* validate as three independent checks *)
Fixpoint ranks_ok (ps : list param) (top : nat) : bool :=
  match ps with
  | [] => true
  | p :: ps' => Nat.leb top (kind_rank (pkind p)) && ranks_ok ps' (kind_rank (pkind p))
  end.

Fixpoint defs_ok (ps : list param) (sd : bool) : bool :=
  match ps with
  | [] => true
  | p :: ps' => negb (is_positional p && negb (has_def p) && sd)
                && defs_ok ps' (sd || (is_positional p && has_def p))
  end.

Fixpoint nodup_ok (ps : list param) (seen : list name) : bool :=
  match ps with
  | [] => true
  | p :: ps' => negb (mem (pname p) seen) && nodup_ok ps' (pname p :: seen)
  end.

Lemma validate_aux_split ps : forall top sd seen,
  validate_aux ps top sd seen = ranks_ok ps top && defs_ok ps sd && nodup_ok ps seen.
Proof.
  induction ps as [|p ps IH]; intros top sd seen; [reflexivity|].
  cbn [validate_aux ranks_ok defs_ok nodup_ok].
  destruct (Nat.ltb (kind_rank (pkind p)) top) eqn:L.
  - apply Nat.ltb_lt in L. assert (E : Nat.leb top (kind_rank (pkind p)) = false) by (apply Nat.leb_gt; lia).
    rewrite E. reflexivity.
  - apply Nat.ltb_ge in L. assert (E : Nat.leb top (kind_rank (pkind p)) = true) by (apply Nat.leb_le; lia).
    rewrite E. rewrite Nat.max_l by lia.
    destruct (is_positional p && negb (has_def p) && sd); cbn [negb andb].
    + rewrite andb_false_r. reflexivity.
    + destruct (mem (pname p) seen); cbn [negb andb].
      * rewrite !andb_false_r. reflexivity.
      * rewrite IH. destruct (ranks_ok ps (kind_rank (pkind p))), (defs_ok ps (sd || is_positional p && has_def p)); reflexivity.
Qed.

Lemma mem_In' x l : mem x l = true <-> In x l.
Proof.
  induction l as [|y l IH]; cbn [mem In]; [split; [discriminate|tauto]|].
  rewrite orb_true_iff, N.eqb_eq, IH. split; intros [H|H]; auto.
Qed.

Lemma nodup_ok_spec ps : forall seen,
  nodup_ok ps seen = true <-> NoDup (names_of ps) /\ forall x, In x (names_of ps) -> ~ In x seen.
Proof.
  induction ps as [|p ps IH]; intros seen; cbn [nodup_ok names_of map].
  - split; [intros _; split; [constructor|intros x []]|reflexivity].
  - rewrite andb_true_iff, negb_true_iff, IH. split.
    + intros [Hm [Hnd Hdis]]. split.
      * constructor; [|exact Hnd]. intros Hin. apply (Hdis _ Hin). left. reflexivity.
      * intros x [<-|Hin].
        -- intros Hs. apply mem_In' in Hs. congruence.
        -- intros Hs. apply (Hdis _ Hin). right. exact Hs.
    + intros [Hnd Hdis]. inversion Hnd as [|? ? Hnot Hnd']; subst. split; [|split].
      * destruct (mem (pname p) seen) eqn:E; [|reflexivity]. apply mem_In' in E.
        exfalso. apply (Hdis (pname p)); [left; reflexivity|exact E].
      * exact Hnd'.
      * intros x Hin [<-|Hs]; [exact (Hnot Hin)|]. apply (Hdis x); [right; exact Hin|exact Hs].
Qed.

Lemma ranks_ok_mono ps : forall r top, (top <= r)%nat -> ranks_ok ps r = true -> ranks_ok ps top = true.
Proof.
  destruct ps as [|p ps]; intros r top Hle H; [reflexivity|].
  cbn [ranks_ok] in *. apply andb_true_iff in H. destruct H as [H1 H2].
  apply Nat.leb_le in H1. rewrite H2, andb_true_r. apply Nat.leb_le. lia.
Qed.

Definition all_rank (r : nat) (A : list param) : Prop := forall p, In p A -> kind_rank (pkind p) = r.

(* a segment of one kind followed by a sorted rest *)
Lemma ranks_ok_seg r A : forall B top, all_rank r A -> (top <= r)%nat ->
  ranks_ok B r = true -> ranks_ok (A ++ B) top = true.
Proof.
  induction A as [|p A IH]; intros B top HA Hle HB; cbn [app].
  - exact (ranks_ok_mono B r top Hle HB).
  - cbn [ranks_ok]. rewrite (HA p (or_introl eq_refl)).
    apply andb_true_iff. split; [apply Nat.leb_le; exact Hle|].
    apply IH; [intros q Hq; apply HA; right; exact Hq|lia|exact HB].
Qed.

Lemma split_rank r : forall ps, ranks_ok ps r = true ->
  exists A B, ps = A ++ B /\ all_rank r A /\ ranks_ok B (S r) = true.
Proof.
  induction ps as [|p ps IH]; intros H.
  - exists [], []. split; [reflexivity|]. split; [intros p []|reflexivity].
  - cbn [ranks_ok] in H. apply andb_true_iff in H. destruct H as [H1 H2]. apply Nat.leb_le in H1.
    destruct (Nat.eq_dec (kind_rank (pkind p)) r) as [E|E].
    + rewrite E in H2. destruct (IH H2) as (A & B & -> & HA & HB).
      exists (p :: A), B. split; [reflexivity|]. split; [|exact HB].
      intros q [<-|Hq]; [exact E|exact (HA q Hq)].
    + exists [], (p :: ps). split; [reflexivity|]. split; [intros q []|].
      cbn [ranks_ok]. rewrite H2, andb_true_r. apply Nat.leb_le. lia.
Qed.

Lemma ranks_ok_5 ps : ranks_ok ps 5 = true -> ps = [].
Proof.
  destruct ps as [|p ps]; [reflexivity|]. cbn [ranks_ok]. intros H.
  apply andb_true_iff in H. destruct H as [H _]. apply Nat.leb_le in H.
  destruct (pkind p); cbn [kind_rank] in H; lia.
Qed.

Lemma all_rank_kind r k A : kind_rank k = r -> all_rank r A -> forall p, In p A -> pkind p = k.
Proof.
  intros Hk HA p Hp. specialize (HA p Hp). rewrite <- Hk in HA.
  destruct (pkind p), k; cbn [kind_rank] in HA; try reflexivity; lia.
Qed.

Definition all_kind (k : kind) (A : list param) : Prop := forall p, In p A -> pkind p = k.

(* the shape of a valid signature *)
Lemma valid_sig_shape ps : valid_sig ps = true ->
  exists O P V K W, ps = O ++ P ++ V ++ K ++ W /\
    all_kind PO O /\ all_kind PK P /\ all_kind VP V /\ all_kind KO K /\ all_kind VK W /\
    (length V <= 1)%nat /\ (length W <= 1)%nat.
Proof.
  unfold valid_sig, validate. intros H.
  apply andb_true_iff in H. destruct H as [H HcW]. apply andb_true_iff in H. destruct H as [H HcV].
  rewrite validate_aux_split in H. apply andb_true_iff in H. destruct H as [H _].
  apply andb_true_iff in H. destruct H as [H _].
  destruct (split_rank 0 ps H) as (O & B0 & -> & HO & H0).
  destruct (split_rank 1 B0 H0) as (P & B1 & -> & HP & H1).
  destruct (split_rank 2 B1 H1) as (V & B2 & -> & HV & H2).
  destruct (split_rank 3 B2 H2) as (K & B3 & -> & HK & H3).
  destruct (split_rank 4 B3 H3) as (W & B4 & -> & HW & H4).
  apply ranks_ok_5 in H4. subst B4. rewrite app_nil_r in *.
  exists O, P, V, K, W. split; [reflexivity|].
  pose proof (all_rank_kind 0 PO O eq_refl HO) as KO_.
  pose proof (all_rank_kind 1 PK P eq_refl HP) as KP.
  pose proof (all_rank_kind 2 VP V eq_refl HV) as KV.
  pose proof (all_rank_kind 3 KO K eq_refl HK) as KK.
  pose proof (all_rank_kind 4 VK W eq_refl HW) as KW.
  repeat split; try assumption.
  - apply Nat.leb_le in HcV. unfold count_kind in HcV. rewrite !filter_app, !app_length in HcV.
    assert (E : filter (is_kind VP) V = V).
    { clear - KV. induction V as [|v V IH]; [reflexivity|]. cbn [filter].
      unfold is_kind at 1, kind_eqb. rewrite (KV v (or_introl eq_refl)). cbn.
      rewrite IH; [reflexivity|]. intros q Hq. apply KV. right. exact Hq. }
    rewrite E in HcV. lia.
  - apply Nat.leb_le in HcW. unfold count_kind in HcW. rewrite !filter_app, !app_length in HcW.
    assert (E : filter (is_kind VK) W = W).
    { clear - KW. induction W as [|v W IH]; [reflexivity|]. cbn [filter].
      unfold is_kind at 1, kind_eqb. rewrite (KW v (or_introl eq_refl)). cbn.
      rewrite IH; [reflexivity|]. intros q Hq. apply KW. right. exact Hq. }
    rewrite E in HcW. lia.
Qed.

(* ================================================================ part 1 *)
(* str(sig) in closed form *)
Definition tk (p : param) : tok :=
  mkTok (match pkind p with VP => AVarPos (pname p) | VK => AVarKw (pname p) | _ => AName (pname p) end)
        (pann p) (pdef p).
Definition slashT : tok := mkTok ASlash None None.
Definition starT : tok := mkTok AStar None None.

Definition sl (O : list param) : list tok := match O with [] => [] | _ => [slashT] end.
Definition st_ (V K : list param) : list tok :=
  match V, K with [], _ :: _ => [starT] | _, _ => [] end.

Definition toks (O P V K W : list param) : list tok :=
  map tk O ++ sl O ++ map tk P ++ map tk V ++ st_ V K ++ map tk K ++ map tk W.

Definition lowprev (prev : option kind) : Prop := prev = None \/ prev = Some PK.

Lemma pf_po A : forall B prev, all_kind PO A -> (prev = None \/ prev = Some PO) ->
  print_from (A ++ B) prev = map tk A ++ print_from B (match A with [] => prev | _ => Some PO end).
Proof.
  induction A as [|p A IH]; intros B prev HA Hp; [reflexivity|].
  cbn [app print_from map]. rewrite (HA p (or_introl eq_refl)).
  assert (E : match prev with Some PO => @nil tok | _ => [] end = []) by (destruct prev as [[]|]; reflexivity).
  destruct Hp as [-> | ->]; cbn [app].
  - unfold tk at 1. rewrite (HA p (or_introl eq_refl)). f_equal.
    rewrite IH; [|intros q Hq; apply HA; right; exact Hq|right; reflexivity].
    destruct A; reflexivity.
  - unfold tk at 1. rewrite (HA p (or_introl eq_refl)). f_equal.
    rewrite IH; [|intros q Hq; apply HA; right; exact Hq|right; reflexivity].
    destruct A; reflexivity.
Qed.

Definition head_not_po (B : list param) : Prop :=
  match B with [] => True | q :: _ => pkind q <> PO end.

Lemma pf_slash B : head_not_po B -> print_from B (Some PO) = slashT :: print_from B None.
Proof.
  destruct B as [|q B]; intros H; [reflexivity|].
  cbn [print_from head_not_po] in *. destruct (pkind q); try congruence; reflexivity.
Qed.

Lemma pf_pk A : forall B prev, all_kind PK A -> lowprev prev ->
  print_from (A ++ B) prev = map tk A ++ print_from B (match A with [] => prev | _ => Some PK end).
Proof.
  induction A as [|p A IH]; intros B prev HA Hp; [reflexivity|].
  cbn [app print_from map]. rewrite (HA p (or_introl eq_refl)).
  destruct Hp as [-> | ->]; cbn [app].
  - unfold tk at 1. rewrite (HA p (or_introl eq_refl)). f_equal.
    rewrite IH; [|intros q Hq; apply HA; right; exact Hq|right; reflexivity].
    destruct A; reflexivity.
  - unfold tk at 1. rewrite (HA p (or_introl eq_refl)). f_equal.
    rewrite IH; [|intros q Hq; apply HA; right; exact Hq|right; reflexivity].
    destruct A; reflexivity.
Qed.

Lemma pf_ko A : forall B prev, all_kind KO A -> (prev = Some VP \/ prev = Some KO) ->
  print_from (A ++ B) prev = map tk A ++ print_from B (match A with [] => prev | _ => Some KO end).
Proof.
  induction A as [|p A IH]; intros B prev HA Hp; [reflexivity|].
  cbn [app print_from map]. rewrite (HA p (or_introl eq_refl)).
  destruct Hp as [-> | ->]; cbn [app].
  - unfold tk at 1. rewrite (HA p (or_introl eq_refl)). f_equal.
    rewrite IH; [|intros q Hq; apply HA; right; exact Hq|right; reflexivity].
    destruct A; reflexivity.
  - unfold tk at 1. rewrite (HA p (or_introl eq_refl)). f_equal.
    rewrite IH; [|intros q Hq; apply HA; right; exact Hq|right; reflexivity].
    destruct A; reflexivity.
Qed.

Lemma pf_ko_first p B prev : pkind p = KO -> lowprev prev ->
  print_from (p :: B) prev = starT :: tk p :: print_from B (Some KO).
Proof.
  intros Hk Hp. cbn [print_from]. rewrite Hk. unfold tk. rewrite Hk.
  destruct Hp as [-> | ->]; reflexivity.
Qed.

Lemma pf_vp v B prev : pkind v = VP -> lowprev prev ->
  print_from (v :: B) prev = tk v :: print_from B (Some VP).
Proof.
  intros Hk Hp. cbn [print_from]. rewrite Hk. unfold tk. rewrite Hk.
  destruct Hp as [-> | ->]; reflexivity.
Qed.

Lemma pf_vk w prev : pkind w = VK -> prev <> Some PO ->
  print_from [w] prev = [tk w].
Proof.
  intros Hk Hp. cbn [print_from]. rewrite Hk. unfold tk. rewrite Hk.
  destruct prev as [[]|]; try reflexivity. congruence.
Qed.

Lemma pf_nil prev : prev <> Some PO -> print_from [] prev = [].
Proof. intros H. cbn [print_from]. destruct prev as [[]|]; try reflexivity. congruence. Qed.

Lemma all_kind_tail k p A : all_kind k (p :: A) -> all_kind k A.
Proof. intros H q Hq. apply H. right. exact Hq. Qed.

(* K ++ W after a keyword-only context (prev = VP or KO) *)
Lemma pf_kw K W prev : all_kind KO K -> all_kind VK W -> (length W <= 1)%nat ->
  (prev = Some VP \/ prev = Some KO) ->
  print_from (K ++ W) prev = map tk K ++ map tk W.
Proof.
  intros HK HW HlW Hp. rewrite (pf_ko K W prev HK Hp). f_equal.
  assert (Hp' : match K with [] => prev | _ => Some KO end <> Some PO).
  { destruct K; [destruct Hp as [-> | ->]; discriminate|discriminate]. }
  destruct W as [|w [|w2 W]]; cbn [length] in HlW; try lia.
  - apply pf_nil. exact Hp'.
  - apply pf_vk; [apply HW; left; reflexivity|exact Hp'].
Qed.

Lemma pf_rest V K W prev : all_kind VP V -> all_kind KO K -> all_kind VK W ->
  (length V <= 1)%nat -> (length W <= 1)%nat -> lowprev prev ->
  print_from (V ++ K ++ W) prev = map tk V ++ st_ V K ++ map tk K ++ map tk W.
Proof.
  intros HV HK HW HlV HlW Hp.
  destruct V as [|v [|v2 V]]; cbn [length] in HlV; try lia.
  - cbn [app map st_]. destruct K as [|p K].
    + cbn [app map]. destruct W as [|w [|w2 W]]; cbn [length] in HlW; try lia.
      * apply pf_nil. destruct Hp as [-> | ->]; discriminate.
      * apply pf_vk; [apply HW; left; reflexivity|destruct Hp as [-> | ->]; discriminate].
    + cbn [app map]. rewrite (pf_ko_first p (K ++ W) prev (HK p (or_introl eq_refl)) Hp).
      f_equal. f_equal. apply pf_kw; [exact (all_kind_tail _ _ _ HK)|exact HW|exact HlW|right; reflexivity].
  - cbn [app map st_]. rewrite (pf_vp v (K ++ W) prev (HV v (or_introl eq_refl)) Hp).
    f_equal. apply pf_kw; [exact HK|exact HW|exact HlW|left; reflexivity].
Qed.

Lemma print_from_shape O P V K W :
  all_kind PO O -> all_kind PK P -> all_kind VP V -> all_kind KO K -> all_kind VK W ->
  (length V <= 1)%nat -> (length W <= 1)%nat ->
  print_from (O ++ P ++ V ++ K ++ W) None = toks O P V K W.
Proof.
  intros HO HP HV HK HW HlV HlW. unfold toks.
  rewrite (pf_po O (P ++ V ++ K ++ W) None HO (or_introl eq_refl)). f_equal.
  assert (Hrest : forall prev, lowprev prev ->
            print_from (P ++ V ++ K ++ W) prev
            = map tk P ++ map tk V ++ st_ V K ++ map tk K ++ map tk W).
  { intros prev Hp. rewrite (pf_pk P (V ++ K ++ W) prev HP Hp). f_equal.
    apply pf_rest; try assumption. destruct P; [exact Hp|right; reflexivity]. }
  destruct O as [|o O].
  - cbn [sl app]. apply Hrest. left. reflexivity.
  - cbn [sl app]. rewrite pf_slash.
    + f_equal. apply Hrest. left. reflexivity.
    + destruct P as [|p P]; [|cbn; rewrite (HP p (or_introl eq_refl)); discriminate].
      destruct V as [|v V]; [|cbn; rewrite (HV v (or_introl eq_refl)); discriminate].
      destruct K as [|k K]; [|cbn; rewrite (HK k (or_introl eq_refl)); discriminate].
      destruct W as [|w W]; [exact I|cbn; rewrite (HW w (or_introl eq_refl)); discriminate].
Qed.

(* ================================================================ part 2 *)
(* the loop of read_sig, token by token *)
Definition stars_of (p : param) : nat := match pkind p with VP => 1 | VK => 2 | _ => 0 end%nat.
Definition item (oa : bool) (p : param) : ptok :=
  PItem (stars_of p) (pname p) (if oa then None else pann p) (pdef p).
Definition add_ann (oa : bool) (an : list (name * N)) (p : param) : list (name * N) :=
  match pann p with Some a => if oa then dset an (pname p) a else an | None => an end.
Definition add_anns (oa : bool) (A : list param) (an : list (name * N)) : list (name * N) :=
  fold_left (add_ann oa) A an.
Definition def_upd (fs : bool) (i : nat) (d : option nat) (p : param) : option nat :=
  match pdef p with
  | Some _ => match d with None => Some (if fs then i - 1 else i)%nat | _ => d end
  | None => d
  end.

Definition is_pos_kind (p : param) : Prop := pkind p = PO \/ pkind p = PK.

Lemma step_pos oa op ok i st p : is_pos_kind p -> r_found_star st = false ->
  rs_step oa op ok i st (tk p)
  = mkRS (r_names st ++ [pname p]) (add_ann oa (r_anns st) p) (r_poso st) (r_kwo st)
         (r_params st ++ [item oa p]) false (r_varargs st) (r_varkwargs st) (r_chevron st)
         (def_upd false i (r_default st) p).
Proof.
  intros Hk Hf. destruct st as [nm an po kw pr fs va vk ch df]. cbn [r_found_star] in Hf. subst fs.
  unfold rs_step, tk, item, stars_of, add_ann, def_upd.
  destruct Hk as [Hk|Hk]; rewrite Hk; cbn;
    destruct (pann p); destruct (pdef p); destruct df; destruct oa; reflexivity.
Qed.

Lemma step_vp oa op ok i st v : pkind v = VP -> r_chevron st = None ->
  rs_step oa op ok i st (tk v)
  = mkRS (r_names st) (add_ann oa (r_anns st) v) (r_poso st) (r_kwo st)
         (r_params st ++ [item oa v]) true (Some (pname v)) (r_varkwargs st) None
         (def_upd (r_found_star st) i (r_default st) v).
Proof.
  intros Hk Hc. destruct st as [nm an po kw pr fs va vk ch df]. cbn [r_chevron] in Hc. subst ch.
  unfold rs_step, tk, item, stars_of, add_ann, def_upd. rewrite Hk. cbn.
  destruct (pann v); destruct (pdef v); destruct df; destruct oa; destruct fs; reflexivity.
Qed.

Lemma step_vk oa op ok i st w : pkind w = VK -> r_chevron st = None ->
  rs_step oa op ok i st (tk w)
  = mkRS (r_names st) (add_ann oa (r_anns st) w) (r_poso st) (r_kwo st)
         (r_params st ++ [item oa w]) true (r_varargs st) (Some (pname w)) None
         (def_upd (r_found_star st) i (r_default st) w).
Proof.
  intros Hk Hc. destruct st as [nm an po kw pr fs va vk ch df]. cbn [r_chevron] in Hc. subst ch.
  unfold rs_step, tk, item, stars_of, add_ann, def_upd. rewrite Hk. cbn.
  destruct (pann w); destruct (pdef w); destruct df; destruct oa; destruct fs; reflexivity.
Qed.

Lemma step_star oa op ok i st : r_chevron st = None ->
  rs_step oa op ok i st starT
  = mkRS (r_names st) (r_anns st) (r_poso st) (r_kwo st)
         (if ok then r_params st else r_params st ++ [PStar]) true
         (r_varargs st) (r_varkwargs st) None (r_default st).
Proof.
  intros Hc. destruct st as [nm an po kw pr fs va vk ch df]. cbn [r_chevron] in Hc. subst ch.
  unfold rs_step, starT. cbn. reflexivity.
Qed.

Lemma step_slash oa ok i st :
  rs_step oa false ok i st slashT
  = mkRS (r_names st) (r_anns st) (r_poso st) (r_kwo st)
         (r_params st ++ [PSlash]) (r_found_star st)
         (r_varargs st) (r_varkwargs st) None (r_default st).
Proof. destruct st as [nm an po kw pr fs va vk ch df]. unfold rs_step, slashT. cbn. reflexivity. Qed.

Lemma step_slash_op oa ok i st :
  rs_step oa true ok i st slashT
  = mkRS (r_names st) (r_anns st) (r_poso st ++ r_names st) (r_kwo st)
         (r_params st) (r_found_star st)
         (r_varargs st) (r_varkwargs st) (r_chevron st) (r_default st).
Proof. destruct st as [nm an po kw pr fs va vk ch df]. unfold rs_step, slashT. cbn. reflexivity. Qed.

(* keyword-only item, native placement *)
Lemma step_ko oa op i st p : pkind p = KO -> r_found_star st = true ->
  rs_step oa op false i st (tk p)
  = mkRS (r_names st ++ [pname p]) (add_ann oa (r_anns st) p) (r_poso st) (r_kwo st)
         (r_params st ++ [item oa p]) true (r_varargs st) (r_varkwargs st) (r_chevron st)
         (def_upd true i (r_default st) p).
Proof.
  intros Hk Hf. destruct st as [nm an po kw pr fs va vk ch df]. cbn [r_found_star] in Hf. subst fs.
  unfold rs_step, tk, item, stars_of, add_ann, def_upd. rewrite Hk. cbn.
  destruct (pann p); destruct (pdef p); destruct df; destruct oa; reflexivity.
Qed.

Lemma rs_loop_app oa op ok a : forall b i st,
  rs_loop oa op ok i (a ++ b) st = rs_loop oa op ok (i + length a) b (rs_loop oa op ok i a st).
Proof.
  induction a as [|t a IH]; intros b i st; cbn [app rs_loop length].
  - rewrite Nat.add_0_r. reflexivity.
  - rewrite IH. replace (S i + length a)%nat with (i + S (length a))%nat by lia. reflexivity.
Qed.

Fixpoint defs_upd (fs : bool) (i : nat) (d : option nat) (A : list param) : option nat :=
  match A with
  | [] => d
  | p :: A' => defs_upd fs (S i) (def_upd fs i d p) A'
  end.

Definition all_pos (A : list param) : Prop := forall p, In p A -> is_pos_kind p.

Lemma seg_pos oa op ok A : forall i st, all_pos A -> r_found_star st = false ->
  rs_loop oa op ok i (map tk A) st
  = mkRS (r_names st ++ names_of A) (add_anns oa A (r_anns st)) (r_poso st) (r_kwo st)
         (r_params st ++ map (item oa) A) false (r_varargs st) (r_varkwargs st) (r_chevron st)
         (defs_upd false i (r_default st) A).
Proof.
  induction A as [|p A IH]; intros i st HA Hf.
  - cbn [map rs_loop names_of add_anns fold_left defs_upd]. rewrite !app_nil_r.
    destruct st; cbn in *; subst; reflexivity.
  - cbn [map rs_loop]. rewrite (step_pos oa op ok i st p (HA p (or_introl eq_refl)) Hf).
    rewrite IH; [|intros q Hq; apply HA; right; exact Hq|reflexivity].
    cbn [r_names r_anns r_poso r_kwo r_params r_varargs r_varkwargs r_chevron r_default].
    cbn [names_of map add_anns fold_left defs_upd]. rewrite <- !app_assoc. reflexivity.
Qed.

Lemma seg_ko oa op A : forall i st, all_kind KO A -> r_found_star st = true ->
  rs_loop oa op false i (map tk A) st
  = mkRS (r_names st ++ names_of A) (add_anns oa A (r_anns st)) (r_poso st) (r_kwo st)
         (r_params st ++ map (item oa) A) true (r_varargs st) (r_varkwargs st) (r_chevron st)
         (defs_upd true i (r_default st) A).
Proof.
  induction A as [|p A IH]; intros i st HA Hf.
  - cbn [map rs_loop names_of add_anns fold_left defs_upd]. rewrite !app_nil_r.
    destruct st; cbn in *; subst; reflexivity.
  - cbn [map rs_loop]. rewrite (step_ko oa op i st p (HA p (or_introl eq_refl)) Hf).
    rewrite IH; [|intros q Hq; apply HA; right; exact Hq|reflexivity].
    cbn [r_names r_anns r_poso r_kwo r_params r_varargs r_varkwargs r_chevron r_default].
    cbn [names_of map add_anns fold_left defs_upd]. rewrite <- !app_assoc. reflexivity.
Qed.

(* optional pieces *)
Definition slp (O : list param) : list ptok := match O with [] => [] | _ => [PSlash] end.
Definition stp (ok : bool) (V K : list param) : list ptok :=
  match V, K with [], _ :: _ => if ok then [] else [PStar] | _, _ => [] end.
Definition nonempty {A} (l : list A) : bool := match l with [] => false | _ => true end.
Definition optname (V : list param) (o : option name) : option name :=
  match V with [] => o | v :: _ => Some (pname v) end.

Lemma rs_eta st :
  st = mkRS (r_names st) (r_anns st) (r_poso st) (r_kwo st) (r_params st) (r_found_star st)
            (r_varargs st) (r_varkwargs st) (r_chevron st) (r_default st).
Proof. destruct st; reflexivity. Qed.

(* positional-only parameters and their slash, native spelling *)
Lemma seg_O oa op ok O i st : all_kind PO O -> (O = [] \/ op = false) ->
  r_found_star st = false -> r_chevron st = None ->
  exists D, rs_loop oa op ok i (map tk O ++ sl O) st
  = mkRS (r_names st ++ names_of O) (add_anns oa O (r_anns st)) (r_poso st) (r_kwo st)
         (r_params st ++ map (item oa) O ++ slp O) false (r_varargs st) (r_varkwargs st) None D.
Proof.
  intros HO Hop Hf Hc.
  destruct O as [|o O].
  - cbn [map sl app rs_loop names_of add_anns fold_left slp]. rewrite !app_nil_r.
    destruct st as [nm an po kw pr fs va vk ch df]. cbn [r_found_star r_chevron] in Hf, Hc. subst fs ch.
    eexists. reflexivity.
  - destruct Hop as [Hop|Hop]; [discriminate|]. subst op.
    rewrite rs_loop_app.
    assert (HA : all_pos (o :: O)) by (intros p Hp; left; exact (HO p Hp)).
    rewrite (seg_pos oa false ok (o :: O) i st HA Hf).
    cbn [sl rs_loop slp]. rewrite step_slash.
    cbn [r_names r_anns r_poso r_kwo r_params r_found_star r_varargs r_varkwargs r_chevron r_default].
    rewrite <- app_assoc. eexists. reflexivity.
Qed.

(* *args or the bare star *)
Lemma seg_VS oa op ok V K i st : all_kind VP V -> (length V <= 1)%nat -> r_chevron st = None ->
  exists D, rs_loop oa op ok i (map tk V ++ st_ V K) st
  = mkRS (r_names st) (add_anns oa V (r_anns st)) (r_poso st) (r_kwo st)
         (r_params st ++ map (item oa) V ++ stp ok V K)
         (r_found_star st || nonempty V || nonempty K)
         (optname V (r_varargs st)) (r_varkwargs st) None D.
Proof.
  intros HV HlV Hc.
  destruct V as [|v [|v2 V]]; cbn [length] in HlV; try lia.
  - cbn [map app st_ stp add_anns fold_left optname nonempty]. destruct K as [|k K].
    + cbn [rs_loop nonempty]. rewrite app_nil_r, !orb_false_r.
      destruct st as [nm an po kw pr fs va vk ch df]. cbn [r_chevron] in Hc. subst ch.
      eexists. reflexivity.
    + cbn [rs_loop nonempty]. rewrite (step_star oa op ok i st Hc). rewrite orb_true_r.
      destruct ok; [rewrite app_nil_r|]; eexists; reflexivity.
  - cbn [map app st_ stp rs_loop add_anns fold_left optname nonempty].
    rewrite (step_vp oa op ok i st v (HV v (or_introl eq_refl)) Hc).
    rewrite ?app_nil_r, ?orb_true_r. cbn [orb]. eexists. reflexivity.
Qed.

Lemma seg_K oa op K i st : all_kind KO K -> (K = [] \/ r_found_star st = true) ->
  exists D, rs_loop oa op false i (map tk K) st
  = mkRS (r_names st ++ names_of K) (add_anns oa K (r_anns st)) (r_poso st) (r_kwo st)
         (r_params st ++ map (item oa) K) (r_found_star st) (r_varargs st) (r_varkwargs st)
         (r_chevron st) D.
Proof.
  intros HK [->|Hf].
  - cbn [map rs_loop names_of add_anns fold_left]. rewrite !app_nil_r.
    destruct st as [nm an po kw pr fs va vk ch df]. eexists. reflexivity.
  - rewrite (seg_ko oa op K i st HK Hf). rewrite Hf. eexists. reflexivity.
Qed.

Lemma seg_W oa op ok W i st : all_kind VK W -> (length W <= 1)%nat -> r_chevron st = None ->
  exists D, rs_loop oa op ok i (map tk W) st
  = mkRS (r_names st) (add_anns oa W (r_anns st)) (r_poso st) (r_kwo st)
         (r_params st ++ map (item oa) W) (r_found_star st || nonempty W)
         (r_varargs st) (optname W (r_varkwargs st)) None D.
Proof.
  intros HW HlW Hc.
  destruct W as [|w [|w2 W]]; cbn [length] in HlW; try lia.
  - cbn [map rs_loop add_anns fold_left optname nonempty]. rewrite app_nil_r, orb_false_r.
    destruct st as [nm an po kw pr fs va vk ch df]. cbn [r_chevron] in Hc. subst ch.
    eexists. reflexivity.
  - cbn [map rs_loop add_anns fold_left optname nonempty].
    rewrite (step_vk oa op ok i st w (HW w (or_introl eq_refl)) Hc). rewrite orb_true_r.
    eexists. reflexivity.
Qed.

Lemma add_anns_app oa A B an : add_anns oa (A ++ B) an = add_anns oa B (add_anns oa A an).
Proof. unfold add_anns. apply fold_left_app. Qed.

(* read_sig of str(sig), native placement of the parameters (no kwoargs / posoargs
   modifiers), with or without modifiers.annotate *)
Definition native_params (oa : bool) (O P V K W : list param) : list ptok :=
  map (item oa) O ++ slp O ++ map (item oa) P ++ map (item oa) V ++ stp false V K
  ++ map (item oa) K ++ map (item oa) W.

Lemma read_sig_native oa op O P V K W :
  all_kind PO O -> all_kind PK P -> all_kind VP V -> all_kind KO K -> all_kind VK W ->
  (length V <= 1)%nat -> (length W <= 1)%nat -> (O = [] \/ op = false) ->
  read_sig (toks O P V K W) oa op false
  = mkRSig (names_of O ++ names_of P ++ names_of K ++ names_of V ++ names_of W)
           (add_anns oa (O ++ P ++ V ++ K ++ W) []) [] []
           (native_params oa O P V K W).
Proof.
  intros HO HP HV HK HW HlV HlW Hop. unfold read_sig, toks.
  assert (E : map tk O ++ sl O ++ map tk P ++ map tk V ++ st_ V K ++ map tk K ++ map tk W
              = (map tk O ++ sl O) ++ map tk P ++ (map tk V ++ st_ V K) ++ map tk K ++ map tk W)
    by (rewrite <- !app_assoc; reflexivity).
  rewrite E. clear E.
  rewrite rs_loop_app.
  destruct (seg_O oa op false O 0 rs_init HO Hop eq_refl eq_refl) as [D1 E1]. rewrite E1. clear E1.
  cbn [rs_init r_names r_anns r_poso r_kwo r_params r_varargs r_varkwargs app].
  rewrite rs_loop_app.
  assert (HPp : all_pos P) by (intros p Hp; right; exact (HP p Hp)).
  match goal with |- context [rs_loop oa op false ?i (map tk P) ?s] =>
    rewrite (seg_pos oa op false P i s HPp eq_refl) end.
  cbn [r_names r_anns r_poso r_kwo r_params r_found_star r_varargs r_varkwargs r_chevron r_default].
  rewrite rs_loop_app.
  match goal with |- context [rs_loop oa op false ?i (map tk V ++ st_ V K) ?s] =>
    destruct (seg_VS oa op false V K i s HV HlV eq_refl) as [D2 E2]; rewrite E2; clear E2 end.
  cbn [r_names r_anns r_poso r_kwo r_params r_found_star r_varargs r_varkwargs r_chevron r_default orb].
  rewrite rs_loop_app.
  match goal with |- context [rs_loop oa op false ?i (map tk K) ?s] =>
    destruct (seg_K oa op K i s HK) as [D3 E3];
      [destruct K; [left; reflexivity|right; cbn [r_found_star nonempty]; apply orb_true_r]|];
      rewrite E3; clear E3 end.
  cbn [r_names r_anns r_poso r_kwo r_params r_found_star r_varargs r_varkwargs r_chevron r_default].
  match goal with |- context [rs_loop oa op false ?i (map tk W) ?s] =>
    destruct (seg_W oa op false W i s HW HlW eq_refl) as [D4 E4]; rewrite E4; clear E4 end.
  cbn [r_names r_anns r_poso r_kwo r_params r_found_star r_varargs r_varkwargs r_chevron r_default].
  unfold native_params. rewrite !add_anns_app. rewrite <- !app_assoc.
  f_equal.
  destruct V as [|v [|v2 V]]; cbn [length] in HlV; try lia;
  destruct W as [|w [|w2 W]]; cbn [length] in HlW; try lia;
  cbn [optname opt_list_name names_of map app]; rewrite ?app_nil_r; reflexivity.
Qed.

(* ================================================================ part 3 *)
(* how the def parameter list is read *)
Definition dparam (oa : bool) (k : kind) (p : param) : param :=
  pp (pname p) k (pdef p) (if oa then None else pann p).
Definition strip (oa : bool) (p : param) : param := dparam oa (pkind p) p.

Definition plain (p : param) : Prop := stars_of p = 0%nat.

Lemma plain_kind p : pkind p = PO \/ pkind p = PK \/ pkind p = KO -> plain p.
Proof. unfold plain, stars_of. intros [H|[H|H]]; rewrite H; reflexivity. Qed.

Lemma dp_items oa A : forall rest ast ss acc, (forall p, In p A -> plain p) ->
  def_params (map (item oa) A ++ rest) ast ss acc
  = def_params rest ast ss (acc ++ map (dparam oa (if ast then KO else PK)) A).
Proof.
  induction A as [|p A IH]; intros rest ast ss acc HA.
  - cbn [map app]. rewrite app_nil_r. reflexivity.
  - cbn [map app]. unfold item at 1. rewrite (HA p (or_introl eq_refl)). cbn [def_params].
    rewrite IH by (intros q Hq; apply HA; right; exact Hq).
    rewrite <- app_assoc. reflexivity.
Qed.

Lemma dp_vp oa v rest ss acc : pkind v = VP -> pdef v = None ->
  def_params (item oa v :: rest) false ss acc = def_params rest true ss (acc ++ [dparam oa VP v]).
Proof.
  intros Hk Hd. unfold item, stars_of, dparam. rewrite Hk, Hd. reflexivity.
Qed.

Lemma dp_vk oa w ast ss acc : pkind w = VK -> pdef w = None ->
  def_params [item oa w] ast ss acc = Some (acc ++ [dparam oa VK w]).
Proof.
  intros Hk Hd. unfold item, stars_of, dparam. rewrite Hk, Hd. reflexivity.
Qed.

Lemma dp_slash_step rest acc : acc <> [] ->
  def_params (PSlash :: rest) false false acc = def_params rest false true (set_all_po acc).
Proof. destruct acc; [congruence|reflexivity]. Qed.

Lemma set_all_po_dparam oa A : set_all_po (map (dparam oa PK) A) = map (dparam oa PO) A.
Proof. unfold set_all_po. rewrite map_map. reflexivity. Qed.

(* hypotheses on the parameters themselves: annotations are eagerly evaluated
   objects, and a star parameter has no default (inspect refuses to build one) *)
Definition eager_p (p : param) : bool := uann_eqb (puann p) (MA.preevaluated (pann p)).
Definition eager (ps : list param) : bool := forallb eager_p ps.
Definition star_nodef_p (p : param) : bool :=
  negb ((is_kind VP p || is_kind VK p) && has_def p).
Definition star_nodef (ps : list param) : bool := forallb star_nodef_p ps.
Definition wf_sig (ps : list param) : bool := valid_sig ps && eager ps && star_nodef ps.

Lemma uann_eqb_eq a b : uann_eqb a b = true -> a = b.
Proof.
  destruct a, b; cbn [uann_eqb]; intros H; try discriminate; try reflexivity.
  - apply N.eqb_eq in H. congruence.
  - apply andb_true_iff in H. destruct H as [H1 H2]. apply N.eqb_eq in H1, H2. congruence.
Qed.

Lemma strip_false p : eager_p p = true -> strip false p = p.
Proof.
  unfold eager_p, strip, dparam, pp. intros H. apply uann_eqb_eq in H.
  destruct p as [n k d a u]. cbn in *. subst u. destruct a; reflexivity.
Qed.

Lemma dparam_kind oa k p : pkind p = k -> dparam oa k p = strip oa p.
Proof. intros <-. reflexivity. Qed.

Lemma map_dparam_kind oa k A : all_kind k A -> map (dparam oa k) A = map (strip oa) A.
Proof.
  intros HA. apply map_ext_in. intros p Hp. apply dparam_kind. exact (HA p Hp).
Qed.

Lemma star_nodef_vp ps v : star_nodef ps = true -> In v ps -> pkind v = VP \/ pkind v = VK -> pdef v = None.
Proof.
  unfold star_nodef. intros H Hin Hk. rewrite forallb_forall in H. specialize (H v Hin).
  unfold star_nodef_p, is_kind, kind_eqb, has_def in H.
  destruct (pdef v); [|reflexivity]. destruct Hk as [Hk|Hk]; rewrite Hk in H; discriminate.
Qed.

(* the native def list is read back as the (annotation-stripped) signature *)
Lemma def_params_native oa O P V K W :
  all_kind PO O -> all_kind PK P -> all_kind VP V -> all_kind KO K -> all_kind VK W ->
  (length V <= 1)%nat -> (length W <= 1)%nat ->
  star_nodef (O ++ P ++ V ++ K ++ W) = true ->
  def_params (native_params oa O P V K W) false false []
  = Some (map (strip oa) (O ++ P ++ V ++ K ++ W)).
Proof.
  intros HO HP HV HK HW HlV HlW Hsn. unfold native_params.
  rewrite !map_app.
  rewrite (dp_items oa O) by (intros p Hp; apply plain_kind; left; exact (HO p Hp)).
  cbn [app].
  assert (Hafter : forall ss acc,
    def_params (map (item oa) P ++ map (item oa) V ++ stp false V K ++ map (item oa) K ++ map (item oa) W)
               false ss acc
    = Some (acc ++ map (strip oa) P ++ map (strip oa) V ++ map (strip oa) K ++ map (strip oa) W)).
  { intros ss acc.
    rewrite (dp_items oa P) by (intros p Hp; apply plain_kind; right; left; exact (HP p Hp)).
    rewrite (map_dparam_kind oa PK P HP).
    assert (HKW : forall ss' acc',
      def_params (map (item oa) K ++ map (item oa) W) true ss' acc'
      = Some (acc' ++ map (strip oa) K ++ map (strip oa) W)).
    { intros ss' acc'.
      rewrite (dp_items oa K) by (intros p Hp; apply plain_kind; right; right; exact (HK p Hp)).
      rewrite (map_dparam_kind oa KO K HK).
      destruct W as [|w [|w2 W]]; cbn [length] in HlW; try lia.
      - cbn [map def_params]. rewrite !app_nil_r. reflexivity.
      - cbn [map]. rewrite dp_vk.
        + rewrite (dparam_kind oa VK w (HW w (or_introl eq_refl))), <- app_assoc. reflexivity.
        + apply HW. left. reflexivity.
        + apply (star_nodef_vp _ w Hsn); [|right; apply HW; left; reflexivity].
          rewrite !in_app_iff. right. right. right. right. left. reflexivity. }
    destruct V as [|v [|v2 V]]; cbn [length] in HlV; try lia.
    - cbn [map app stp]. destruct K as [|k K].
      + cbn [map app]. destruct W as [|w [|w2 W]]; cbn [length] in HlW; try lia.
        * cbn [map def_params]. rewrite !app_nil_r. reflexivity.
        * cbn [map]. rewrite dp_vk.
          -- rewrite (dparam_kind oa VK w (HW w (or_introl eq_refl))). rewrite <- app_assoc. reflexivity.
          -- apply HW. left. reflexivity.
          -- apply (star_nodef_vp _ w Hsn); [|right; apply HW; left; reflexivity].
             rewrite !in_app_iff. right. right. right. right. left. reflexivity.
      + cbn [app def_params]. rewrite HKW. rewrite <- !app_assoc. reflexivity.
    - cbn [map app stp]. rewrite dp_vp.
      + rewrite HKW. rewrite (dparam_kind oa VP v (HV v (or_introl eq_refl))).
        rewrite <- !app_assoc. reflexivity.
      + apply HV. left. reflexivity.
      + apply (star_nodef_vp _ v Hsn); [|left; apply HV; left; reflexivity].
        rewrite !in_app_iff. right. right. left. left. reflexivity. }
  destruct O as [|o O].
  - cbn [slp map app]. rewrite Hafter. reflexivity.
  - cbn [slp app]. rewrite dp_slash_step by (cbn [map]; discriminate).
    rewrite set_all_po_dparam. rewrite Hafter. rewrite (map_dparam_kind oa PO (o :: O) HO). reflexivity.
Qed.

(* ================================================================ part 4 *)
(* validity does not look at annotations *)
Lemma validate_aux_strip oa ps : forall top sd seen,
  validate_aux (map (strip oa) ps) top sd seen = validate_aux ps top sd seen.
Proof.
  induction ps as [|p ps IH]; intros top sd seen; [reflexivity|].
  cbn [map validate_aux].
  change (pkind (strip oa p)) with (pkind p). change (pname (strip oa p)) with (pname p).
  change (is_positional (strip oa p)) with (is_positional p).
  change (has_def (strip oa p)) with (has_def p).
  rewrite !IH. reflexivity.
Qed.

Lemma count_kind_strip oa k ps : count_kind k (map (strip oa) ps) = count_kind k ps.
Proof.
  unfold count_kind. induction ps as [|p ps IH]; [reflexivity|]. cbn [map filter].
  change (is_kind k (strip oa p)) with (is_kind k p). destruct (is_kind k p); cbn [length]; rewrite IH; reflexivity.
Qed.

Lemma valid_sig_strip oa ps : valid_sig (map (strip oa) ps) = valid_sig ps.
Proof. unfold valid_sig, validate. rewrite validate_aux_strip, !count_kind_strip. reflexivity. Qed.

(* The signature of the function that the generated code defines: the def is
   read, modifiers.kwoargs / posoargs (stacked: one _PokTranslator with both
   name sets, Model/Modifiers.v) give the advertised parameters, then
   modifiers.annotate (Model/Annot.v) sets annotations by name. *)
Definition anns_opt (l : list (name * N)) : list (name * option N) :=
  map (fun kv => (fst kv, Some (snd kv))) l.

Definition code_sig (c : fcode) : option (list param * option N) :=
  match def_sig c with
  | None => None
  | Some ps0 =>
      match MM.decorate ps0 (MM.FExplicit (fc_poso c) (fc_kwo c)) with
      | Err _ => None
      | Ok (adv, _, _) =>
          match fc_annotate c with
          | None => Some (adv, fc_ret c)
          | Some (r, anns) =>
              match MA.annotate (match r with Some v => Some (Some v) | None => None end)
                                (anns_opt anns)
                                (mkSig adv (fc_ret c) (MA.preevaluated (fc_ret c)) [] []) with
              | Ok s => Some (params s, ret s)
              | Err _ => None
              end
          end
      end
  end.

From Sigtools.Proofs Require Import Support.

(* ------------------------------------------------ modifiers.annotate restores *)
Definition lookup_ann (A : list param) (x : name) : option N :=
  match find_param x A with Some p => pann p | None => None end.

Lemma add_anns_false A an : add_anns false A an = an.
Proof.
  unfold add_anns. revert an. induction A as [|p A IH]; intros an; [reflexivity|].
  cbn [fold_left]. unfold add_ann at 2. destruct (pann p); apply IH.
Qed.

Lemma dget_add_anns A : forall an x, NoDup (names_of A) ->
  dget (add_anns true A an) x
  = match lookup_ann A x with Some a => Some a | None => dget an x end.
Proof.
  unfold add_anns, lookup_ann. induction A as [|p A IH]; intros an x ND; [reflexivity|].
  cbn [names_of map] in ND. inversion ND as [|? ? Hnot ND']; subst.
  cbn [fold_left find_param]. rewrite (IH _ x ND').
  destruct (N.eqb x (pname p)) eqn:E.
  - apply N.eqb_eq in E. subst x. rewrite (find_param_notin _ _ Hnot).
    unfold add_ann. destruct (pann p) as [a|]; [|reflexivity].
    rewrite dget_dset, N.eqb_refl. reflexivity.
  - destruct (find_param x A) as [q|]; [destruct (pann q); [reflexivity|]|].
    + unfold add_ann. destruct (pann p) as [a|]; [|reflexivity]. rewrite dget_dset, E. reflexivity.
    + unfold add_ann. destruct (pann p) as [a|]; [|reflexivity]. rewrite dget_dset, E. reflexivity.
Qed.

Lemma assoc_anns_opt l x : MA.assoc_ann x (anns_opt l) = option_map Some (dget l x).
Proof.
  induction l as [|[k v] l IH]; [reflexivity|]. cbn [anns_opt map MA.assoc_ann dget fst snd].
  destruct (N.eqb x k); [reflexivity|exact IH].
Qed.

Lemma annotate_param_restore ps q : NoDup (names_of ps) -> In q ps -> eager_p q = true ->
  MA.annotate_param (anns_opt (add_anns true ps [])) (strip true q) = q.
Proof.
  intros ND Hin He. unfold MA.annotate_param.
  change (pname (strip true q)) with (pname q).
  rewrite assoc_anns_opt, (dget_add_anns ps [] (pname q) ND). unfold lookup_ann.
  rewrite (find_param_in ps q ND Hin).
  unfold eager_p in He. apply uann_eqb_eq in He.
  destruct q as [n k d a u]. cbn in *. subst u.
  destruct a as [a|]; reflexivity.
Qed.

Lemma annotate_restore ps L : NoDup (names_of ps) -> eager ps = true -> incl L ps ->
  map (MA.annotate_param (anns_opt (add_anns true ps []))) (map (strip true) L) = L.
Proof.
  intros ND He HL. rewrite map_map. rewrite <- (map_id L) at 2.
  apply map_ext_in. intros q Hq. apply annotate_param_restore; [exact ND|exact (HL q Hq)|].
  unfold eager in He. rewrite forallb_forall in He. exact (He q (HL q Hq)).
Qed.

Lemma keys_dset {A} (d : list (name * A)) k v x : In x (map fst (dset d k v)) -> x = k \/ In x (map fst d).
Proof.
  induction d as [|[k' v'] d IH]; cbn [dset map fst In].
  - intros [H|[]]. left. congruence.
  - destruct (N.eqb k k') eqn:E; cbn [map fst In].
    + apply N.eqb_eq in E. subst k'. intros [H|H]; [left; congruence|right; right; exact H].
    + intros [H|H]; [right; left; exact H|]. destruct (IH H) as [H1|H1]; [left; exact H1|right; right; exact H1].
Qed.

Lemma keys_add_anns oa A : forall an x, In x (map fst (add_anns oa A an)) ->
  In x (map fst an) \/ In x (names_of A).
Proof.
  unfold add_anns. induction A as [|p A IH]; intros an x H; [left; exact H|].
  cbn [fold_left] in H. destruct (IH _ x H) as [H1|H1].
  - unfold add_ann in H1. destruct (pann p); [destruct oa|].
    + apply keys_dset in H1. destruct H1 as [->|H1]; [right; left; reflexivity|left; exact H1].
    + left. exact H1.
    + left. exact H1.
  - right. right. exact H1.
Qed.

Lemma annotate_ok ps adv L rv fr : NoDup (names_of ps) -> eager ps = true -> incl L ps ->
  adv = map (strip true) L -> (forall x, In x (names_of ps) -> In x (names_of L)) ->
  MA.annotate rv (anns_opt (add_anns true ps [])) (mkSig adv fr (MA.preevaluated fr) [] [])
  = Ok (mkSig L (match rv with None => fr | Some r => r end)
              (match rv with None => MA.preevaluated fr | Some r => MA.preevaluated r end) [] []).
Proof.
  intros ND He HL -> Hnames. unfold MA.annotate. cbn [params ret uret srcs deps].
  assert (Hm : forallb (fun xv : N * option N => mem (fst xv) (names_of (map (strip true) L)))
                       (anns_opt (add_anns true ps [])) = true).
  { apply forallb_forall. intros [x v] Hx. cbn [fst]. apply mem_In'.
    assert (Hk : In x (map fst (add_anns true ps []))).
    { unfold anns_opt in Hx. apply in_map_iff in Hx. destruct Hx as [[k a] [E Hin]].
      cbn [fst snd] in E. inversion E; subst. apply in_map_iff. exists (x, a). split; [reflexivity|exact Hin]. }
    apply keys_add_anns in Hk. destruct Hk as [[]|Hk].
    unfold names_of. rewrite map_map. cbn. apply (Hnames x Hk). }
  rewrite Hm. rewrite (annotate_restore ps L ND He HL). destruct rv; reflexivity.
Qed.

(* ================================================================ part 5 *)
Lemma valid_sig_nodup ps : valid_sig ps = true -> NoDup (names_of ps).
Proof.
  unfold valid_sig, validate. intros H.
  apply andb_true_iff in H. destruct H as [H _]. apply andb_true_iff in H. destruct H as [H _].
  rewrite validate_aux_split in H. apply andb_true_iff in H. destruct H as [_ H].
  apply nodup_ok_spec in H. tauto.
Qed.

Lemma read_sig_print ps oa op ok :
  read_sig (print_sig ps) oa op ok = read_sig (print_from ps None) oa op ok.
Proof. destruct ps; reflexivity. Qed.

Lemma wf_sig_parts ps : wf_sig ps = true -> valid_sig ps = true /\ eager ps = true /\ star_nodef ps = true.
Proof.
  unfold wf_sig. intros H. apply andb_true_iff in H. destruct H as [H H3].
  apply andb_true_iff in H. tauto.
Qed.

Lemma eager_strip_false ps : eager ps = true -> map (strip false) ps = ps.
Proof.
  unfold eager. intros H. rewrite forallb_forall in H. rewrite <- (map_id ps) at 2.
  apply map_ext_in. intros p Hp. apply strip_false. exact (H p Hp).
Qed.

Lemma decorate_none ps0 : MM.decorate ps0 (MM.FExplicit [] []) = Ok (ps0, [], []).
Proof. reflexivity. Qed.

(* what modifiers.annotate gets and gives, for the code of read_sig's result *)
Lemma finish_annotate ps L ps0 names po kw pl ret oa :
  NoDup (names_of ps) -> eager ps = true -> incl L ps ->
  (forall x, In x (names_of ps) -> In x (names_of L)) ->
  ps0 = map (strip oa) L ->
  match fc_annotate (func_code (mkRSig names (add_anns oa ps []) po kw pl) ret oa) with
  | None => Some (ps0, fc_ret (func_code (mkRSig names (add_anns oa ps []) po kw pl) ret oa))
  | Some (r, anns) =>
      match MA.annotate (match r with Some v => Some (Some v) | None => None end) (anns_opt anns)
              (mkSig ps0 (fc_ret (func_code (mkRSig names (add_anns oa ps []) po kw pl) ret oa))
                     (MA.preevaluated (fc_ret (func_code (mkRSig names (add_anns oa ps []) po kw pl) ret oa))) [] []) with
      | Ok s => Some (params s, Base.ret s)
      | Err _ => None
      end
  end = Some (L, ret).
Proof.
  intros ND He HL Hn ->. unfold func_code. cbn [rs_anns rs_poso rs_kwo rs_params rs_names fc_annotate fc_ret].
  destruct oa.
  - (* annotations through modifiers.annotate *)
    cbn [andb].
    assert (Hplain : map (strip true) L = L -> add_anns true ps [] = [] -> True) by auto.
    destruct ret as [rv|].
    + assert (E : (if match add_anns true ps [] with [] => false | _ :: _ => true end
                   then Some (Some rv, add_anns true ps []) else Some (Some rv, []))
                  = Some (Some rv, add_anns true ps [])).
      { destruct (add_anns true ps []); reflexivity. }
      rewrite E.
      rewrite (annotate_ok ps _ L (Some (Some rv)) None ND He HL eq_refl Hn). reflexivity.
    + destruct (add_anns true ps []) as [|kv l] eqn:EA.
      * (* no annotation anywhere *)
        f_equal. f_equal.
        pose proof (annotate_restore ps L ND He HL) as R. rewrite EA in R. cbn [anns_opt map] in R.
        rewrite <- R at 2. rewrite map_map. apply map_ext. intros q. reflexivity.
      * rewrite <- EA.
        rewrite (annotate_ok ps _ L None None ND He HL eq_refl Hn). reflexivity.
  - rewrite add_anns_false. cbn [andb].
    assert (E : map (strip false) L = L).
    { apply eager_strip_false. unfold eager in *. rewrite forallb_forall in *. intros q Hq. apply He. exact (HL q Hq). }
    rewrite E. destruct ret; reflexivity.
Qed.

(* C20 round trip, native placement (and native or modifiers.annotate
   annotations), for ALL signatures *)
Lemma nopo_O O R : all_kind PO O -> has_kind PO (O ++ R) = false -> O = [].
Proof.
  intros HO H. destruct O as [|o O]; [reflexivity|]. exfalso.
  unfold has_kind in H. cbn [app existsb] in H.
  unfold is_kind at 1, kind_eqb in H. rewrite (HO o (or_introl eq_refl)) in H. discriminate.
Qed.

Theorem roundtrip_native_code_sig ps ret oa op :
  wf_sig ps = true -> (has_kind PO ps = false \/ op = false) ->
  code_sig (func_code (read_sig (print_sig ps) oa op false) ret oa) = Some (ps, ret).
Proof.
  intros Hwf Hop0. destruct (wf_sig_parts ps Hwf) as [Hv [He Hsn]].
  pose proof (valid_sig_nodup ps Hv) as ND.
  destruct (valid_sig_shape ps Hv) as (O & P & V & K & W & E & HO & HP & HV & HK & HW & HlV & HlW).
  assert (Hop : O = [] \/ op = false).
  { destruct Hop0 as [Hn|Hn]; [left|right; exact Hn]. rewrite E in Hn. exact (nopo_O _ _ HO Hn). }
  rewrite read_sig_print. rewrite E at 1.
  rewrite (print_from_shape O P V K W HO HP HV HK HW HlV HlW).
  rewrite (read_sig_native oa op O P V K W HO HP HV HK HW HlV HlW Hop).
  rewrite <- E.
  unfold code_sig.
  assert (Hd : def_sig (func_code (mkRSig (names_of O ++ names_of P ++ names_of K ++ names_of V ++ names_of W)
                                          (add_anns oa ps []) [] [] (native_params oa O P V K W)) ret oa)
               = Some (map (strip oa) ps)).
  { unfold def_sig, func_code. cbn [fc_params rs_params].
    rewrite (def_params_native oa O P V K W HO HP HV HK HW HlV HlW) by (rewrite <- E; exact Hsn).
    rewrite <- E. rewrite valid_sig_strip, Hv. reflexivity. }
  rewrite Hd.
  assert (Hdec : fc_poso (func_code (mkRSig (names_of O ++ names_of P ++ names_of K ++ names_of V ++ names_of W)
                                          (add_anns oa ps []) [] [] (native_params oa O P V K W)) ret oa) = []
                 /\ fc_kwo (func_code (mkRSig (names_of O ++ names_of P ++ names_of K ++ names_of V ++ names_of W)
                                          (add_anns oa ps []) [] [] (native_params oa O P V K W)) ret oa) = [])
    by (split; reflexivity).
  destruct Hdec as [Hp1 Hp2]. rewrite Hp1, Hp2, decorate_none.
  apply (finish_annotate ps ps (map (strip oa) ps) _ [] [] _ ret oa ND He (incl_refl ps)); [auto|reflexivity].
Qed.

(* ------------------------------------------------ the model's own boolean *)
Lemma filter_all {A} (f : A -> bool) l : (forall x, In x l -> f x = true) -> filter f l = l.
Proof.
  induction l as [|x l IH]; intros H; [reflexivity|]. cbn [filter].
  rewrite (H x (or_introl eq_refl)), IH; [reflexivity|]. intros y Hy. apply H. right. exact Hy.
Qed.
Lemma filter_none {A} (f : A -> bool) l : (forall x, In x l -> f x = false) -> filter f l = [].
Proof.
  induction l as [|x l IH]; intros H; [reflexivity|]. cbn [filter].
  rewrite (H x (or_introl eq_refl)), IH; [reflexivity|]. intros y Hy. apply H. right. exact Hy.
Qed.

Lemma filter_kind_all k A (f : param -> bool) : all_kind k A ->
  (forall p, pkind p = k -> f p = true) -> filter f A = A.
Proof. intros HA Hf. apply filter_all. intros p Hp. apply Hf. exact (HA p Hp). Qed.
Lemma filter_kind_none k A (f : param -> bool) : all_kind k A ->
  (forall p, pkind p = k -> f p = false) -> filter f A = [].
Proof. intros HA Hf. apply filter_none. intros p Hp. apply Hf. exact (HA p Hp). Qed.

Lemma is_kind_of k k' p : pkind p = k -> is_kind k' p = kind_eqb k k'.
Proof. intros <-. reflexivity. Qed.
Lemma is_named_of k p : pkind p = k ->
  is_named p = match k with PO | PK | KO => true | _ => false end.
Proof. intros <-. reflexivity. Qed.

Lemma names_of_app A B : names_of (A ++ B) = names_of A ++ names_of B.
Proof. unfold names_of. apply map_app. Qed.

Lemma body_names O P V K W :
  all_kind PO O -> all_kind PK P -> all_kind VP V -> all_kind KO K -> all_kind VK W ->
  names_of (filter is_named (O ++ P ++ V ++ K ++ W))
  ++ names_of (filter (is_kind VP) (O ++ P ++ V ++ K ++ W))
  ++ names_of (filter (is_kind VK) (O ++ P ++ V ++ K ++ W))
  = names_of O ++ names_of P ++ names_of K ++ names_of V ++ names_of W.
Proof.
  intros HO HP HV HK HW. rewrite !filter_app.
  rewrite (filter_kind_all PO O is_named HO) by (intros p E; rewrite (is_named_of PO p E); reflexivity).
  rewrite (filter_kind_all PK P is_named HP) by (intros p E; rewrite (is_named_of PK p E); reflexivity).
  rewrite (filter_kind_none VP V is_named HV) by (intros p E; rewrite (is_named_of VP p E); reflexivity).
  rewrite (filter_kind_all KO K is_named HK) by (intros p E; rewrite (is_named_of KO p E); reflexivity).
  rewrite (filter_kind_none VK W is_named HW) by (intros p E; rewrite (is_named_of VK p E); reflexivity).
  rewrite (filter_kind_none PO O (is_kind VP) HO) by (intros p E; rewrite (is_kind_of PO VP p E); reflexivity).
  rewrite (filter_kind_none PK P (is_kind VP) HP) by (intros p E; rewrite (is_kind_of PK VP p E); reflexivity).
  rewrite (filter_kind_all VP V (is_kind VP) HV) by (intros p E; rewrite (is_kind_of VP VP p E); reflexivity).
  rewrite (filter_kind_none KO K (is_kind VP) HK) by (intros p E; rewrite (is_kind_of KO VP p E); reflexivity).
  rewrite (filter_kind_none VK W (is_kind VP) HW) by (intros p E; rewrite (is_kind_of VK VP p E); reflexivity).
  rewrite (filter_kind_none PO O (is_kind VK) HO) by (intros p E; rewrite (is_kind_of PO VK p E); reflexivity).
  rewrite (filter_kind_none PK P (is_kind VK) HP) by (intros p E; rewrite (is_kind_of PK VK p E); reflexivity).
  rewrite (filter_kind_none VP V (is_kind VK) HV) by (intros p E; rewrite (is_kind_of VP VK p E); reflexivity).
  rewrite (filter_kind_none KO K (is_kind VK) HK) by (intros p E; rewrite (is_kind_of KO VK p E); reflexivity).
  rewrite (filter_kind_all VK W (is_kind VK) HW) by (intros p E; rewrite (is_kind_of VK VK p E); reflexivity).
  cbn [app]. rewrite !app_nil_r. rewrite !names_of_app. cbn [names_of map app].
  rewrite <- !app_assoc. reflexivity.
Qed.

Lemma param_eqb_refl p : param_eqb p p = true.
Proof.
  unfold param_eqb. rewrite N.eqb_refl. unfold kind_eqb. rewrite Nat.eqb_refl.
  assert (Ho : forall o, opt_N_eqb o o = true) by (intros [x|]; cbn; [apply N.eqb_refl|reflexivity]).
  rewrite !Ho. destruct (puann p); cbn [uann_eqb]; rewrite ?N.eqb_refl; reflexivity.
Qed.
Lemma param_list_eqb_refl ps : param_list_eqb ps ps = true.
Proof.
  unfold param_list_eqb. induction ps as [|p ps IH]; [reflexivity|]. cbn [list_eqb].
  rewrite param_eqb_refl, IH. reflexivity.
Qed.
Lemma list_N_eqb_refl l : list_N_eqb l l = true.
Proof. induction l as [|x l IH]; [reflexivity|]. cbn [list_N_eqb]. rewrite N.eqb_refl, IH. reflexivity. Qed.
Lemma opt_N_eqb_refl o : opt_N_eqb o o = true.
Proof. destruct o; cbn; [apply N.eqb_refl|reflexivity]. Qed.

(* C20_roundtrip, native spelling, all signatures: the boolean of the model *)
Theorem roundtrip_native_all ps ret : wf_sig ps = true -> roundtrip_native ps ret = true.
Proof.
  intros Hwf. destruct (wf_sig_parts ps Hwf) as [Hv [He Hsn]].
  destruct (valid_sig_shape ps Hv) as (O & P & V & K & W & E & HO & HP & HV & HK & HW & HlV & HlW).
  subst ps. unfold roundtrip_native.
  rewrite read_sig_print.
  rewrite (print_from_shape O P V K W HO HP HV HK HW HlV HlW).
  rewrite (read_sig_native false false O P V K W HO HP HV HK HW HlV HlW (or_intror eq_refl)).
  rewrite add_anns_false.
  unfold def_sig, func_code. cbn [fc_params rs_params fc_ret fc_body rs_names fc_annotate rs_anns fc_poso fc_kwo rs_poso rs_kwo].
  rewrite (def_params_native false O P V K W HO HP HV HK HW HlV HlW Hsn).
  rewrite valid_sig_strip, Hv. rewrite (eager_strip_false _ He).
  rewrite param_list_eqb_refl, opt_N_eqb_refl.
  rewrite (body_names O P V K W HO HP HV HK HW). rewrite list_N_eqb_refl.
  destruct ret; reflexivity.
Qed.

(* ================================================================ part 6 *)
(* use_modifiers_kwoargs: where read_sig puts the keyword-only parameters *)
Lemma step_ko_ok_nodef oa op i st p : pkind p = KO -> pdef p = None -> r_found_star st = true ->
  rs_step oa op true i st (tk p)
  = mkRS (r_names st ++ [pname p]) (add_ann oa (r_anns st) p) (r_poso st) (r_kwo st ++ [pname p])
         (match r_default st with
          | Some d => insert_at d (item oa p) (r_params st)
          | None => if last_starts_with_star (r_params st)
                    then insert_before_last (item oa p) (r_params st)
                    else r_params st ++ [item oa p]
          end) true (r_varargs st) (r_varkwargs st) (r_chevron st)
         (match r_default st with Some d => Some (S d) | None => None end).
Proof.
  intros Hk Hd Hf. destruct st as [nm an po kw pr fs va vk ch df]. cbn [r_found_star] in Hf. subst fs.
  unfold rs_step, tk, item, stars_of, add_ann. rewrite Hk, Hd. cbn.
  destruct (pann p); destruct df; destruct oa; reflexivity.
Qed.

Lemma step_ko_ok_def oa op i st p x : pkind p = KO -> pdef p = Some x -> r_found_star st = true ->
  rs_step oa op true i st (tk p)
  = mkRS (r_names st ++ [pname p]) (add_ann oa (r_anns st) p) (r_poso st) (r_kwo st ++ [pname p])
         (if last_starts_with_star (r_params st)
          then insert_before_last (item oa p) (r_params st)
          else r_params st ++ [item oa p])
         true (r_varargs st) (r_varkwargs st) (r_chevron st)
         (match r_default st with None => Some (i - 1)%nat | d => d end).
Proof.
  intros Hk Hd Hf. destruct st as [nm an po kw pr fs va vk ch df]. cbn [r_found_star] in Hf. subst fs.
  unfold rs_step, tk, item, stars_of, add_ann. rewrite Hk, Hd. cbn.
  destruct (pann p); destruct df; destruct oa; reflexivity.
Qed.

Lemma insert_at_app' {A} (pre : list A) x l : insert_at (length pre) x (pre ++ l) = pre ++ x :: l.
Proof. induction pre as [|y pre IH]; cbn [length app insert_at]; [destruct l; reflexivity|rewrite IH; reflexivity]. Qed.

Definition nostar (x : ptok) : Prop := starts_with_star x = false.

Lemma lsws_nostar L : (forall x, In x L -> nostar x) -> last_starts_with_star L = false.
Proof.
  intros H. unfold last_starts_with_star. destruct (rev L) as [|q r] eqn:E; [reflexivity|].
  apply H. apply in_rev. rewrite E. left. reflexivity.
Qed.

Lemma lsws_snoc L y : last_starts_with_star (L ++ [y]) = starts_with_star y.
Proof. unfold last_starts_with_star. rewrite rev_unit. reflexivity. Qed.

(* the new item goes at the end, but before the *args item *)
Lemma place_last L Vt x :
  (forall y, In y L -> nostar y) ->
  (Vt = [] \/ exists v, Vt = [v] /\ starts_with_star v = true) ->
  (if last_starts_with_star (L ++ Vt) then insert_before_last x (L ++ Vt) else (L ++ Vt) ++ [x])
  = L ++ x :: Vt.
Proof.
  intros HL [->|[v [-> Hv]]].
  - rewrite app_nil_r. rewrite (lsws_nostar L HL). reflexivity.
  - rewrite lsws_snoc, Hv. unfold insert_before_last. rewrite app_length. cbn [length].
    replace (length L + 1 - 1)%nat with (length L) by lia. apply insert_at_app'.
Qed.

Definition nodef_p (p : param) : bool := negb (has_def p).

Section KwoSegment.
Variables (oa op : bool) (P1 P2 V : list param).
Hypothesis HP1 : forall p, In p P1 -> plain p.
Hypothesis HP2 : forall p, In p P2 -> plain p.
Hypothesis HVk : all_kind VP V.
Hypothesis HVl : (length V <= 1)%nat.
Let it := item oa.

Lemma it_plain_nostar A : (forall p, In p A -> plain p) -> forall y, In y (map it A) -> nostar y.
Proof.
  intros HA y Hy. apply in_map_iff in Hy. destruct Hy as [p [<- Hp]].
  unfold it, item, nostar. rewrite (HA p Hp). reflexivity.
Qed.

Lemma Vt_shape : map it V = [] \/ exists v, map it V = [v] /\ starts_with_star v = true.
Proof.
  destruct V as [|v [|v2 V']]; cbn [length] in HVl; try lia.
  - left. reflexivity.
  - right. exists (it v). split; [reflexivity|]. unfold it, item, stars_of.
    rewrite (HVk v (or_introl eq_refl)). reflexivity.
Qed.

Lemma seg_K_ok K : forall kn kd i st, all_kind KO K ->
  (forall p, In p kn -> plain p) -> (forall p, In p kd -> plain p) ->
  r_found_star st = true -> r_chevron st = None ->
  r_params st = map it (P1 ++ kn) ++ map it (P2 ++ kd) ++ map it V ->
  r_default st = (if nonempty (P2 ++ kd) then Some (length (P1 ++ kn)) else None) ->
  i = (length P1 + length P2 + 1 + length kn + length kd)%nat ->
  exists D, rs_loop oa op true i (map tk K) st
  = mkRS (r_names st ++ names_of K) (add_anns oa K (r_anns st)) (r_poso st)
         (r_kwo st ++ names_of K)
         (map it (P1 ++ kn ++ filter nodef_p K) ++ map it (P2 ++ kd ++ filter has_def K) ++ map it V)
         true (r_varargs st) (r_varkwargs st) None D.
Proof.
  induction K as [|p K IH]; intros kn kd i st HK Hkn Hkd Hf Hc Hpr Hdf Hi.
  - cbn [map rs_loop names_of add_anns fold_left filter]. rewrite !app_nil_r.
    destruct st as [nm an po kw pr fs va vk ch df].
    cbn [r_found_star r_chevron r_params r_default r_names r_anns r_poso r_kwo r_varargs r_varkwargs] in *.
    subst fs ch pr. eexists. reflexivity.
  - assert (Hpk : pkind p = KO) by (apply HK; left; reflexivity).
    assert (Hpp : plain p) by (apply plain_kind; right; right; exact Hpk).
    cbn [map rs_loop].
    destruct (pdef p) as [x|] eqn:Dp.
    + (* with a default: appended (before *args) *)
      rewrite (step_ko_ok_def oa op i st p x Hpk Dp Hf).
      match goal with |- context [rs_loop oa op true (S i) (map tk K) ?s] =>
        destruct (IH kn (kd ++ [p]) (S i) s) as [D E] end.
      * exact (all_kind_tail _ _ _ HK).
      * exact Hkn.
      * intros q Hq. apply in_app_or in Hq. destruct Hq as [Hq|[<-|[]]]; [exact (Hkd q Hq)|exact Hpp].
      * reflexivity.
      * cbn [r_chevron]. exact Hc.
      * cbn [r_params]. rewrite Hpr.
        replace (map it (P1 ++ kn) ++ map it (P2 ++ kd) ++ map it V)
          with ((map it (P1 ++ kn) ++ map it (P2 ++ kd)) ++ map it V) by (rewrite <- app_assoc; reflexivity).
        rewrite place_last.
        -- rewrite !map_app. cbn [map]. rewrite <- !app_assoc. reflexivity.
        -- intros y Hy. apply in_app_or in Hy. destruct Hy as [Hy|Hy].
           ++ apply (it_plain_nostar (P1 ++ kn)); [|exact Hy].
              intros q Hq. apply in_app_or in Hq. destruct Hq; auto.
           ++ apply (it_plain_nostar (P2 ++ kd)); [|exact Hy].
              intros q Hq. apply in_app_or in Hq. destruct Hq; auto.
        -- exact Vt_shape.
      * cbn [r_default]. rewrite Hdf.
        assert (Hne : nonempty (P2 ++ kd ++ [p]) = true) by (destruct P2; [destruct kd|]; reflexivity).
        rewrite Hne. destruct (nonempty (P2 ++ kd)) eqn:Ne; [reflexivity|].
        assert (P2 = [] /\ kd = []) as [-> ->] by (destruct P2; [destruct kd; [auto|discriminate]|discriminate]).
        f_equal. rewrite Hi, app_length. cbn [length]. lia.
      * rewrite Hi, !app_length. cbn [length]. lia.
      * rewrite E. cbn [r_names r_anns r_poso r_kwo r_varargs r_varkwargs].
        cbn [names_of map add_anns fold_left filter].
        assert (Hh : has_def p = true) by (unfold has_def; rewrite Dp; reflexivity).
        assert (Hn : nodef_p p = false) by (unfold nodef_p; rewrite Hh; reflexivity).
        rewrite Hh, Hn.
        rewrite <- !app_assoc. cbn [app]. eexists. reflexivity.
    + (* without a default: inserted before the first default *)
      rewrite (step_ko_ok_nodef oa op i st p Hpk Dp Hf).
      match goal with |- context [rs_loop oa op true (S i) (map tk K) ?s] =>
        destruct (IH (kn ++ [p]) kd (S i) s) as [D E] end.
      * exact (all_kind_tail _ _ _ HK).
      * intros q Hq. apply in_app_or in Hq. destruct Hq as [Hq|[<-|[]]]; [exact (Hkn q Hq)|exact Hpp].
      * exact Hkd.
      * reflexivity.
      * cbn [r_chevron]. exact Hc.
      * cbn [r_params]. rewrite Hdf, Hpr. destruct (nonempty (P2 ++ kd)) eqn:Ne.
        -- replace (length (P1 ++ kn)) with (length (map it (P1 ++ kn))) by apply map_length.
           rewrite insert_at_app'. rewrite !map_app. cbn [map]. rewrite <- !app_assoc. reflexivity.
        -- assert (P2 = [] /\ kd = []) as [-> ->] by (destruct P2; [destruct kd; [auto|discriminate]|discriminate]).
           cbn [app map].
           rewrite place_last.
           ++ rewrite !map_app. cbn [map]. rewrite <- !app_assoc. reflexivity.
           ++ apply it_plain_nostar. intros q Hq. apply in_app_or in Hq. destruct Hq; auto.
           ++ exact Vt_shape.
      * cbn [r_default]. rewrite Hdf. destruct (nonempty (P2 ++ kd)); [|reflexivity].
        f_equal. rewrite !app_length. cbn [length]. lia.
      * rewrite Hi, !app_length. cbn [length]. lia.
      * rewrite E. cbn [r_names r_anns r_poso r_kwo r_varargs r_varkwargs].
        cbn [names_of map add_anns fold_left filter].
        assert (Hh : has_def p = false) by (unfold has_def; rewrite Dp; reflexivity).
        assert (Hn : nodef_p p = true) by (unfold nodef_p; rewrite Hh; reflexivity).
        rewrite Hh, Hn.
        rewrite <- !app_assoc. cbn [app]. eexists. reflexivity.
Qed.

End KwoSegment.

Lemma seg_K_ok' oa op P1 P2 V K i st :
  (forall p, In p P1 -> plain p) -> (forall p, In p P2 -> plain p) ->
  all_kind VP V -> (length V <= 1)%nat -> all_kind KO K -> r_chevron st = None ->
  r_params st = map (item oa) P1 ++ map (item oa) P2 ++ map (item oa) V ->
  (K = [] \/ (r_found_star st = true
              /\ r_default st = (if nonempty P2 then Some (length P1) else None)
              /\ i = (length P1 + length P2 + 1)%nat)) ->
  exists D, rs_loop oa op true i (map tk K) st
  = mkRS (r_names st ++ names_of K) (add_anns oa K (r_anns st)) (r_poso st)
         (r_kwo st ++ names_of K)
         (map (item oa) (P1 ++ filter nodef_p K) ++ map (item oa) (P2 ++ filter has_def K)
          ++ map (item oa) V)
         (r_found_star st) (r_varargs st) (r_varkwargs st) None D.
Proof.
  intros HP1 HP2 HV HlV HK Hc Hpr [->|[Hf [Hdf Hi]]].
  - cbn [map rs_loop names_of add_anns fold_left filter]. rewrite !app_nil_r.
    destruct st as [nm an po kw pr fs va vk ch df].
    cbn [r_chevron r_params r_names r_anns r_poso r_kwo r_varargs r_varkwargs r_found_star] in *.
    subst ch pr. eexists. reflexivity.
  - destruct (seg_K_ok oa op P1 P2 V HP1 HP2 HV HlV K [] [] i st HK) as [D E].
    + intros p [].
    + intros p [].
    + exact Hf.
    + exact Hc.
    + rewrite !app_nil_r. exact Hpr.
    + rewrite !app_nil_r. exact Hdf.
    + rewrite Hi. cbn [length]. lia.
    + rewrite E. cbn [app]. rewrite Hf. eexists. reflexivity.
Qed.

Lemma defs_upd_some fs A : forall i d, defs_upd fs i (Some d) A = Some d.
Proof.
  induction A as [|p A IH]; intros i d; [reflexivity|]. cbn [defs_upd].
  unfold def_upd. destruct (pdef p); apply IH.
Qed.

Lemma defs_upd_split P1 P2 : forall i,
  (forall p, In p P1 -> pdef p = None) -> (forall p, In p P2 -> has_def p = true) ->
  defs_upd false i None (P1 ++ P2) = if nonempty P2 then Some (i + length P1)%nat else None.
Proof.
  induction P1 as [|p P1 IH]; intros i H1 H2.
  - cbn [app length]. destruct P2 as [|q P2]; [reflexivity|]. cbn [defs_upd nonempty].
    unfold def_upd. specialize (H2 q (or_introl eq_refl)). unfold has_def in H2.
    destruct (pdef q); [|discriminate]. rewrite defs_upd_some. f_equal. lia.
  - cbn [app defs_upd length]. unfold def_upd. rewrite (H1 p (or_introl eq_refl)).
    rewrite IH; [|intros q Hq; apply H1; right; exact Hq|exact H2].
    destruct (nonempty P2); [f_equal; lia|reflexivity].
Qed.

(* *args or the bare star, keeping track of default_index *)
Lemma seg_VS_exact oa op ok V K i st : all_kind VP V -> (length V <= 1)%nat ->
  (forall v, In v V -> pdef v = None) -> r_chevron st = None ->
  rs_loop oa op ok i (map tk V ++ st_ V K) st
  = mkRS (r_names st) (add_anns oa V (r_anns st)) (r_poso st) (r_kwo st)
         (r_params st ++ map (item oa) V ++ stp ok V K)
         (r_found_star st || nonempty V || nonempty K)
         (optname V (r_varargs st)) (r_varkwargs st) None (r_default st).
Proof.
  intros HV HlV Hd Hc.
  destruct V as [|v [|v2 V]]; cbn [length] in HlV; try lia.
  - cbn [map app st_ stp add_anns fold_left optname nonempty]. destruct K as [|k K].
    + cbn [rs_loop nonempty]. rewrite app_nil_r, !orb_false_r.
      destruct st as [nm an po kw pr fs va vk ch df]. cbn [r_chevron] in Hc. subst ch. reflexivity.
    + cbn [rs_loop nonempty]. rewrite (step_star oa op ok i st Hc). rewrite orb_true_r.
      destruct ok; [rewrite app_nil_r|]; reflexivity.
  - cbn [map app st_ stp rs_loop add_anns fold_left optname nonempty].
    rewrite (step_vp oa op ok i st v (HV v (or_introl eq_refl)) Hc).
    rewrite ?app_nil_r, ?orb_true_r. cbn [orb]. unfold def_upd. rewrite (Hd v (or_introl eq_refl)).
    reflexivity.
Qed.

Lemma length_VS V K : (length V <= 1)%nat -> K <> [] -> length (map tk V ++ st_ V K) = 1%nat.
Proof.
  intros HlV HK. destruct V as [|v [|v2 V]]; cbn [length] in HlV; try lia.
  - destruct K; [congruence|reflexivity].
  - reflexivity.
Qed.

(* read_sig of str(sig) with use_modifiers_kwoargs, signatures without
   positional-only parameters *)
Lemma read_sig_kwo oa op P1 P2 V K W :
  all_kind PK (P1 ++ P2) -> all_kind VP V -> all_kind KO K -> all_kind VK W ->
  (length V <= 1)%nat -> (length W <= 1)%nat ->
  (forall p, In p P1 -> pdef p = None) -> (forall p, In p P2 -> has_def p = true) ->
  (forall v, In v V -> pdef v = None) ->
  read_sig (toks [] (P1 ++ P2) V K W) oa op true
  = mkRSig (names_of (P1 ++ P2) ++ names_of K ++ names_of V ++ names_of W)
           (add_anns oa ((P1 ++ P2) ++ V ++ K ++ W) []) [] (names_of K)
           (map (item oa) (P1 ++ filter nodef_p K) ++ map (item oa) (P2 ++ filter has_def K)
            ++ map (item oa) V ++ map (item oa) W).
Proof.
  intros HP HV HK HW HlV HlW H1 H2 HVd. unfold read_sig, toks. cbn [map sl app].
  assert (E : map tk (P1 ++ P2) ++ map tk V ++ st_ V K ++ map tk K ++ map tk W
              = map tk (P1 ++ P2) ++ (map tk V ++ st_ V K) ++ map tk K ++ map tk W)
    by (rewrite <- !app_assoc; reflexivity).
  rewrite E. clear E.
  rewrite rs_loop_app.
  assert (HPp : all_pos (P1 ++ P2)) by (intros p Hp; right; exact (HP p Hp)).
  rewrite (seg_pos oa op true (P1 ++ P2) 0 rs_init HPp eq_refl).
  cbn [rs_init r_names r_anns r_poso r_kwo r_params r_found_star r_varargs r_varkwargs r_chevron r_default app].
  rewrite (defs_upd_split P1 P2 0 H1 H2).
  rewrite rs_loop_app.
  match goal with |- context [rs_loop oa op true ?i (map tk V ++ st_ V K) ?s] =>
    rewrite (seg_VS_exact oa op true V K i s HV HlV HVd eq_refl) end.
  cbn [r_names r_anns r_poso r_kwo r_params r_found_star r_varargs r_varkwargs r_chevron r_default orb].
  rewrite rs_loop_app.
  assert (Hst : stp true V K = []) by (destruct V; destruct K; reflexivity).
  rewrite Hst, app_nil_r.
  assert (Hpl1 : forall p, In p P1 -> plain p).
  { intros p Hp. apply plain_kind. right. left. apply HP. apply in_or_app. left. exact Hp. }
  assert (Hpl2 : forall p, In p P2 -> plain p).
  { intros p Hp. apply plain_kind. right. left. apply HP. apply in_or_app. right. exact Hp. }
  match goal with |- context [rs_loop oa op true ?i (map tk K) ?s] =>
    destruct (seg_K_ok' oa op P1 P2 V K i s Hpl1 Hpl2 HV HlV HK eq_refl) as [D3 E3] end.
  { cbn [r_params]. rewrite map_app, <- app_assoc. reflexivity. }
  { destruct K as [|k K]; [left; reflexivity|right].
    cbn [r_found_star r_default nonempty]. split; [apply orb_true_r|]. split; [reflexivity|].
    rewrite (length_VS V (k :: K) HlV) by discriminate. rewrite map_length, app_length. lia. }
  rewrite E3. clear E3.
  cbn [r_names r_anns r_poso r_kwo r_params r_found_star r_varargs r_varkwargs r_chevron r_default].
  match goal with |- context [rs_loop oa op true ?i (map tk W) ?s] =>
    destruct (seg_W oa op true W i s HW HlW eq_refl) as [D4 E4]; rewrite E4; clear E4 end.
  cbn [r_names r_anns r_poso r_kwo r_params r_found_star r_varargs r_varkwargs r_chevron r_default app].
  rewrite !add_anns_app. rewrite <- !app_assoc.
  f_equal.
  destruct V as [|v [|v2 V]]; cbn [length] in HlV; try lia;
  destruct W as [|w [|w2 W]]; cbn [length] in HlW; try lia;
  cbn [optname opt_list_name names_of map app]; rewrite ?app_nil_r; reflexivity.
Qed.

(* ================================================================ part 7 *)
(* building validity *)
Lemma validate_intro ps :
  ranks_ok ps 0 = true -> defs_ok ps false = true -> NoDup (names_of ps) -> validate ps = true.
Proof.
  intros H1 H2 H3. unfold validate. rewrite validate_aux_split, H1, H2. cbn [andb].
  apply nodup_ok_spec. split; [exact H3|]. intros x _ [].
Qed.

Lemma validate_parts ps : validate ps = true ->
  ranks_ok ps 0 = true /\ defs_ok ps false = true /\ NoDup (names_of ps).
Proof.
  unfold validate. rewrite validate_aux_split. intros H.
  apply andb_true_iff in H. destruct H as [H H3]. apply andb_true_iff in H. destruct H as [H1 H2].
  apply nodup_ok_spec in H3. tauto.
Qed.

Lemma defs_ok_nodef A : forall B, (forall p, In p A -> has_def p = false) ->
  defs_ok (A ++ B) false = defs_ok B false.
Proof.
  induction A as [|p A IH]; intros B H; [reflexivity|]. cbn [app defs_ok].
  rewrite (H p (or_introl eq_refl)). rewrite !andb_false_r. cbn [negb andb orb].
  apply IH. intros q Hq. apply H. right. exact Hq.
Qed.

Lemma defs_ok_easy A : (forall p, In p A -> has_def p = true \/ is_positional p = false) ->
  forall sd, defs_ok A sd = true.
Proof.
  induction A as [|p A IH]; intros H sd; [reflexivity|]. cbn [defs_ok].
  rewrite IH by (intros q Hq; apply H; right; exact Hq). rewrite andb_true_r.
  destruct (H p (or_introl eq_refl)) as [E|E]; rewrite E; cbn [negb andb]; [rewrite andb_false_r|]; reflexivity.
Qed.

Lemma defs_true P : forall R, all_kind PK P -> defs_ok (P ++ R) true = true ->
  forall q, In q P -> has_def q = true.
Proof.
  induction P as [|p P IH]; intros R HP H q Hq; [destruct Hq|].
  cbn [app defs_ok] in H. apply andb_true_iff in H. destruct H as [H1 H2].
  assert (Hpos : is_positional p = true) by (unfold is_positional; rewrite (HP p (or_introl eq_refl)); reflexivity).
  rewrite Hpos in H1. cbn [andb] in H1. rewrite andb_true_r in H1. apply negb_true_iff in H1.
  apply negb_false_iff in H1.
  destruct Hq as [<-|Hq]; [exact H1|].
  cbn [orb] in H2. exact (IH R (all_kind_tail _ _ _ HP) H2 q Hq).
Qed.

Lemma defs_split P : forall R, all_kind PK P -> defs_ok (P ++ R) false = true ->
  exists P1 P2, P = P1 ++ P2 /\ (forall p, In p P1 -> pdef p = None)
                /\ (forall p, In p P2 -> has_def p = true).
Proof.
  induction P as [|p P IH]; intros R HP H.
  - exists [], []. split; [reflexivity|]. split; intros p [].
  - cbn [app defs_ok] in H. apply andb_true_iff in H. destruct H as [_ H2].
    assert (Hpos : is_positional p = true) by (unfold is_positional; rewrite (HP p (or_introl eq_refl)); reflexivity).
    rewrite Hpos in H2. cbn [orb andb] in H2.
    destruct (has_def p) eqn:Hd.
    + exists [], (p :: P). split; [reflexivity|]. split; [intros q []|].
      intros q [<-|Hq]; [exact Hd|]. exact (defs_true P R (all_kind_tail _ _ _ HP) H2 q Hq).
    + destruct (IH R (all_kind_tail _ _ _ HP) H2) as (P1 & P2 & -> & H1 & H3).
      exists (p :: P1), P2. split; [reflexivity|]. split; [|exact H3].
      intros q [<-|Hq]; [|exact (H1 q Hq)]. unfold has_def in Hd. destruct (pdef p); [discriminate|reflexivity].
Qed.

Lemma count_kind_app k A B : count_kind k (A ++ B) = (count_kind k A + count_kind k B)%nat.
Proof. unfold count_kind. rewrite filter_app, app_length. reflexivity. Qed.
Lemma count_kind_other k k' A : all_kind k' A -> kind_eqb k' k = false -> count_kind k A = 0%nat.
Proof.
  intros HA Hk. unfold count_kind. rewrite (filter_kind_none k' A (is_kind k) HA); [reflexivity|].
  intros p E. rewrite (is_kind_of k' k p E). exact Hk.
Qed.
Lemma count_kind_le k A : (count_kind k A <= length A)%nat.
Proof.
  unfold count_kind. induction A as [|p A IH]; [reflexivity|]. cbn [filter length].
  destruct (is_kind k p); cbn [length]; lia.
Qed.

(* a positional block X (all PK, defaults last), then *args, keyword-only
   parameters, **kwargs *)
Lemma valid_sig_build X1 X2 V K W :
  all_kind PK (X1 ++ X2) -> all_kind VP V -> all_kind KO K -> all_kind VK W ->
  (length V <= 1)%nat -> (length W <= 1)%nat ->
  (forall p, In p X1 -> has_def p = false) -> (forall p, In p X2 -> has_def p = true) ->
  NoDup (names_of ((X1 ++ X2) ++ V ++ K ++ W)) ->
  valid_sig ((X1 ++ X2) ++ V ++ K ++ W) = true.
Proof.
  intros HX HV HK HW HlV HlW H1 H2 ND. unfold valid_sig.
  apply andb_true_iff. split; [apply andb_true_iff; split|].
  - apply validate_intro; [| |exact ND].
    + apply (ranks_ok_seg 1 (X1 ++ X2)); [intros p Hp; rewrite (HX p Hp); reflexivity|lia|].
      apply (ranks_ok_seg 2 V); [intros p Hp; rewrite (HV p Hp); reflexivity|lia|].
      apply (ranks_ok_seg 3 K); [intros p Hp; rewrite (HK p Hp); reflexivity|lia|].
      rewrite <- (app_nil_r W).
      apply (ranks_ok_seg 4 W); [intros p Hp; rewrite (HW p Hp); reflexivity|lia|reflexivity].
    + rewrite <- app_assoc. rewrite (defs_ok_nodef X1 _ H1). apply defs_ok_easy.
      intros p Hp. apply in_app_or in Hp. destruct Hp as [Hp|Hp]; [left; exact (H2 p Hp)|right].
      unfold is_positional. apply in_app_or in Hp. destruct Hp as [Hp|Hp]; [rewrite (HV p Hp); reflexivity|].
      apply in_app_or in Hp. destruct Hp as [Hp|Hp]; [rewrite (HK p Hp)|rewrite (HW p Hp)]; reflexivity.
  - apply Nat.leb_le. rewrite (count_kind_app VP (X1 ++ X2)), (count_kind_app VP V), (count_kind_app VP K).
    rewrite (count_kind_other VP PK (X1 ++ X2) HX eq_refl), (count_kind_other VP KO K HK eq_refl),
            (count_kind_other VP VK W HW eq_refl).
    pose proof (count_kind_le VP V). lia.
  - apply Nat.leb_le. rewrite (count_kind_app VK (X1 ++ X2)), (count_kind_app VK V), (count_kind_app VK K).
    rewrite (count_kind_other VK PK (X1 ++ X2) HX eq_refl), (count_kind_other VK KO K HK eq_refl),
            (count_kind_other VK VP V HV eq_refl).
    pose proof (count_kind_le VK W). lia.
Qed.

(* ================================================================ part 8 *)
(* modifiers.kwoargs on the def that read_sig produced (Model/Modifiers.v) *)
Section PrepareKwo.
Variable kwos : list name.
Let sel (p : param) : bool := mem (pname p) kwos.
Let nsel (p : param) : bool := negb (sel p).
Definition rem_use (A : list param) (tu : list name) : list name :=
  fold_left (fun t p => if mem (pname p) kwos then MM.set_remove (pname p) t else t) A tu.

Lemma mem_set_remove' y x a : mem y (MM.set_remove x a) = negb (N.eqb x y) && mem y a.
Proof.
  unfold MM.set_remove. induction a as [|z a IH]; cbn [filter mem]; [rewrite andb_false_r; reflexivity|].
  destruct (N.eqb x z) eqn:E; cbn [negb].
  - apply N.eqb_eq in E. subst z. rewrite IH.
    destruct (N.eqb y x) eqn:E2; [|reflexivity].
    apply N.eqb_eq in E2. subst y. rewrite N.eqb_refl. reflexivity.
  - cbn [mem]. rewrite IH. destruct (N.eqb y z) eqn:E2; [|reflexivity].
    apply N.eqb_eq in E2. subst z. rewrite E. reflexivity.
Qed.

Lemma mem_rem_use A : forall tu y,
  mem y (rem_use A tu) = mem y tu && negb (mem y (names_of (filter sel A))).
Proof.
  unfold rem_use. induction A as [|p A IH]; intros tu y; cbn [fold_left filter names_of map mem].
  - rewrite andb_true_r. reflexivity.
  - destruct (mem (pname p) kwos) eqn:E.
    + assert (Hs : sel p = true) by (unfold sel; exact E). rewrite Hs.
      rewrite IH, mem_set_remove'. cbn [names_of map mem]. fold (names_of (filter sel A)).
      rewrite (N.eqb_sym y (pname p)).
      destruct (N.eqb (pname p) y), (mem y tu), (mem y (names_of (filter sel A))); reflexivity.
    + assert (Hs : sel p = false) by (unfold sel; exact E). rewrite Hs.
      rewrite IH. reflexivity.
Qed.

Lemma prep_pk A : forall i st, all_kind PK A ->
  exists KP FP, MM.prep_loop [] kwos A i st
  = Ok (MM.mkPS (MM.st_params st ++ filter nsel A)
                (MM.st_kwoparams st ++ map (set_kind KO) (filter sel A))
                KP FP (MM.st_found_kws st) (rem_use A (MM.st_to_use st))).
Proof.
  induction A as [|p A IH]; intros i st HA.
  - cbn [MM.prep_loop filter map rem_use fold_left]. rewrite !app_nil_r.
    destruct st. eexists. eexists. reflexivity.
  - cbn [MM.prep_loop]. unfold MM.prep_step. rewrite (HA p (or_introl eq_refl)). cbn [mem].
    destruct (mem (pname p) kwos) eqn:E; cbn [Base.bind].
    + assert (Hs : sel p = true) by (unfold sel; exact E).
      assert (Hn : nsel p = false) by (unfold nsel; rewrite Hs; reflexivity).
      match goal with |- context [MM.prep_loop [] kwos A (S i) ?s] =>
        destruct (IH (S i) s (all_kind_tail _ _ _ HA)) as (KP & FP & E2) end.
      rewrite E2. cbn [MM.st_params MM.st_kwoparams MM.st_found_kws MM.st_to_use].
      cbn [filter]. rewrite Hs, Hn. cbn [map]. unfold rem_use. cbn [fold_left]. rewrite E.
      rewrite <- !app_assoc. eexists. eexists. reflexivity.
    + assert (Hs : sel p = false) by (unfold sel; exact E).
      assert (Hn : nsel p = true) by (unfold nsel; rewrite Hs; reflexivity).
      match goal with |- context [MM.prep_loop [] kwos A (S i) ?s] =>
        destruct (IH (S i) s (all_kind_tail _ _ _ HA)) as (KP & FP & E2) end.
      rewrite E2. cbn [MM.st_params MM.st_kwoparams MM.st_found_kws MM.st_to_use].
      cbn [filter]. rewrite Hs, Hn. unfold rem_use. cbn [fold_left]. rewrite E.
      rewrite <- !app_assoc. eexists. eexists. reflexivity.
Qed.

Lemma prep_loop_app' posos a : forall b i st,
  MM.prep_loop posos kwos (a ++ b) i st =
  (do st1 <- MM.prep_loop posos kwos a i st ;; MM.prep_loop posos kwos b (i + length a) st1).
Proof.
  induction a as [|p a IH]; intros b i st; cbn [app MM.prep_loop length].
  - rewrite Nat.add_0_r. reflexivity.
  - destruct (MM.prep_step posos kwos i p st); cbn [Base.bind]; [|reflexivity].
    rewrite IH. replace (S i + length a)%nat with (i + S (length a))%nat by lia. reflexivity.
Qed.

Lemma is_nil_mem (l : list name) : (forall y, mem y l = false) -> @MM.is_nil name l = true.
Proof. destruct l as [|x l]; [reflexivity|]. intros H. specialize (H x). cbn [mem] in H. rewrite N.eqb_refl in H. discriminate. Qed.

Lemma prepare_kwo Y V W :
  all_kind PK Y -> all_kind VP V -> all_kind VK W -> (length V <= 1)%nat -> (length W <= 1)%nat ->
  (forall p, In p (V ++ W) -> mem (pname p) kwos = false) ->
  (forall y, mem y kwos = true -> mem y (names_of (filter sel Y)) = true) ->
  validate (filter nsel Y ++ V ++ map (set_kind KO) (filter sel Y) ++ W) = true ->
  exists kp, MM.prepare (Y ++ V ++ W) [] kwos
  = Ok (filter nsel Y ++ V ++ map (set_kind KO) (filter sel Y) ++ W, kp).
Proof.
  intros HY HV HW HlV HlW Hout Hall Hval. unfold MM.prepare. cbn [MM.set_inter filter MM.is_nil negb app].
  rewrite (prep_loop_app' [] Y (V ++ W) 0).
  destruct (prep_pk Y 0 (MM.mkPS [] [] [] false false kwos) HY) as (KP & FP & E). rewrite E. clear E.
  cbn [Base.bind MM.st_params MM.st_kwoparams MM.st_found_kws MM.st_to_use app].
  set (tu := rem_use Y kwos).
  assert (Htu : forall y, mem y tu = false).
  { intros y. unfold tu. rewrite mem_rem_use. destruct (mem y kwos) eqn:E; [|reflexivity].
    rewrite (Hall y E). reflexivity. }
  assert (HtuV : forall p, mem (pname p) tu = false) by (intros p; apply Htu).
  destruct V as [|v [|v2 V]]; cbn [length] in HlV; try lia;
  destruct W as [|w [|w2 W]]; cbn [length] in HlW; try lia;
  cbn [app MM.prep_loop].
  - cbn [Base.bind MM.st_found_kws MM.st_params MM.st_kwoparams MM.st_to_use].
    rewrite (is_nil_mem tu Htu). cbn [negb]. cbn [app] in Hval. rewrite ?app_nil_r in Hval.
    rewrite <- ?app_assoc. cbn [app]. rewrite ?app_nil_r. rewrite Hval. eexists. reflexivity.
  - unfold MM.prep_step. rewrite (HW w (or_introl eq_refl)).
    cbn [MM.st_to_use]. rewrite HtuV. cbn [Base.bind kind_eqb kind_rank Nat.eqb].
    cbn [MM.st_found_kws MM.st_params MM.st_kwoparams MM.st_to_use].
    rewrite (is_nil_mem tu Htu). cbn [negb]. cbn [app] in Hval. rewrite ?app_nil_r in Hval.
    rewrite <- ?app_assoc. cbn [app]. rewrite ?app_nil_r. rewrite Hval. eexists. reflexivity.
  - unfold MM.prep_step. rewrite (HV v (or_introl eq_refl)).
    cbn [MM.st_to_use]. rewrite HtuV. cbn [Base.bind kind_eqb kind_rank Nat.eqb].
    cbn [MM.st_found_kws MM.st_params MM.st_kwoparams MM.st_to_use].
    rewrite (is_nil_mem tu Htu). cbn [negb]. cbn [app] in Hval. rewrite ?app_nil_r in Hval.
    rewrite <- ?app_assoc. cbn [app]. rewrite ?app_nil_r. rewrite Hval. eexists. reflexivity.
  - unfold MM.prep_step at 1. rewrite (HV v (or_introl eq_refl)).
    cbn [MM.st_to_use]. rewrite HtuV. cbn [Base.bind kind_eqb kind_rank Nat.eqb].
    unfold MM.prep_step. rewrite (HW w (or_introl eq_refl)).
    cbn [MM.st_to_use]. rewrite HtuV. cbn [Base.bind kind_eqb kind_rank Nat.eqb].
    cbn [MM.st_found_kws MM.st_params MM.st_kwoparams MM.st_to_use].
    rewrite (is_nil_mem tu Htu). cbn [negb]. cbn [app] in Hval. rewrite ?app_nil_r in Hval.
    rewrite <- ?app_assoc. cbn [app]. rewrite ?app_nil_r. rewrite Hval. eexists. reflexivity.
Qed.

End PrepareKwo.

(* ================================================================ part 9 *)
(* the advertised order with modifiers.kwoargs: keyword-only parameters without
   a default first, then those with one (each group in its original order) *)
Definition ko_nodef (p : param) : bool := is_kind KO p && negb (has_def p).
Definition ko_def (p : param) : bool := is_kind KO p && has_def p.
Definition ko_sorted (ps : list param) : list param :=
  filter (fun p => negb (is_kind KO p) && negb (is_kind VK p)) ps
  ++ filter ko_nodef ps ++ filter ko_def ps ++ filter (is_kind VK) ps.

Lemma filter_ext_in'' {A} (f g : A -> bool) l : (forall x, In x l -> f x = g x) -> filter f l = filter g l.
Proof.
  induction l as [|x l IH]; intros H; [reflexivity|]. cbn [filter].
  rewrite (H x (or_introl eq_refl)), IH; [reflexivity|]. intros y Hy. apply H. right. exact Hy.
Qed.

Lemma ko_sorted_shape P V K W :
  all_kind PK P -> all_kind VP V -> all_kind KO K -> all_kind VK W ->
  ko_sorted (P ++ V ++ K ++ W) = P ++ V ++ filter nodef_p K ++ filter has_def K ++ W.
Proof.
  intros HP HV HK HW. unfold ko_sorted. rewrite !filter_app.
  set (f := fun p => negb (is_kind KO p) && negb (is_kind VK p)).
  rewrite (filter_kind_all PK P f HP) by (intros p E; unfold f; rewrite (is_kind_of PK KO p E), (is_kind_of PK VK p E); reflexivity).
  rewrite (filter_kind_all VP V f HV) by (intros p E; unfold f; rewrite (is_kind_of VP KO p E), (is_kind_of VP VK p E); reflexivity).
  rewrite (filter_kind_none KO K f HK) by (intros p E; unfold f; rewrite (is_kind_of KO KO p E); reflexivity).
  rewrite (filter_kind_none VK W f HW) by (intros p E; unfold f; rewrite (is_kind_of VK KO p E), (is_kind_of VK VK p E); reflexivity).
  rewrite (filter_kind_none PK P ko_nodef HP) by (intros p E; unfold ko_nodef; rewrite (is_kind_of PK KO p E); reflexivity).
  rewrite (filter_kind_none VP V ko_nodef HV) by (intros p E; unfold ko_nodef; rewrite (is_kind_of VP KO p E); reflexivity).
  rewrite (filter_kind_none VK W ko_nodef HW) by (intros p E; unfold ko_nodef; rewrite (is_kind_of VK KO p E); reflexivity).
  rewrite (filter_kind_none PK P ko_def HP) by (intros p E; unfold ko_def; rewrite (is_kind_of PK KO p E); reflexivity).
  rewrite (filter_kind_none VP V ko_def HV) by (intros p E; unfold ko_def; rewrite (is_kind_of VP KO p E); reflexivity).
  rewrite (filter_kind_none VK W ko_def HW) by (intros p E; unfold ko_def; rewrite (is_kind_of VK KO p E); reflexivity).
  rewrite (filter_kind_none PK P (is_kind VK) HP) by (intros p E; rewrite (is_kind_of PK VK p E); reflexivity).
  rewrite (filter_kind_none VP V (is_kind VK) HV) by (intros p E; rewrite (is_kind_of VP VK p E); reflexivity).
  rewrite (filter_kind_none KO K (is_kind VK) HK) by (intros p E; rewrite (is_kind_of KO VK p E); reflexivity).
  rewrite (filter_kind_all VK W (is_kind VK) HW) by (intros p E; rewrite (is_kind_of VK VK p E); reflexivity).
  assert (E1 : filter ko_nodef K = filter nodef_p K).
  { apply filter_ext_in''. intros p Hp. unfold ko_nodef, nodef_p. rewrite (is_kind_of KO KO p (HK p Hp)). reflexivity. }
  assert (E2 : filter ko_def K = filter has_def K).
  { apply filter_ext_in''. intros p Hp. unfold ko_def. rewrite (is_kind_of KO KO p (HK p Hp)). reflexivity. }
  rewrite E1, E2. cbn [app]. rewrite !app_nil_r. rewrite <- !app_assoc. reflexivity.
Qed.

Lemma filter_partition_perm {A} (f : A -> bool) l :
  Permutation (filter (fun x => negb (f x)) l ++ filter f l) l.
Proof.
  induction l as [|x l IH]; [constructor|]. cbn [filter]. destruct (f x); cbn [negb app].
  - apply Permutation_sym. apply Permutation_cons_app. apply Permutation_sym. exact IH.
  - constructor. exact IH.
Qed.

Lemma ko_split_perm K : Permutation (filter nodef_p K ++ filter has_def K) K.
Proof. exact (filter_partition_perm has_def K). Qed.

Lemma item_setPK oa p : plain p -> item oa (set_kind PK p) = item oa p.
Proof. unfold plain, item, stars_of. cbn [pkind set_kind pname pann pdef]. intros H. rewrite H. reflexivity. Qed.

Lemma map_item_setPK oa A : (forall p, In p A -> plain p) ->
  map (item oa) (map (set_kind PK) A) = map (item oa) A.
Proof. intros H. rewrite map_map. apply map_ext_in. intros p Hp. apply item_setPK. exact (H p Hp). Qed.

Lemma set_kind_same k p : pkind p = k -> set_kind k p = p.
Proof. intros <-. destruct p; reflexivity. Qed.

Lemma filter_map_name (f : param -> param) (g : name -> bool) A :
  (forall p, pname (f p) = pname p) ->
  filter (fun p => g (pname p)) (map f A) = map f (filter (fun p => g (pname p)) A).
Proof.
  intros Hf. induction A as [|p A IH]; [reflexivity|]. cbn [map filter]. rewrite Hf.
  destruct (g (pname p)); cbn [map]; rewrite IH; reflexivity.
Qed.

Lemma valid_sig_validate ps : valid_sig ps = true -> validate ps = true.
Proof. unfold valid_sig. intros H. apply andb_true_iff in H. destruct H as [H _]. apply andb_true_iff in H. tauto. Qed.

Lemma NoDup_names_perm A B : Permutation A B -> NoDup (names_of A) -> NoDup (names_of B).
Proof. intros HP. apply Permutation_NoDup. unfold names_of. apply Permutation_map. exact HP. Qed.

(* the reordering of the parameters that read_sig performs, as a permutation *)
Lemma def_order_perm (P1 P2 V Kn Kd W : list param) :
  Permutation ((P1 ++ P2) ++ V ++ (Kn ++ Kd) ++ W) (((P1 ++ Kn) ++ (P2 ++ Kd)) ++ V ++ W).
Proof.
  rewrite <- !app_assoc. apply Permutation_app_head.
  (* P2 ++ V ++ Kn ++ Kd ++ W  ~  Kn ++ P2 ++ Kd ++ V ++ W *)
  transitivity (P2 ++ Kn ++ V ++ Kd ++ W).
  { apply Permutation_app_head. apply Permutation_app_swap_app. }
  transitivity (Kn ++ P2 ++ V ++ Kd ++ W).
  { apply Permutation_app_swap_app. }
  apply Permutation_app_head. apply Permutation_app_head. apply Permutation_app_swap_app.
Qed.

Lemma NoDup_app_disj {A} (l1 l2 : list A) x : NoDup (l1 ++ l2) -> In x l1 -> ~ In x l2.
Proof.
  induction l1 as [|y l1 IH]; cbn [app]; intros ND H1 H2; [destruct H1|].
  inversion ND as [|? ? Hnot ND']; subst. destruct H1 as [->|H1].
  - apply Hnot. apply in_or_app. right. exact H2.
  - exact (IH ND' H1 H2).
Qed.

Lemma mem_false_notin x l : ~ In x l -> mem x l = false.
Proof. intros H. destruct (mem x l) eqn:E; [|reflexivity]. apply mem_In' in E. contradiction. Qed.

Lemma star_nodef_app A B : star_nodef (A ++ B) = star_nodef A && star_nodef B.
Proof. unfold star_nodef. apply forallb_app. Qed.

Lemma star_nodef_nodef A : (forall p, In p A -> pdef p = None) -> star_nodef A = true.
Proof.
  intros H. unfold star_nodef. apply forallb_forall. intros p Hp. unfold star_nodef_p, has_def.
  rewrite (H p Hp). rewrite andb_false_r. reflexivity.
Qed.

Lemma star_nodef_pk A : all_kind PK A -> star_nodef A = true.
Proof.
  intros H. unfold star_nodef. apply forallb_forall. intros p Hp. unfold star_nodef_p.
  rewrite (is_kind_of PK VP p (H p Hp)), (is_kind_of PK VK p (H p Hp)). reflexivity.
Qed.

Lemma all_kind_app k A B : all_kind k A -> all_kind k B -> all_kind k (A ++ B).
Proof. intros HA HB p Hp. apply in_app_or in Hp. destruct Hp; auto. Qed.

Lemma all_kind_setPK A : all_kind PK (map (set_kind PK) A).
Proof. intros p Hp. apply in_map_iff in Hp. destruct Hp as [q [<- _]]. reflexivity. Qed.

Lemma all_kind_strip oa k A : all_kind k A -> all_kind k (map (strip oa) A).
Proof. intros H p Hp. apply in_map_iff in Hp. destruct Hp as [q [<- Hq]]. exact (H q Hq). Qed.

Lemma names_of_map_same (f : param -> param) A : (forall p, pname (f p) = pname p) ->
  names_of (map f A) = names_of A.
Proof. intros Hf. unfold names_of. rewrite map_map. apply map_ext. exact Hf. Qed.

Lemma strip_setPK_KO oa k : pkind k = KO -> set_kind KO (strip oa (set_kind PK k)) = strip oa k.
Proof. intros H. destruct k as [n kk d a u]. cbn in *. subst kk. destruct oa; destruct a; reflexivity. Qed.

Lemma strip_setPK_PK oa p : pkind p = PK -> strip oa (set_kind PK p) = strip oa p.
Proof. intros H. rewrite (set_kind_same PK p H). reflexivity. Qed.

Lemma nodup_mid {T} (A B C D : list T) x :
  NoDup (A ++ B ++ C ++ D) -> In x C -> ~ In x (A ++ B ++ D).
Proof.
  intros ND HC.
  assert (HP : Permutation (A ++ B ++ C ++ D) (C ++ A ++ B ++ D)).
  { transitivity (A ++ C ++ B ++ D).
    - apply Permutation_app_head. apply Permutation_app_swap_app.
    - apply Permutation_app_swap_app. }
  apply (Permutation_NoDup HP) in ND. exact (NoDup_app_disj _ _ x ND HC).
Qed.

Section KwoAssembly.
Variables (oa : bool) (P1 P2 V K W : list param).
Hypothesis HP : all_kind PK (P1 ++ P2).
Hypothesis HV : all_kind VP V.
Hypothesis HK : all_kind KO K.
Hypothesis HW : all_kind VK W.
Hypothesis HlV : (length V <= 1)%nat.
Hypothesis HlW : (length W <= 1)%nat.
Hypothesis H1 : forall p, In p P1 -> pdef p = None.
Hypothesis H2 : forall p, In p P2 -> has_def p = true.
Hypothesis HVd : forall v, In v V -> pdef v = None.
Hypothesis HWd : forall w, In w W -> pdef w = None.
Hypothesis ND : NoDup (names_of ((P1 ++ P2) ++ V ++ K ++ W)).

Let Kn := filter nodef_p K.
Let Kd := filter has_def K.
Let X1 := map (set_kind PK) (P1 ++ Kn).
Let X2 := map (set_kind PK) (P2 ++ Kd).
Let DL := map (item oa) (P1 ++ Kn) ++ map (item oa) (P2 ++ Kd) ++ map (item oa) V ++ map (item oa) W.

Lemma HP1' : all_kind PK P1. Proof. intros p Hp. apply HP. apply in_or_app. left. exact Hp. Qed.
Lemma HP2' : all_kind PK P2. Proof. intros p Hp. apply HP. apply in_or_app. right. exact Hp. Qed.
Lemma HKn : all_kind KO Kn. Proof. intros p Hp. apply filter_In in Hp. apply HK. tauto. Qed.
Lemma HKd : all_kind KO Kd. Proof. intros p Hp. apply filter_In in Hp. apply HK. tauto. Qed.

Lemma plain_P1Kn : forall p, In p (P1 ++ Kn) -> plain p.
Proof.
  intros p Hp. apply plain_kind. apply in_app_or in Hp. destruct Hp as [Hp|Hp].
  - right. left. exact (HP1' p Hp).
  - right. right. exact (HKn p Hp).
Qed.
Lemma plain_P2Kd : forall p, In p (P2 ++ Kd) -> plain p.
Proof.
  intros p Hp. apply plain_kind. apply in_app_or in Hp. destruct Hp as [Hp|Hp].
  - right. left. exact (HP2' p Hp).
  - right. right. exact (HKd p Hp).
Qed.

Lemma DL_native : DL = native_params oa [] (X1 ++ X2) V [] W.
Proof.
  unfold DL, native_params, X1, X2. cbn [map slp app].
  assert (E : stp false V [] = []) by (destruct V; reflexivity). rewrite E. cbn [app].
  rewrite (map_app (item oa) (map (set_kind PK) (P1 ++ Kn))).
  rewrite (map_item_setPK oa _ plain_P1Kn), (map_item_setPK oa _ plain_P2Kd).
  rewrite <- app_assoc. reflexivity.
Qed.

Lemma perm_def_order :
  Permutation ((P1 ++ P2) ++ V ++ K ++ W) (((P1 ++ Kn) ++ (P2 ++ Kd)) ++ V ++ W).
Proof.
  transitivity ((P1 ++ P2) ++ V ++ (Kn ++ Kd) ++ W).
  - apply Permutation_app_head. apply Permutation_app_head. apply Permutation_app_tail.
    apply Permutation_sym. apply ko_split_perm.
  - apply def_order_perm.
Qed.

Lemma valid_def_list : valid_sig ((X1 ++ X2) ++ V ++ W) = true.
Proof.
  change ((X1 ++ X2) ++ V ++ W) with ((X1 ++ X2) ++ V ++ [] ++ W).
  apply valid_sig_build; try assumption.
  - apply all_kind_app; apply all_kind_setPK.
  - intros p [].
  - intros p Hp. unfold X1 in Hp. apply in_map_iff in Hp. destruct Hp as [q [<- Hq]].
    change (has_def (set_kind PK q)) with (has_def q).
    apply in_app_or in Hq. destruct Hq as [Hq|Hq].
    + unfold has_def. rewrite (H1 q Hq). reflexivity.
    + apply filter_In in Hq. destruct Hq as [_ Hq]. unfold nodef_p in Hq. apply negb_true_iff in Hq. exact Hq.
  - intros p Hp. unfold X2 in Hp. apply in_map_iff in Hp. destruct Hp as [q [<- Hq]].
    change (has_def (set_kind PK q)) with (has_def q).
    apply in_app_or in Hq. destruct Hq as [Hq|Hq]; [exact (H2 q Hq)|].
    apply filter_In in Hq. tauto.
  - cbn [app]. unfold X1, X2. rewrite <- map_app.
    rewrite names_of_app, (names_of_map_same (set_kind PK)) by reflexivity.
    rewrite <- names_of_app. exact (NoDup_names_perm _ _ perm_def_order ND).
Qed.

Lemma kwo_def_sig names an po kw ret :
  def_sig (func_code (mkRSig names an po kw DL) ret oa)
  = Some (map (strip oa) ((X1 ++ X2) ++ V ++ W)).
Proof.
  unfold def_sig, func_code. cbn [fc_params rs_params]. rewrite DL_native.
  rewrite (def_params_native oa [] (X1 ++ X2) V [] W).
  - change ([] ++ (X1 ++ X2) ++ V ++ [] ++ W) with ((X1 ++ X2) ++ V ++ W).
    rewrite valid_sig_strip, valid_def_list. reflexivity.
  - intros p [].
  - apply all_kind_app; apply all_kind_setPK.
  - exact HV.
  - intros p [].
  - exact HW.
  - exact HlV.
  - exact HlW.
  - change ([] ++ (X1 ++ X2) ++ V ++ [] ++ W) with ((X1 ++ X2) ++ V ++ W).
    rewrite (star_nodef_app (X1 ++ X2)), (star_nodef_app V).
    rewrite (star_nodef_pk (X1 ++ X2)) by (apply all_kind_app; apply all_kind_setPK).
    rewrite (star_nodef_nodef V HVd), (star_nodef_nodef W HWd). reflexivity.
Qed.

Definition sorted_ps : list param := (P1 ++ P2) ++ V ++ (Kn ++ Kd) ++ W.

Lemma valid_sorted : valid_sig sorted_ps = true.
Proof.
  unfold sorted_ps. apply valid_sig_build; try assumption.
  - apply all_kind_app; [exact HKn|exact HKd].
  - intros p Hp. unfold has_def. rewrite (H1 p Hp). reflexivity.
  - apply (NoDup_names_perm ((P1 ++ P2) ++ V ++ K ++ W)); [|exact ND].
    apply Permutation_app_head. apply Permutation_app_head. apply Permutation_app_tail.
    apply Permutation_sym. apply ko_split_perm.
Qed.

Lemma notin_K_names p : In p ((P1 ++ P2) ++ V ++ W) -> mem (pname p) (names_of K) = false.
Proof.
  intros Hp. apply mem_false_notin. intros HinK.
  pose proof ND as ND'.
  rewrite (names_of_app (P1 ++ P2)), (names_of_app V), (names_of_app K) in ND'.
  apply (nodup_mid _ _ _ _ (pname p) ND' HinK).
  rewrite <- !names_of_app. apply in_map. exact Hp.
Qed.

Let g (p : param) : param := strip oa (set_kind PK p).
Let L := (P1 ++ Kn) ++ (P2 ++ Kd).

Lemma Y_form : map (strip oa) (X1 ++ X2) = map g L.
Proof. unfold X1, X2, L, g. rewrite <- map_app, map_map. reflexivity. Qed.

Lemma in_K_names k : In k K -> mem (pname k) (names_of K) = true.
Proof. intros H. apply mem_In'. apply in_map. exact H. Qed.

Lemma P1_out p : In p P1 -> mem (pname p) (names_of K) = false.
Proof. intros H. apply notin_K_names. apply in_or_app. left. apply in_or_app. left. exact H. Qed.
Lemma P2_out p : In p P2 -> mem (pname p) (names_of K) = false.
Proof. intros H. apply notin_K_names. apply in_or_app. left. apply in_or_app. right. exact H. Qed.
Lemma Kn_in p : In p Kn -> mem (pname p) (names_of K) = true.
Proof. intros H. apply in_K_names. apply filter_In in H. tauto. Qed.
Lemma Kd_in p : In p Kd -> mem (pname p) (names_of K) = true.
Proof. intros H. apply in_K_names. apply filter_In in H. tauto. Qed.

Lemma sel_L : filter (fun p => mem (pname p) (names_of K)) L = Kn ++ Kd.
Proof.
  unfold L. rewrite !filter_app.
  rewrite (filter_none _ P1 P1_out), (filter_all _ Kn Kn_in), (filter_none _ P2 P2_out), (filter_all _ Kd Kd_in).
  reflexivity.
Qed.

Lemma nsel_L : filter (fun p => negb (mem (pname p) (names_of K))) L = P1 ++ P2.
Proof.
  unfold L. rewrite !filter_app.
  rewrite (filter_all _ P1) by (intros p Hp; rewrite (P1_out p Hp); reflexivity).
  rewrite (filter_none _ Kn) by (intros p Hp; rewrite (Kn_in p Hp); reflexivity).
  rewrite (filter_all _ P2) by (intros p Hp; rewrite (P2_out p Hp); reflexivity).
  rewrite (filter_none _ Kd) by (intros p Hp; rewrite (Kd_in p Hp); reflexivity).
  rewrite !app_nil_r. reflexivity.
Qed.

Lemma g_P A : all_kind PK A -> map g A = map (strip oa) A.
Proof. intros HA. apply map_ext_in. intros p Hp. unfold g. apply strip_setPK_PK. exact (HA p Hp). Qed.

Lemma g_K A : all_kind KO A -> map (set_kind KO) (map g A) = map (strip oa) A.
Proof.
  intros HA. rewrite map_map. apply map_ext_in. intros p Hp. unfold g. apply strip_setPK_KO. exact (HA p Hp).
Qed.

Lemma decorate_kwos ps0 (kw : list name) : kw <> [] ->
  MM.decorate ps0 (MM.FExplicit [] kw) = (do r <- MM.prepare ps0 [] kw ;; Ok (fst r, snd r, [])).
Proof. destruct kw; [congruence|reflexivity]. Qed.

Lemma kwo_decorate :
  exists kp po, MM.decorate (map (strip oa) ((X1 ++ X2) ++ V ++ W)) (MM.FExplicit [] (names_of K))
                = Ok (map (strip oa) sorted_ps, kp, po).
Proof.
  destruct (names_of K) as [|n l] eqn:EK.
  - assert (K0 : K = []) by (destruct K; [reflexivity|discriminate]).
    rewrite decorate_none. exists [], []. f_equal. f_equal. f_equal.
    unfold sorted_ps, X1, X2, Kn, Kd. rewrite K0. cbn [filter]. rewrite !app_nil_r. cbn [app].
    rewrite <- map_app. f_equal. f_equal.
    rewrite <- (map_id (P1 ++ P2)) at 2. apply map_ext_in. intros p Hp. apply set_kind_same. exact (HP p Hp).
  - rewrite decorate_kwos by discriminate. rewrite <- EK.
    rewrite !map_app. rewrite <- map_app. rewrite Y_form.
    destruct (prepare_kwo (names_of K) (map g L) (map (strip oa) V) (map (strip oa) W)) as [kp E].
    + intros p Hp. apply in_map_iff in Hp. destruct Hp as [q [<- _]]. reflexivity.
    + apply all_kind_strip. exact HV.
    + apply all_kind_strip. exact HW.
    + rewrite map_length. exact HlV.
    + rewrite map_length. exact HlW.
    + intros p Hp. rewrite <- map_app in Hp. apply in_map_iff in Hp. destruct Hp as [q [<- Hq]].
      change (pname (strip oa q)) with (pname q). apply notin_K_names.
      apply in_or_app. right. exact Hq.
    + intros y Hy.
      rewrite (filter_map_name g (fun n0 => mem n0 (names_of K)) L) by reflexivity.
      rewrite sel_L. rewrite (names_of_map_same g) by reflexivity.
      apply mem_In'. apply mem_In' in Hy.
      unfold names_of. apply (Permutation_in _ (Permutation_map pname (Permutation_sym (ko_split_perm K)))).
      exact Hy.
    + rewrite (filter_map_name g (fun n0 => negb (mem n0 (names_of K))) L) by reflexivity.
      rewrite (filter_map_name g (fun n0 => mem n0 (names_of K)) L) by reflexivity.
      rewrite sel_L, nsel_L. rewrite (g_P _ HP), (g_K _ (all_kind_app _ _ _ HKn HKd)).
      rewrite <- !map_app. unfold validate. rewrite validate_aux_strip.
      exact (valid_sig_validate _ valid_sorted).
    + rewrite E. cbn [Base.bind fst snd].
      rewrite (filter_map_name g (fun n0 => negb (mem n0 (names_of K))) L) by reflexivity.
      rewrite (filter_map_name g (fun n0 => mem n0 (names_of K)) L) by reflexivity.
      rewrite sel_L, nsel_L. rewrite (g_P _ HP), (g_K _ (all_kind_app _ _ _ HKn HKd)).
      rewrite <- !map_app. eexists. eexists. reflexivity.
Qed.

End KwoAssembly.

(* ================================================================ part 10 *)
Lemma sorted_ps_ko P1 P2 V K W :
  all_kind PK (P1 ++ P2) -> all_kind VP V -> all_kind KO K -> all_kind VK W ->
  ko_sorted ((P1 ++ P2) ++ V ++ K ++ W) = sorted_ps P1 P2 V K W.
Proof.
  intros HP HV HK HW. rewrite (ko_sorted_shape (P1 ++ P2) V K W HP HV HK HW).
  unfold sorted_ps. rewrite <- !app_assoc. reflexivity.
Qed.

Lemma sorted_ps_perm P1 P2 V K W : Permutation (sorted_ps P1 P2 V K W) ((P1 ++ P2) ++ V ++ K ++ W).
Proof.
  unfold sorted_ps. apply Permutation_app_head. apply Permutation_app_head. apply Permutation_app_tail.
  apply ko_split_perm.
Qed.

(* C20 round trip, use_modifiers_kwoargs (with or without the other two
   options), every signature without positional-only parameters: the signature
   comes back with the keyword-only parameters regrouped (those without a
   default first) *)
Theorem roundtrip_kwoargs ps ret oa op :
  wf_sig ps = true -> has_kind PO ps = false ->
  code_sig (func_code (read_sig (print_sig ps) oa op true) ret oa) = Some (ko_sorted ps, ret).
Proof.
  intros Hwf Hnopo. destruct (wf_sig_parts ps Hwf) as [Hv [He Hsn]].
  pose proof (valid_sig_nodup ps Hv) as ND.
  destruct (valid_sig_shape ps Hv) as (O & P & V & K & W & E & HO & HP & HV & HK & HW & HlV & HlW).
  assert (EO : O = []) by (rewrite E in Hnopo; exact (nopo_O _ _ HO Hnopo)).
  subst O. cbn [app] in E.
  destruct (validate_parts ps (valid_sig_validate ps Hv)) as [_ [Hdefs _]].
  rewrite E in Hdefs.
  destruct (defs_split P (V ++ K ++ W) HP Hdefs) as (P1 & P2 & EP & H1 & H2).
  subst P.
  assert (HVd : forall v, In v V -> pdef v = None).
  { intros v Hv0. apply (star_nodef_vp ps v Hsn); [|left; exact (HV v Hv0)].
    rewrite E. apply in_or_app. right. apply in_or_app. left. exact Hv0. }
  assert (HWd : forall w, In w W -> pdef w = None).
  { intros w Hw0. apply (star_nodef_vp ps w Hsn); [|right; exact (HW w Hw0)].
    rewrite E. apply in_or_app. right. apply in_or_app. right. apply in_or_app. right. exact Hw0. }
  assert (ND' : NoDup (names_of ((P1 ++ P2) ++ V ++ K ++ W))) by (rewrite <- E; exact ND).
  rewrite read_sig_print.
  assert (Etok : print_from ps None = toks [] (P1 ++ P2) V K W).
  { rewrite E. apply (print_from_shape [] (P1 ++ P2) V K W); assumption. }
  rewrite Etok.
  rewrite (read_sig_kwo oa op P1 P2 V K W HP HV HK HW HlV HlW H1 H2 HVd).
  rewrite <- E.
  unfold code_sig.
  rewrite (kwo_def_sig oa P1 P2 V K W HP HV HK HW HlV HlW H1 H2 HVd HWd ND').
  assert (Hpo : forall names an pl, fc_poso (func_code (mkRSig names an [] (names_of K) pl) ret oa) = [])
    by reflexivity.
  assert (Hkw : forall names an pl, fc_kwo (func_code (mkRSig names an [] (names_of K) pl) ret oa) = names_of K)
    by reflexivity.
  rewrite Hpo, Hkw.
  destruct (kwo_decorate oa P1 P2 V K W HP HV HK HW HlV HlW H1 H2 ND') as (kp & po & Edec).
  rewrite Edec.
  replace (ko_sorted ps) with (sorted_ps P1 P2 V K W)
    by (rewrite E; symmetry; apply sorted_ps_ko; assumption).
  pose proof (sorted_ps_perm P1 P2 V K W) as Hperm. rewrite <- E in Hperm.
  apply (finish_annotate ps (sorted_ps P1 P2 V K W) _ _ [] (names_of K) _ ret oa ND He).
  - intros q Hq. exact (Permutation_in q Hperm Hq).
  - intros x Hx. unfold names_of in *.
    exact (Permutation_in x (Permutation_map pname (Permutation_sym Hperm)) Hx).
  - reflexivity.
Qed.

(* ================================================================ part 11 *)
(* (2) all modifiers spellings, signatures without positional-only parameters *)
Theorem roundtrip_modifiers_all ps ret oa op ok :
  wf_sig ps = true -> has_kind PO ps = false ->
  code_sig (func_code (read_sig (print_sig ps) oa op ok) ret oa)
  = Some ((if ok then ko_sorted ps else ps), ret).
Proof.
  intros Hwf Hn. destruct ok.
  - apply roundtrip_kwoargs; assumption.
  - apply roundtrip_native_code_sig; [exact Hwf|left; exact Hn].
Qed.

(* what "up to the order of keyword-only parameters" means *)
Theorem ko_sorted_spec ps : valid_sig ps = true -> has_kind PO ps = false ->
  Permutation (ko_sorted ps) ps
  /\ filter (fun p => negb (is_kind KO p)) (ko_sorted ps) = filter (fun p => negb (is_kind KO p)) ps
  /\ filter (is_kind KO) (ko_sorted ps) = filter ko_nodef ps ++ filter ko_def ps.
Proof.
  intros Hv Hn.
  destruct (valid_sig_shape ps Hv) as (O & P & V & K & W & E & HO & HP & HV & HK & HW & HlV & HlW).
  assert (EO : O = []) by (rewrite E in Hn; exact (nopo_O _ _ HO Hn)). subst O. cbn [app] in E. subst ps.
  rewrite (ko_sorted_shape P V K W HP HV HK HW).
  assert (HKn : all_kind KO (filter nodef_p K)) by (intros p Hp; apply filter_In in Hp; apply HK; tauto).
  assert (HKd : all_kind KO (filter has_def K)) by (intros p Hp; apply filter_In in Hp; apply HK; tauto).
  split; [|split].
  - apply Permutation_app_head. apply Permutation_app_head. rewrite app_assoc.
    apply Permutation_app_tail. apply ko_split_perm.
  - rewrite !filter_app.
    set (f := fun p => negb (is_kind KO p)).
    rewrite (filter_kind_none KO _ f HKn) by (intros p Ep; unfold f; rewrite (is_kind_of KO KO p Ep); reflexivity).
    rewrite (filter_kind_none KO _ f HKd) by (intros p Ep; unfold f; rewrite (is_kind_of KO KO p Ep); reflexivity).
    rewrite (filter_kind_none KO K f HK) by (intros p Ep; unfold f; rewrite (is_kind_of KO KO p Ep); reflexivity).
    reflexivity.
  - rewrite !filter_app.
    rewrite (filter_kind_none PK P (is_kind KO) HP) by (intros p Ep; rewrite (is_kind_of PK KO p Ep); reflexivity).
    rewrite (filter_kind_none VP V (is_kind KO) HV) by (intros p Ep; rewrite (is_kind_of VP KO p Ep); reflexivity).
    rewrite (filter_kind_none VK W (is_kind KO) HW) by (intros p Ep; rewrite (is_kind_of VK KO p Ep); reflexivity).
    rewrite (filter_kind_all KO _ (is_kind KO) HKn) by (intros p Ep; rewrite (is_kind_of KO KO p Ep); reflexivity).
    rewrite (filter_kind_all KO _ (is_kind KO) HKd) by (intros p Ep; rewrite (is_kind_of KO KO p Ep); reflexivity).
    rewrite (filter_kind_none PK P ko_nodef HP) by (intros p Ep; unfold ko_nodef; rewrite (is_kind_of PK KO p Ep); reflexivity).
    rewrite (filter_kind_none VP V ko_nodef HV) by (intros p Ep; unfold ko_nodef; rewrite (is_kind_of VP KO p Ep); reflexivity).
    rewrite (filter_kind_none VK W ko_nodef HW) by (intros p Ep; unfold ko_nodef; rewrite (is_kind_of VK KO p Ep); reflexivity).
    rewrite (filter_kind_none PK P ko_def HP) by (intros p Ep; unfold ko_def; rewrite (is_kind_of PK KO p Ep); reflexivity).
    rewrite (filter_kind_none VP V ko_def HV) by (intros p Ep; unfold ko_def; rewrite (is_kind_of VP KO p Ep); reflexivity).
    rewrite (filter_kind_none VK W ko_def HW) by (intros p Ep; unfold ko_def; rewrite (is_kind_of VK KO p Ep); reflexivity).
    assert (E1 : filter ko_nodef K = filter nodef_p K).
    { apply filter_ext_in''. intros p Hp. unfold ko_nodef, nodef_p. rewrite (is_kind_of KO KO p (HK p Hp)). reflexivity. }
    assert (E2 : filter ko_def K = filter has_def K).
    { apply filter_ext_in''. intros p Hp. unfold ko_def. rewrite (is_kind_of KO KO p (HK p Hp)). reflexivity. }
    rewrite E1, E2. cbn [app]. rewrite !app_nil_r. reflexivity.
Qed.

(* ------------------------------------------------ hypotheses that are needed *)
(* a star parameter with a default (inspect refuses to build one) *)
Theorem roundtrip_star_default_refuted :
  exists ps, valid_sig ps = true /\ eager ps = true /\ roundtrip_native ps None = false.
Proof. exists [mkParam 9 VP (Some 1) None UEmpty]. vm_compute. auto. Qed.

(* an annotation whose upgraded form is not the eagerly evaluated object (a
   postponed annotation, or a hand-built parameter): the def gives the
   evaluated one *)
Theorem roundtrip_not_eager_refuted :
  exists ps, valid_sig ps = true /\ star_nodef ps = true /\ roundtrip_native ps None = false.
Proof. exists [mkParam 1 PK None (Some 5) (UPost 5 100)]. vm_compute. auto. Qed.

(* use_modifiers_kwoargs with positional-only parameters: the def that
   read_sig builds is not accepted (the statement excludes these signatures) *)
Theorem roundtrip_kwoargs_po_refuted :
  exists ps, wf_sig ps = true /\
    code_sig (func_code (read_sig (print_sig ps) false false true) None false) = None /\
  exists ps', wf_sig ps' = true /\
    code_sig (func_code (read_sig (print_sig ps') false true true) None false) = None.
Proof.
  exists [pp 1 PO (Some 1) None; pp 2 KO None None]. split; [vm_compute; reflexivity|].
  split; [vm_compute; reflexivity|].
  exists [pp 1 PO None None; pp 2 KO (Some 2) None; pp 3 KO None None].
  split; vm_compute; reflexivity.
Qed.

(* the hypotheses are satisfiable on a signature with every kind, defaults and
   annotations, and the keyword-only order really changes *)
Example wf_sig_example :
  let ps := [pp 1 PK None None; pp 2 PK (Some 1) (Some 5); pp 9 VP None (Some 6);
             pp 3 KO (Some 2) None; pp 4 KO None (Some 7); pp 5 KO (Some 3) None;
             pp 6 KO None None; pp 10 VK None (Some 8)] in
  wf_sig ps = true /\ has_kind PO ps = false /\
  ko_sorted ps = [pp 1 PK None None; pp 2 PK (Some 1) (Some 5); pp 9 VP None (Some 6);
                  pp 4 KO None (Some 7); pp 6 KO None None; pp 3 KO (Some 2) None;
                  pp 5 KO (Some 3) None; pp 10 VK None (Some 8)].
Proof. vm_compute. auto. Qed.

Example wf_sig_example_po :
  wf_sig [pp 1 PO None (Some 5); pp 2 PO (Some 1) None; pp 7 PK (Some 1) None;
          pp 3 KO (Some 2) None; pp 4 KO None (Some 7)] = true.
Proof. vm_compute. reflexivity. Qed.

(* ================================================================ part 12 *)
(* beyond the statement: use_modifiers_posoargs for signatures WITH
   positional-only parameters (no use_modifiers_kwoargs) *)
Lemma seg_O_op oa ok O i st : all_kind PO O -> r_found_star st = false ->
  exists D, rs_loop oa true ok i (map tk O ++ sl O) st
  = mkRS (r_names st ++ names_of O) (add_anns oa O (r_anns st))
         (r_poso st ++ match O with [] => [] | _ => r_names st ++ names_of O end) (r_kwo st)
         (r_params st ++ map (item oa) O) false (r_varargs st) (r_varkwargs st) (r_chevron st) D.
Proof.
  intros HO Hf.
  destruct O as [|o O].
  - cbn [map sl app rs_loop names_of add_anns fold_left]. rewrite !app_nil_r.
    destruct st as [nm an po kw pr fs va vk ch df]. cbn [r_found_star] in Hf. subst fs.
    eexists. reflexivity.
  - rewrite rs_loop_app.
    assert (HA : all_pos (o :: O)) by (intros p Hp; left; exact (HO p Hp)).
    rewrite (seg_pos oa true ok (o :: O) i st HA Hf).
    cbn [sl rs_loop]. rewrite step_slash_op.
    cbn [r_names r_anns r_poso r_kwo r_params r_found_star r_varargs r_varkwargs r_chevron r_default].
    eexists. reflexivity.
Qed.

Definition poso_params (oa : bool) (O P V K W : list param) : list ptok :=
  map (item oa) O ++ map (item oa) P ++ map (item oa) V ++ stp false V K
  ++ map (item oa) K ++ map (item oa) W.

Lemma read_sig_poso oa O P V K W :
  all_kind PO O -> all_kind PK P -> all_kind VP V -> all_kind KO K -> all_kind VK W ->
  (length V <= 1)%nat -> (length W <= 1)%nat ->
  read_sig (toks O P V K W) oa true false
  = mkRSig (names_of O ++ names_of P ++ names_of K ++ names_of V ++ names_of W)
           (add_anns oa (O ++ P ++ V ++ K ++ W) []) (names_of O) []
           (poso_params oa O P V K W).
Proof.
  intros HO HP HV HK HW HlV HlW. unfold read_sig, toks.
  assert (E : map tk O ++ sl O ++ map tk P ++ map tk V ++ st_ V K ++ map tk K ++ map tk W
              = (map tk O ++ sl O) ++ map tk P ++ (map tk V ++ st_ V K) ++ map tk K ++ map tk W)
    by (rewrite <- !app_assoc; reflexivity).
  rewrite E. clear E.
  rewrite rs_loop_app.
  destruct (seg_O_op oa false O 0 rs_init HO eq_refl) as [D1 E1]. rewrite E1. clear E1.
  cbn [rs_init r_names r_anns r_poso r_kwo r_params r_varargs r_varkwargs r_chevron app].
  assert (Epo : match O with [] => [] | _ :: _ => names_of O end = names_of O) by (destruct O; reflexivity).
  rewrite Epo.
  rewrite rs_loop_app.
  assert (HPp : all_pos P) by (intros p Hp; right; exact (HP p Hp)).
  match goal with |- context [rs_loop oa true false ?i (map tk P) ?s] =>
    rewrite (seg_pos oa true false P i s HPp eq_refl) end.
  cbn [r_names r_anns r_poso r_kwo r_params r_found_star r_varargs r_varkwargs r_chevron r_default].
  rewrite rs_loop_app.
  match goal with |- context [rs_loop oa true false ?i (map tk V ++ st_ V K) ?s] =>
    destruct (seg_VS oa true false V K i s HV HlV eq_refl) as [D2 E2]; rewrite E2; clear E2 end.
  cbn [r_names r_anns r_poso r_kwo r_params r_found_star r_varargs r_varkwargs r_chevron r_default orb].
  rewrite rs_loop_app.
  match goal with |- context [rs_loop oa true false ?i (map tk K) ?s] =>
    destruct (seg_K oa true K i s HK) as [D3 E3];
      [destruct K; [left; reflexivity|right; cbn [r_found_star nonempty]; apply orb_true_r]|];
      rewrite E3; clear E3 end.
  cbn [r_names r_anns r_poso r_kwo r_params r_found_star r_varargs r_varkwargs r_chevron r_default].
  match goal with |- context [rs_loop oa true false ?i (map tk W) ?s] =>
    destruct (seg_W oa true false W i s HW HlW eq_refl) as [D4 E4]; rewrite E4; clear E4 end.
  cbn [r_names r_anns r_poso r_kwo r_params r_found_star r_varargs r_varkwargs r_chevron r_default].
  unfold poso_params. rewrite !add_anns_app. rewrite <- !app_assoc.
  f_equal.
  destruct V as [|v [|v2 V]]; cbn [length] in HlV; try lia;
  destruct W as [|w [|w2 W]]; cbn [length] in HlW; try lia;
  cbn [optname opt_list_name names_of map app]; rewrite ?app_nil_r; reflexivity.
Qed.

Section PreparePoso.
Variable posos : list name.

Definition rem_po (A : list param) (tu : list name) : list name :=
  fold_left (fun t p => MM.set_remove (pname p) t) A tu.

Lemma mem_rem_po A : forall tu y,
  mem y (rem_po A tu) = mem y tu && negb (mem y (names_of A)).
Proof.
  unfold rem_po. induction A as [|p A IH]; intros tu y; cbn [fold_left names_of map mem].
  - rewrite andb_true_r. reflexivity.
  - rewrite IH, mem_set_remove'. fold (names_of A). rewrite (N.eqb_sym y (pname p)).
    destruct (N.eqb (pname p) y), (mem y tu), (mem y (names_of A)); reflexivity.
Qed.

(* the selected parameters: all regular, all named in posos, before any other
   regular parameter *)
Lemma prep_po A : forall i st, all_kind PK A ->
  (forall p, In p A -> mem (pname p) posos = true) -> MM.st_found_pok st = false ->
  MM.prep_loop posos [] A i st
  = Ok (MM.mkPS (MM.st_params st ++ map (set_kind PO) A) (MM.st_kwoparams st) (MM.st_kwopos st)
                false (MM.st_found_kws st) (rem_po A (MM.st_to_use st))).
Proof.
  induction A as [|p A IH]; intros i st HA Hin Hf.
  - cbn [MM.prep_loop map rem_po fold_left]. rewrite app_nil_r. destruct st. cbn in Hf. subst. reflexivity.
  - cbn [MM.prep_loop]. unfold MM.prep_step. rewrite (HA p (or_introl eq_refl)).
    rewrite (Hin p (or_introl eq_refl)), Hf. cbn [Base.bind].
    rewrite IH; [|exact (all_kind_tail _ _ _ HA)|intros q Hq; apply Hin; right; exact Hq|reflexivity].
    cbn [MM.st_params MM.st_kwoparams MM.st_kwopos MM.st_found_kws MM.st_to_use map rem_po fold_left].
    rewrite <- app_assoc. reflexivity.
Qed.

(* everything else is kept as it is *)
Lemma prep_rest R : forall i st,
  (forall p, In p R -> mem (pname p) posos = false) ->
  (forall y, mem y (MM.st_to_use st) = false) -> MM.st_kwoparams st = [] ->
  exists KP FP FK, MM.prep_loop posos [] R i st
  = Ok (MM.mkPS (MM.st_params st ++ R) [] KP FP FK (MM.st_to_use st)).
Proof.
  induction R as [|p R IH]; intros i st Hout Htu Hkw.
  - cbn [MM.prep_loop]. rewrite app_nil_r. destruct st. cbn in Hkw. subst. eexists. eexists. eexists. reflexivity.
  - cbn [MM.prep_loop]. unfold MM.prep_step. rewrite (Hout p (or_introl eq_refl)). cbn [mem].
    rewrite (Htu (pname p)). rewrite Hkw.
    destruct (pkind p) eqn:K; cbn [Base.bind kind_eqb kind_rank Nat.eqb];
      (match goal with |- context [MM.prep_loop posos [] R (S i) ?s] =>
         destruct (IH (S i) s) as (KP & FP & FK & E);
           [intros q Hq; apply Hout; right; exact Hq|exact Htu|reflexivity|] end);
      rewrite E; cbn [MM.st_params MM.st_to_use]; rewrite ?app_nil_r, <- ?app_assoc;
      eexists; eexists; eexists; reflexivity.
Qed.

Lemma prepare_poso Y R :
  Y <> [] -> all_kind PK Y -> (forall p, In p Y -> mem (pname p) posos = true) ->
  (forall p, In p R -> mem (pname p) posos = false) ->
  (forall y, mem y posos = true -> mem y (names_of Y) = true) ->
  validate (map (set_kind PO) Y ++ R) = true ->
  exists kp, MM.prepare (Y ++ R) posos [] = Ok (map (set_kind PO) Y ++ R, kp).
Proof.
  intros Hne HY Hin Hout Hall Hval. unfold MM.prepare.
  assert (Hi : MM.set_inter posos [] = []).
  { unfold MM.set_inter. apply filter_none. intros x _. reflexivity. }
  rewrite Hi. cbn [MM.is_nil negb].
  rewrite (prep_loop_app' [] posos Y R 0).
  rewrite (prep_po Y 0 (MM.mkPS [] [] [] false false (posos ++ [])) HY Hin eq_refl).
  cbn [Base.bind MM.st_params MM.st_kwoparams MM.st_kwopos MM.st_found_kws MM.st_to_use app].
  assert (Htu : forall y, mem y (rem_po Y (posos ++ [])) = false).
  { intros y. rewrite mem_rem_po, app_nil_r. destruct (mem y posos) eqn:E; [|reflexivity].
    rewrite (Hall y E). reflexivity. }
  match goal with |- context [MM.prep_loop posos [] R ?i ?s] =>
    destruct (prep_rest R i s Hout Htu eq_refl) as (KP & FP & FK & E) end.
  rewrite E. cbn [Base.bind MM.st_found_kws MM.st_params MM.st_kwoparams MM.st_to_use MM.st_kwopos].
  rewrite (is_nil_mem _ Htu). cbn [negb]. rewrite app_nil_r.
  destruct FK; rewrite Hval; eexists; reflexivity.
Qed.

End PreparePoso.

Lemma defs_ok_map (f : param -> param) A : forall R sd,
  (forall p, In p A -> is_positional (f p) = is_positional p /\ has_def (f p) = has_def p) ->
  defs_ok (map f A ++ R) sd = defs_ok (A ++ R) sd.
Proof.
  induction A as [|p A IH]; intros R sd H; [reflexivity|]. cbn [map app defs_ok].
  destruct (H p (or_introl eq_refl)) as [E1 E2]. rewrite E1, E2.
  rewrite IH by (intros q Hq; apply H; right; exact Hq). reflexivity.
Qed.

Lemma strip_setPK_PO oa o : pkind o = PO -> set_kind PO (strip oa (set_kind PK o)) = strip oa o.
Proof. intros H. destruct o as [n kk d a u]. cbn in *. subst kk. destruct oa; destruct a; reflexivity. Qed.

Lemma decorate_posos ps0 (po : list name) : po <> [] ->
  MM.decorate ps0 (MM.FExplicit po []) = (do r <- MM.prepare ps0 po [] ;; Ok (fst r, snd r, po)).
Proof. destruct po; [congruence|reflexivity]. Qed.

Theorem roundtrip_posoargs ps ret oa :
  wf_sig ps = true ->
  code_sig (func_code (read_sig (print_sig ps) oa true false) ret oa) = Some (ps, ret).
Proof.
  intros Hwf. destruct (wf_sig_parts ps Hwf) as [Hv [He Hsn]].
  pose proof (valid_sig_nodup ps Hv) as ND.
  destruct (valid_sig_shape ps Hv) as (O & P & V & K & W & E & HO & HP & HV & HK & HW & HlV & HlW).
  destruct (validate_parts ps (valid_sig_validate ps Hv)) as [_ [Hdefs _]].
  set (X := map (set_kind PK) O ++ P).
  assert (HX : all_kind PK X) by (apply all_kind_app; [apply all_kind_setPK|exact HP]).
  assert (HplO : forall p, In p O -> plain p) by (intros p Hp; apply plain_kind; left; exact (HO p Hp)).
  (* the def list *)
  assert (Edl : poso_params oa O P V K W = native_params oa [] X V K W).
  { unfold poso_params, native_params, X. cbn [map slp app].
    rewrite (map_app (item oa) (map (set_kind PK) O)), (map_item_setPK oa O HplO).
    rewrite <- app_assoc. reflexivity. }
  (* its validity *)
  assert (HdX : defs_ok (X ++ V ++ K ++ W) false = true).
  { unfold X. rewrite <- app_assoc. rewrite defs_ok_map; [rewrite <- E; exact Hdefs|].
    intros p Hp. unfold is_positional. cbn [pkind set_kind]. rewrite (HO p Hp). split; reflexivity. }
  destruct (defs_split X (V ++ K ++ W) HX HdX) as (X1 & X2 & EX & HX1 & HX2).
  assert (NDX : NoDup (names_of ((X1 ++ X2) ++ V ++ K ++ W))).
  { rewrite <- EX. unfold X. rewrite <- app_assoc.
    rewrite names_of_app, (names_of_map_same (set_kind PK)) by reflexivity.
    rewrite <- names_of_app, <- E. exact ND. }
  assert (HvX : valid_sig (X ++ V ++ K ++ W) = true).
  { rewrite EX. rewrite EX in HX. apply valid_sig_build; try assumption.
    intros p Hp. unfold has_def. rewrite (HX1 p Hp). reflexivity. }
  assert (HsnX : star_nodef ([] ++ X ++ V ++ K ++ W) = true).
  { cbn [app]. rewrite star_nodef_app, (star_nodef_pk X HX). cbn [andb].
    rewrite E in Hsn. rewrite !star_nodef_app in Hsn. rewrite !star_nodef_app.
    apply andb_true_iff in Hsn. destruct Hsn as [_ Hsn]. apply andb_true_iff in Hsn. destruct Hsn as [_ Hsn].
    exact Hsn. }
  rewrite read_sig_print. rewrite E at 1.
  rewrite (print_from_shape O P V K W HO HP HV HK HW HlV HlW).
  rewrite (read_sig_poso oa O P V K W HO HP HV HK HW HlV HlW).
  rewrite <- E. rewrite Edl.
  unfold code_sig.
  assert (Hd : forall names an po kw,
            def_sig (func_code (mkRSig names an po kw (native_params oa [] X V K W)) ret oa)
            = Some (map (strip oa) (X ++ V ++ K ++ W))).
  { intros names an po kw. unfold def_sig, func_code. cbn [fc_params rs_params].
    rewrite (def_params_native oa [] X V K W) by (try assumption; intros p []).
    cbn [app]. rewrite valid_sig_strip, HvX. reflexivity. }
  rewrite Hd.
  assert (Hpo : forall names an pl, fc_poso (func_code (mkRSig names an (names_of O) [] pl) ret oa) = names_of O)
    by reflexivity.
  assert (Hkw : forall names an pl, fc_kwo (func_code (mkRSig names an (names_of O) [] pl) ret oa) = [])
    by reflexivity.
  rewrite Hpo, Hkw.
  assert (Edec : exists kp po, MM.decorate (map (strip oa) (X ++ V ++ K ++ W)) (MM.FExplicit (names_of O) [])
                               = Ok (map (strip oa) ps, kp, po)).
  { assert (EY : map (strip oa) (X ++ V ++ K ++ W)
                 = map (strip oa) (map (set_kind PK) O) ++ map (strip oa) (P ++ V ++ K ++ W)).
    { unfold X. rewrite <- app_assoc, map_app. reflexivity. }
    assert (ER : map (set_kind PO) (map (strip oa) (map (set_kind PK) O)) ++ map (strip oa) (P ++ V ++ K ++ W)
                 = map (strip oa) ps).
    { rewrite E, (map_app (strip oa) O). f_equal. rewrite !map_map. apply map_ext_in.
      intros q Hq. apply strip_setPK_PO. exact (HO q Hq). }
    destruct (names_of O) as [|n l] eqn:EN.
    - assert (O0 : O = []) by (destruct O; [reflexivity|discriminate]).
      rewrite decorate_none. rewrite EY, <- ER. rewrite O0. cbn [map app].
      eexists. eexists. reflexivity.
    - rewrite decorate_posos by discriminate. rewrite <- EN. rewrite EY.
      destruct (prepare_poso (names_of O) (map (strip oa) (map (set_kind PK) O))
                             (map (strip oa) (P ++ V ++ K ++ W))) as [kp Ep].
      + destruct O; [discriminate|]. cbn [map]. discriminate.
      + apply all_kind_strip. apply all_kind_setPK.
      + intros q Hq. rewrite map_map in Hq. apply in_map_iff in Hq. destruct Hq as [q0 [<- Hq0]].
        change (pname (strip oa (set_kind PK q0))) with (pname q0).
        apply mem_In'. apply in_map. exact Hq0.
      + intros q Hq. apply in_map_iff in Hq. destruct Hq as [q0 [<- Hq0]].
        change (pname (strip oa q0)) with (pname q0). apply mem_false_notin. intros Hin.
        rewrite E, names_of_app in ND.
        apply (NoDup_app_disj _ _ (pname q0) ND Hin). apply in_map. exact Hq0.
      + intros y Hy. rewrite map_map. rewrite (names_of_map_same (fun x => strip oa (set_kind PK x))) by reflexivity.
        exact Hy.
      + rewrite ER. unfold validate. rewrite validate_aux_strip. exact (valid_sig_validate ps Hv).
      + rewrite Ep. cbn [Base.bind fst snd]. rewrite ER. eexists. eexists. reflexivity. }
  destruct Edec as (kp & po & Edec). rewrite Edec.
  apply (finish_annotate ps ps _ _ (names_of O) [] _ ret oa ND He (incl_refl ps)); [auto|reflexivity].
Qed.

(* every spelling without use_modifiers_kwoargs, ALL signatures *)
Theorem roundtrip_all_without_kwoargs ps ret oa op :
  wf_sig ps = true ->
  code_sig (func_code (read_sig (print_sig ps) oa op false) ret oa) = Some (ps, ret).
Proof.
  intros Hwf. destruct op.
  - apply roundtrip_posoargs. exact Hwf.
  - apply roundtrip_native_code_sig; [exact Hwf|right; reflexivity].
Qed.

Print Assumptions roundtrip_native_all.
Print Assumptions roundtrip_native_code_sig.
Print Assumptions roundtrip_all_without_kwoargs.
Print Assumptions roundtrip_kwoargs.
Print Assumptions roundtrip_modifiers_all.
Print Assumptions ko_sorted_spec.
Print Assumptions roundtrip_star_default_refuted.
Print Assumptions roundtrip_not_eager_refuted.
Print Assumptions roundtrip_kwoargs_po_refuted.
