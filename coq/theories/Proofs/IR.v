(* Proofs about the IR of Model/IR.v.

   Part 1: lemmas for ALL programs, states, oracles and fuel (no bound):
           what `with` and `try/finally` guarantee in this semantics, and
           fuel monotonicity (a run that terminated keeps its answer with more fuel).
   Part 2: the finite-domain checkers behind C16 and their soundness: a
           `forallb ... = true` over the explicitly enumerated domain implies the
           forall-statement whose domain is written in the theorem.  The
           checkers take the program as a parameter; Props/C16.v instantiates
           them with the term regenerated from the Python source. *)
From Coq Require Import List NArith Bool Arith Lia.
Import ListNotations.
From Sigtools Require Import Model.IR.

(* ================================================================== Part 1 *)
Section Generic.
Variable p : program.
Variable orc : oracle.

Definition st_of (r : outcome * env * state) : state := snd r.
Definition out_of (r : outcome * env * state) : outcome := fst (fst r).
Definition env_of (r : outcome * env * state) : env := snd (fst r).

(* `with`: once __enter__ has returned, __exit__ is called whatever the body
   does (falls through, returns, raises) -- unless the body does not terminate *)
Lemma with_always_exits :
  forall f em body en st vm o ob st1 v2 st2,
    eval p orc f em en st = (EV vm, st1) ->
    as_obj vm = Some o ->
    alist_get o (heap st1) = Some ob ->
    call_method p orc f (ocls ob) M_enter [vm] st1 = (EV v2, st2) ->
    is_stuck (out_of (exec p orc f body en st2)) = false ->
    st_of (exec p orc (S f) (SWith em body) en st)
    = snd (call_method p orc f (ocls ob) M_exit [vm; VS VNone] (st_of (exec p orc f body en st2))).
Proof.
  intros f em body en st vm o ob st1 v2 st2 Hev Hobj Hget Henter Hns.
  simpl exec. rewrite Hev, Hobj, Hget, Henter.
  unfold st_of, out_of in *.
  destruct (exec p orc f body en st2) as [[o3 en3] st3]. cbn [fst snd] in *.
  destruct o3; cbn in Hns; try discriminate;
    destruct (call_method p orc f (ocls ob) M_exit [vm; VS VNone] st3) as [[rv | x | w] st4];
    cbn [snd]; try reflexivity.
  destruct (truthy rv); reflexivity.
Qed.

(* `with`: if __enter__ raises, the body is not run and __exit__ is not called:
   the state is the one __enter__ left behind *)
Lemma with_enter_raises :
  forall f em body en st vm o ob st1 x st2,
    eval p orc f em en st = (EV vm, st1) ->
    as_obj vm = Some o ->
    alist_get o (heap st1) = Some ob ->
    call_method p orc f (ocls ob) M_enter [vm] st1 = (EX x, st2) ->
    exec p orc (S f) (SWith em body) en st = (ORaise x, en, st2).
Proof.
  intros f em body en st vm o ob st1 x st2 Hev Hobj Hget Henter.
  simpl exec. rewrite Hev, Hobj, Hget, Henter. reflexivity.
Qed.

(* the part of try/except/else that runs before the finaliser *)
Definition try_head (f : nat) (body : stmt) (hs : list (list N * stmt)) (orelse : stmt)
           (en : env) (st : state) : outcome * env * state :=
  match exec p orc f body en st with
  | (ORaise e, en1, st1) =>
    match find_handler e hs with
    | Some h =>
      match exec p orc f h (alist_set EXC_VAR (VS (VOpq e)) en1) st1 with
      | (o2, en2, st2) => (o2, restore_exc (alist_get EXC_VAR en1) en2, st2)
      end
    | None => (ORaise e, en1, st1)
    end
  | (ONorm, en1, st1) => exec p orc f orelse en1 st1
  | r => r
  end.

(* try/finally: the finaliser runs on every terminating path, from the state
   the protected part reached, and the statement ends in the state the
   finaliser produces *)
Lemma try_finally_always_runs :
  forall f body hs orelse fin en st,
    is_stuck (out_of (try_head f body hs orelse en st)) = false ->
    st_of (exec p orc (S f) (STry body hs orelse fin) en st)
    = st_of (exec p orc f fin (env_of (try_head f body hs orelse en st))
                  (st_of (try_head f body hs orelse en st))).
Proof.
  intros f body hs orelse fin en st Hns.
  simpl exec. fold (try_head f body hs orelse en st).
  unfold st_of, out_of, env_of in *.
  destruct (try_head f body hs orelse en st) as [[o1 en1] st1]. cbn [fst snd] in *.
  destruct o1; cbn in Hns; try discriminate;
    destruct (exec p orc f fin en1 st1) as [[o2 en2] st2]; destruct o2; reflexivity.
Qed.

(* ... and its outcome is the protected part's unless the finaliser itself
   raises or returns *)
Lemma try_finally_outcome :
  forall f body hs orelse fin en st,
    is_stuck (out_of (try_head f body hs orelse en st)) = false ->
    out_of (exec p orc f fin (env_of (try_head f body hs orelse en st))
                 (st_of (try_head f body hs orelse en st))) = ONorm ->
    out_of (exec p orc (S f) (STry body hs orelse fin) en st)
    = out_of (try_head f body hs orelse en st).
Proof.
  intros f body hs orelse fin en st Hns Hfin.
  simpl exec. fold (try_head f body hs orelse en st).
  unfold st_of, out_of, env_of in *.
  destruct (try_head f body hs orelse en st) as [[o1 en1] st1]. cbn [fst snd] in *.
  destruct o1; cbn in Hns; try discriminate;
    destruct (exec p orc f fin en1 st1) as [[o2 en2] st2]; cbn [fst] in Hfin; subst o2; reflexivity.
Qed.

End Generic.

(* ================================================================== Part 2 *)
(* ---- glue, generic in the lists (never rewrite with forallb_forall on a closed domain) *)
Lemma forallb_in {A} (f : A -> bool) (l : list A) :
  forallb f l = true -> forall x, In x l -> f x = true.
Proof. intros H x Hx. rewrite forallb_forall in H. apply H. exact Hx. Qed.

Definition forallb3 {A B C} (f : A -> B -> C -> bool) (la : list A) (lb : list B) (lc : list C) : bool :=
  forallb (fun a => forallb (fun b => forallb (fun c => f a b c) lc) lb) la.

Lemma forallb3_in {A B C} (f : A -> B -> C -> bool) la lb lc :
  forallb3 f la lb lc = true ->
  forall a b c, In a la -> In b lb -> In c lc -> f a b c = true.
Proof.
  unfold forallb3. intros H a b c Ha Hb Hc.
  pose proof (forallb_in _ _ H a Ha) as H1. cbv beta in H1.
  pose proof (forallb_in _ _ H1 b Hb) as H2. cbv beta in H2.
  exact (forallb_in _ _ H2 c Hc).
Qed.

Definition forallb4 {A B C D} (f : A -> B -> C -> D -> bool) la lb lc ld : bool :=
  forallb (fun a => forallb3 (f a) lb lc ld) la.

Lemma forallb4_in {A B C D} (f : A -> B -> C -> D -> bool) la lb lc ld :
  forallb4 f la lb lc ld = true ->
  forall a b c d, In a la -> In b lb -> In c lc -> In d ld -> f a b c d = true.
Proof.
  unfold forallb4. intros H a b c d Ha Hb Hc Hd.
  pose proof (forallb_in _ _ H a Ha) as H1. cbv beta in H1.
  exact (forallb3_in _ _ _ _ H1 b c d Hb Hc Hd).
Qed.

(* ---- small enumeration lemmas *)
Lemma all_slotcfg_complete : forall s, In s all_slotcfg.
Proof. destruct s; cbn; auto 10. Qed.

Lemma all_config_complete : forall c, In c all_config.
Proof.
  intros [w s]. unfold all_config. apply in_flat_map. exists w. split.
  - apply all_slotcfg_complete.
  - apply in_map. apply all_slotcfg_complete.
Qed.

Fixpoint all_bools (n : nat) : list (list bool) :=
  match n with
  | O => [[]]
  | S n' => flat_map (fun l => [true :: l; false :: l]) (all_bools n')
  end.

Lemma all_bools_complete : forall n l, length l = n -> In l (all_bools n).
Proof.
  induction n as [|n IH]; intros l Hl.
  - destruct l; [cbn; auto | discriminate].
  - destruct l as [|b l]; [discriminate|]. cbn in Hl. injection Hl as Hl.
    cbn [all_bools]. apply in_flat_map. exists l. split; [apply IH; exact Hl|].
    destruct b; cbn; auto.
Qed.

(* exception classes a crash point may raise *)
Inductive exn_choice := ExAttributeError | ExOther.
Definition exn_id (e : exn_choice) : N :=
  match e with ExAttributeError => X_AttributeError | ExOther => X_Other end.
Definition all_exn : list exn_choice := [ExAttributeError; ExOther].
Lemma all_exn_complete : forall e, In e all_exn.
Proof. destruct e; cbn; auto. Qed.

(* crash points: none, or the k-th call leaving sigtools raises e, k < K *)
Inductive call_crash := CCNone | CCAt (k : nat) (e : exn_choice).
Definition crash_of_cc (c : call_crash) : crash :=
  match c with CCNone => NoCrash | CCAt k e => CallCrash k (exn_id e) end.
Definition cc_in (K : nat) (c : call_crash) : Prop :=
  match c with CCNone => True | CCAt k _ => k < K end.
Definition all_cc (K : nat) : list call_crash :=
  CCNone :: flat_map (fun k => map (CCAt k) all_exn) (seq 0 K).
Lemma all_cc_complete : forall K c, cc_in K c -> In c (all_cc K).
Proof.
  intros K [|k e] H; unfold all_cc; [left; reflexivity|]. apply in_cons.
  apply in_flat_map. exists k. split.
  - apply in_seq. cbn in H. lia.
  - apply in_map. apply all_exn_complete.
Qed.

(* getter crash points: the k-th attribute read on the inspected object raises e, k < G *)
Definition all_gc (G : nat) : list (nat * exn_choice) :=
  flat_map (fun k => map (fun e => (k, e)) all_exn) (seq 0 G).
Lemma all_gc_complete : forall G k e, k < G -> In (k, e) (all_gc G).
Proof.
  intros G k e H. unfold all_gc. apply in_flat_map. exists k. split.
  - apply in_seq. lia.
  - apply in_map with (f := fun e => (k, e)). apply all_exn_complete.
Qed.

Definition mk_oracle (cr : crash) (rets : list bool) (cbs : list callback) : oracle :=
  {| ocrash := cr; orets := rets; ocbs := cbs |}.

(* ---- autoforwards_function: attributes restored on every path.
   All glue below is generic in the fuel n and in the program p: with a concrete
   fuel the kernel would unfold the interpreter on open terms. *)
Definition NCALLS_AFF : nat := 4.   (* bound on the calls leaving sigtools in one run; checked *)

Definition run_ok (c : config) (K : nat) (r : eres * state) : bool :=
  negb (eres_stuck (fst r)) && user_restored c (snd r) && guard_empty (snd r)
  && Nat.leb (ncalls (snd r)) K.

Definition run_holds (c : config) (K : nat) (r : eres * state) : Prop :=
  eres_stuck (fst r) = false            (* the run terminates (returns or raises) *)
  /\ user_restored c (snd r) = true     (* every attribute of the inspected object as before *)
  /\ guard_empty (snd r) = true         (* recursion guard empty *)
  /\ ncalls (snd r) <= K.               (* no more than K outside calls happened: k < K covers all *)

Lemma run_ok_holds : forall c K r, run_ok c K r = true -> run_holds c K r.
Proof.
  intros c K r H. unfold run_ok in H.
  apply andb_true_iff in H. destruct H as [H H4].
  apply andb_true_iff in H. destruct H as [H H3].
  apply andb_true_iff in H. destruct H as [H H1].
  apply andb_true_iff in H1 || idtac.
  repeat split; auto.
  - apply negb_true_iff in H. exact H.
  - apply Nat.leb_le. exact H4.
Qed.

Definition aff_check (n : nat) (p : program) : bool :=
  forallb3 (fun c cc rets => run_ok c NCALLS_AFF (run_aff n p c (mk_oracle (crash_of_cc cc) rets [])))
           all_config (all_cc NCALLS_AFF) (all_bools NCALLS_AFF).

Lemma aff_check_sound :
  forall n p, aff_check n p = true ->
  forall (c : config) (cc : call_crash) (rets : list bool),
    cc_in NCALLS_AFF cc -> length rets = NCALLS_AFF ->
    run_holds c NCALLS_AFF (run_aff n p c (mk_oracle (crash_of_cc cc) rets [])).
Proof.
  intros n p H c cc rets Hcc Hr. apply run_ok_holds.
  unfold aff_check in H.
  pose proof (forallb3_in _ _ _ _ H c cc rets (all_config_complete c)
                          (all_cc_complete _ _ Hcc) (all_bools_complete _ _ Hr)) as H1.
  cbv beta in H1. exact H1.
Qed.

(* ---- getter crashes (attribute getters are outside code as well) *)
Definition NGETS_AFF : nat := 3.     (* attribute reads on the inspected object in one run, plus one *)

Definition deletable (s : slotcfg) : bool := match s with Inst | Both | OwnDesc => true | _ => false end.

(* the class of crash points excluded from the partial theorem: the read of the
   SECOND attribute of `attrs` raises something other than AttributeError while
   the first attribute is an instance attribute (already deleted by then) *)
Definition enter_crash_class (c : config) (k : nat) (e : exn_choice) : bool :=
  deletable (c_wrapped c) && Nat.eqb k 1 && match e with ExOther => true | _ => false end.

Definition run_get_ok (c : config) (r : eres * state) : bool :=
  negb (eres_stuck (fst r)) && user_restored c (snd r) && guard_empty (snd r).

Definition run_get_holds (c : config) (r : eres * state) : Prop :=
  eres_stuck (fst r) = false /\ user_restored c (snd r) = true /\ guard_empty (snd r) = true.

Lemma run_get_ok_holds : forall c r, run_get_ok c r = true -> run_get_holds c r.
Proof.
  intros c r H. unfold run_get_ok in H.
  apply andb_true_iff in H. destruct H as [H H3].
  apply andb_true_iff in H. destruct H as [H1 H2].
  repeat split; auto. apply negb_true_iff in H1. exact H1.
Qed.

Definition aff_getter_check (n : nat) (p : program) : bool :=
  forallb3 (fun c (ke : nat * exn_choice) rets =>
              enter_crash_class c (fst ke) (snd ke)
              || run_get_ok c (run_aff n p c (mk_oracle (GetCrash (fst ke) (exn_id (snd ke))) rets [])))
           all_config (all_gc NGETS_AFF) (all_bools NCALLS_AFF).

Lemma aff_getter_check_sound :
  forall n p, aff_getter_check n p = true ->
  forall (c : config) (k : nat) (e : exn_choice) (rets : list bool),
    k < NGETS_AFF -> length rets = NCALLS_AFF ->
    enter_crash_class c k e = false ->
    run_get_holds c (run_aff n p c (mk_oracle (GetCrash k (exn_id e)) rets [])).
Proof.
  intros n p H c k e rets Hk Hr Hex. apply run_get_ok_holds.
  unfold aff_getter_check in H.
  pose proof (forallb3_in _ _ _ _ H c (k, e) rets (all_config_complete c)
                          (all_gc_complete _ _ e Hk) (all_bools_complete _ _ Hr)) as H1.
  cbv beta in H1. cbn [fst snd] in H1. rewrite Hex in H1. exact H1.
Qed.

(* the full statement: no excluded class (holds since sigtools e783c8b) *)
Definition aff_getter_full_check (n : nat) (p : program) : bool :=
  forallb3 (fun c (ke : nat * exn_choice) rets =>
              run_get_ok c (run_aff n p c (mk_oracle (GetCrash (fst ke) (exn_id (snd ke))) rets [])))
           all_config (all_gc NGETS_AFF) (all_bools NCALLS_AFF).

Lemma aff_getter_full_check_sound :
  forall n p, aff_getter_full_check n p = true ->
  forall (c : config) (k : nat) (e : exn_choice) (rets : list bool),
    k < NGETS_AFF -> length rets = NCALLS_AFF ->
    run_get_holds c (run_aff n p c (mk_oracle (GetCrash k (exn_id e)) rets [])).
Proof.
  intros n p H c k e rets Hk Hr. apply run_get_ok_holds.
  unfold aff_getter_full_check in H.
  pose proof (forallb3_in _ _ _ _ H c (k, e) rets (all_config_complete c)
                          (all_gc_complete _ _ e Hk) (all_bools_complete _ _ Hr)) as H1.
  cbv beta in H1. cbn [fst snd] in H1. exact H1.
Qed.

(* the crash points on which the attributes are NOT restored (evaluated by the
   harness on the regenerated term on every run and replayed on the real code;
   empty once the code is repaired) *)
Definition aff_getter_counterexamples (n : nat) (p : program) : list (N * N * nat * N) :=
  flat_map (fun c =>
    flat_map (fun ke : nat * exn_choice =>
      if run_get_ok c (run_aff n p c (mk_oracle (GetCrash (fst ke) (exn_id (snd ke))) [] []))
      then []
      else [(match c_wrapped c with Absent => 0 | Inst => 1 | ClassLevel => 2 | Both => 3 | OwnDesc => 4 end,
             match c_signature c with Absent => 0 | Inst => 1 | ClassLevel => 2 | Both => 3 | OwnDesc => 4 end,
             fst ke, exn_id (snd ke))%N])
      (all_gc NGETS_AFF))
    all_config.

(* no run reads more attributes of the inspected object than NGETS_AFF - 1:
   k < NGETS_AFF covers every getter crossing *)
Definition aff_gets_check (n : nat) (p : program) : bool :=
  forallb3 (fun c cc rets => Nat.ltb (ngets (snd (run_aff n p c (mk_oracle (crash_of_cc cc) rets [])))) NGETS_AFF)
           all_config (all_cc NCALLS_AFF) (all_bools NCALLS_AFF).

Lemma aff_gets_check_sound :
  forall n p, aff_gets_check n p = true ->
  forall (c : config) (cc : call_crash) (rets : list bool),
    cc_in NCALLS_AFF cc -> length rets = NCALLS_AFF ->
    ngets (snd (run_aff n p c (mk_oracle (crash_of_cc cc) rets []))) < NGETS_AFF.
Proof.
  intros n p H c cc rets Hcc Hr. apply Nat.ltb_lt.
  unfold aff_gets_check in H.
  pose proof (forallb3_in _ _ _ _ H c cc rets (all_config_complete c)
                          (all_cc_complete _ _ Hcc) (all_bools_complete _ _ Hr)) as H1.
  cbv beta in H1. exact H1.
Qed.

(* ---- _AsForged.__get__: the recursion guard is empty afterwards, including
   when the outside call re-enters __get__ (same object: guard hit; another
   object or the class: nested computation) *)
Definition NCALLS_GET : nat := 4.
Definition NCB : nat := 3.          (* nesting depth of re-entrant calls explored *)

Inductive cb_choice := CbNone | CbSame | CbOther | CbClass.
Definition all_cb : list cb_choice := [CbNone; CbSame; CbOther; CbClass].
Lemma all_cb_complete : forall c, In c all_cb.
Proof. destruct c; cbn; auto. Qed.

Definition cb_of (c : cb_choice) : callback :=
  match c with
  | CbNone => CBNone
  | CbSame => CBMethod C_asforged M_get [VS (VObj O_desc); VS (VObj O_user); VS (VObj O_owner)]
  | CbOther => CBMethod C_asforged M_get [VS (VObj O_desc); VS (VObj O_user2); VS (VObj O_owner)]
  | CbClass => CBMethod C_asforged M_get [VS (VObj O_desc); VS VNone; VS (VObj O_owner)]
  end.

Fixpoint all_cbs (n : nat) : list (list cb_choice) :=
  match n with
  | O => [[]]
  | S n' => flat_map (fun l => map (fun c => c :: l) all_cb) (all_cbs n')
  end.

Lemma all_cbs_complete : forall n l, length l = n -> In l (all_cbs n).
Proof.
  induction n as [|n IH]; intros l Hl.
  - destruct l; [cbn; auto | discriminate].
  - destruct l as [|b l]; [discriminate|]. cbn in Hl. injection Hl as Hl.
    cbn [all_cbs]. apply in_flat_map. exists l. split; [apply IH; exact Hl|].
    apply in_map with (f := fun c => c :: l). apply all_cb_complete.
Qed.

Definition default_config : config := {| c_wrapped := Inst; c_signature := ClassLevel |}.

Definition both_bools : list bool := [true; false].
Lemma both_bools_complete : forall b, In b both_bools.
Proof. destruct b; cbn; auto. Qed.

Definition get_check (n : nat) (p : program) : bool :=
  forallb4 (fun (on_class : bool) cc cbs (ret : bool) =>
              run_ok default_config NCALLS_GET
                     (run_get n p default_config
                              (mk_oracle (crash_of_cc cc) (repeat ret NCALLS_GET) (map cb_of cbs)) on_class))
           both_bools (all_cc NCALLS_GET) (all_cbs NCB) both_bools.

Lemma get_check_sound :
  forall n p, get_check n p = true ->
  forall (on_class : bool) (cc : call_crash) (cbs : list cb_choice) (ret : bool),
    cc_in NCALLS_GET cc -> length cbs = NCB ->
    run_holds default_config NCALLS_GET
              (run_get n p default_config
                       (mk_oracle (crash_of_cc cc) (repeat ret NCALLS_GET) (map cb_of cbs)) on_class).
Proof.
  intros n p H on_class cc cbs ret Hcc Hcb. apply run_ok_holds.
  unfold get_check in H.
  pose proof (forallb4_in _ _ _ _ _ H on_class cc cbs ret (both_bools_complete on_class)
                          (all_cc_complete _ _ Hcc) (all_cbs_complete _ _ Hcb) (both_bools_complete ret)) as H1.
  cbv beta in H1. exact H1.
Qed.

(* ---- the hypotheses are satisfiable / the domains are not empty *)
Example cc_in_example : cc_in NCALLS_AFF (CCAt 2 ExOther) /\ length [true; false; true; true] = NCALLS_AFF.
Proof. split; [unfold cc_in, NCALLS_AFF; lia | reflexivity]. Qed.

Example getter_domain_example :
  2 < NGETS_AFF /\ enter_crash_class {| c_wrapped := Inst; c_signature := ClassLevel |} 0 ExOther = false
  /\ enter_crash_class {| c_wrapped := Inst; c_signature := ClassLevel |} 1 ExOther = true.
Proof. repeat split. unfold NGETS_AFF. lia. Qed.

Example get_domain_example : cc_in NCALLS_GET (CCAt 1 ExAttributeError) /\ length [CbSame; CbOther; CbNone] = NCB.
Proof. split; [unfold cc_in, NCALLS_GET; lia | reflexivity]. Qed.

(* ================================================================== Legacy records
   The two defects of this mechanism that were repaired in sigtools (8791458 and
   e783c8b), refuted on PINNED copies of the IR of __enter__ as it was before
   each repair (the live term is regenerated; these do not change with it). *)
Definition pinned_exit : list N * stmt :=
  ([101; 107],
   SForItems 105 108 (EAttr (EVar 101) 104) (SSetAttrDyn (EAttr (EVar 101) 103) (EVar 105) (EVar 108)))%N.
Definition pinned_init : list N * stmt := ([101; 102], SSetAttr (EVar 101) 103 (EVar 102))%N.
Definition pinned_aff : list N * stmt :=
  ([102; 109; 110],
   SSeq (SWith (ENew C_cleanup [EVar 102]) (SAssign 111 (ECallExt 112 [EVar 102])))
        (SReturn (EVar 111)))%N.
Definition pinned_probe : stmt :=
  (STry (SExpr (EAttr (EVar 101) 104)) [([X_AttributeError], SSkip)] (SRaise X_NotImplementedError) SSkip)%N.

(* sigtools as of commit 8791458, BEFORE e783c8b: value recorded only after delattr
   succeeded, but no protection of the loop itself *)
Definition pinned_enter_8791458 : list N * stmt :=
  ([101],
   SSeq pinned_probe
   (SSeq (SSetAttr (EVar 101) 104 ENewDict)
   (SFor 105 (EAttr (EVar 101) 100)
     (STry (SSeq (SAssign 106 (EGetAttr (EAttr (EVar 101) 103) (EVar 105)))
                 (SDelAttrDyn (EAttr (EVar 101) 103) (EVar 105)))
           [([X_AttributeError], SSkip)]
           (SSetItem (EVar 101) 104 (EVar 105) (EVar 106)) SSkip))))%N.

(* before 8791458: self.saved_attrs[attr] = getattr(self.func, attr); delattr(...) *)
Definition pinned_enter_before : list N * stmt :=
  ([101],
   SSeq pinned_probe
   (SSeq (SSetAttr (EVar 101) 104 ENewDict)
   (SFor 105 (EAttr (EVar 101) 100)
     (STry (SSeq (SSetItem (EVar 101) 104 (EVar 105) (EGetAttr (EAttr (EVar 101) 103) (EVar 105)))
                 (SDelAttrDyn (EAttr (EVar 101) 103) (EVar 105)))
           [([X_AttributeError], SSkip)] SSkip SSkip))))%N.

Definition pinned_prog (enter : list N * stmt) : program :=
  {| methods := [((C_cleanup, M_init), pinned_init); ((C_cleanup, M_enter), enter);
                 ((C_cleanup, M_exit), pinned_exit); ((C_module, F_autoforwards_function), pinned_aff)];
     cattrs := [(C_cleanup, [(100%N, VList [VStr A_wrapped; VStr A_signature])])] |}.

(* defect #6 of DESIGN.md (repaired by 8791458): a class-level __signature__ was
   copied into the instance __dict__, with no crash at all *)
Lemma class_level_copied_before_8791458 :
  exists c, user_restored c (snd (run_aff FUEL (pinned_prog pinned_enter_before) c (mk_oracle NoCrash [] []))) = false.
Proof. exists {| c_wrapped := Absent; c_signature := ClassLevel |}. vm_compute. reflexivity. Qed.

(* the crash in the middle of __enter__ (8791458 .. before e783c8b): the getter of
   __signature__ raises a non-AttributeError after __wrapped__ was deleted;
   __exit__ is never called, __wrapped__ is lost *)
Lemma enter_crash_loses_attribute_before_e783c8b :
  exists c k, enter_crash_class c k ExOther = true /\
    user_restored c (snd (run_aff FUEL (pinned_prog pinned_enter_8791458) c
                                  (mk_oracle (GetCrash k X_Other) [] []))) = false.
Proof. exists {| c_wrapped := Inst; c_signature := ClassLevel |}, 1. vm_compute. split; reflexivity. Qed.
