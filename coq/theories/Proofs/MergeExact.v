(* MergeExact.v -- C09_exact for ALL signatures: for valid, name-aligned,
   role-consistent a and b,
     merge [a; b] = Ok r   ->  r accepts exactly the non-colliding calls both a and b accept,
     merge [a; b] = Err e  ->  e = IncompatibleSignatures and no call is accepted by both.

   The semantic half (MergeExactSem.v) says which relation [MR] between the operands'
   and the result's parameters forces exactness.  Here every stage of the merger is
   walked once more with a "context" invariant: whatever [MR]-related result the
   not-yet-consumed positional parameters will produce, prefixing the output built so
   far gives an [MR]-related result for the whole signatures.  A second walk reads the
   failing step off an error. *)
From Sigtools.Model Require Import Base Bind Roles Algebra.
From Sigtools.Proofs Require Import SmallModel Basics MaskLaws MaskExact MergeNeutral MergeNeutralL MergeIdem Annot ValidateSpec
  RcValid FoldLaw RcValidN MergeExactSem.
From Coq Require Import Lia Permutation.

(* ================================================================== *)
(* 1. demotion: the flush to positional-only changes kinds of earlier output *)

Definition dem1 (x y : param) : Prop :=
  pname y = pname x /\ has_def y = has_def x /\ (ispk y = true -> ispk x = true).
Definition dem (xs ys : list param) : Prop := Forall2 dem1 xs ys.

Lemma dem_refl xs : dem xs xs.
Proof. induction xs; constructor; auto. unfold dem1. auto. Qed.

Lemma dem_trans xs ys zs : dem xs ys -> dem ys zs -> dem xs zs.
Proof.
  intros H. revert zs. induction H as [|x y xs ys Hxy _ IH]; intros zs Hz; inversion Hz; subst; constructor.
  - destruct Hxy as (A & B & C). destruct H1 as (A' & B' & C'). unfold dem1. repeat split; try congruence. auto.
  - apply IH. assumption.
Qed.

Lemma dem_app xs ys xs' ys' : dem xs ys -> dem xs' ys' -> dem (xs ++ xs') (ys ++ ys').
Proof. apply Forall2_app. Qed.

Lemma dem_PO xs : dem xs (map (set_kind PO) xs).
Proof. induction xs; cbn; constructor; auto. unfold dem1, ispk, is_kind. cbn. repeat split; auto. discriminate. Qed.

Lemma dem1_PO x : dem1 x (set_kind PO x).
Proof. unfold dem1, ispk, is_kind. cbn. repeat split; auto. discriminate. Qed.

Lemma dem_snoc_inv xs c O : dem (xs ++ [c]) O -> exists O1 c', O = O1 ++ [c'] /\ dem xs O1 /\ dem1 c c'.
Proof.
  intros H. apply Forall2_app_inv_l in H. destruct H as (O1 & O2 & H1 & H2 & E).
  inversion H2 as [|? c' ? ? Hc H3]; subst. inversion H3; subst. exists O1, c'. auto.
Qed.

(* ================================================================== *)
(* 2. the context invariant, abstractly                                *)

Section Ctx.
Variables (KA KB : list param) (vaA vkA vaB vkB : bool) (PA PB : list param).
Notation MRc := (MR KA KB vaA vkA vaB vkB).

(* outs: output built so far; cv: unbalanced parameters converted to keyword-only so far *)
Definition xi (outs cv ra rb : list param) : Prop :=
  forall O X KRf, dem outs O -> MRc ra rb X KRf -> MRc PA PB (O ++ X) (cv ++ KRf).

Lemma xi_pair outs cv a ra b rb c outs' :
  xi outs cv (a :: ra) (b :: rb) -> dem (outs ++ [c]) outs' ->
  pname b = pname a -> pname c = pname a -> ispk b = ispk a -> (ispk c = true -> ispk a = true) ->
  has_def c = has_def a && has_def b ->
  ~ In (pname a) (names_of (ra ++ KA)) -> ~ In (pname a) (names_of (rb ++ KB)) ->
  xi outs' cv ra rb.
Proof.
  intros H HD Eb Ec Epk Hpk Hd Fa Fb O X KRf HO HM.
  pose proof (dem_trans _ _ _ HD HO) as HO'. apply dem_snoc_inv in HO'. destruct HO' as (O1 & c' & -> & H1 & (N1 & D1 & P1)).
  rewrite <- app_assoc. cbn [app]. apply H; [exact H1|].
  apply mr_pair'; auto; try congruence; intros Pc; apply Hpk; apply P1; exact Pc.
Qed.

Lemma xi_keepL outs cv a ra c outs' :
  xi outs cv (a :: ra) [] -> dem (outs ++ [c]) outs' -> vaB = true ->
  pname c = pname a -> has_def c = has_def a -> (ispk c = true -> ispk a = true /\ vkB = true) ->
  ~ In (pname a) (names_of (ra ++ KA)) -> ~ In (pname a) (names_of KB) ->
  xi outs' cv ra [].
Proof.
  intros H HD Hva Ec Hd Hpk Fa Fb O X KRf HO HM.
  pose proof (dem_trans _ _ _ HD HO) as HO'. apply dem_snoc_inv in HO'. destruct HO' as (O1 & c' & -> & H1 & (N1 & D1 & P1)).
  rewrite <- app_assoc. cbn [app]. apply H; [exact H1|].
  apply mr_keep'; auto; try congruence.
Qed.

Lemma xi_keepR outs cv b rb c outs' :
  xi outs cv [] (b :: rb) -> dem (outs ++ [c]) outs' -> vaA = true ->
  pname c = pname b -> has_def c = has_def b -> (ispk c = true -> ispk b = true /\ vkA = true) ->
  ~ In (pname b) (names_of (rb ++ KB)) -> ~ In (pname b) (names_of KA) ->
  xi outs' cv [] rb.
Proof.
  intros H HD Hva Ec Hd Hpk Fb Fa O X KRf HO HM.
  pose proof (dem_trans _ _ _ HD HO) as HO'. apply dem_snoc_inv in HO'. destruct HO' as (O1 & c' & -> & H1 & (N1 & D1 & P1)).
  rewrite <- app_assoc. cbn [app]. apply H; [exact H1|].
  apply mr_keepR'; auto; try congruence.
Qed.

Lemma xi_dropL outs cv a ra :
  xi outs cv (a :: ra) [] -> vaB = false -> has_def a = true ->
  ~ In (pname a) (names_of (ra ++ KA)) -> ~ In (pname a) (names_of KB) ->
  xi outs cv ra [].
Proof. intros H Hva Hd Fa Fb O X KRf HO HM. apply H; [exact HO|]. apply mr_drop'; auto. Qed.

Lemma xi_dropR outs cv b rb :
  xi outs cv [] (b :: rb) -> vaA = false -> has_def b = true ->
  ~ In (pname b) (names_of (rb ++ KB)) -> ~ In (pname b) (names_of KA) ->
  xi outs cv [] rb.
Proof. intros H Hva Hd Fb Fa O X KRf HO HM. apply H; [exact HO|]. apply mr_dropR'; auto. Qed.

Lemma xi_convL outs cv a q ra :
  xi outs cv (a :: ra) [] -> vaB = false -> vkB = true -> ispk a = true ->
  pname q = pname a -> has_def q = has_def a ->
  ~ In (pname a) (names_of (ra ++ KA)) -> ~ In (pname a) (names_of KB) ->
  xi outs (cv ++ [q]) ra [].
Proof.
  intros H Hva Hvk Hpk Eq Hd Fa Fb O X KRf HO HM. rewrite <- app_assoc. cbn [app].
  apply H; [exact HO|]. apply mr_conv'; auto.
Qed.

Lemma xi_convR outs cv b q rb :
  xi outs cv [] (b :: rb) -> vaA = false -> vkA = true -> ispk b = true ->
  pname q = pname b -> has_def q = has_def b ->
  ~ In (pname b) (names_of (rb ++ KB)) -> ~ In (pname b) (names_of KA) ->
  xi outs (cv ++ [q]) [] rb.
Proof.
  intros H Hva Hvk Hpk Eq Hd Fb Fa O X KRf HO HM. rewrite <- app_assoc. cbn [app].
  apply H; [exact HO|]. apply mr_convR'; auto.
Qed.
End Ctx.

(* ================================================================== *)
(* 3. the context invariant on merger states                           *)

Ltac prj1 :=
  unfold pn, pd, kn, outs, names_of;
  cbn [m_pos m_pok m_kwo set_pos set_pok set_kwo set_src add_src1 add_src2 excl_va excl_vk set_unm].

Section XWalk.
Variables l r : sorted.
Let PA := posargs l ++ pokargs l.
Let PB := posargs r ++ pokargs r.
Let KA := kwoargs l.
Let KB := kwoargs r.
Let vaA := isSome (varargs l).
Let vkA := isSome (varkwargs l).
Let vaB := isSome (varargs r).
Let vkB := isSome (varkwargs r).
Hypothesis HKl : kinds_ok l.
Hypothesis HKr : kinds_ok r.
Hypothesis HNl : NoDup (names_of (flatten l)).
Hypothesis HNr : NoDup (names_of (flatten r)).
Hypothesis HR1 : forall p q, In p (flatten l) -> In q (flatten r) -> pname p = pname q -> pkind p = pkind q.

Definition XI (st : mstate) (ra rb : list param) : Prop :=
  exists cv, Forall (fun q => In (pname q) (names_of (PA ++ PB))) cv /\
             m_kwo st = m_kwo (st2 l r) ++ cv /\
             xi KA KB vaA vkA vaB vkB PA PB (outs st) cv ra rb /\
             aligned_lists ra rb = true.

(* ---- static facts ---- *)
Lemma al_head a ra b rb : aligned_lists (a :: ra) (b :: rb) = true -> pname b = pname a /\ aligned_lists ra rb = true.
Proof. cbn [aligned_lists]. intros H. apply andb_true_iff in H. destruct H as [H1 H2]. apply N.eqb_eq in H1. auto. Qed.

Lemma al_nil_r ra : aligned_lists ra [] = true.
Proof. destruct ra; reflexivity. Qed.

Lemma ispk_of_kind p q : pkind p = pkind q -> ispk p = ispk q.
Proof. unfold ispk, is_kind. intros ->. reflexivity. Qed.

Lemma kind_eq a b : In a PA -> In b PB -> pname b = pname a -> ispk b = ispk a.
Proof.
  intros Ha Hb E. destruct (in_PA l HKl a Ha) as [Fa _]. destruct (in_PA r HKr b Hb) as [Fb _].
  symmetry. apply ispk_of_kind. apply HR1; auto.
Qed.

Lemma notin_app_names x (P K : list param) :
  ~ In x (names_of P) -> ~ In x (names_of K) -> ~ In x (names_of (P ++ K)).
Proof. intros H1 H2 H. unfold names_of in H. rewrite map_app in H. apply in_app_or in H. tauto. Qed.

Lemma sep_l a : In a PA -> ~ In (pname a) (names_of KA).
Proof.
  intros Ha H. apply in_map_iff in H. destruct H as [q [E Hq]].
  destruct (in_PA l HKl a Ha) as [Fa Ka]. destruct (in_kwo_l l HKl q Hq) as [Fq Kq].
  apply (flat_sep l a q HNl Fa Fq); [rewrite Kq; destruct Ka as [-> | ->]; discriminate|congruence].
Qed.
Lemma sep_r b : In b PB -> ~ In (pname b) (names_of KB).
Proof.
  intros Hb H. apply in_map_iff in H. destruct H as [q [E Hq]].
  destruct (in_PA r HKr b Hb) as [Fb Kb]. destruct (in_kwo_l r HKr q Hq) as [Fq Kq].
  apply (flat_sep r b q HNr Fb Fq); [rewrite Kq; destruct Kb as [-> | ->]; discriminate|congruence].
Qed.
Lemma cross_l a : In a PA -> ~ In (pname a) (names_of KB).
Proof.
  intros Ha H. apply in_map_iff in H. destruct H as [q [E Hq]].
  destruct (in_PA l HKl a Ha) as [Fa Ka]. destruct (in_kwo_l r HKr q Hq) as [Fq Kq].
  pose proof (HR1 a q Fa Fq (eq_sym E)) as X. rewrite Kq in X. destruct Ka; congruence.
Qed.
Lemma cross_r b : In b PB -> ~ In (pname b) (names_of KA).
Proof.
  intros Hb H. apply in_map_iff in H. destruct H as [q [E Hq]].
  destruct (in_PA r HKr b Hb) as [Fb Kb]. destruct (in_kwo_l l HKl q Hq) as [Fq Kq].
  pose proof (HR1 q b Fq Fb E) as X. rewrite Kq in X. destruct Kb; congruence.
Qed.

Lemma fresh_l st a ra rb : AI l r st (a :: ra) rb -> ~ In (pname a) (names_of (ra ++ KA)).
Proof.
  intros []. cbn [names_of map] in a_ndl. inversion a_ndl; subst.
  apply notin_app_names; [assumption|]. apply sep_l. apply a_inl. left. reflexivity.
Qed.
Lemma fresh_r st ra b rb : AI l r st ra (b :: rb) -> ~ In (pname b) (names_of (rb ++ KB)).
Proof.
  intros []. cbn [names_of map] in a_ndr. inversion a_ndr; subst.
  apply notin_app_names; [assumption|]. apply sep_r. apply a_inr. left. reflexivity.
Qed.
Lemma kwo_fresh_l st a ra rb : AI l r st (a :: ra) rb -> ~ In (pname a) (names_of (m_kwo st)).
Proof. intros [] H. destruct (a_rem (pname a) (or_intror H)) as [X _]. apply X. left. reflexivity. Qed.
Lemma kwo_fresh_r st ra b rb : AI l r st ra (b :: rb) -> ~ In (pname b) (names_of (m_kwo st)).
Proof. intros [] H. destruct (a_rem (pname b) (or_intror H)) as [_ X]. apply X. left. reflexivity. Qed.
Lemma head_in_l st a ra rb : AI l r st (a :: ra) rb -> In a PA.
Proof. intros []. apply a_inl. left. reflexivity. Qed.
Lemma head_in_r st ra b rb : AI l r st ra (b :: rb) -> In b PB.
Proof. intros []. apply a_inr. left. reflexivity. Qed.

(* ---- a pair of heads, output named after either (the names are equal) ---- *)
Lemma XI_pair st st' a ra b rb c :
  AI l r st (a :: ra) (b :: rb) -> XI st (a :: ra) (b :: rb) ->
  dem (outs st ++ [c]) (outs st') -> m_kwo st' = m_kwo st ->
  (pname c = pname a \/ pname c = pname b) -> (ispk c = ispk a \/ ispk c = ispk b) ->
  has_def c = has_def a && has_def b ->
  XI st' ra rb.
Proof.
  intros HA [cv [Hcv [Ek [Hx Hal]]]] HD Ek' Nc Pc Dc. destruct (al_head _ _ _ _ Hal) as [Eb Hal'].
  pose proof (kind_eq a b (head_in_l _ _ _ _ HA) (head_in_r _ _ _ _ HA) Eb) as Epk.
  exists cv. split; [exact Hcv|]. split; [congruence|]. split; [|exact Hal'].
  eapply xi_pair; [exact Hx|exact HD|exact Eb| |exact Epk| |exact Dc|exact (fresh_l _ _ _ _ HA)|].
  - destruct Nc; congruence.
  - intros X. destruct Pc; congruence.
  - rewrite <- Eb. exact (fresh_r _ _ _ _ HA).
Qed.

Lemma XI_keepL st st' a ra c :
  AI l r st (a :: ra) [] -> XI st (a :: ra) [] ->
  dem (outs st ++ [c]) (outs st') -> m_kwo st' = m_kwo st -> vaB = true ->
  pname c = pname a -> has_def c = has_def a -> (ispk c = true -> ispk a = true /\ vkB = true) ->
  XI st' ra [].
Proof.
  intros HA [cv [Hcv [Ek [Hx Hal]]]] HD Ek' Hv Nc Dc Pc. exists cv. split; [exact Hcv|]. split; [congruence|]. split; [|apply al_nil_r].
  eapply xi_keepL; [exact Hx|exact HD|exact Hv|exact Nc|exact Dc|exact Pc|exact (fresh_l _ _ _ _ HA)|].
  apply cross_l. exact (head_in_l _ _ _ _ HA).
Qed.

Lemma XI_keepR st st' b rb c :
  AI l r st [] (b :: rb) -> XI st [] (b :: rb) ->
  dem (outs st ++ [c]) (outs st') -> m_kwo st' = m_kwo st -> vaA = true ->
  pname c = pname b -> has_def c = has_def b -> (ispk c = true -> ispk b = true /\ vkA = true) ->
  XI st' [] rb.
Proof.
  intros HA [cv [Hcv [Ek [Hx Hal]]]] HD Ek' Hv Nc Dc Pc. exists cv. split; [exact Hcv|]. split; [congruence|]. split; [|reflexivity].
  eapply xi_keepR; [exact Hx|exact HD|exact Hv|exact Nc|exact Dc|exact Pc|exact (fresh_r _ _ _ _ HA)|].
  apply cross_r. exact (head_in_r _ _ _ _ HA).
Qed.

Lemma XI_dropL st st' a ra :
  AI l r st (a :: ra) [] -> XI st (a :: ra) [] -> outs st' = outs st -> m_kwo st' = m_kwo st ->
  vaB = false -> has_def a = true -> XI st' ra [].
Proof.
  intros HA [cv [Hcv [Ek [Hx Hal]]]] Eo Ek' Hv Hd. exists cv. split; [exact Hcv|]. split; [congruence|]. split; [|apply al_nil_r]. rewrite Eo.
  eapply xi_dropL; [exact Hx|exact Hv|exact Hd|exact (fresh_l _ _ _ _ HA)|].
  apply cross_l. exact (head_in_l _ _ _ _ HA).
Qed.

Lemma XI_dropR st st' b rb :
  AI l r st [] (b :: rb) -> XI st [] (b :: rb) -> outs st' = outs st -> m_kwo st' = m_kwo st ->
  vaA = false -> has_def b = true -> XI st' [] rb.
Proof.
  intros HA [cv [Hcv [Ek [Hx Hal]]]] Eo Ek' Hv Hd. exists cv. split; [exact Hcv|]. split; [congruence|]. split; [|reflexivity]. rewrite Eo.
  eapply xi_dropR; [exact Hx|exact Hv|exact Hd|exact (fresh_r _ _ _ _ HA)|].
  apply cross_r. exact (head_in_r _ _ _ _ HA).
Qed.

Lemma XI_convL st st' a ra q :
  AI l r st (a :: ra) [] -> XI st (a :: ra) [] -> outs st' = outs st -> m_kwo st' = m_kwo st ++ [q] ->
  vaB = false -> vkB = true -> ispk a = true -> pname q = pname a -> has_def q = has_def a ->
  XI st' ra [].
Proof.
  intros HA [cv [Hcv [Ek [Hx Hal]]]] Eo Ek' Hv Hvk Hp Nq Dq. exists (cv ++ [q]).
  split.
  { apply Forall_app. split; [exact Hcv|]. constructor; [|constructor]. rewrite Nq. unfold names_of. rewrite map_app.
    apply in_or_app. left. apply in_map. exact (head_in_l _ _ _ _ HA). }
  split; [rewrite Ek', Ek, app_assoc; reflexivity|]. split; [|apply al_nil_r]. rewrite Eo.
  eapply xi_convL; [exact Hx|exact Hv|exact Hvk|exact Hp|exact Nq|exact Dq|exact (fresh_l _ _ _ _ HA)|].
  apply cross_l. exact (head_in_l _ _ _ _ HA).
Qed.

Lemma XI_convR st st' b rb q :
  AI l r st [] (b :: rb) -> XI st [] (b :: rb) -> outs st' = outs st -> m_kwo st' = m_kwo st ++ [q] ->
  vaA = false -> vkA = true -> ispk b = true -> pname q = pname b -> has_def q = has_def b ->
  XI st' [] rb.
Proof.
  intros HA [cv [Hcv [Ek [Hx Hal]]]] Eo Ek' Hv Hvk Hp Nq Dq. exists (cv ++ [q]).
  split.
  { apply Forall_app. split; [exact Hcv|]. constructor; [|constructor]. rewrite Nq. unfold names_of. rewrite map_app.
    apply in_or_app. right. apply in_map. exact (head_in_r _ _ _ _ HA). }
  split; [rewrite Ek', Ek, app_assoc; reflexivity|]. split; [|reflexivity]. rewrite Eo.
  eapply xi_convR; [exact Hx|exact Hv|exact Hvk|exact Hp|exact Nq|exact Dq|exact (fresh_r _ _ _ _ HA)|].
  apply cross_r. exact (head_in_r _ _ _ _ HA).
Qed.

Definition XIs (s : side) (st : mstate) (mine oth : list param) : Prop :=
  match s with L => XI st mine oth | R => XI st oth mine end.

Lemma ispk_PO e : pkind e = PO -> ispk e = false.
Proof. unfold ispk, is_kind. intros ->. reflexivity. Qed.
Lemma ispk_PK e : pkind e = PK -> ispk e = true.
Proof. unfold ispk, is_kind. intros ->. reflexivity. Qed.

Lemma outs_snoc_pos st c : m_pok st = [] -> (m_pos st ++ [c]) ++ [] = outs st ++ [c].
Proof. intros H. unfold outs. rewrite H, !app_nil_r. reflexivity. Qed.

Lemma X_unb_pos1 s e x y st st' y' :
  m_pok st = [] -> pkind e = PO -> AIs l r s st (e :: x) y -> XIs s st (e :: x) y ->
  unb_pos1 l r s e y st = Ok (st', y') -> XIs s st' x y'.
Proof.
  intros Hk He HA HX E. pose proof (ispk_PO e He) as Pe. unfold unb_pos1 in E. destruct y as [|o conv'].
  - destruct (isSome (varargs (other l r s))) eqn:G.
    + inversion E; subst. destruct s; cbn [other] in G; cbn [AIs XIs] in *.
      * eapply XI_keepL; [exact HA|exact HX| |reflexivity|exact G|reflexivity|reflexivity|rewrite Pe; discriminate].
        unfold outs at 2. cbn [m_pos m_pok excl_va add_src1 set_src set_pos]. rewrite Hk, app_nil_r.
        unfold outs. rewrite Hk, app_nil_r. apply dem_refl.
      * eapply XI_keepR; [exact HA|exact HX| |reflexivity|exact G|reflexivity|reflexivity|rewrite Pe; discriminate].
        unfold outs at 2. cbn [m_pos m_pok excl_va add_src1 set_src set_pos]. rewrite Hk, app_nil_r.
        unfold outs. rewrite Hk, app_nil_r. apply dem_refl.
    + destruct (has_def e) eqn:De; cbn [negb] in E; [|discriminate]. inversion E; subst.
      destruct s; cbn [other] in G; cbn [AIs XIs] in *.
      * eapply XI_dropL; [exact HA|exact HX|reflexivity|reflexivity|exact G|exact De].
      * eapply XI_dropR; [exact HA|exact HX|reflexivity|reflexivity|exact G|exact De].
  - injection E as Est Ey. subst y'.
    assert (Eo : outs st' = outs st ++ [concile e o]).
    { rewrite <- Est. destruct (N.eqb (pname o) (pname e)); unfold outs; cbn [m_pos m_pok add_src1 add_src2 set_src set_pos];
        rewrite Hk, !app_nil_r; reflexivity. }
    assert (Ekw : m_kwo st' = m_kwo st) by (rewrite <- Est; destruct (N.eqb (pname o) (pname e)); reflexivity).
    destruct s; cbn [AIs XIs] in *.
    + eapply (XI_pair st st' e x o conv' (concile e o)); [exact HA|exact HX|rewrite Eo; apply dem_refl|exact Ekw| | |].
      * left. reflexivity.
      * left. reflexivity.
      * apply has_def_concile.
    + eapply (XI_pair st st' o conv' e x (concile e o)); [exact HA|exact HX|rewrite Eo; apply dem_refl|exact Ekw| | |].
      * right. reflexivity.
      * right. reflexivity.
      * rewrite has_def_concile. apply andb_comm.
Qed.

Lemma X_unb_pos_all s ps : forall x y st st' y',
  m_pok st = [] -> Forall isPO ps -> AIs l r s st (ps ++ x) y -> XIs s st (ps ++ x) y ->
  unb_pos_all l r s ps y st = Ok (st', y') -> XIs s st' x y'.
Proof.
  induction ps as [|p ps IH]; intros x y st st' y' Hk HF HA HX E; cbn [unb_pos_all] in E.
  - inversion E; subst. exact HX.
  - apply bind_ok in E. destruct E as [[st1 y1] [E1 E2]]. cbn [fst snd] in E2.
    destruct (W_unb_pos1 l r s p (ps ++ x) y st st1 y1 Hk HA E1) as [HA1 Hk1].
    pose proof (X_unb_pos1 s p (ps ++ x) y st st1 y1 Hk (Forall_inv HF) HA HX E1) as HX1.
    exact (IH x y1 st1 st' y' Hk1 (Forall_inv_tail HF) HA1 HX1 E2).
Qed.

Lemma X_zip_pos lp : forall rp il ir st st' il' ir',
  m_pok st = [] -> Forall isPO lp -> Forall isPO rp ->
  AI l r st (lp ++ il) (rp ++ ir) -> XI st (lp ++ il) (rp ++ ir) ->
  zip_pos l r lp rp il ir st = Ok (st', il', ir') -> XI st' il' ir'.
Proof.
  induction lp as [|a lp IH]; intros rp il ir st st' il' ir' Hk Hl Hr HA HX E.
  - cbn [zip_pos] in E. apply bind_ok in E. destruct E as [[st1 y1] [E1 E2]]. cbn [fst snd] in E2.
    inversion E2; subst. exact (X_unb_pos_all R rp ir' il st st' il' Hk Hr HA HX E1).
  - destruct rp as [|b rp]; cbn [zip_pos] in E.
    + apply bind_ok in E. destruct E as [[st1 y1] [E1 E2]]. cbn [fst snd] in E2. inversion E2; subst.
      exact (X_unb_pos_all L (a :: lp) il' ir st st' ir' Hk Hl HA HX E1).
    + set (st1 := if N.eqb (pname a) (pname b)
                  then add_src2 l r (set_pos st (m_pos st ++ [concile a b])) (pname a) L R
                  else add_src1 l r (set_pos st (m_pos st ++ [concile a b])) (pname a) L) in *.
      assert (Hk1 : m_pok st1 = []) by (unfold st1; destruct (N.eqb (pname a) (pname b)); exact Hk).
      assert (Eo : outs st1 = outs st ++ [concile a b]).
      { unfold st1. destruct (N.eqb (pname a) (pname b)); unfold outs; cbn [m_pos m_pok add_src1 add_src2 set_src set_pos];
          rewrite Hk, !app_nil_r; reflexivity. }
      assert (Ekw : m_kwo st1 = m_kwo st) by (unfold st1; destruct (N.eqb (pname a) (pname b)); reflexivity).
      apply (IH rp il ir st1 st' il' ir' Hk1 (Forall_inv_tail Hl) (Forall_inv_tail Hr)); [| |exact E].
      * eapply (AIs_pair l r L st st1 a (lp ++ il) b (rp ++ ir)); [exact HA| | |];
          unfold st1; destruct (N.eqb (pname a) (pname b)); prj Hk.
      * eapply (XI_pair st st1 a (lp ++ il) b (rp ++ ir) (concile a b)); [exact HA|exact HX|rewrite Eo; apply dem_refl|exact Ekw| | |].
        -- left. reflexivity.
        -- left. reflexivity.
        -- apply has_def_concile.
Qed.

Lemma X_unb_pok1 s e x st st' :
  pkind e = PK -> KI l r st -> AIs l r s st (e :: x) [] -> XIs s st (e :: x) [] ->
  unb_pok1 l r s e st = Ok st' -> XIs s st' x [].
Proof.
  intros He HK HA HX E. pose proof (ispk_PK e He) as Pe. unfold unb_pok1 in E.
  destruct (find_param (pname e) (unm st match s with L => R | R => L end)) as [q|] eqn:F.
  - exfalso. apply find_param_in in F. destruct F as [Fq Nq]. destruct HK as [_ _ _ _ Klu Kru].
    destruct s; cbn [unm AIs] in *.
    + apply (cross_l e (head_in_l _ _ _ _ HA)). rewrite <- Nq. apply in_map. apply Kru. exact Fq.
    + apply (cross_r e (head_in_r _ _ _ _ HA)). rewrite <- Nq. apply in_map. apply Klu. exact Fq.
  - destruct (isSome (varargs (other l r s))) eqn:Gva; destruct (isSome (varkwargs (other l r s))) eqn:Gvk; cbn [andb] in E.
    + (* kept as it is *)
      inversion E; subst. destruct s; cbn [other AIs XIs] in *.
      * eapply XI_keepL; [exact HA|exact HX| |reflexivity|exact Gva|reflexivity|reflexivity|intros _; split; [exact Pe|exact Gvk]].
        unfold outs. cbn [m_pos m_pok add_src1 set_src set_pok]. rewrite app_assoc. apply dem_refl.
      * eapply XI_keepR; [exact HA|exact HX| |reflexivity|exact Gva|reflexivity|reflexivity|intros _; split; [exact Pe|exact Gvk]].
        unfold outs. cbn [m_pos m_pok add_src1 set_src set_pok]. rewrite app_assoc. apply dem_refl.
    + (* flushed to positional-only *)
      inversion E; subst. destruct s; cbn [other AIs XIs] in *.
      * eapply (XI_keepL st _ e x (set_kind PO e)); [exact HA|exact HX| |reflexivity|exact Gva|reflexivity|reflexivity|discriminate].
        unfold outs. cbn [m_pos m_pok add_src1 set_src set_pok set_pos]. rewrite app_nil_r, <- !app_assoc.
        apply dem_app; [apply dem_refl|]. apply dem_app; [apply dem_PO|apply dem_refl].
      * eapply (XI_keepR st _ e x (set_kind PO e)); [exact HA|exact HX| |reflexivity|exact Gva|reflexivity|reflexivity|discriminate].
        unfold outs. cbn [m_pos m_pok add_src1 set_src set_pok set_pos]. rewrite app_nil_r, <- !app_assoc.
        apply dem_app; [apply dem_refl|]. apply dem_app; [apply dem_PO|apply dem_refl].
    + (* keyword-only *)
      inversion E; subst. apply isSome_false in Gva. destruct s; cbn [other AIs XIs] in *.
      * eapply (XI_convL st _ e x (set_kind KO e)); [exact HA|exact HX|reflexivity| | | |exact Pe|reflexivity|reflexivity].
        -- cbn [m_kwo add_src1 set_src set_kwo]. apply od_set_fresh. exact (kwo_fresh_l _ _ _ _ HA).
        -- unfold vaB. rewrite Gva. reflexivity.
        -- exact Gvk.
      * eapply (XI_convR st _ e x (set_kind KO e)); [exact HA|exact HX|reflexivity| | | |exact Pe|reflexivity|reflexivity].
        -- cbn [m_kwo add_src1 set_src set_kwo]. apply od_set_fresh. exact (kwo_fresh_r _ _ _ _ HA).
        -- unfold vaA. rewrite Gva. reflexivity.
        -- exact Gvk.
    + destruct (has_def e) eqn:De; cbn [negb] in E; [|discriminate]. inversion E; subst.
      apply isSome_false in Gva. destruct s; cbn [other AIs XIs] in *.
      * eapply XI_dropL; [exact HA|exact HX|reflexivity|reflexivity| |exact De]. unfold vaB. rewrite Gva. reflexivity.
      * eapply XI_dropR; [exact HA|exact HX|reflexivity|reflexivity| |exact De]. unfold vaA. rewrite Gva. reflexivity.
Qed.

Lemma X_unb_pok_all s ps : forall st st',
  Forall isPK ps -> KI l r st -> AIs l r s st ps [] -> XIs s st ps [] ->
  unb_pok_all l r s ps st = Ok st' -> XIs s st' [] [].
Proof.
  induction ps as [|p ps IH]; intros st st' HF HK HA HX E; cbn [unb_pok_all] in E.
  - inversion E; subst. exact HX.
  - apply bind_ok in E. destruct E as [st1 [E1 E2]].
    apply (IH st1 st' (Forall_inv_tail HF)); [| | |exact E2].
    + exact (K_unb_pok1 l r s p st st1 HK (Forall_inv HF) E1).
    + exact (W_unb_pok1 l r s p ps st st1 HA E1).
    + exact (X_unb_pok1 s p ps st st1 (Forall_inv HF) HK HA HX E1).
Qed.

Lemma X_zip_pok il : forall ir st st',
  Forall isPK il -> Forall isPK ir -> KI l r st -> AI l r st il ir -> XI st il ir ->
  zip_pok l r il ir st = Ok st' -> XI st' [] [].
Proof.
  induction il as [|a il IH]; intros ir st st' Hl Hr HK HA HX E.
  - cbn [zip_pok] in E. exact (X_unb_pok_all R ir st st' Hr HK HA HX E).
  - destruct ir as [|b ir]; cbn [zip_pok] in E.
    + exact (X_unb_pok_all L (a :: il) st st' Hl HK HA HX E).
    + assert (Eab : N.eqb (pname a) (pname b) = true).
      { destruct HX as [cv [_ [_ [_ Hal]]]]. destruct (al_head _ _ _ _ Hal) as [Eb _]. rewrite Eb. apply N.eqb_refl. }
      rewrite Eab in E.
      set (st1 := add_src2 l r (set_pok st (m_pok st ++ [concile a b])) (pname a) L R) in *.
      apply (IH ir st1 st' (Forall_inv_tail Hl) (Forall_inv_tail Hr)); [| | |exact E].
      * unfold st1, KI. cbn [m_pos m_pok m_kwo m_lunm m_runm set_pos set_pok set_kwo set_src add_src1 add_src2].
        apply KIc_pok_snoc; [exact HK|]. exact (Forall_inv Hl).
      * eapply (AIs_pair l r L st st1 a il b ir); [exact HA| | |]; unfold st1; prj0.
      * eapply (XI_pair st st1 a il b ir (concile a b)); [exact HA|exact HX| |reflexivity| | |].
        -- unfold st1, outs. cbn [m_pos m_pok add_src2 set_src set_pok]. rewrite app_assoc. apply dem_refl.
        -- left. reflexivity.
        -- left. reflexivity.
        -- apply has_def_concile.
Qed.

(* ---- the unmatched keyword-only lists are not touched by the two zips ---- *)
Definition unmEq (st st' : mstate) : Prop := m_lunm st' = m_lunm st /\ m_runm st' = m_runm st.

Lemma U_unb_pos1 s e y st st' y' : unb_pos1 l r s e y st = Ok (st', y') -> unmEq st st'.
Proof.
  unfold unb_pos1. destruct y as [|o c].
  - destruct (isSome (varargs (other l r s))); [intros E; inversion E; subst; destruct s; split; reflexivity|].
    destruct (negb (has_def e)); [discriminate|]. intros E; inversion E; subst. split; reflexivity.
  - intros E. inversion E; subst. destruct (N.eqb (pname o) (pname e)); destruct s; split; reflexivity.
Qed.

Lemma unmEq_trans a b c : unmEq a b -> unmEq b c -> unmEq a c.
Proof. intros [A1 A2] [B1 B2]. split; congruence. Qed.

Lemma U_unb_pos_all s ps : forall y st st' y', unb_pos_all l r s ps y st = Ok (st', y') -> unmEq st st'.
Proof.
  induction ps as [|p ps IH]; intros y st st' y' E; cbn [unb_pos_all] in E.
  - inversion E; subst. split; reflexivity.
  - apply bind_ok in E. destruct E as [[st1 y1] [E1 E2]]. cbn [fst snd] in E2.
    eapply unmEq_trans; [exact (U_unb_pos1 _ _ _ _ _ _ E1)|exact (IH _ _ _ _ E2)].
Qed.

Lemma U_zip_pos lp : forall rp il ir st st' il' ir', zip_pos l r lp rp il ir st = Ok (st', il', ir') -> unmEq st st'.
Proof.
  induction lp as [|a lp IH]; intros rp il ir st st' il' ir' E.
  - cbn [zip_pos] in E. apply bind_ok in E. destruct E as [[st1 y1] [E1 E2]]. cbn [fst snd] in E2.
    inversion E2; subst. exact (U_unb_pos_all _ _ _ _ _ _ E1).
  - destruct rp as [|b rp]; cbn [zip_pos] in E.
    + apply bind_ok in E. destruct E as [[st1 y1] [E1 E2]]. cbn [fst snd] in E2. inversion E2; subst.
      exact (U_unb_pos_all _ _ _ _ _ _ E1).
    + eapply unmEq_trans; [|exact (IH _ _ _ _ _ _ _ E)]. destruct (N.eqb (pname a) (pname b)); split; reflexivity.
Qed.

Lemma U_unb_pok1 s e x st st' :
  KI l r st -> AIs l r s st (e :: x) [] -> unb_pok1 l r s e st = Ok st' -> unmEq st st'.
Proof.
  intros HK HA E. unfold unb_pok1 in E.
  destruct (find_param (pname e) (unm st match s with L => R | R => L end)) as [q|] eqn:F.
  - exfalso. apply find_param_in in F. destruct F as [Fq Nq]. destruct HK as [_ _ _ _ Klu Kru].
    destruct s; cbn [unm AIs] in *.
    + apply (cross_l e (head_in_l _ _ _ _ HA)). rewrite <- Nq. apply in_map. apply Kru. exact Fq.
    + apply (cross_r e (head_in_r _ _ _ _ HA)). rewrite <- Nq. apply in_map. apply Klu. exact Fq.
  - destruct (isSome (varargs (other l r s)) && isSome (varkwargs (other l r s))).
    { inversion E; subst. destruct s; split; reflexivity. }
    destruct (isSome (varkwargs (other l r s))).
    { inversion E; subst. destruct s; split; reflexivity. }
    destruct (isSome (varargs (other l r s))).
    { inversion E; subst. destruct s; split; reflexivity. }
    destruct (negb (has_def e)); [discriminate|]. inversion E; subst. split; reflexivity.
Qed.

Lemma U_unb_pok_all s ps : forall st st',
  Forall isPK ps -> KI l r st -> AIs l r s st ps [] -> unb_pok_all l r s ps st = Ok st' -> unmEq st st'.
Proof.
  induction ps as [|p ps IH]; intros st st' HF HK HA E; cbn [unb_pok_all] in E.
  - inversion E; subst. split; reflexivity.
  - apply bind_ok in E. destruct E as [st1 [E1 E2]].
    eapply unmEq_trans; [exact (U_unb_pok1 s p ps st st1 HK HA E1)|].
    apply (IH st1 st' (Forall_inv_tail HF)); [| |exact E2].
    + exact (K_unb_pok1 l r s p st st1 HK (Forall_inv HF) E1).
    + exact (W_unb_pok1 l r s p ps st st1 HA E1).
Qed.

Lemma U_zip_pok il : forall ir st st',
  Forall isPK il -> Forall isPK ir -> KI l r st -> AI l r st il ir -> zip_pok l r il ir st = Ok st' -> unmEq st st'.
Proof.
  induction il as [|a il IH]; intros ir st st' Hl Hr HK HA E.
  - cbn [zip_pok] in E. exact (U_unb_pok_all R ir st st' Hr HK HA E).
  - destruct ir as [|b ir]; cbn [zip_pok] in E.
    + exact (U_unb_pok_all L (a :: il) st st' Hl HK HA E).
    + set (st1 := if N.eqb (pname a) (pname b)
                  then add_src2 l r (set_pok st (m_pok st ++ [concile a b])) (pname a) L R
                  else add_src1 l r (set_pok st (map (set_kind PO) (m_pok st) ++ [set_kind PO (concile a b)])) (pname a) L) in *.
      eapply unmEq_trans; [|apply (IH ir st1 st' (Forall_inv_tail Hl) (Forall_inv_tail Hr)); [| |exact E]].
      * unfold st1. destruct (N.eqb (pname a) (pname b)); split; reflexivity.
      * unfold st1. destruct (N.eqb (pname a) (pname b)); unfold KI;
          cbn [m_pos m_pok m_kwo m_lunm m_runm set_pos set_pok set_kwo set_src add_src1 add_src2];
          [apply KIc_pok_snoc|apply KIc_pok_po]; try exact HK. exact (Forall_inv Hl).
      * eapply (AIs_pair l r L st st1 a il b ir); [exact HA| | |]; unfold st1; destruct (N.eqb (pname a) (pname b)); prj0.
Qed.

(* ---- the first loop, exactly ---- *)
Definition matched (lk : list param) : list param :=
  flat_map (fun p => match find_param (pname p) (kwoargs r) with Some q => [concile p q] | None => [] end) lk.
Definition unmat (lk : list param) : list param :=
  filter (fun p => negb (isSome (find_param (pname p) (kwoargs r)))) lk.

Lemma names_matched_incl lk : incl (names_of (matched lk)) (names_of lk).
Proof.
  induction lk as [|p lk IH]; [apply incl_refl|]. unfold matched. cbn [flat_map]. fold (matched lk).
  destruct (find_param (pname p) (kwoargs r)); cbn [app names_of map].
  - intros x [<-|Hx]; [left; reflexivity|right; apply IH; exact Hx].
  - apply incl_tl. exact IH.
Qed.

Lemma names_unmat_incl lk : incl (names_of (unmat lk)) (names_of lk).
Proof. intros x Hx. apply in_map_iff in Hx. destruct Hx as [p [E Hp]]. apply filter_In in Hp. rewrite <- E. apply in_map. tauto. Qed.

Lemma kwo_match_exact lk : forall st,
  NoDup (names_of lk) ->
  (forall x, In x (names_of lk) -> ~ In x (names_of (m_kwo st)) /\ ~ In x (names_of (m_lunm st))) ->
  m_kwo (kwo_match l r lk st) = m_kwo st ++ matched lk /\
  m_lunm (kwo_match l r lk st) = m_lunm st ++ unmat lk /\
  m_runm (kwo_match l r lk st) = m_runm st.
Proof.
  induction lk as [|p lk IH]; intros st Hn Hf; cbn [kwo_match].
  - cbn. rewrite !app_nil_r. auto.
  - cbn [names_of map] in Hn. inversion Hn as [|? ? Hp Hn']; subst.
    destruct (Hf (pname p) (or_introl eq_refl)) as [F1 F2].
    unfold matched, unmat. cbn [flat_map filter]. fold (matched lk). fold (unmat lk).
    destruct (find_param (pname p) (kwoargs r)) as [q|] eqn:F; cbn [isSome negb].
    + match goal with |- context [kwo_match l r lk ?s] => destruct (IH s Hn') as (E1 & E2 & E3) end.
      { intros x Hx. cbn [m_kwo m_lunm set_kwo set_src]. rewrite od_set_fresh by exact F1.
        destruct (Hf x (or_intror Hx)) as [G1 G2]. split; [|exact G2].
        unfold names_of. rewrite map_app. intros X. apply in_app_or in X. destruct X as [X|[X|[]]]; [exact (G1 X)|].
        cbn [pname concile] in X. apply Hp. rewrite X. exact Hx. }
      rewrite E1, E2, E3. cbn [m_kwo m_lunm m_runm set_kwo set_src]. rewrite od_set_fresh by exact F1.
      rewrite <- app_assoc. auto.
    + match goal with |- context [kwo_match l r lk ?s] => destruct (IH s Hn') as (E1 & E2 & E3) end.
      { intros x Hx. cbn [m_kwo m_lunm set_unm]. rewrite od_set_fresh by exact F2.
        destruct (Hf x (or_intror Hx)) as [G1 G2]. split; [exact G1|].
        unfold names_of. rewrite map_app. intros X. apply in_app_or in X. destruct X as [X|[X|[]]]; [exact (G2 X)|].
        apply Hp. rewrite X. exact Hx. }
      rewrite E1, E2, E3. cbn [m_kwo m_lunm m_runm set_unm]. rewrite od_set_fresh by exact F2.
      rewrite <- app_assoc. auto.
Qed.

Lemma nodup_KA : NoDup (names_of KA).
Proof. apply nodup_kwo. exact HNl. Qed.
Lemma nodup_KB : NoDup (names_of KB).
Proof. apply nodup_kwo. exact HNr. Qed.

Lemma st2_fields :
  m_kwo (st2 l r) = matched KA /\ m_lunm (st2 l r) = unmat KA /\ m_runm (st2 l r) = r_unmatched l r.
Proof.
  destruct (kwo_match_exact KA st0 nodup_KA) as (E1 & E2 & E3); [intros x _; split; intros []|].
  unfold st2. cbn [m_kwo m_lunm m_runm set_unm]. fold KA. rewrite E1, E2. auto.
Qed.

(* ---- the two last loops, exactly ---- *)
Lemma unmatched_fine s st st' :
  unmatched_kwo l r s st = Ok st' ->
  m_pos st' = m_pos st /\ m_pok st' = m_pok st /\ m_lunm st' = m_lunm st /\ m_runm st' = m_runm st /\
  m_kwo st' = od_update (m_kwo st) (if isSome (varkwargs (other l r s)) then unm st s else []) /\
  (isSome (varkwargs (other l r s)) = false -> forallb has_def (unm st s) = true).
Proof.
  unfold unmatched_kwo. destruct (unm st s) as [|q u] eqn:Eu.
  - intros E. inversion E; subst. destruct (isSome (varkwargs (other l r s))); repeat split; reflexivity.
  - destruct (isSome (varkwargs (other l r s))).
    + intros E. injection E as <-.
      destruct (fold_src_fields l r s (q :: u) (set_kwo st (od_update (m_kwo st) (q :: u)))) as (A & B & C & D & F).
      cbv zeta in *. unfold od_update in *. cbn [fold_left] in *.
      destruct s; cbn [excl_vk m_pos m_pok m_kwo m_lunm m_runm]; rewrite ?A, ?B, ?C, ?D, ?F;
        repeat split; try reflexivity; intros X; discriminate X.
    + destruct (forallb has_def (q :: u)) eqn:Ef; intros E; inversion E; subst. repeat split; auto.
Qed.

(* ---- assembling: the relation holds between the operands and the result ---- *)
Hypothesis HR2 : pos_agree PA PB.
Hypothesis HDl : dsuf PA.
Hypothesis HDr : dsuf PB.
Hypothesis HAL : aligned_lists PA PB = true.

Lemma nodup_names_filter (f : param -> bool) ps : NoDup (names_of ps) -> NoDup (names_of (filter f ps)).
Proof.
  induction ps as [|p ps IH]; intros H; [constructor|]. cbn [names_of map] in H. inversion H as [|? ? Hp Hn]; subst.
  cbn [filter]. destruct (f p); [|apply IH; exact Hn]. cbn [names_of map]. constructor; [|apply IH; exact Hn].
  intros X. apply Hp. apply in_map_iff in X. destruct X as [q [E Hq]]. apply filter_In in Hq. rewrite <- E. apply in_map. tauto.
Qed.

Lemma find_param_none x ps : find_param x ps = None -> ~ In x (names_of ps).
Proof.
  induction ps as [|p ps IH]; cbn [find_param names_of map]; [intros _ []|].
  destruct (N.eqb_spec x (pname p)) as [E|E]; [discriminate|]. intros H [X|X]; [congruence|exact (IH H X)].
Qed.

Lemma in_matched c lk :
  In c (matched lk) <-> exists p q, In p lk /\ find_param (pname p) KB = Some q /\ c = concile p q.
Proof.
  unfold matched. rewrite in_flat_map. split.
  - intros [p [Hp Hc]]. fold KB in Hc. destruct (find_param (pname p) KB) as [q|] eqn:F; [|destruct Hc].
    destruct Hc as [<-|[]]. exists p, q. auto.
  - intros [p [q [Hp [F ->]]]]. exists p. split; [exact Hp|]. fold KB. rewrite F. left. reflexivity.
Qed.

Lemma in_unmat u lk : In u (unmat lk) <-> In u lk /\ find_param (pname u) KB = None.
Proof.
  unfold unmat. rewrite filter_In. fold KB. destruct (find_param (pname u) KB); cbn; split; intros [A B]; split; auto; discriminate.
Qed.

Lemma in_runm u : In u (r_unmatched l r) <-> In u KB /\ find_param (pname u) KA = None.
Proof.
  unfold r_unmatched. rewrite filter_In. fold KA KB. destruct (find_param (pname u) KA); cbn; split; intros [A B]; split; auto; discriminate.
Qed.

Theorem merger_MR res :
  merger l r = Ok res -> MR KA KB vaA vkA vaB vkB PA PB (posl res) (kwoargs res).
Proof.
  unfold merger. fold st0. fold (st2 l r). intros E.
  apply bind_ok in E. destruct E as [[[st3 il] ir] [E3 E]].
  apply bind_ok in E. destruct E as [st4 [E4 E]].
  apply bind_ok in E. destruct E as [st5 [E5 E]].
  apply bind_ok in E. destruct E as [st6 [E6 E]].
  destruct (add_star l r (m_xva_l (normalise_pok st6)) (m_xva_r (normalise_pok st6)) (varargs l) (varargs r)
                     (normalise_pok st6)) as [va st8] eqn:E8.
  destruct (add_star l r (m_xvk_l st8) (m_xvk_r st8) (varkwargs l) (varkwargs r) st8) as [vk st9] eqn:E9.
  inversion E; subst res; clear E.
  destruct (AI_st2 l r HKl HKr HNl HNr HR1 HR2 HDl HDr) as [A2 P2]. pose proof (KI_st2 l r HKl) as K2.
  destruct st2_fields as (M2 & LU2 & RU2).
  assert (X2 : XI (st2 l r) PA PB).
  { exists []. split; [constructor|]. split; [rewrite app_nil_r; reflexivity|]. split; [|exact HAL].
    intros O X KRf HO HM. assert (EO : outs (st2 l r) = []).
    { unfold outs. destruct (kwo_match_proj l r (kwoargs l) st0) as (Q1 & Q2 & _). unfold st2. cbn [m_pos m_pok set_unm].
      rewrite Q1, Q2. reflexivity. }
    rewrite EO in HO. inversion HO; subst. exact HM. }
  pose proof HKl as (L1 & L2 & _). pose proof HKr as (R1 & R2 & _).
  destruct (W_zip_pos l r (posargs l) (posargs r) (pokargs l) (pokargs r) _ st3 il ir P2 A2 E3) as [A3 P3].
  destruct (K_zip_pos l r (posargs l) (posargs r) (pokargs l) (pokargs r) _ st3 il ir K2 L1 R1 E3) as (K3 & Il & Ir).
  pose proof (X_zip_pos (posargs l) (posargs r) (pokargs l) (pokargs r) _ st3 il ir P2 L1 R1 A2 X2 E3) as X3.
  pose proof (U_zip_pos _ _ _ _ _ _ _ _ E3) as [U3l U3r].
  assert (Hil : Forall isPK il) by (apply Forall_forall; intros q Hq; rewrite Forall_forall in L2; apply L2, Il, Hq).
  assert (Hir : Forall isPK ir) by (apply Forall_forall; intros q Hq; rewrite Forall_forall in R2; apply R2, Ir, Hq).
  pose proof (W_zip_pok l r il ir st3 st4 A3 E4) as A4. pose proof (K_zip_pok l r il ir st3 st4 K3 Hil Hir E4) as K4.
  pose proof (X_zip_pok il ir st3 st4 Hil Hir K3 A3 X3 E4) as X4.
  pose proof (U_zip_pok il ir st3 st4 Hil Hir K3 A3 E4) as [U4l U4r].
  destruct X4 as [cv [Hcv [Ek [HXI _]]]].
  assert (LU4 : m_lunm st4 = unmat KA) by congruence.
  assert (RU4 : m_runm st4 = r_unmatched l r) by congruence.
  destruct (unmatched_fine L st4 st5 E5) as (F5a & F5b & F5c & F5d & F5e & GL). cbn [other unm] in F5e, GL.
  destruct (unmatched_fine R st5 st6 E6) as (F6a & F6b & F6c & F6d & F6e & GR). cbn [other unm] in F6e, GR.
  rewrite LU4 in F5e, GL. rewrite F5d, RU4 in F6e, GR. fold vkB in F5e, GL. fold vkA in F6e, GR.
  set (UL := if vkB then unmat KA else []) in *. set (UR := if vkA then r_unmatched l r else []) in *.
  rewrite M2 in Ek.
  (* origins of the entries *)
  assert (InUL : forall u, In u UL -> vkB = true /\ In u KA /\ find_param (pname u) KB = None).
  { intros u Hu. unfold UL in Hu. destruct vkB; [|destruct Hu]. apply in_unmat in Hu. tauto. }
  assert (InUR : forall u, In u UR -> vkA = true /\ In u KB /\ find_param (pname u) KA = None).
  { intros u Hu. unfold UR in Hu. destruct vkA; [|destruct Hu]. apply in_runm in Hu. tauto. }
  assert (NM : forall x, In x (names_of (matched KA)) -> In x (names_of KA) /\ In x (names_of KB)).
  { intros x Hx. apply in_map_iff in Hx. destruct Hx as [c [Ec Hc]]. apply in_matched in Hc.
    destruct Hc as [p [q [Hp [F ->]]]]. apply find_param_in in F. destruct F as [Fq Nq]. cbn [pname concile] in Ec. subst x.
    split; [apply in_map; exact Hp|rewrite <- Nq; apply in_map; exact Fq]. }
  assert (Ncv : forall x, In x (names_of cv) -> ~ In x (names_of KA) /\ ~ In x (names_of KB)).
  { intros x Hx. apply in_map_iff in Hx. destruct Hx as [q [Eq Hq]]. rewrite Forall_forall in Hcv. specialize (Hcv q Hq).
    rewrite Eq in Hcv. apply in_map_iff in Hcv. destruct Hcv as [a [Ea Ha]]. subst x. apply in_app_or in Ha.
    destruct Ha as [Ha|Ha]; split; [apply sep_l|apply cross_l|apply cross_r|apply sep_r]; exact Ha. }
  (* the two last loops only append *)
  assert (E5k : m_kwo st5 = (matched KA ++ cv) ++ UL).
  { rewrite F5e, Ek. apply od_update_fresh.
    - unfold UL. destruct vkB; [apply nodup_names_filter; exact nodup_KA|constructor].
    - intros x Hx Hin. apply in_map_iff in Hx. destruct Hx as [u [Eu Hu]]. destruct (InUL u Hu) as (_ & Hka & Fu).
      unfold names_of in Hin. rewrite map_app in Hin. apply in_app_or in Hin. destruct Hin as [Hin|Hin].
      + apply (find_param_none _ _ Fu). rewrite Eu. apply (proj2 (NM x Hin)).
      + apply (proj1 (Ncv x Hin)). rewrite <- Eu. apply in_map. exact Hka. }
  assert (E6k : m_kwo st6 = ((matched KA ++ cv) ++ UL) ++ UR).
  { rewrite F6e, E5k. apply od_update_fresh.
    - unfold UR. destruct vkA; [apply nodup_names_filter; exact nodup_KB|constructor].
    - intros x Hx Hin. apply in_map_iff in Hx. destruct Hx as [u [Eu Hu]]. destruct (InUR u Hu) as (_ & Hkb & Fu).
      apply find_param_none in Fu. rewrite Eu in Fu.
      unfold names_of in Hin. rewrite !map_app in Hin. apply in_app_or in Hin. destruct Hin as [Hin|Hin]; [apply in_app_or in Hin; destruct Hin as [Hin|Hin]|].
      + apply Fu. apply (proj1 (NM x Hin)).
      + apply (proj2 (Ncv x Hin)). rewrite <- Eu. apply in_map. exact Hkb.
      + apply in_map_iff in Hin. destruct Hin as [u' [Eu' Hu']]. destruct (InUL u' Hu') as (_ & Hka & _).
        apply Fu. rewrite <- Eu'. apply in_map. exact Hka. }
  (* the keyword-only part that is not a converted parameter *)
  assert (HS : KSpec KA KB vkA vkB (matched KA ++ UL ++ UR)).
  { constructor.
    - intros c Hc. apply in_app_or in Hc. destruct Hc as [Hc|Hc]; [left; apply NM; apply in_map; exact Hc|].
      apply in_app_or in Hc. destruct Hc as [Hc|Hc]; [left; apply in_map; apply (InUL c Hc)|right; apply in_map; apply (InUR c Hc)].
    - intros c Hc. apply in_app_or in Hc. destruct Hc as [Hc|Hc].
      + destruct (NM (pname c) (in_map pname _ _ Hc)). auto.
      + apply in_app_or in Hc. destruct Hc as [Hc|Hc].
        * destruct (InUL c Hc) as (V & Hk & _). split; [left; apply in_map; exact Hk|right; exact V].
        * destruct (InUR c Hc) as (V & Hk & _). split; [right; exact V|left; apply in_map; exact Hk].
    - intros c Hc Dc. apply in_app_or in Hc. destruct Hc as [Hc|Hc].
      + apply in_matched in Hc. destruct Hc as [p [q [Hp [F ->]]]]. rewrite has_def_concile in Dc.
        apply find_param_in in F. destruct F as [Fq Nq]. cbn [pname concile].
        destruct (has_def p) eqn:Dp; [right; exists q; auto|left; exists p; auto].
      + apply in_app_or in Hc. destruct Hc as [Hc|Hc].
        * left. exists c. destruct (InUL c Hc) as (_ & Hk & _). auto.
        * right. exists c. destruct (InUR c Hc) as (_ & Hk & _). auto.
    - intros qa Hqa Dqa. destruct (find_param (pname qa) KB) as [q|] eqn:F.
      + exists (concile qa q). split; [apply in_or_app; left; apply in_matched; exists qa, q; auto|].
        split; [reflexivity|]. rewrite has_def_concile, Dqa. reflexivity.
      + destruct vkB eqn:V.
        * exists qa. split; [|auto]. apply in_or_app. right. apply in_or_app. left. unfold UL. apply in_unmat. auto.
        * exfalso. specialize (GL eq_refl). rewrite forallb_forall in GL.
          rewrite (GL qa) in Dqa; [discriminate|]. apply in_unmat. auto.
    - intros qb Hqb Dqb. destruct (find_param (pname qb) KA) as [p|] eqn:F.
      + apply find_param_in in F. destruct F as [Fp Np].
        assert (F' : find_param (pname p) KB = Some qb) by (rewrite Np; apply find_param_self; [exact nodup_KB|exact Hqb]).
        exists (concile p qb). split; [apply in_or_app; left; apply in_matched; exists p, qb; auto|].
        split; [exact Np|]. rewrite has_def_concile, Dqb. apply andb_false_r.
      + destruct vkA eqn:V.
        * exists qb. split; [|auto]. apply in_or_app. right. apply in_or_app. right. unfold UR. apply in_runm. auto.
        * exfalso. specialize (GR eq_refl). rewrite forallb_forall in GR.
          rewrite (GR qb) in Dqb; [discriminate|]. apply in_runm. auto. }
  (* the context applied to the finished positional part *)
  pose proof (HXI (outs st4) [] (matched KA ++ UL ++ UR) (dem_refl _)
                 (mr_base KA KB vaA vkA vaB vkB _ HS)) as HM.
  rewrite app_nil_r in HM.
  (* the result's components *)
  pose proof (K_unmatched l r HKl HKr L st4 st5 K4 E5) as K5.
  pose proof (K_unmatched l r HKl HKr R st5 st6 K5 E6) as K6.
  destruct (normalise_spec l r st6 K6) as (Q1 & Q2 & Q3 & Q4).
  destruct (add_star_spec _ _ _ _ _ _ _ _ _ E8) as (S1 & S2 & S3 & S4).
  destruct (add_star_spec _ _ _ _ _ _ _ _ _ E9) as (T1 & T2 & T3 & T4).
  assert (PR : posl (mkSorted (m_pos st9) (m_pok st9) va (m_kwo st9) vk (m_src st9)
                              (merge_depths (sdep l) (sdep r))) = outs st4).
  { unfold posl. cbn [posargs pokargs]. rewrite T1, T2, S1, S2. fold (outs (normalise_pok st6)). rewrite Q3.
    unfold outs. rewrite F6a, F6b, F5a, F5b. reflexivity. }
  rewrite PR. cbn [kwoargs]. rewrite T3, S3, Q4, E6k.
  eapply MR_perm; [exact HM|].
  rewrite <- !app_assoc. rewrite (app_assoc (matched KA) cv). rewrite (app_assoc cv (matched KA)).
  apply Permutation_app_tail. apply Permutation_app_comm.
Qed.

Lemma add_star_isSome xl xr sl sr st :
  isSome (fst (add_star l r xl xr sl sr st)) = isSome sl && isSome sr.
Proof.
  unfold add_star. destruct sl as [a|], sr as [b|]; try reflexivity.
  destruct (negb xl && negb xr); [reflexivity|]. destruct (negb xl); reflexivity.
Qed.

Lemma merger_stars res :
  merger l r = Ok res ->
  isSome (varargs res) = vaA && vaB /\ isSome (varkwargs res) = vkA && vkB.
Proof.
  unfold merger. intros E.
  apply bind_ok in E. destruct E as [[[st3 il] ir] [E3 E]].
  apply bind_ok in E. destruct E as [st4 [E4 E]].
  apply bind_ok in E. destruct E as [st5 [E5 E]].
  apply bind_ok in E. destruct E as [st6 [E6 E]].
  pose proof (add_star_isSome (m_xva_l (normalise_pok st6)) (m_xva_r (normalise_pok st6)) (varargs l) (varargs r)
                (normalise_pok st6)) as V1.
  destruct (add_star l r (m_xva_l (normalise_pok st6)) (m_xva_r (normalise_pok st6)) (varargs l) (varargs r)
                     (normalise_pok st6)) as [va st8] eqn:E8.
  pose proof (add_star_isSome (m_xvk_l st8) (m_xvk_r st8) (varkwargs l) (varkwargs r) st8) as V2.
  destruct (add_star l r (m_xvk_l st8) (m_xvk_r st8) (varkwargs l) (varkwargs r) st8) as [vk st9] eqn:E9.
  inversion E; subst res. cbn [varargs varkwargs fst] in *. auto.
Qed.
End XWalk.

(* ================================================================== *)
(* 4. acceptance of a classified signature, on its components           *)

Lemma kwonly_flatten so : kinds_ok so -> kwonly (flatten so) = kwoargs so.
Proof.
  intros (H1 & H2 & H3 & H4 & H5). unfold kwonly, flatten. rewrite !filter_app.
  assert (Z : forall ps k, k <> KO -> Forall (fun p => pkind p = k) ps -> filter (is_kind KO) ps = []).
  { intros ps k Hk HF. induction HF as [|p ps Hp _ IH]; [reflexivity|]. cbn [filter]. unfold is_kind at 1, kind_eqb.
    rewrite Hp. destruct k; try congruence; cbn; exact IH. }
  rewrite (Z _ PO ltac:(discriminate) H1), (Z _ PK ltac:(discriminate) H2).
  assert (Zo : forall o k, k <> KO -> (forall p : param, o = Some p -> pkind p = k) -> filter (is_kind KO) (opt_list o) = []).
  { intros o k Hk Ho. destruct o as [p|]; [|reflexivity]. cbn. unfold is_kind, kind_eqb. rewrite (Ho p eq_refl).
    destruct k; try congruence; reflexivity. }
  rewrite (Zo _ VP ltac:(discriminate) H3), (Zo _ VK ltac:(discriminate) H5). cbn [app]. rewrite app_nil_r.
  induction H4 as [|p ps Hp _ IH]; [reflexivity|]. cbn [filter]. unfold is_kind at 1, kind_eqb. rewrite Hp. cbn. rewrite IH. reflexivity.
Qed.

Lemma has_vp_flatten so : kinds_ok so -> has_kind VP (flatten so) = isSome (varargs so).
Proof.
  intros (H1 & H2 & H3 & H4 & H5). unfold flatten. rewrite !has_kind_app.
  rewrite (has_kind_other VP PO _ H1), (has_kind_other VP PK _ H2), (has_kind_other VP KO _ H4), (has_kind_opt VP VK _ H5)
    by discriminate.
  rewrite !orb_false_r. cbn [orb]. destruct (varargs so) as [v|]; [|reflexivity]. cbn. unfold is_kind, kind_eqb.
  rewrite (H3 v eq_refl). reflexivity.
Qed.

Lemma has_vk_flatten so : kinds_ok so -> has_kind VK (flatten so) = isSome (varkwargs so).
Proof.
  intros (H1 & H2 & H3 & H4 & H5). unfold flatten. rewrite !has_kind_app.
  rewrite (has_kind_other VK PO _ H1), (has_kind_other VK PK _ H2), (has_kind_other VK KO _ H4), (has_kind_opt VK VP _ H3)
    by discriminate.
  cbn [orb]. destruct (varkwargs so) as [v|]; [|reflexivity]. cbn. unfold is_kind, kind_eqb.
  rewrite (H5 v eq_refl). reflexivity.
Qed.

Lemma accepts_flatten so c :
  kinds_ok so ->
  accepts (flatten so) c =
  acc4 (posl so) (kwoargs so) (isSome (varargs so)) (isSome (varkwargs so)) (npos c) (kws c).
Proof.
  intros HK. rewrite accepts_acc4, (positional_flatten so HK), (kwonly_flatten so HK), (has_vp_flatten so HK),
    (has_vk_flatten so HK). reflexivity.
Qed.

Lemma flatten_PK so p : kinds_ok so -> In p (flatten so) -> pkind p = PK -> In p (posl so).
Proof.
  intros (H1 & H2 & H3 & H4 & H5) Hp Kp. unfold flatten in Hp. unfold posl. rewrite Forall_forall in H1, H4.
  apply in_app_or in Hp. destruct Hp as [Hp|Hp]; [apply in_or_app; left; exact Hp|].
  apply in_app_or in Hp. destruct Hp as [Hp|Hp]; [apply in_or_app; right; exact Hp|]. exfalso.
  apply in_app_or in Hp. destruct Hp as [Hp|Hp].
  - destruct (varargs so) as [v|] eqn:E; [|destruct Hp]. destruct Hp as [<-|[]]. rewrite (H3 v eq_refl) in Kp. discriminate.
  - apply in_app_or in Hp. destruct Hp as [Hp|Hp]; [rewrite (H4 p Hp) in Kp; discriminate|].
    destruct (varkwargs so) as [v|] eqn:E; [|destruct Hp]. destruct Hp as [<-|[]]. rewrite (H5 v eq_refl) in Kp. discriminate.
Qed.

Lemma flatten_KO so p : kinds_ok so -> In p (flatten so) -> pkind p = KO -> In p (kwoargs so).
Proof.
  intros (H1 & H2 & H3 & H4 & H5) Hp Kp. unfold flatten in Hp. rewrite Forall_forall in H1, H2.
  apply in_app_or in Hp. destruct Hp as [Hp|Hp]; [rewrite (H1 p Hp) in Kp; discriminate|].
  apply in_app_or in Hp. destruct Hp as [Hp|Hp]; [rewrite (H2 p Hp) in Kp; discriminate|].
  apply in_app_or in Hp. destruct Hp as [Hp|Hp].
  - destruct (varargs so) as [v|] eqn:E; [|destruct Hp]. destruct Hp as [<-|[]]. rewrite (H3 v eq_refl) in Kp. discriminate.
  - apply in_app_or in Hp. destruct Hp as [Hp|Hp]; [exact Hp|].
    destruct (varkwargs so) as [v|] eqn:E; [|destruct Hp]. destruct Hp as [<-|[]]. rewrite (H5 v eq_refl) in Kp. discriminate.
Qed.

Lemma named_in_flatten so p : kinds_ok so -> In p (posl so ++ kwoargs so) -> In p (flatten so).
Proof.
  intros HK Hp. apply in_app_or in Hp. destruct Hp as [Hp|Hp]; [apply (in_PA so HK p Hp)|apply (in_kwo_l so HK p Hp)].
Qed.

(* ================================================================== *)
(* 5. C09_exact on classified signatures                               *)

Section Exact.
Variables l r : sorted.
Hypothesis HKl : kinds_ok l.
Hypothesis HKr : kinds_ok r.
Hypothesis HNl : NoDup (names_of (flatten l)).
Hypothesis HNr : NoDup (names_of (flatten r)).
Hypothesis HR1 : forall p q, In p (flatten l) -> In q (flatten r) -> pname p = pname q -> pkind p = pkind q.
Hypothesis HR2 : pos_agree (posl l) (posl r).
Hypothesis HDl : dsuf (posl l).
Hypothesis HDr : dsuf (posl r).
Hypothesis HAL : aligned_lists (posl l) (posl r) = true.

Theorem merger_exact_ok res c :
  merger l r = Ok res ->
  noncolliding c (flatten res) [flatten l; flatten r] = true ->
  accepts (flatten res) c = accepts (flatten l) c && accepts (flatten r) c.
Proof.
  intros E HN. destruct (merger_kinds l r res HKl HKr E) as [HKres _].
  rewrite (accepts_flatten res c HKres), (accepts_flatten l c HKl), (accepts_flatten r c HKr).
  destruct (merger_stars l r res E) as [V1 V2]. rewrite V1, V2.
  apply (MR_exact _ _ _ _ _ _ _ _ _ _ (merger_MR l r HKl HKr HNl HNr HR1 HR2 HDl HDr HAL res E)).
  intros k Hk. unfold noncolliding in HN. rewrite forallb_forall in HN. specialize (HN k Hk).
  apply orb_true_iff in HN. destruct HN as [HN|HN].
  - left. unfold kwpassable_name in HN. apply existsb_exists in HN. destruct HN as [p [Hp Hq]].
    apply andb_true_iff in Hq. destruct Hq as [Q1 Q2]. apply N.eqb_eq in Q2. subst k.
    unfold is_kwpassable in Q1. destruct (pkind p) eqn:Kp; try discriminate.
    + left. exists p. split; [apply (flatten_PK res p HKres Hp Kp)|]. split; [apply ispk_PK; exact Kp|reflexivity].
    + right. apply in_map. apply (flatten_KO res p HKres Hp Kp).
  - right. apply negb_true_iff in HN. apply mem_false_In in HN. unfold all_names in HN. cbn [flat_map] in HN.
    rewrite app_nil_r in HN. split; intros X; apply HN; apply in_or_app; [left|right];
      apply in_map_iff in X; destruct X as [p [Ep Hp]]; rewrite <- Ep; apply in_map.
    + apply (named_in_flatten l p HKl Hp).
    + apply (named_in_flatten r p HKr Hp).
Qed.
End Exact.

(* ================================================================== *)
(* 6. reading the failing step off an error                            *)

Lemma bind_err {A B} (x : res A) (f : A -> res B) e :
  bind x f = Err e -> x = Err e \/ exists a, x = Ok a /\ f a = Err e.
Proof. destruct x as [a|e']; cbn; intros H; [right; eauto|left; inversion H; reflexivity]. Qed.

Section EWalk.
Variables l r : sorted.
Let PA := posargs l ++ pokargs l.
Let PB := posargs r ++ pokargs r.
Let KA := kwoargs l.
Let KB := kwoargs r.
Let vaA := isSome (varargs l).
Let vkA := isSome (varkwargs l).
Let vaB := isSome (varargs r).
Let vkB := isSome (varkwargs r).
Hypothesis HKl : kinds_ok l.
Hypothesis HKr : kinds_ok r.
Hypothesis HNl : NoDup (names_of (flatten l)).
Hypothesis HNr : NoDup (names_of (flatten r)).
Hypothesis HR1 : forall p q, In p (flatten l) -> In q (flatten r) -> pname p = pname q -> pkind p = pkind q.

(* an unbalanced required parameter of side s the other side can take neither way *)
Definition FailP (s : side) : Prop :=
  match s with
  | L => exists t i, nth_error PA i = Some t /\ (length PB <= i)%nat /\ has_def t = false /\
                     vaB = false /\ (ispk t = false \/ vkB = false)
  | R => exists t i, nth_error PB i = Some t /\ (length PA <= i)%nat /\ has_def t = false /\
                     vaA = false /\ (ispk t = false \/ vkA = false)
  end.

Lemma head_index s st e x :
  NIs l r s st (e :: x) [] ->
  match s with
  | L => exists i, nth_error PA i = Some e /\ (length PB <= i)%nat
  | R => exists i, nth_error PB i = Some e /\ (length PA <= i)%nat
  end.
Proof.
  destruct s; cbn [NIs]; intros [].
  - destruct n_sufl as [pre E]. exists (length pre). fold PA in E. rewrite E. split; [apply nth_suffix|].
    destruct n_lockl as [X|X]; [discriminate|]. fold PA PB in X. rewrite E, app_length in X. cbn [length] in X. lia.
  - destruct n_sufr as [pre E]. exists (length pre). fold PB in E. rewrite E. split; [apply nth_suffix|].
    destruct n_lockr as [X|X]; [discriminate|]. fold PA PB in X. rewrite E, app_length in X. cbn [length] in X. lia.
Qed.

Lemma E_unb_pos1 s e x y st err :
  pkind e = PO -> NIs l r s st (e :: x) y -> unb_pos1 l r s e y st = Err err -> FailP s.
Proof.
  intros He HN E. unfold unb_pos1 in E. destruct y as [|o c]; [|discriminate].
  destruct (isSome (varargs (other l r s))) eqn:G; [discriminate|].
  destruct (has_def e) eqn:De; cbn [negb] in E; [discriminate|].
  pose proof (head_index s st e x HN) as HI. destruct s; cbn [other] in G; destruct HI as [i [Hi Hl]];
    exists e, i; repeat split; auto; left; apply ispk_PO; exact He.
Qed.

Lemma E_unb_pos_all s ps : forall x y st err,
  m_pok st = [] -> Forall isPO ps -> NIs l r s st (ps ++ x) y ->
  unb_pos_all l r s ps y st = Err err -> FailP s.
Proof.
  induction ps as [|p ps IH]; intros x y st err Hk HF HN E; cbn [unb_pos_all] in E; [discriminate|].
  apply bind_err in E. destruct E as [E|[[st1 y1] [E1 E2]]].
  - exact (E_unb_pos1 s p (ps ++ x) y st err (Forall_inv HF) HN E).
  - cbn [fst snd] in E2.
    pose proof (N_unb_pos1 l r s p (ps ++ x) y st st1 y1 Hk HN E1) as HN1.
    assert (Hk1 : m_pok st1 = []).
    { clear -Hk E1. unfold unb_pos1 in E1. destruct y as [|o c].
      - destruct (isSome (varargs (other l r s))); [inversion E1; subst; destruct s; exact Hk|].
        destruct (negb (has_def p)); [discriminate|]. inversion E1; subst. exact Hk.
      - inversion E1; subst. destruct (N.eqb (pname o) (pname p)); destruct s; exact Hk. }
    exact (IH x y1 st1 err Hk1 (Forall_inv_tail HF) HN1 E2).
Qed.

Lemma E_zip_pos lp : forall rp il ir st err,
  m_pok st = [] -> Forall isPO lp -> Forall isPO rp -> NIc l r st (lp ++ il) (rp ++ ir) ->
  zip_pos l r lp rp il ir st = Err err -> FailP L \/ FailP R.
Proof.
  induction lp as [|a lp IH]; intros rp il ir st err Hk Hl Hr HN E.
  - cbn [zip_pos] in E. apply bind_err in E. destruct E as [E|[[st1 y1] [_ E2]]]; [|discriminate].
    right. exact (E_unb_pos_all R rp ir il st err Hk Hr HN E).
  - destruct rp as [|b rp]; cbn [zip_pos] in E.
    + apply bind_err in E. destruct E as [E|[[st1 y1] [_ E2]]]; [|discriminate].
      left. exact (E_unb_pos_all L (a :: lp) il ir st err Hk Hl HN E).
    + eapply IH; [| | | |exact E]; [destruct (N.eqb (pname a) (pname b)); exact Hk|exact (Forall_inv_tail Hl)|exact (Forall_inv_tail Hr)|].
      eapply (NIs_pair l r L); [exact HN| | ]; destruct (N.eqb (pname a) (pname b)); prj Hk.
Qed.

Lemma E_unb_pok1 s e x st err :
  pkind e = PK -> NIs l r s st (e :: x) [] -> unb_pok1 l r s e st = Err err -> FailP s.
Proof.
  intros He HN E. unfold unb_pok1 in E.
  destruct (find_param (pname e) (unm st match s with L => R | R => L end)); [discriminate|].
  destruct (isSome (varargs (other l r s))) eqn:Gva; destruct (isSome (varkwargs (other l r s))) eqn:Gvk; cbn [andb] in E;
    try discriminate.
  destruct (has_def e) eqn:De; cbn [negb] in E; [discriminate|].
  pose proof (head_index s st e x HN) as HI. destruct s; cbn [other] in Gva, Gvk; destruct HI as [i [Hi Hl]];
    exists e, i; repeat split; auto.
Qed.

Lemma c_pk_x : forall p q, In p PA -> In q (kwoargs r) -> pname p <> pname q.
Proof.
  intros p q Hp Hq E. destruct (in_PA l HKl p Hp) as [Fp Kp]. destruct (in_kwo_l r HKr q Hq) as [Fq Kq].
  pose proof (HR1 p q Fp Fq E) as X. rewrite Kq in X. destruct Kp; congruence.
Qed.
Lemma c_kp_x : forall p q, In p (kwoargs l) -> In q PB -> pname p = pname q -> varargs l = None.
Proof.
  intros p q Hp Hq E. exfalso. destruct (in_PA r HKr q Hq) as [Fq Kq]. destruct (in_kwo_l l HKl p Hp) as [Fp Kp].
  pose proof (HR1 p q Fp Fq E) as X. rewrite Kp in X. destruct Kq; congruence.
Qed.

Lemma E_unb_pok_all s ps : forall st err,
  KI l r st -> Forall isPK ps -> incl ps (pokargs (my l r s)) -> NIs l r s st ps [] ->
  unb_pok_all l r s ps st = Err err -> FailP s.
Proof.
  induction ps as [|p ps IH]; intros st err HK HF Hi HN E; cbn [unb_pok_all] in E; [discriminate|].
  apply bind_err in E. destruct E as [E|[st1 [E1 E2]]].
  - exact (E_unb_pok1 s p ps st err (Forall_inv HF) HN E).
  - assert (Hp : In p (pokargs (my l r s))) by (apply Hi; left; reflexivity).
    apply (IH st1 err); [exact (K_unb_pok1 l r s p st st1 HK (Forall_inv HF) E1)|exact (Forall_inv_tail HF)| | |exact E2].
    + intros z Hz. apply Hi. right. exact Hz.
    + exact (N_unb_pok1 l r c_pk_x c_kp_x s p ps st st1 HK Hp HN E1).
Qed.

Lemma E_zip_pok il : forall ir st err,
  KI l r st -> Forall isPK il -> Forall isPK ir -> incl il (pokargs l) -> incl ir (pokargs r) ->
  NIc l r st il ir -> zip_pok l r il ir st = Err err -> FailP L \/ FailP R.
Proof.
  induction il as [|a il IH]; intros ir st err HK Hl Hr Il Ir HN E.
  - cbn [zip_pok] in E. right. exact (E_unb_pok_all R ir st err HK Hr Ir HN E).
  - destruct ir as [|b ir]; cbn [zip_pok] in E.
    + left. exact (E_unb_pok_all L (a :: il) st err HK Hl Il HN E).
    + eapply IH; [|exact (Forall_inv_tail Hl)|exact (Forall_inv_tail Hr)| | | |exact E].
      * destruct (N.eqb (pname a) (pname b)); unfold KI;
          cbn [m_pos m_pok m_kwo m_lunm m_runm set_pos set_pok set_kwo set_src add_src1 add_src2];
          [apply KIc_pok_snoc|apply KIc_pok_po]; try exact HK. exact (Forall_inv Hl).
      * intros z Hz. apply Il. right. exact Hz.
      * intros z Hz. apply Ir. right. exact Hz.
      * eapply (NIs_pair l r L); [exact HN| | ]; destruct (N.eqb (pname a) (pname b)); prj0.
Qed.
End EWalk.

Section ExactErr.
Variables l r : sorted.
Hypothesis HKl : kinds_ok l.
Hypothesis HKr : kinds_ok r.
Hypothesis HNl : NoDup (names_of (flatten l)).
Hypothesis HNr : NoDup (names_of (flatten r)).
Hypothesis HR1 : forall p q, In p (flatten l) -> In q (flatten r) -> pname p = pname q -> pkind p = pkind q.
Hypothesis HR2 : pos_agree (posl l) (posl r).
Hypothesis HDl : dsuf (posl l).
Hypothesis HDr : dsuf (posl r).

Lemma HR1' : forall p q, In p (flatten r) -> In q (flatten l) -> pname p = pname q -> pkind p = pkind q.
Proof. intros p q Hp Hq E. symmetry. apply HR1; auto. Qed.

Definition A4 (n : nat) (ks : list name) : bool :=
  acc4 (posl l) (kwoargs l) (isSome (varargs l)) (isSome (varkwargs l)) n ks.
Definition B4 (n : nat) (ks : list name) : bool :=
  acc4 (posl r) (kwoargs r) (isSome (varargs r)) (isSome (varkwargs r)) n ks.

Lemma failP_L n ks : FailP l r L -> A4 n ks && B4 n ks = false.
Proof.
  intros [t [i (Hi & Hl & Hd & Hva & Hk)]]. unfold A4, B4. rewrite Hva.
  apply (no_call_pos _ _ _ _ _ _ _ t i n ks Hi Hl Hd).
  destruct Hk as [Hk|Hk]; [left; exact Hk|right]. split; [exact Hk|].
  assert (Ht : In t (posargs l ++ pokargs l)) by (eapply nth_error_In; exact Hi).
  apply notin_app_names; [|apply (cross_l l r HKl HKr HR1 t Ht)].
  intros X. apply in_map_iff in X. destruct X as [b [Eb Hb]]. apply In_nth_error in Hb. destruct Hb as [j Hj].
  assert (i = j) by (apply (HR2 i j t b Hi Hj); congruence). subst j.
  assert (j' : (i < length (posl r))%nat) by (apply nth_error_Some; unfold posl; congruence). unfold posl in j'. lia.
Qed.

Lemma failP_R n ks : FailP l r R -> A4 n ks && B4 n ks = false.
Proof.
  intros [t [i (Hi & Hl & Hd & Hva & Hk)]]. rewrite andb_comm. unfold A4, B4. rewrite Hva.
  apply (no_call_pos _ _ _ _ _ _ _ t i n ks Hi Hl Hd).
  destruct Hk as [Hk|Hk]; [left; exact Hk|right]. split; [exact Hk|].
  assert (Ht : In t (posargs r ++ pokargs r)) by (eapply nth_error_In; exact Hi).
  apply notin_app_names; [|apply (cross_l r l HKr HKl HR1' t Ht)].
  intros X. apply in_map_iff in X. destruct X as [b [Eb Hb]]. apply In_nth_error in Hb. destruct Hb as [j Hj].
  assert (j = i) by (apply (HR2 j i b t Hj Hi); congruence). subst j.
  assert (j' : (i < length (posl l))%nat) by (apply nth_error_Some; unfold posl; congruence). unfold posl in j'. lia.
Qed.

Lemma forallb_false_ex {A} (f : A -> bool) xs : forallb f xs = false -> exists x, In x xs /\ f x = false.
Proof.
  induction xs as [|x xs IH]; cbn [forallb]; [discriminate|]. destruct (f x) eqn:E.
  - intros H. destruct (IH H) as [y [Hy Fy]]. exists y. split; [right; exact Hy|exact Fy].
  - intros _. exists x. split; [left; reflexivity|exact E].
Qed.

Lemma unmatched_err s st e :
  unmatched_kwo l r s st = Err e ->
  isSome (varkwargs (other l r s)) = false /\ exists q, In q (unm st s) /\ has_def q = false.
Proof.
  unfold unmatched_kwo. destruct (unm st s) as [|q u]; [discriminate|].
  destruct (isSome (varkwargs (other l r s))); [discriminate|].
  destruct (forallb has_def (q :: u)) eqn:F; [discriminate|]. intros _. split; [reflexivity|].
  apply forallb_false_ex. exact F.
Qed.

Theorem merger_exact_err e n ks :
  merger l r = Err e -> A4 n ks && B4 n ks = false.
Proof.
  unfold merger. fold st0. fold (st2 l r). intros E.
  destruct (AI_st2 l r HKl HKr HNl HNr HR1 HR2 HDl HDr) as [A2 P2]. pose proof (KI_st2 l r HKl) as K2.
  destruct (NI_st2 l r) as [N2 _]. destruct (st2_fields l r HNl) as (M2 & LU2 & RU2).
  pose proof HKl as (L1 & L2 & _). pose proof HKr as (R1 & R2 & _).
  apply bind_err in E. destruct E as [E|[[[st3 il] ir] [E3 E]]].
  { destruct (E_zip_pos l r _ _ _ _ _ e P2 L1 R1 N2 E); [apply failP_L|apply failP_R]; assumption. }
  destruct (W_zip_pos l r (posargs l) (posargs r) (pokargs l) (pokargs r) _ st3 il ir P2 A2 E3) as [A3 P3].
  destruct (K_zip_pos l r (posargs l) (posargs r) (pokargs l) (pokargs r) _ st3 il ir K2 L1 R1 E3) as (K3 & Il & Ir).
  pose proof (N_zip_pos l r (posargs l) (posargs r) (pokargs l) (pokargs r) _ st3 il ir P2 N2 E3) as N3.
  pose proof (U_zip_pos _ _ _ _ _ _ _ _ _ _ E3) as [U3l U3r].
  assert (Hil : Forall isPK il) by (apply Forall_forall; intros q Hq; rewrite Forall_forall in L2; apply L2, Il, Hq).
  assert (Hir : Forall isPK ir) by (apply Forall_forall; intros q Hq; rewrite Forall_forall in R2; apply R2, Ir, Hq).
  apply bind_err in E. destruct E as [E|[st4 [E4 E]]].
  { destruct (E_zip_pok l r HKl HKr HR1 il ir st3 e K3 Hil Hir Il Ir N3 E); [apply failP_L|apply failP_R]; assumption. }
  pose proof (W_zip_pok l r il ir st3 st4 A3 E4) as A4'. pose proof (K_zip_pok l r il ir st3 st4 K3 Hil Hir E4) as K4.
  pose proof (U_zip_pok l r HKl HKr HR1 il ir st3 st4 Hil Hir K3 A3 E4) as [U4l U4r].
  assert (LU4 : m_lunm st4 = unmat r (kwoargs l)) by congruence.
  assert (RU4 : m_runm st4 = r_unmatched l r) by congruence.
  apply bind_err in E. destruct E as [E|[st5 [E5 E]]].
  { (* a required keyword-only parameter of l that r cannot take *)
    destruct (unmatched_err L st4 e E) as [Hv [q [Hq Dq]]]. cbn [other unm] in Hv, Hq. rewrite LU4 in Hq.
    apply in_unmat in Hq. destruct Hq as [Hq Fq]. unfold A4, B4. rewrite Hv.
    apply (no_call_kwo _ _ _ _ _ _ _ q n ks Hq Dq).
    apply notin_app_names; [|apply find_param_none; exact Fq].
    intros X. apply in_map_iff in X. destruct X as [b [Eb Hb]].
    apply (cross_l r l HKr HKl HR1' b Hb). rewrite Eb. apply in_map. exact Hq. }
  apply bind_err in E. destruct E as [E|[st6 [E6 E]]].
  { (* a required keyword-only parameter of r that l cannot take *)
    destruct (unmatched_fine l r L st4 st5 E5) as (_ & _ & _ & F5d & _).
    destruct (unmatched_err R st5 e E) as [Hv [q [Hq Dq]]]. cbn [other unm] in Hv, Hq. rewrite F5d, RU4 in Hq.
    apply in_runm in Hq. destruct Hq as [Hq Fq]. rewrite andb_comm. unfold A4, B4. rewrite Hv.
    apply (no_call_kwo _ _ _ _ _ _ _ q n ks Hq Dq).
    apply notin_app_names; [|apply find_param_none; exact Fq].
    intros X. apply in_map_iff in X. destruct X as [b [Eb Hb]].
    apply (cross_l l r HKl HKr HR1 b Hb). rewrite Eb. apply in_map. exact Hq. }
  exfalso.
  destruct (add_star l r (m_xva_l (normalise_pok st6)) (m_xva_r (normalise_pok st6)) (varargs l) (varargs r)
                     (normalise_pok st6)) as [va st8].
  destruct (add_star l r (m_xvk_l st8) (m_xvk_r st8) (varkwargs l) (varkwargs r) st8) as [vk st9].
  discriminate.
Qed.
End ExactErr.

(* ================================================================== *)
(* 7. C09_exact                                                        *)

Lemma aligned_of_name_aligned a b :
  valid_sig (params a) = true -> valid_sig (params b) = true ->
  name_aligned (params a) (params b) = true ->
  aligned_lists (posl (sort_params a)) (posl (sort_params b)) = true.
Proof.
  intros Va Vb H. unfold posl.
  rewrite <- (positional_flatten _ (sort_params_kinds a)), <- (positional_flatten _ (sort_params_kinds b)).
  rewrite (sort_flatten_roundtrip a Va), (sort_flatten_roundtrip b Vb). exact H.
Qed.

Theorem merge_exact a b :
  valid_sig (params a) = true -> valid_sig (params b) = true ->
  name_aligned (params a) (params b) = true ->
  role_consistent [params a; params b] = true ->
  match merge [a; b] with
  | Ok r => forall c, noncolliding c (params r) [params a; params b] = true ->
                      accepts (params r) c = accepts (params a) c && accepts (params b) c
  | Err e => e = Incompatible /\ forall c, accepts (params a) c && accepts (params b) c = false
  end.
Proof.
  intros Va Vb Hal Hrc. pose proof (rc_pair_agree _ _ Hrc) as Hr.
  pose proof (sort_flatten_roundtrip a Va) as Fa. pose proof (sort_flatten_roundtrip b Vb) as Fb.
  pose proof (sort_params_kinds a) as Ka. pose proof (sort_params_kinds b) as Kb.
  assert (Na : NoDup (names_of (flatten (sort_params a)))) by (rewrite Fa; apply validate_nodup; apply (valid_sig_parts _ Va)).
  assert (Nb : NoDup (names_of (flatten (sort_params b)))) by (rewrite Fb; apply validate_nodup; apply (valid_sig_parts _ Vb)).
  pose proof (orig_kinds a b Va Vb Hr) as H1. pose proof (orig_pos a b Va Vb Hr) as H2.
  pose proof (dsuf_of_valid a Va) as Da. pose proof (dsuf_of_valid b Vb) as Db.
  pose proof (aligned_of_name_aligned a b Va Vb Hal) as HA.
  pose proof (merge_rc_ok_iff_merger a b Va Vb Hrc) as HM.
  destruct (merger (sort_params a) (sort_params b)) as [acc|e] eqn:E.
  - rewrite HM. cbn [params]. intros c HN. rewrite <- Fa, <- Fb at 1. rewrite <- Fa, <- Fb in HN.
    rewrite (merger_exact_ok _ _ Ka Kb Na Nb H1 H2 Da Db HA acc c E HN). rewrite Fa, Fb. reflexivity.
  - rewrite HM. split; [reflexivity|]. intros c.
    rewrite <- Fa, <- Fb. rewrite (accepts_flatten _ c Ka), (accepts_flatten _ c Kb).
    exact (merger_exact_err _ _ Ka Kb Na Nb H1 H2 Da Db e (npos c) (kws c) E).
Qed.

(* the form of Props/C09.v (C09_exact_pairs_U2) without the universe bound *)
Corollary merge_exact_mk (a b : list param) :
  valid_sig a = true -> valid_sig b = true ->
  name_aligned a b = true -> role_consistent [a; b] = true ->
  match merge [mkSig a None UEmpty [] []; mkSig b None UEmpty [] []] with
  | Ok r => forall c, noncolliding c (params r) [a; b] = true ->
                      accepts (params r) c = accepts a c && accepts b c
  | Err e => e = Incompatible /\ forall c, accepts a c && accepts b c = false
  end.
Proof. intros Va Vb Hal Hrc. exact (merge_exact (mkSig a None UEmpty [] []) (mkSig b None UEmpty [] []) Va Vb Hal Hrc). Qed.

(* the hypotheses are satisfiable on non-trivial inputs, in all three outcomes
   (names a=1 b=2 c=3 d=4 args=9 kwargs=10) *)
Example merge_exact_example :
  let a := mkSig [mkParam 1 PK None None UEmpty; mkParam 2 PK (Some 1) None UEmpty; mkParam 3 PK (Some 1) None UEmpty;
                  mkParam 4 KO None None UEmpty] None UEmpty [] [] in
  let b := mkSig [mkParam 1 PK None None UEmpty; mkParam 2 PK None None UEmpty; mkParam 10 VK None None UEmpty]
                 None UEmpty [] [] in
  let c := mkSig [mkParam 1 PK None None UEmpty] None UEmpty [] [] in
  valid_sig (params a) = true /\ valid_sig (params b) = true /\ valid_sig (params c) = true /\
  name_aligned (params a) (params b) = true /\ role_consistent [params a; params b] = true /\
  name_aligned (params a) (params c) = true /\ role_consistent [params a; params c] = true /\
  (exists r, merge [a; b] = Ok r /\
     params r = [mkParam 1 PK None None UEmpty; mkParam 2 PK None None UEmpty;
                 mkParam 3 KO (Some 1) None UEmpty; mkParam 4 KO None None UEmpty]) /\
  merge [a; c] = Err Incompatible.
Proof. cbv zeta. repeat split; try (vm_compute; reflexivity). eexists. split; vm_compute; reflexivity. Qed.

Print Assumptions merger_MR.
Print Assumptions merger_exact_ok.
Print Assumptions merger_exact_err.
Print Assumptions merge_exact.
Print Assumptions merge_exact_mk.
Print Assumptions merge_exact_example.
