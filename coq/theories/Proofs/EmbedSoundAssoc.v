(* EmbedSoundAssoc.v -- C02_assoc for ALL valid signatures and any arity:
   whenever embed(a, b) succeeds, embed(a, b, rest...) and
   embed(embed(a, b), rest...) have the same outcome: the same parameters or the
   same error.  IncompatibleSignatures of embed(a, b) is IncompatibleSignatures
   of embed(a, b, rest...).  The remaining clause of the bounded theorem ("every
   failure of embed(a, b) is a failure of embed(a, b, c)") is refuted: a plain
   ValueError of embed(a, b) -- a star named like a parameter -- can disappear
   when a third signature renames the star. *)
From Sigtools.Model Require Import Base Bind Roles Algebra.
From Sigtools.Proofs Require Import SmallModel Basics MaskLaws MaskExact MergeNeutral MergeIdem
     MaskNamesLib FoldLaw MergeSoundBase MergeSoundInv MergeSound SweepDefs2 EmbedSoundStars EmbedSoundAcc EmbedSound.
From Coq Require Import Lia.

(* a classified signature without its depth table *)
Definition strip (s : sorted) : sorted :=
  mkSorted (posargs s) (pokargs s) (varargs s) (kwoargs s) (varkwargs s) (ssrc s) [].

Lemma strip_fields s s' :
  strip s = strip s' ->
  posargs s = posargs s' /\ pokargs s = pokargs s' /\ varargs s = varargs s' /\
  kwoargs s = kwoargs s' /\ varkwargs s = varkwargs s' /\ ssrc s = ssrc s'.
Proof. unfold strip. intros H. injection H. intros. repeat split; assumption. Qed.

Lemma strip_flatten s s' : strip s = strip s' -> flatten s = flatten s'.
Proof. intros H. apply strip_fields in H. destruct H as (A & B & C & D & E & _). unfold flatten. rewrite A, B, C, D, E. reflexivity. Qed.

(* outcomes equal up to the depth table *)
Definition same_res (x y : res sorted) : Prop :=
  match x, y with
  | Ok r, Ok r' => strip r = strip r'
  | Err e, Err e' => e = e'
  | _, _ => False
  end.

(* the depth of the step and the depth table of the outer operand only reach
   the depth table of the result *)
Lemma embed_step_congr O O' I uva uvk d d' :
  strip O = strip O' -> same_res (embed_step O I uva uvk d) (embed_step O' I uva uvk d').
Proof.
  intros H. apply strip_fields in H. destruct H as (A & B & C & D & E & F).
  unfold embed_step. rewrite <- A, <- B, <- C, <- D, <- E, <- F.
  destruct (merger I (mkSorted [] [] (opt_if uva (varargs O)) [] (opt_if uvk (varkwargs O)) [] [])) as [Y|e];
    [|reflexivity]. cbn [bind].
  destruct (check_no_dupes [] (posargs O)) as [n1|e]; [|reflexivity]. cbn [bind].
  destruct (check_no_dupes n1 (pokargs O)) as [n2|e]; [|reflexivity]. cbn [bind].
  match goal with |- same_res (bind ?m _) (bind ?m _) => destruct m as [[[e_pos e_pok] n3]|e]; [|reflexivity] end.
  cbn [bind].
  destruct (check_no_dupes n3 (pokargs Y)) as [n4|e]; [|reflexivity]. cbn [bind].
  destruct (check_no_dupes n4 (kwoargs O)) as [n5|e]; [|reflexivity]. cbn [bind].
  destruct (check_no_dupes n5 (kwoargs Y)) as [n6|e]; [|reflexivity]. cbn [bind].
  reflexivity.
Qed.

Lemma same_res_incompat x y : same_res x y -> same_res (to_incompatible x) (to_incompatible y).
Proof. destruct x as [r|[| |t]], y as [r'|[| |t']]; cbn; auto; try discriminate; intros H; inversion H; reflexivity. Qed.

Lemma embed_steps_congr ss : forall acc acc' uva uvk d d',
  strip acc = strip acc' -> same_res (embed_steps acc ss uva uvk d) (embed_steps acc' ss uva uvk d').
Proof.
  induction ss as [|s ss IH]; intros acc acc' uva uvk d d' H; cbn [embed_steps]; [exact H|].
  pose proof (same_res_incompat _ _ (embed_step_congr acc acc' (sort_params s) uva uvk d d' H)) as H1.
  destruct (to_incompatible (embed_step acc (sort_params s) uva uvk d)) as [r|e],
           (to_incompatible (embed_step acc' (sort_params s) uva uvk d')) as [r'|e']; cbn [same_res bind] in *;
    try contradiction; [|exact H1].
  apply IH. exact H1.
Qed.

(* ------------------------------------------------------------------ *)
(* the result of one step is kind-normal                                *)

Lemma od_update_forall (Pp : param -> Prop) lst : forall d, Forall Pp d -> Forall Pp lst -> Forall Pp (od_update d lst).
Proof.
  unfold od_update. induction lst as [|p lst IH]; intros d Hd Hl; [exact Hd|]. cbn [fold_left].
  inversion Hl; subst. apply IH; [apply od_set_forall; assumption|assumption].
Qed.

Lemma Forall_clear (k : kind) ps : Forall (fun p => pkind p = k) ps -> Forall (fun p => pkind p = k) (clear_defaults ps).
Proof. unfold clear_defaults. intros H. apply Forall_map. exact H. Qed.

Lemma embed_step_kinds O I uva uvk d res :
  kinds_ok O -> kinds_ok I -> NoDup (names_of (posargs I ++ pokargs I ++ kwoargs I)) ->
  embed_step O I uva uvk d = Ok res -> kinds_ok res.
Proof.
  intros KO_ KI NI E.
  unfold embed_step in E. apply bind_ok in E. destruct E as [Y [EY E]].
  assert (KY : kinds_ok Y).
  { change (merger I (starsO O uva uvk) = Ok Y) in EY.
    destruct (closedY O I uva uvk KO_ KI NI Y EY) as (_ & Y1 & Y2 & Y3 & _ & _ & [Y6 Y7]).
    destruct KI as (K1 & K2 & _ & K4 & _).
    unfold kinds_ok. rewrite Y1, Y2, Y3. unfold reach_pos, reach_pok, reach_kwo.
    split; [|split; [|split; [exact Y6|split; [|exact Y7]]]].
    - destruct (uva && isSome (varargs O)); [|constructor]. apply Forall_app. split; [exact K1|].
      destruct (uvk && isSome (varkwargs O)); [constructor|]. apply Forall_map. apply Forall_forall. intros; reflexivity.
    - destruct (uva && isSome (varargs O) && (uvk && isSome (varkwargs O))); [exact K2|constructor].
    - destruct (uvk && isSome (varkwargs O)); [|constructor]. apply Forall_app. split; [|exact K4].
      destruct (uva && isSome (varargs O)); [constructor|]. apply Forall_map. apply Forall_forall. intros; reflexivity. }
  destruct KY as (Y1 & Y2 & Y3 & Y4 & Y5).
  destruct KO_ as (Q1 & Q2 & Q3 & Q4 & Q5).
  apply bind_ok in E. destruct E as [n1 [_ E]]. apply bind_ok in E. destruct E as [n2 [_ E]].
  apply bind_ok in E. destruct E as [[[e_pos e_pok] n3] [Ee E]].
  apply bind_ok in E. destruct E as [n4 [_ E]]. apply bind_ok in E. destruct E as [n5 [_ E]].
  apply bind_ok in E. destruct E as [n6 [_ E]]. inversion E; subst res; clear E.
  assert (Main : Forall (fun p => pkind p = PO) e_pos /\ Forall (fun p => pkind p = PK) e_pok).
  { destruct (posargs Y) as [|ip0 ipr] eqn:Ep.
    - destruct (pokargs Y) as [|ik0 ikr]; [inversion Ee; subst; auto|].
      destruct (has_def ik0); inversion Ee; subst; auto using Forall_clear.
    - apply bind_ok in Ee. destruct Ee as [n3' [_ Ee]].
      assert (X : Forall (fun p => pkind p = PO) (posargs O ++ map (set_kind PO) (pokargs O))).
      { apply Forall_app. split; [exact Q1|]. apply Forall_map. apply Forall_forall. intros; reflexivity. }
      destruct (has_def ip0); inversion Ee; subst; (split; [|constructor]); apply Forall_app; split; auto using Forall_clear. }
  destruct Main as [M1 M2].
  unfold kinds_ok. cbn [posargs pokargs varargs kwoargs varkwargs].
  split; [exact M1|]. split; [apply Forall_app; auto|]. split; [destruct uva; auto|].
  split; [|destruct uvk; auto].
  apply od_update_forall; [apply od_update_forall; [constructor|exact Q4]|exact Y4].
Qed.

(* ------------------------------------------------------------------ *)
(* associativity                                                        *)

Definition same_sig (x y : res sigT) : Prop :=
  match x, y with
  | Ok r, Ok r' => params r = params r'
  | Err e, Err e' => e = e'
  | _, _ => False
  end.

Theorem C02_assoc a b rest uva uvk ab :
  valid_sig (params b) = true ->
  embed [a; b] uva uvk = Ok ab ->
  same_sig (embed (a :: b :: rest) uva uvk) (embed (ab :: rest) uva uvk).
Proof.
  intros Vb E.
  pose proof (embed_wf _ _ _ _ E) as Vab.
  cbn [embed embed_steps] in E. apply bind_ok in E. destruct E as [acc [E1 E2]].
  apply bind_ok in E1. destruct E1 as [acc1 [E1 E3]]. inversion E3; subst acc; clear E3.
  pose proof (to_incompatible_ok _ _ E1) as Es.
  assert (Hab : ab = mkSig (flatten acc1) (ret a) (uret a) (ssrc acc1) (sdep acc1)).
  { unfold apply_params in E2. destruct (validate (flatten acc1)); inversion E2; reflexivity. }
  assert (Hpar : params ab = flatten acc1) by (rewrite Hab; reflexivity).
  pose proof (embed_step_kinds _ _ _ _ _ acc1 (sort_params_kinds a) (sort_params_kinds b) (sorted_named_nodup b Vb) Es) as K1.
  assert (Nk : NoDup (names_of (kwoargs acc1))).
  { rewrite Hpar in Vab. apply validate_nodup in Vab. apply nodup_kwo. exact Vab. }
  assert (Hsort : sort_params ab = acc1) by (rewrite Hab; apply sort_flatten_inverse; assumption).
  cbn [embed embed_steps]. rewrite E1. cbn [bind]. rewrite Hsort.
  pose proof (embed_steps_congr rest acc1 acc1 uva uvk (1 + 1) 1 eq_refl) as HC.
  destruct (embed_steps acc1 rest uva uvk (1 + 1)) as [r|e], (embed_steps acc1 rest uva uvk 1) as [r'|e'];
    cbn [same_res bind] in *; try contradiction; [|exact HC].
  unfold apply_params. rewrite (strip_flatten _ _ HC).
  destruct (validate (flatten r')); cbn [same_sig params]; reflexivity.
Qed.

(* the three-signature form of the bounded theorem C02_assoc_U1 *)
Corollary C02_assoc3 a b c uva uvk ab :
  valid_sig (params b) = true ->
  embed [a; b] uva uvk = Ok ab ->
  same_sig (embed [a; b; c] uva uvk) (embed [ab; c] uva uvk).
Proof. intros Vb E. exact (C02_assoc a b [c] uva uvk ab Vb E). Qed.

(* IncompatibleSignatures of the first pair is the outcome of the whole fold *)
Theorem C02_assoc_incompatible a b rest uva uvk :
  embed [a; b] uva uvk = Err Incompatible -> embed (a :: b :: rest) uva uvk = Err Incompatible.
Proof.
  intros E. cbn [embed embed_steps] in *.
  destruct (to_incompatible (embed_step (sort_params a) (sort_params b) uva uvk 1)) as [acc1|e] eqn:E1; cbn [bind] in *.
  - unfold apply_params in E. destruct (validate (flatten acc1)); discriminate.
  - exact E.
Qed.

(* ... but a plain ValueError of the first pair need not be one of the fold:
   (x, **kw) embedding ( **x ) has the star named like the parameter x; a third
   signature ( **k2 ) renames the star *)
Theorem C02_assoc_error_clause_refuted :
  exists a b c,
    valid_sig (params a) = true /\ valid_sig (params b) = true /\ valid_sig (params c) = true /\
    embed [a; b] true true = Err ValueErr /\ exists r, embed [a; b; c] true true = Ok r.
Proof.
  exists (mkSig [mkParam 1 PK None None UEmpty; mkParam 10 VK None None UEmpty] None UEmpty [] []),
         (mkSig [mkParam 1 VK None None UEmpty] None UEmpty [] []),
         (mkSig [mkParam 12 VK None None UEmpty] None UEmpty [] []).
  vm_compute. repeat split. eexists. reflexivity.
Qed.

Example C02_assoc_nonvacuous :
  let a := mkSig [mkParam 1 PK None None UEmpty; mkParam 9 VP None None UEmpty;
                  mkParam 10 VK None None UEmpty] None UEmpty [] [] in
  let b := mkSig [mkParam 2 PK (Some 1) None UEmpty; mkParam 9 VP None None UEmpty;
                  mkParam 10 VK None None UEmpty] None UEmpty [] [] in
  let c := mkSig [mkParam 3 KO None None UEmpty] None UEmpty [] [] in
  valid_sig (params b) = true /\
  exists ab r, embed [a; b] true true = Ok ab /\ embed [a; b; c] true true = Ok r /\
               params r = [mkParam 1 PK None None UEmpty; mkParam 2 PK (Some 1) None UEmpty;
                           mkParam 3 KO None None UEmpty].
Proof. vm_compute. split; [reflexivity|]. eexists. eexists. repeat split. Qed.

(* ------------------------------------------------------------------ *)
(* a first n-ary lift of soundness, in nested form                      *)

Lemma wk_valid_sig S : wk S -> validate (flatten S) = true -> valid_sig (flatten S) = true.
Proof.
  intros (W1 & W2 & W3 & W4) Hval. unfold valid_sig. rewrite Hval. cbn [andb].
  assert (Hopt : forall (f : param -> bool) o, (length (filter f (opt_list o)) <= 1)%nat).
  { intros f o. destruct o as [x|]; cbn [opt_list filter length]; [destruct (f x); cbn; lia|lia]. }
  assert (Hcount : forall k, (k = VP \/ k = VK) -> (count_kind k (flatten S) <= 1)%nat).
  { intros k Hk. unfold count_kind. rewrite flatten_regroup.
    remember (posargs S ++ pokargs S) as P. rewrite !filter_app, !app_length.
    rewrite (MergeSoundBase.filter_none _ P), (MergeSoundBase.filter_none _ (kwoargs S)).
    - cbn [length]. destruct Hk as [-> | ->].
      + rewrite (MergeSoundBase.filter_none _ (opt_list (varkwargs S))).
        * cbn [length]. pose proof (Hopt (is_kind VP) (varargs S)). lia.
        * intros q Hq. apply opt_list_in in Hq. unfold is_kind. rewrite (W4 q Hq). reflexivity.
      + rewrite (MergeSoundBase.filter_none _ (opt_list (varargs S))).
        * cbn [length]. pose proof (Hopt (is_kind VK) (varkwargs S)). lia.
        * intros q Hq. apply opt_list_in in Hq. unfold is_kind. rewrite (W3 q Hq). reflexivity.
    - intros q Hq. unfold is_kind. rewrite (W2 q Hq). destruct Hk as [-> | ->]; reflexivity.
    - intros q Hq. subst P. apply is_kind_positional; [apply W1; exact Hq|tauto]. }
  rewrite (proj2 (Nat.leb_le _ _) (Hcount VP (or_introl eq_refl))).
  rewrite (proj2 (Nat.leb_le _ _) (Hcount VK (or_intror eq_refl))). reflexivity.
Qed.

Theorem embed2_valid a b uva uvk ab :
  valid_sig (params b) = true -> embed [a; b] uva uvk = Ok ab -> valid_sig (params ab) = true.
Proof.
  intros Vb E. pose proof (embed_wf _ _ _ _ E) as Vab.
  destruct (embed2_ok a b uva uvk ab E) as [res [Es Hr]]. rewrite Hr in *.
  apply wk_valid_sig; [|exact Vab]. apply kinds_ok_wk.
  exact (embed_step_kinds _ _ _ _ _ res (sort_params_kinds a) (sort_params_kinds b) (sorted_named_nodup b Vb) Es).
Qed.

(* embed(a, b, c): a call accepted by the result is accepted by embed(a, b),
   which forwards its surplus to c, and by a, which forwards its surplus to b.
   Partial: it asks embed(a, b) to be a signature of its own and the call not
   to collide at the inner level either; the flat n-ary chain (the surplus of
   embed(a, b) expressed through the surpluses of a and b) is not proved. *)
Theorem C02_sound3_partial a b c uva uvk ab r c0 :
  valid_sig (params a) = true -> valid_sig (params b) = true -> valid_sig (params c) = true ->
  embed [a; b] uva uvk = Ok ab -> embed [a; b; c] uva uvk = Ok r ->
  noncolliding c0 (params r) [params ab; params c] = true ->
  noncolliding c0 (params ab) [params a; params b] = true ->
  accepts (params r) c0 = true ->
  chain (params ab) (params c) uva uvk 0 [] c0 = true /\ chain (params a) (params b) uva uvk 0 [] c0 = true.
Proof.
  intros Va Vb Vc Eab Er N1 N2 Hc.
  pose proof (C02_assoc3 a b c uva uvk ab Vb Eab) as HA. rewrite Er in HA.
  destruct (embed [ab; c] uva uvk) as [r'|e] eqn:Er'; [|contradiction]. cbn [same_sig] in HA.
  rewrite HA in N1, Hc.
  pose proof (C02_sound ab c uva uvk r' c0 (embed2_valid a b uva uvk ab Vb Eab) Vc Er' N1 Hc) as H1.
  split; [exact H1|]. unfold chain in H1. apply andb_true_iff in H1. destruct H1 as [H1 _].
  exact (C02_sound a b uva uvk ab c0 Va Vb Eab N2 H1).
Qed.

Print Assumptions C02_assoc.
Print Assumptions C02_assoc3.
Print Assumptions C02_assoc_incompatible.
Print Assumptions C02_assoc_error_clause_refuted.
Print Assumptions C02_assoc_nonvacuous.
Print Assumptions embed2_valid.
Print Assumptions C02_sound3_partial.
