(* ForwardsSound.v -- C04 for ALL valid signatures: the signature declared by
   forwards(wrapper, inner, n, names, ...) against executing the wrapper, whose body
   calls inner(<n literals>, *args, <names>=.., **kwargs):
     wrapper_exec o i n names uva uvk c  :=  chain o i uva uvk n names c
   i.e. the wrapper accepts c and inner accepts n + surplus positionals with the
   keywords names ++ surplus keywords.
     C04_exec_sound   a non-colliding call accepted by the declared signature executes;
     C04_exec_exact   and conversely, when no default of the wrapper was cleared;
     C04_partial_*    with partial=True the same against the inner function with every
                      named parameter optional: only surplus arguments are rejected;
     C04_raises_*     IncompatibleSignatures / ValueError only when a name is shared or
                      no call can execute.
   Corollaries of C02 (EmbedSound.v) and of the exactness of mask (MaskNames.v). *)
From Sigtools.Model Require Import Base Bind Roles Algebra.
From Sigtools.Proofs Require Import SmallModel Basics MaskLaws MaskExact MaskNamesLib MaskNamesStep MaskNames
     MergeNeutral MergeIdem FoldLaw SweepDefs2.
From Sigtools.Proofs Require Import MergeSoundBase MergeSoundInv MergeSound MergeSoundMixed
     EmbedSoundStars EmbedSoundAcc EmbedSound EmbedSoundAssoc.
From Coq Require Import Lia.

(* executing the wrapper *)
Definition wrapper_exec (o i : list param) (n : nat) (names0 : list name) (uva uvk : bool) (c : call) : bool :=
  chain o i uva uvk n names0 c.

(* ------------------------------------------------------------------ *)
(* what mask(inner, n, names) keeps of the inner signature              *)

Lemma od_update_names_incl l : forall d x,
  In x (names_of (od_update d l)) -> In x (names_of d) \/ In x (names_of l).
Proof.
  unfold od_update. induction l as [|p l IH]; intros d x H; cbn [fold_left] in H; [left; exact H|].
  destruct (IH _ _ H) as [H1|H1]; [|right; right; exact H1].
  assert (G : forall d0, In x (names_of (od_set d0 p)) -> In x (names_of d0) \/ x = pname p).
  { induction d0 as [|q d0 IHd]; cbn [od_set names_of map In]; [intros [E|[]]; right; symmetry; exact E|].
    destruct (N.eqb_spec (pname p) (pname q)) as [E|_]; cbn [names_of map In].
    - intros [E'|X]; [right; symmetry; exact E'|left; right; exact X].
    - intros [E'|X]; [left; left; exact E'|]. destruct (IHd X) as [Y|Y]; [left; right; exact Y|right; exact Y]. }
  destruct (G d H1) as [Y|Y]; [left; exact Y|right; left; symmetry; exact Y].
Qed.

Definition named_names (st : kstate) : list name := names_of (k_pok st ++ k_kwo st).

Lemma mask_name_named hv st x v st' :
  mask_name None hv st (x, v) = Ok st' -> incl (named_names st') (named_names st).
Proof.
  unfold mask_name, named_names. cbn [fst snd]. destruct (mem x (k_consumed st)); [discriminate|].
  pose proof (split_at_name_spec x (k_pok st)) as Sp.
  destruct (split_at_name x (k_pok st)) as [[[before p] after]|].
  - destruct Sp as (E & _ & _). intros H. inversion H; subst st'; clear H. cbn [k_pok k_kwo].
    intros y Hy. rewrite E. rewrite MergeSoundBase.names_app in Hy. apply in_app_or in Hy.
    rewrite !MergeSoundBase.names_app. cbn [names_of map].
    destruct Hy as [Hy|Hy]; [apply in_or_app; left; apply in_or_app; left; exact Hy|].
    apply od_update_names_incl in Hy. destruct Hy as [Hy|Hy].
    + apply in_or_app. right. exact Hy.
    + rewrite names_of_set_kind in Hy. apply in_or_app. left. apply in_or_app. right. right. exact Hy.
  - destruct (find_param x (k_kwo st)) as [p|].
    + intros H. inversion H; subst st'; clear H. cbn [k_pok k_kwo].
      intros y Hy. rewrite MergeSoundBase.names_app in *. apply in_app_or in Hy. apply in_or_app.
      destruct Hy as [Hy|Hy]; [left; exact Hy|right]. apply names_remove in Hy. tauto.
    + destruct (negb hv); [discriminate|]. intros H. inversion H; subst st'. cbn [k_pok k_kwo]. apply incl_refl.
Qed.

Lemma mask_names_named hv : forall kvs st st',
  mask_names None hv st kvs = Ok st' -> incl (named_names st') (named_names st).
Proof.
  induction kvs as [|[x v] kvs IH]; intros st st' H; cbn [mask_names] in H.
  - inversion H; subst. apply incl_refl.
  - apply bind_ok in H. destruct H as [st1 [H1 H2]].
    intros y Hy. apply (mask_name_named hv st x v st1 H1). exact (IH st1 st' H2 y Hy).
Qed.

(* names of the named parameters of a valid signature, on its buckets *)
Lemma named_of_sorted s :
  valid_sig (params s) = true ->
  filter is_named (params s) =
  posargs (sort_params s) ++ pokargs (sort_params s) ++ kwoargs (sort_params s).
Proof.
  intros Hv. rewrite <- (sort_flatten_roundtrip s Hv). unfold flatten.
  destruct (sort_params_kinds s) as (K1 & K2 & K3 & K4 & K5). rewrite Forall_forall in K1, K2, K4.
  rewrite !filter_app.
  rewrite (MergeSoundBase.filter_all is_named (posargs _)), (MergeSoundBase.filter_all is_named (pokargs _)),
          (MergeSoundBase.filter_all is_named (kwoargs _)).
  - assert (E1 : filter is_named (opt_list (varargs (sort_params s))) = []).
    { destruct (varargs (sort_params s)) as [v|] eqn:E; [|reflexivity]. cbn. unfold is_named. rewrite (K3 v eq_refl). reflexivity. }
    assert (E2 : filter is_named (opt_list (varkwargs (sort_params s))) = []).
    { destruct (varkwargs (sort_params s)) as [v|] eqn:E; [|reflexivity]. cbn. unfold is_named. rewrite (K5 v eq_refl). reflexivity. }
    rewrite E1, E2, app_nil_r. reflexivity.
  - intros q Hq. unfold is_named. rewrite (K4 q Hq). reflexivity.
  - intros q Hq. unfold is_named. rewrite (K2 q Hq). reflexivity.
  - intros q Hq. unfold is_named. rewrite (K1 q Hq). reflexivity.
Qed.

Theorem mask_keeps i n names0 m :
  valid_sig (params i) = true -> NoDup names0 ->
  mask i n names0 nohide0 = Ok m ->
  valid_sig (params m) = true /\
  incl (names_of (params m)) (names_of (params i)) /\
  incl (names_of (filter is_named (params m))) (names_of (filter is_named (params i))) /\
  incl (names_of (filter is_kwpassable (params m))) (names_of (filter is_kwpassable (params i))) /\
  (* completeness of the masked signature, colliding calls included *)
  (forall mm K, (forall x, In x names0 -> ~ In x K) ->
     accepts (params i) (mkCall (n + mm) (names0 ++ K)) = true -> accepts (params m) (mkCall mm K) = true).
Proof.
  intros Hv Hnd E.
  pose proof (mask_wf _ _ _ _ _ E) as Hval.
  unfold mask in E. rewrite mask_gen_unfold in E. cbv zeta in E.
  set (so := sort_params i) in *. set (named := map (fun x => (x, 0)) names0) in *.
  destruct (Nat.ltb (length (posargs so ++ pokargs so)) n && negb (isSome (varargs so))); [discriminate|].
  apply bind_ok in E. destruct E as [st [E1 E2]].
  assert (Em : params m = kps (skipn n (posargs so)) (varkwargs so) st).
  { unfold apply_params in E2. destruct (validate _); inversion E2; reflexivity. }
  assert (Efst : map fst named = names0) by (unfold named; apply map_fst_pair).
  pose proof (st0_inv i n Hv) as Hinv0. fold so in Hinv0.
  assert (Hcons : forall x, In x (map fst named) -> ~ In x (k_consumed (st0_of so n))).
  { intros x Hx Hc. rewrite (mask_names_consumed_err None _ named (st0_of so n) x Hx Hc) in E1. discriminate. }
  assert (Hnd' : NoDup (map fst named)) by (rewrite Efst; exact Hnd).
  pose proof (mask_names_chain None (isSome (varkwargs so)) (skipn n (posargs so)) (varkwargs so) named (st0_of so n)
                Hinv0 eq_refl Hnd' Hcons (fun H => False_ind _ (H eq_refl))) as HC.
  rewrite E1 in HC. destruct HC as ((HK & HN & HD) & Hnames & Hacc).
  pose proof (st0_kps i n) as Ekps. fold so in Ekps. pose proof (params_AB i Hv) as Hf. fold so in Hf.
  destruct (sort_params_kinds i) as (K1 & K2 & K3 & K4 & K5). fold so in K1, K2, K3, K4, K5.
  (* the result as a classified signature *)
  set (M := mkSorted (skipn n (posargs so)) (k_pok st) (k_va st) (k_kwo st) (varkwargs so) [] []).
  assert (EM : params m = flatten M) by (rewrite Em; reflexivity).
  assert (KM : kinds_ok M) by exact HK.
  split; [|split; [|split; [|split]]].
  - rewrite EM. apply wk_valid_sig; [apply kinds_ok_wk; exact KM|rewrite <- EM; exact Hval].
  - intros y Hy. rewrite Em in Hy. destruct (Hnames y Hy) as [H|[H _]]; [|exfalso; apply H; reflexivity].
    rewrite Ekps in H. rewrite <- Hf. apply MergeSoundBase.names_in in H. destruct H as [q [Hq <-]].
    apply MergeSoundBase.in_names. apply in_app_or in Hq. apply in_or_app. destruct Hq as [Hq|Hq]; [left|right; exact Hq].
    rewrite <- (firstn_skipn n (posargs so ++ pokargs so)). apply in_or_app. right. exact Hq.
  - (* named parameters *)
    assert (Hnm : incl (named_names st) (named_names (st0_of so n))) by (exact (mask_names_named _ named _ st E1)).
    rewrite (named_of_sorted i Hv). fold so.
    assert (EnM : filter is_named (params m) = skipn n (posargs so) ++ k_pok st ++ k_kwo st).
    { rewrite EM. unfold flatten. cbn [posargs pokargs varargs kwoargs varkwargs M].
      destruct KM as (Q1 & Q2 & Q3 & Q4 & Q5). cbn [posargs pokargs varargs kwoargs varkwargs M] in Q1, Q2, Q3, Q4, Q5.
      rewrite Forall_forall in Q1, Q2, Q4. rewrite !filter_app.
      rewrite (MergeSoundBase.filter_all is_named (skipn n (posargs so))), (MergeSoundBase.filter_all is_named (k_pok st)),
              (MergeSoundBase.filter_all is_named (k_kwo st)).
      - assert (E1' : filter is_named (opt_list (k_va st)) = []).
        { destruct (k_va st) as [v|] eqn:Ev; [|reflexivity]. cbn. unfold is_named. rewrite (Q3 v eq_refl). reflexivity. }
        assert (E2' : filter is_named (opt_list (varkwargs so)) = []).
        { destruct (varkwargs so) as [v|] eqn:Ev; [|reflexivity]. cbn. unfold is_named. rewrite (Q5 v eq_refl). reflexivity. }
        rewrite E1', E2', app_nil_r. reflexivity.
      - intros q Hq. unfold is_named. rewrite (Q4 q Hq). reflexivity.
      - intros q Hq. unfold is_named. rewrite (Q2 q Hq). reflexivity.
      - intros q Hq. unfold is_named. rewrite (Q1 q Hq). reflexivity. }
    rewrite EnM. intros y Hy. rewrite MergeSoundBase.names_app in Hy. apply in_app_or in Hy.
    rewrite !MergeSoundBase.names_app. destruct Hy as [Hy|Hy].
    + apply in_or_app. left. apply MergeSoundBase.names_in in Hy. destruct Hy as [q [Hq <-]].
      apply MergeSoundBase.in_names. rewrite <- (firstn_skipn n (posargs so)). apply in_or_app. right. exact Hq.
    + apply (Hnm y) in Hy. unfold named_names, st0_of in Hy. cbn [k_pok k_kwo] in Hy.
      rewrite MergeSoundBase.names_app in Hy. apply in_app_or in Hy. apply in_or_app. right. apply in_or_app.
      destruct Hy as [Hy|Hy]; [left|right; exact Hy].
      apply MergeSoundBase.names_in in Hy. destruct Hy as [q [Hq <-]]. apply MergeSoundBase.in_names.
      rewrite <- (firstn_skipn (n - length (posargs so)) (pokargs so)). apply in_or_app. right. exact Hq.
  - (* keyword-passable parameters *)
    assert (Hnm : incl (named_names st) (named_names (st0_of so n))) by (exact (mask_names_named _ named _ st E1)).
    assert (Ekp : forall S : sorted, kinds_ok S -> filter is_kwpassable (flatten S) = pokargs S ++ kwoargs S).
    { intros S (Q1 & Q2 & Q3 & Q4 & Q5). rewrite Forall_forall in Q1, Q2, Q4. unfold flatten. rewrite !filter_app.
      rewrite (MergeSoundBase.filter_none is_kwpassable (posargs S)), (MergeSoundBase.filter_all is_kwpassable (pokargs S)),
              (MergeSoundBase.filter_all is_kwpassable (kwoargs S)).
      - assert (E1' : filter is_kwpassable (opt_list (varargs S)) = []).
        { destruct (varargs S) as [v|] eqn:Ev; [|reflexivity]. cbn. unfold is_kwpassable. rewrite (Q3 v eq_refl). reflexivity. }
        assert (E2' : filter is_kwpassable (opt_list (varkwargs S)) = []).
        { destruct (varkwargs S) as [v|] eqn:Ev; [|reflexivity]. cbn. unfold is_kwpassable. rewrite (Q5 v eq_refl). reflexivity. }
        rewrite E1', E2', app_nil_r. reflexivity.
      - intros q Hq. unfold is_kwpassable. rewrite (Q4 q Hq). reflexivity.
      - intros q Hq. unfold is_kwpassable. rewrite (Q2 q Hq). reflexivity.
      - intros q Hq. unfold is_kwpassable. rewrite (Q1 q Hq). reflexivity. }
    rewrite EM, (Ekp M KM). rewrite <- (sort_flatten_roundtrip i Hv). fold so.
    rewrite (Ekp so (conj K1 (conj K2 (conj K3 (conj K4 K5))))).
    cbn [pokargs kwoargs M]. intros y Hy. apply (Hnm y) in Hy. unfold named_names, st0_of in Hy. cbn [k_pok k_kwo] in Hy.
    rewrite MergeSoundBase.names_app in *. apply in_app_or in Hy. apply in_or_app.
    destruct Hy as [Hy|Hy]; [left|right; exact Hy].
    apply MergeSoundBase.names_in in Hy. destruct Hy as [q [Hq <-]]. apply MergeSoundBase.in_names.
    rewrite <- (firstn_skipn (n - length (posargs so)) (pokargs so)). apply in_or_app. right. exact Hq.
  - (* whatever inner accepts with the literals, the masked signature accepts *)
    intros mm K HdK Hi. rewrite Em, (Hacc mm K (fun _ x Hx => HdK x (eq_ind _ (fun l => In x l) Hx _ Efst))).
    rewrite Efst, Ekps. destruct (kinds_split i) as [Ha Hb]. fold so in Ha, Hb.
    apply (consume_accepts_imp _ _ n mm _ Ha Hb).
    + unfold rest_of in Hf. rewrite Hf. apply validate_nodup. apply MaskNames.valid_sig_validate. exact Hv.
    + unfold rest_of in Hf. rewrite Hf. exact Hi.
Qed.

(* ------------------------------------------------------------------ *)
(* keyword-passable names of an embed result                            *)

Lemma od_update_In l : forall d (q : param), In q (od_update d l) -> In q d \/ In q l.
Proof.
  unfold od_update. induction l as [|p l IH]; intros d q H; cbn [fold_left] in H; [left; exact H|].
  destruct (IH _ _ H) as [H1|H1]; [|right; right; exact H1].
  assert (G : forall d0, In q (od_set d0 p) -> In q d0 \/ q = p).
  { induction d0 as [|x d0 IHd]; cbn [od_set In]; [intros [E|[]]; right; symmetry; exact E|].
    destruct (N.eqb (pname p) (pname x)); cbn [In].
    - intros [E'|X]; [right; symmetry; exact E'|left; right; exact X].
    - intros [E'|X]; [left; left; exact E'|]. destruct (IHd X) as [Y|Y]; [left; right; exact Y|right; exact Y]. }
  destruct (G d H1) as [Y|Y]; [left; exact Y|right; left; symmetry; exact Y].
Qed.

Lemma kwpassable_intro ps (q : param) : In q ps -> is_kwpassable q = true -> kwpassable_name ps (pname q) = true.
Proof.
  intros Hq Hk. unfold kwpassable_name. apply existsb_exists. exists q. split; [exact Hq|].
  rewrite Hk, N.eqb_refl. reflexivity.
Qed.

Lemma embed_kwpassable o m uva uvk r k :
  valid_sig (params o) = true -> valid_sig (params m) = true ->
  embed [o; m] uva uvk = Ok r ->
  kwpassable_name (params r) k = true ->
  kwpassable_name (params o) k = true \/ kwpassable_name (params m) k = true.
Proof.
  intros Vo Vm E Hk. destruct (embed2_ok o m uva uvk r E) as [res [Es Hr]]. rewrite Hr in Hk.
  set (O := sort_params o) in *. set (M := sort_params m) in *.
  pose proof (sort_params_kinds o) as KO_. pose proof (sort_params_kinds m) as KM. fold O in KO_. fold M in KM.
  destruct (embed_step_ok O M uva uvk 1 res Es) as (Y & EY & EP & EK & Eva & Evk & _).
  destruct (closedY O M uva uvk KO_ KM (sorted_named_nodup m Vm) Y EY) as (_ & Y1 & Y2 & Y3 & _ & _ & [Y6 Y7]).
  pose proof (sort_flatten_roundtrip o Vo) as Fo. pose proof (sort_flatten_roundtrip m Vm) as Fm. fold O in Fo. fold M in Fm.
  destruct KO_ as (Q1 & Q2 & Q3 & Q4 & Q5). destruct KM as (R1 & R2 & R3 & R4 & R5).
  rewrite Forall_forall in Q1, Q2, Q4, R1, R2, R4.
  assert (InO : forall q, In q (pokargs O) \/ In q (kwoargs O) -> kwpassable_name (params o) (pname q) = true).
  { intros q Hq. apply kwpassable_intro.
    - rewrite <- Fo. unfold flatten. destruct Hq as [Hq|Hq].
      + apply in_or_app. right. apply in_or_app. left. exact Hq.
      + apply in_or_app. right. apply in_or_app. right. apply in_or_app. right. apply in_or_app. left. exact Hq.
    - unfold is_kwpassable. destruct Hq as [Hq|Hq]; [rewrite (Q2 q Hq)|rewrite (Q4 q Hq)]; reflexivity. }
  assert (InM : forall q, In q (pokargs M) \/ In q (kwoargs M) -> kwpassable_name (params m) (pname q) = true).
  { intros q Hq. apply kwpassable_intro.
    - rewrite <- Fm. unfold flatten. destruct Hq as [Hq|Hq].
      + apply in_or_app. right. apply in_or_app. left. exact Hq.
      + apply in_or_app. right. apply in_or_app. right. apply in_or_app. right. apply in_or_app. left. exact Hq.
    - unfold is_kwpassable. destruct Hq as [Hq|Hq]; [rewrite (R2 q Hq)|rewrite (R4 q Hq)]; reflexivity. }
  unfold kwpassable_name in Hk. apply existsb_exists in Hk. destruct Hk as [q [Hq Hq2]].
  apply andb_true_iff in Hq2. destruct Hq2 as [Hkp Hn]. apply N.eqb_eq in Hn. subst k.
  rewrite flatten_regroup in Hq. fold (Pz res) in Hq. apply in_app_or in Hq. destruct Hq as [Hq|Hq].
  - (* positional part *)
    rewrite EP in Hq. apply in_app_or in Hq. destruct Hq as [Hq|Hq].
    + left.
      assert (Hx : exists q0, In q0 (xpos O Y) /\ pname q0 = pname q /\ pkind q0 = pkind q).
      { destruct (clr Y); [|exists q; auto]. unfold clear_defaults in Hq. apply in_map_iff in Hq.
        destruct Hq as [q0 [<- Hq0]]. exists q0. auto. }
      destruct Hx as [q0 [Hq0 [En Ek]]]. rewrite <- En.
      unfold is_kwpassable in Hkp. rewrite <- Ek in Hkp.
      unfold xpos in Hq0. destruct (posargs Y); apply in_app_or in Hq0; destruct Hq0 as [Hq0|Hq0].
      * rewrite (Q1 q0 Hq0) in Hkp. discriminate.
      * apply InO. left. exact Hq0.
      * rewrite (Q1 q0 Hq0) in Hkp. discriminate.
      * apply in_map_iff in Hq0. destruct Hq0 as [q1 [<- _]]. cbn in Hkp. discriminate.
    + right. unfold Pz in Hq. rewrite Y1, Y2 in Hq. unfold reach_pos, reach_pok in Hq.
      unfold is_kwpassable in Hkp.
      destruct (uva && isSome (varargs O)), (uvk && isSome (varkwargs O)); cbn [andb app] in Hq;
        rewrite ?app_nil_r in Hq; try (destruct Hq; fail);
        apply in_app_or in Hq; destruct Hq as [Hq|Hq];
        try (rewrite (R1 q Hq) in Hkp; discriminate); try (destruct Hq; fail).
      * apply InM. left. exact Hq.
      * apply in_map_iff in Hq. destruct Hq as [q1 [<- _]]. cbn in Hkp. discriminate.
  - apply in_app_or in Hq. destruct Hq as [Hq|Hq].
    { (* the star-args parameter is not keyword-passable *)
      apply opt_list_in in Hq. rewrite Eva in Hq. unfold is_kwpassable in Hkp.
      destruct uva; [rewrite (Y6 q Hq) in Hkp|rewrite (Q3 q Hq) in Hkp]; discriminate. }
    apply in_app_or in Hq. destruct Hq as [Hq|Hq].
    + rewrite EK in Hq. apply od_update_In in Hq. destruct Hq as [Hq|Hq].
      * apply od_update_In in Hq. destruct Hq as [[]|Hq]. left. apply InO. right. exact Hq.
      * right. rewrite Y3 in Hq. unfold reach_kwo in Hq.
        destruct (uvk && isSome (varkwargs O)); [|destruct Hq].
        apply in_app_or in Hq. destruct Hq as [Hq|Hq]; [|apply InM; right; exact Hq].
        destruct (uva && isSome (varargs O)); [destruct Hq|].
        apply in_map_iff in Hq. destruct Hq as [q1 [<- Hq1]]. apply (InM q1). left. exact Hq1.
    + apply opt_list_in in Hq. rewrite Evk in Hq. unfold is_kwpassable in Hkp.
      destruct uvk; [rewrite (Y7 q Hq) in Hkp|rewrite (Q5 q Hq) in Hkp]; discriminate.
Qed.

(* a keyword-passable name of a valid signature is never surplus *)
Lemma kwpassable_not_surplus o n k :
  valid_sig (params o) = true -> kwpassable_name (params o) k = true ->
  kw_class (params o) n k <> KExtra.
Proof.
  intros Vo Hk. set (O := sort_params o).
  pose proof (kinds_ok_wk _ (sort_params_kinds o)) as W. fold O in W.
  pose proof (sorted_named_nodup o Vo) as NO. fold O in NO.
  rewrite <- (sort_flatten_roundtrip o Vo) in *. fold O in Hk |- *.
  rewrite (kw_class_flat O n k W). unfold cls5.
  assert (NP : NoDup (names_of (Pz O))).
  { rewrite app_assoc, MergeSoundBase.names_app in NO. eapply nodup_app_l. exact NO. }
  destruct (kwpassable_name_inv O k W Hk) as [[q [Hq [Hqk Hqn]]]|[q [Hq Hqn]]].
  - destruct (In_nth_error _ _ Hq) as [j Hj]. subst k.
    rewrite (kw_class_pos_nth (Pz O) n j q NP Hj), Hqk. destruct (Nat.ltb j n); discriminate.
  - assert (Hnot : ~ In k (names_of (Pz O))).
    { intros X. rewrite app_assoc, MergeSoundBase.names_app in NO. apply (nodup_app_disjoint _ _ k NO X).
      rewrite <- Hqn. apply MergeSoundBase.in_names. exact Hq. }
    rewrite (kw_class_pos_foreign _ n k Hnot).
    assert (Hm : mem k (names_of (kwoargs O)) = true) by (apply mem_In; rewrite <- Hqn; apply MergeSoundBase.in_names; exact Hq).
    rewrite Hm. discriminate.
Qed.

(* ------------------------------------------------------------------ *)
(* forwards = embed o mask, on acceptance                               *)

Lemma forwards_inv o i n names0 uva uvk r :
  forwards o i n names0 false false uva uvk false = Ok r ->
  exists m, mask i n names0 nohide0 = Ok m /\ embed [o; m] uva uvk = Ok r.
Proof. rewrite forwards_def. intros H. apply bind_ok in H. exact H. Qed.

Lemma noncolliding_sub c rp (l l' : list (list param)) :
  incl (all_names l') (all_names l) -> noncolliding c rp l = true -> noncolliding c rp l' = true.
Proof.
  intros Hi H. unfold noncolliding in *. rewrite forallb_forall in *. intros k Hk. specialize (H k Hk).
  apply orb_true_iff in H. apply orb_true_iff. destruct H as [H|H]; [left; exact H|right].
  apply negb_true_iff in H. apply negb_true_iff. apply mem_false_In in H. apply mem_false_In.
  intros X. apply H. apply Hi. exact X.
Qed.

Lemma all_names_pair (a b : list param) : all_names [a; b] = names_of a ++ names_of b.
Proof. unfold all_names. cbn [flat_map]. rewrite app_nil_r. reflexivity. Qed.

(* the surplus call the wrapper forwards *)
Definition surplus_call (o : list param) (uva uvk : bool) (c : call) : call :=
  mkCall (if uva then surplus_pos o c else 0%nat) (if uvk then surplus_kws o c else []).

Lemma chain_unfold0 o i uva uvk c :
  chain o i uva uvk 0 [] c = accepts o c && accepts i (surplus_call o uva uvk c).
Proof. reflexivity. Qed.

Lemma chain_unfoldn o i uva uvk n names0 c :
  chain o i uva uvk n names0 c = accepts o c && accepts i (shift_call n names0 (surplus_call o uva uvk c)).
Proof. reflexivity. Qed.

Lemma surplus_kws_sub o uva uvk c k : In k (kws (surplus_call o uva uvk c)) ->
  In k (kws c) /\ kw_class o (npos c) k = KExtra.
Proof.
  unfold surplus_call. cbn [kws]. destruct uvk; [|intros []]. unfold surplus_kws. intros H.
  apply filter_In in H. destruct H as [H1 H2]. split; [exact H1|].
  destruct (kw_class o (npos c) k); try discriminate; reflexivity.
Qed.

Section Fwd.
Variables (o i : sigT) (n : nat) (names0 : list name) (uva uvk : bool) (m r : sigT).
Hypothesis Vo : valid_sig (params o) = true.
Hypothesis Vi : valid_sig (params i) = true.
Hypothesis Hnd : NoDup names0.
Hypothesis Em : mask i n names0 nohide0 = Ok m.
Hypothesis Er : embed [o; m] uva uvk = Ok r.

Lemma Vm : valid_sig (params m) = true.
Proof. exact (proj1 (mask_keeps i n names0 m Vi Hnd Em)). Qed.

(* the two non-collision conditions the components need, from the one on the result *)
Lemma nc_outer c :
  noncolliding c (params r) [params o; params i] = true -> noncolliding c (params r) [params o; params m] = true.
Proof.
  apply noncolliding_sub. rewrite !all_names_pair. intros x Hx. apply in_app_or in Hx. apply in_or_app.
  destruct Hx as [Hx|Hx]; [left; exact Hx|right]. exact (proj1 (proj2 (mask_keeps i n names0 m Vi Hnd Em)) x Hx).
Qed.

Lemma nc_inner c :
  noncolliding c (params r) [params o; params i] = true ->
  noncolliding (surplus_call (params o) uva uvk c) (params m) [params i] = true.
Proof.
  intros H. unfold noncolliding in *. rewrite forallb_forall in *. intros k Hk.
  destruct (surplus_kws_sub _ _ _ _ _ Hk) as [Hkc Hex]. specialize (H k Hkc).
  apply orb_true_iff in H. apply orb_true_iff. destruct H as [H|H].
  - left. destruct (embed_kwpassable o m uva uvk r k Vo Vm Er H) as [X|X]; [|exact X].
    exfalso. exact (kwpassable_not_surplus o (npos c) k Vo X Hex).
  - right. apply negb_true_iff in H. apply negb_true_iff. apply mem_false_In in H. apply mem_false_In.
    intros X. apply H. rewrite all_names_pair. apply in_or_app. right.
    unfold all_names in X. cbn [flat_map] in X. rewrite app_nil_r in X. exact X.
Qed.

Lemma disj_inner c :
  disjointb (kws c) names0 = true -> disjointb (kws (surplus_call (params o) uva uvk c)) names0 = true.
Proof.
  intros H. unfold disjointb in *. rewrite forallb_forall in *. intros k Hk.
  apply H. exact (proj1 (surplus_kws_sub _ _ _ _ _ Hk)).
Qed.

(* the masked signature against the inner function, on the surplus call *)
Lemma mask_on_surplus c :
  noncolliding c (params r) [params o; params i] = true -> disjointb (kws c) names0 = true ->
  accepts (params m) (surplus_call (params o) uva uvk c) =
  accepts (params i) (shift_call n names0 (surplus_call (params o) uva uvk c)).
Proof.
  intros Hnc Hd. pose proof (mask_names_exact i n names0 Vi Hnd) as ME. rewrite Em in ME.
  apply ME; [apply disj_inner; exact Hd|apply nc_inner; exact Hnc].
Qed.

Theorem fwd_sound c :
  noncolliding c (params r) [params o; params i] = true -> disjointb (kws c) names0 = true ->
  accepts (params r) c = true -> chain (params o) (params i) uva uvk n names0 c = true.
Proof.
  intros Hnc Hd Hc.
  pose proof (C02_sound o m uva uvk r c Vo Vm Er (nc_outer c Hnc) Hc) as H.
  rewrite chain_unfold0 in H. rewrite chain_unfoldn. rewrite (mask_on_surplus c Hnc Hd) in H. exact H.
Qed.

Theorem fwd_exact c :
  map has_def (firstn (length (positional (params o))) (positional (params r))) = map has_def (positional (params o)) ->
  noncolliding c (params r) [params o; params i] = true -> disjointb (kws c) names0 = true ->
  accepts (params r) c = chain (params o) (params i) uva uvk n names0 c.
Proof.
  intros Hk Hnc Hd.
  rewrite (C02_exact_defaults_kept o m uva uvk r c Vo Vm Er Hk (nc_outer c Hnc)).
  rewrite chain_unfold0, chain_unfoldn, (mask_on_surplus c Hnc Hd). reflexivity.
Qed.
Theorem fwd_exact_nodef c :
  has_default_pos (params o) = false ->
  noncolliding c (params r) [params o; params i] = true -> disjointb (kws c) names0 = true ->
  accepts (params r) c = chain (params o) (params i) uva uvk n names0 c.
Proof.
  intros Hdp Hnc Hd. rewrite chain_unfoldn, <- (mask_on_surplus c Hnc Hd), <- chain_unfold0.
  exact (C02_exact o m uva uvk r c Vo Vm Er Hdp (nc_outer c Hnc)).
Qed.
End Fwd.

(* ------------------------------------------------------------------ *)
(* C04_exec_sound / C04_exec_exact                                      *)

Theorem C04_exec_sound o i n names0 uva uvk r c :
  valid_sig (params o) = true -> valid_sig (params i) = true -> NoDup names0 ->
  forwards o i n names0 false false uva uvk false = Ok r ->
  noncolliding c (params r) [params o; params i] = true ->
  disjointb (kws c) names0 = true ->
  accepts (params r) c = true ->
  wrapper_exec (params o) (params i) n names0 uva uvk c = true.
Proof.
  intros Vo Vi Hnd E Hnc Hd Hc. destruct (forwards_inv o i n names0 uva uvk r E) as [m [Em Er]].
  exact (fwd_sound o i n names0 uva uvk m r Vo Vi Hnd Em Er c Hnc Hd Hc).
Qed.

(* the converse as long as no default of the wrapper's positionals was cleared *)
Theorem C04_exec_exact_defaults_kept o i n names0 uva uvk r c :
  valid_sig (params o) = true -> valid_sig (params i) = true -> NoDup names0 ->
  forwards o i n names0 false false uva uvk false = Ok r ->
  map has_def (firstn (length (positional (params o))) (positional (params r))) = map has_def (positional (params o)) ->
  noncolliding c (params r) [params o; params i] = true ->
  disjointb (kws c) names0 = true ->
  accepts (params r) c = wrapper_exec (params o) (params i) n names0 uva uvk c.
Proof.
  intros Vo Vi Hnd E Hk Hnc Hd. destruct (forwards_inv o i n names0 uva uvk r E) as [m [Em Er]].
  exact (fwd_exact o i n names0 uva uvk m r Vo Vi Hnd Em Er c Hk Hnc Hd).
Qed.

(* in particular without defaulted wrapper positional (DESIGN's C04_exec_exact) *)
Theorem C04_exec_exact o i n names0 uva uvk r c :
  valid_sig (params o) = true -> valid_sig (params i) = true -> NoDup names0 ->
  forwards o i n names0 false false uva uvk false = Ok r ->
  has_default_pos (params o) = false ->
  noncolliding c (params r) [params o; params i] = true ->
  disjointb (kws c) names0 = true ->
  accepts (params r) c = wrapper_exec (params o) (params i) n names0 uva uvk c.
Proof.
  intros Vo Vi Hnd E Hdp Hnc Hd. destruct (forwards_inv o i n names0 uva uvk r E) as [m [Em Er]].
  exact (fwd_exact_nodef o i n names0 uva uvk m r Vo Vi Hnd Em Er c Hdp Hnc Hd).
Qed.

(* ------------------------------------------------------------------ *)
(* C04_partial: with partial=True every named inner parameter is optional *)

Definition optp (p : param) : param :=
  match pkind p with VP | VK => p | _ => set_def (Some 0) p end.
Definition optional (i : sigT) : sigT :=
  mkSig (map optp (params i)) (ret i) (uret i) (srcs i) (deps i).

Lemma forwards_partial_eq o i n names0 ha hk uva uvk :
  forwards o i n names0 ha hk uva uvk true = forwards o (optional i) n names0 ha hk uva uvk false.
Proof. reflexivity. Qed.

Lemma optp_name p : pname (optp p) = pname p.
Proof. unfold optp. destruct (pkind p); reflexivity. Qed.
Lemma optp_kind p : pkind (optp p) = pkind p.
Proof. unfold optp. destruct (pkind p) eqn:E; cbn; auto. Qed.
Lemma optp_def p : is_named p = true -> has_def (optp p) = true.
Proof. unfold optp, is_named. destruct (pkind p); try discriminate; reflexivity. Qed.

Lemma names_optional ps : names_of (map optp ps) = names_of ps.
Proof. unfold names_of. rewrite map_map. apply map_ext. apply optp_name. Qed.

Lemma validate_aux_optional ps : forall top sd sd' seen,
  validate_aux ps top sd seen = true -> validate_aux (map optp ps) top sd' seen = true.
Proof.
  induction ps as [|p ps IH]; intros top sd sd' seen H; [reflexivity|].
  cbn [map validate_aux] in *. rewrite optp_kind, optp_name.
  destruct (Nat.ltb (kind_rank (pkind p)) top); [discriminate|].
  destruct (is_positional p && negb (has_def p) && sd); [discriminate|].
  assert (Ep : is_positional (optp p) = is_positional p) by (unfold is_positional; rewrite optp_kind; reflexivity).
  rewrite Ep.
  assert (E1 : is_positional p && negb (has_def (optp p)) && sd' = false).
  { destruct (is_positional p) eqn:Hp; [|reflexivity]. rewrite optp_def; [reflexivity|].
    unfold is_positional, is_named in *. destruct (pkind p); try discriminate; reflexivity. }
  rewrite E1. destruct (mem (pname p) seen); [discriminate|]. eapply IH. exact H.
Qed.

Lemma filter_kind_optional k ps : length (filter (is_kind k) (map optp ps)) = length (filter (is_kind k) ps).
Proof.
  induction ps as [|p ps IH]; [reflexivity|]. cbn [map filter].
  assert (E : is_kind k (optp p) = is_kind k p) by (unfold is_kind; rewrite optp_kind; reflexivity).
  rewrite E. destruct (is_kind k p); cbn [length]; rewrite IH; reflexivity.
Qed.

Lemma optional_valid i : valid_sig (params i) = true -> valid_sig (params (optional i)) = true.
Proof.
  unfold valid_sig, optional, count_kind. cbn [params]. intros H.
  apply andb_true_iff in H. destruct H as [H H3]. apply andb_true_iff in H. destruct H as [H1 H2].
  rewrite !filter_kind_optional, H2, H3. unfold validate in *. rewrite (validate_aux_optional _ _ _ false _ H1). reflexivity.
Qed.

(* the optional inner function rejects surplus only: too many positional
   arguments, a keyword it cannot take, or one it already got positionally *)
Definition accepts_surplus_only (ps : list param) (c : call) : bool :=
  (Nat.leb (npos c) (length (positional ps)) || has_kind VP ps) && forallb (kw_ok ps (npos c)) (kws c).

Lemma positional_optional ps : positional (map optp ps) = map optp (positional ps).
Proof.
  unfold positional. induction ps as [|p ps IH]; [reflexivity|]. cbn [map filter].
  assert (Ep : is_positional (optp p) = is_positional p) by (unfold is_positional; rewrite optp_kind; reflexivity).
  rewrite Ep. destruct (is_positional p); cbn [map]; rewrite IH; reflexivity.
Qed.

Lemma kwonly_optional ps : kwonly (map optp ps) = map optp (kwonly ps).
Proof.
  unfold kwonly. induction ps as [|p ps IH]; [reflexivity|]. cbn [map filter].
  assert (E : is_kind KO (optp p) = is_kind KO p) by (unfold is_kind; rewrite optp_kind; reflexivity).
  rewrite E. destruct (is_kind KO p); cbn [map]; rewrite IH; reflexivity.
Qed.

Lemma has_kind_optional k ps : has_kind k (map optp ps) = has_kind k ps.
Proof.
  unfold has_kind. induction ps as [|p ps IH]; [reflexivity|]. cbn [map existsb].
  assert (E : is_kind k (optp p) = is_kind k p) by (unfold is_kind; rewrite optp_kind; reflexivity).
  rewrite E, IH. reflexivity.
Qed.

Lemma kcp_optional P : forall n k, kw_class_pos (map optp P) n k = kw_class_pos P n k.
Proof.
  induction P as [|p P IH]; intros n k; [reflexivity|]. cbn [map kw_class_pos]. rewrite optp_name, optp_kind, IH. reflexivity.
Qed.

Lemma req_pos_optional P : (forall p, In p P -> is_named p = true) -> forall n ks, req_pos (map optp P) n ks = true.
Proof.
  induction P as [|p P IH]; intros H n ks; [reflexivity|]. cbn [map req_pos].
  assert (IH' : forall n, req_pos (map optp P) n ks = true) by (intros n'; apply IH; intros q Hq; apply H; right; exact Hq).
  destruct n; [|apply IH']. rewrite IH', (optp_def p (H p (or_introl eq_refl))). reflexivity.
Qed.

Theorem accepts_optional ps c : accepts (map optp ps) c = accepts_surplus_only ps c.
Proof.
  unfold accepts, accepts_surplus_only.
  rewrite positional_optional, map_length, has_kind_optional.
  assert (E2 : forallb (kw_ok (map optp ps) (npos c)) (kws c) = forallb (kw_ok ps (npos c)) (kws c)).
  { apply forallb_ext. intros k. unfold kw_ok, kw_class.
    rewrite positional_optional, kcp_optional, kwonly_optional, names_optional, has_kind_optional. reflexivity. }
  rewrite E2.
  assert (E3 : req_pos (map optp (positional ps)) (npos c) (kws c) = true).
  { apply req_pos_optional. intros p Hp. unfold positional in Hp. apply filter_In in Hp. destruct Hp as [_ Hp].
    unfold is_positional, is_named in *. destruct (pkind p); try discriminate; reflexivity. }
  assert (E4 : req_kwo (map optp ps) (kws c) = true).
  { unfold req_kwo. rewrite kwonly_optional. apply forallb_forall. intros p Hp. apply in_map_iff in Hp.
    destruct Hp as [q [<- Hq]]. unfold kwonly in Hq. apply filter_In in Hq. destruct Hq as [_ Hq].
    rewrite optp_def; [reflexivity|]. unfold is_kind, kind_eqb, is_named in *. destruct (pkind q); try discriminate; reflexivity. }
  rewrite E3, E4, !andb_true_r. reflexivity.
Qed.

(* executing the wrapper of a partial: only surplus is rejected by the inner call *)
Definition wrapper_exec_partial (o i : list param) (n : nat) (names0 : list name) (uva uvk : bool) (c : call) : bool :=
  accepts o c && accepts_surplus_only i (shift_call n names0 (surplus_call o uva uvk c)).

Lemma wrapper_exec_partial_chain o i n names0 uva uvk c :
  wrapper_exec (params o) (params (optional i)) n names0 uva uvk c =
  wrapper_exec_partial (params o) (params i) n names0 uva uvk c.
Proof. unfold wrapper_exec, wrapper_exec_partial. rewrite chain_unfoldn. cbn [optional params]. rewrite accepts_optional. reflexivity. Qed.

Lemma noncolliding_optional c rp o i :
  noncolliding c rp [o; map optp i] = noncolliding c rp [o; i].
Proof. unfold noncolliding. rewrite !all_names_pair, names_optional. reflexivity. Qed.

Theorem C04_partial_sound o i n names0 uva uvk r c :
  valid_sig (params o) = true -> valid_sig (params i) = true -> NoDup names0 ->
  forwards o i n names0 false false uva uvk true = Ok r ->
  noncolliding c (params r) [params o; params i] = true ->
  disjointb (kws c) names0 = true ->
  accepts (params r) c = true ->
  wrapper_exec_partial (params o) (params i) n names0 uva uvk c = true.
Proof.
  intros Vo Vi Hnd E Hnc Hd Hc. rewrite forwards_partial_eq in E. rewrite <- wrapper_exec_partial_chain.
  apply (C04_exec_sound o (optional i) n names0 uva uvk r c Vo (optional_valid i Vi) Hnd E); auto.
  cbn [optional params]. rewrite noncolliding_optional. exact Hnc.
Qed.

Theorem C04_partial_exact o i n names0 uva uvk r c :
  valid_sig (params o) = true -> valid_sig (params i) = true -> NoDup names0 ->
  forwards o i n names0 false false uva uvk true = Ok r ->
  map has_def (firstn (length (positional (params o))) (positional (params r))) = map has_def (positional (params o)) ->
  noncolliding c (params r) [params o; params i] = true ->
  disjointb (kws c) names0 = true ->
  accepts (params r) c = wrapper_exec_partial (params o) (params i) n names0 uva uvk c.
Proof.
  intros Vo Vi Hnd E Hk Hnc Hd. rewrite forwards_partial_eq in E. rewrite <- wrapper_exec_partial_chain.
  apply (C04_exec_exact_defaults_kept o (optional i) n names0 uva uvk r c Vo (optional_valid i Vi) Hnd E Hk); auto.
  cbn [optional params]. rewrite noncolliding_optional. exact Hnc.
Qed.

(* ------------------------------------------------------------------ *)
(* raise conditions                                                     *)

Lemma disj_not_in (K names0 : list name) : disjointb K names0 = true -> forall x, In x names0 -> ~ In x K.
Proof.
  intros H x Hx Hin. unfold disjointb in H. rewrite forallb_forall in H. specialize (H x Hin).
  apply negb_true_iff in H. apply mem_false_In in H. exact (H Hx).
Qed.

(* the mask step fails: plain ValueError, and no call can execute *)
Theorem C04_raises_mask o i n names0 uva uvk e :
  valid_sig (params i) = true -> NoDup names0 ->
  mask i n names0 nohide0 = Err e ->
  forwards o i n names0 false false uva uvk false = Err ValueErr /\
  forall c, disjointb (kws c) names0 = true -> wrapper_exec (params o) (params i) n names0 uva uvk c = false.
Proof.
  intros Vi Hnd Em. pose proof (mask_names_exact i n names0 Vi Hnd) as ME. rewrite Em in ME. destruct ME as [-> Hno].
  split.
  - rewrite forwards_def. change (mkHide false false false false) with nohide0. rewrite Em. reflexivity.
  - intros c Hd. unfold wrapper_exec. rewrite chain_unfoldn.
    rewrite (Hno (surplus_call (params o) uva uvk c) (disj_inner o names0 uva uvk c Hd)). apply andb_false_r.
Qed.

(* IncompatibleSignatures: a shared parameter name, or no call can execute *)
Theorem C04_raises_incompatible o i n names0 uva uvk :
  valid_sig (params o) = true -> valid_sig (params i) = true -> NoDup names0 ->
  forwards o i n names0 false false uva uvk false = Err Incompatible ->
  existsb (fun p => is_named p && mem (pname p) (names_of (filter is_named (params i)))) (params o) = true
  \/ forall c, disjointb (kws c) names0 = true -> wrapper_exec (params o) (params i) n names0 uva uvk c = false.
Proof.
  intros Vo Vi Hnd E. rewrite forwards_def in E. change (mkHide false false false false) with nohide0 in E.
  destruct (mask i n names0 nohide0) as [m|e] eqn:Em.
  2:{ pose proof (mask_names_exact i n names0 Vi Hnd) as ME. rewrite Em in ME. destruct ME as [-> _]. discriminate. }
  cbn [bind] in E.
  destruct (mask_keeps i n names0 m Vi Hnd Em) as (Vm' & _ & Hnamed & _ & Hcomp).
  destruct (C02_raises o m uva uvk Vo Vm' E) as [Hs|Hno].
  - left. apply existsb_exists in Hs. destruct Hs as [p [Hp Hq]]. apply existsb_exists. exists p. split; [exact Hp|].
    apply andb_true_iff in Hq. destruct Hq as [Hq1 Hq2]. rewrite Hq1. cbn [andb].
    apply mem_In. apply Hnamed. apply mem_In. exact Hq2.
  - right. intros c Hd. unfold wrapper_exec. rewrite chain_unfoldn.
    destruct (accepts (params o) c) eqn:Eo; [|reflexivity]. cbn [andb].
    destruct (accepts (params i) (shift_call n names0 (surplus_call (params o) uva uvk c))) eqn:Ei; [|reflexivity].
    exfalso. specialize (Hno c). rewrite chain_unfold0, Eo in Hno. cbn [andb] in Hno.
    pose proof (disj_inner o names0 uva uvk c Hd) as Hd'.
    destruct (surplus_call (params o) uva uvk c) as [mm K] eqn:Esc. cbn [kws npos shift_call] in *.
    rewrite (Hcomp mm K (disj_not_in K names0 Hd') Ei) in Hno. discriminate.
Qed.

(* a plain ValueError of the final constructor (a star named like a parameter)
   says nothing about execution *)
Theorem C04_raises_valueerror_refuted :
  exists o i c,
    valid_sig (params o) = true /\ valid_sig (params i) = true /\
    forwards o i 0 [] false false true true false = Err ValueErr /\
    wrapper_exec (params o) (params i) 0 [] true true c = true.
Proof.
  exists (mkSig [mkParam 1 PK None None UEmpty; mkParam 10 VK None None UEmpty] None UEmpty [] []),
         (mkSig [mkParam 1 VK None None UEmpty] None UEmpty [] []), (mkCall 1 []).
  vm_compute. repeat split.
Qed.

(* the hypotheses are satisfiable: a wrapper (self, /, a, *args, **kwargs) whose body
   calls inner(0, *args, y=.., **kwargs) with inner (x, y, z=1, *, k) *)
Example C04_nonvacuous :
  let o := mkSig [mkParam 1 PO None None UEmpty; mkParam 2 PK None None UEmpty;
                  mkParam 9 VP None None UEmpty; mkParam 10 VK None None UEmpty] None UEmpty [] [] in
  let i := mkSig [mkParam 3 PK None None UEmpty; mkParam 4 PK None None UEmpty;
                  mkParam 5 PK (Some 1) None UEmpty; mkParam 6 KO None None UEmpty] None UEmpty [] [] in
  let c := mkCall 2 [5; 6] in
  valid_sig (params o) = true /\ valid_sig (params i) = true /\ NoDup [4] /\ has_default_pos (params o) = false /\
  exists r, forwards o i 1 [4] false false true true false = Ok r /\
            noncolliding c (params r) [params o; params i] = true /\ disjointb (kws c) [4] = true /\
            accepts (params r) c = true /\ wrapper_exec (params o) (params i) 1 [4] true true c = true.
Proof.
  vm_compute. split; [reflexivity|]. split; [reflexivity|]. split; [repeat constructor; intros []|].
  split; [reflexivity|]. eexists. repeat split.
Qed.

Example C04_partial_nonvacuous :
  let o := mkSig [mkParam 9 VP None None UEmpty; mkParam 10 VK None None UEmpty] None UEmpty [] [] in
  let i := mkSig [mkParam 3 PK None None UEmpty; mkParam 4 KO None None UEmpty] None UEmpty [] [] in
  exists r, forwards o i 0 [] false false true true true = Ok r /\
            accepts (params r) (mkCall 0 []) = true /\ accepts (params i) (mkCall 0 []) = false /\
            wrapper_exec_partial (params o) (params i) 0 [] true true (mkCall 0 []) = true.
Proof. vm_compute. eexists. repeat split. Qed.

Print Assumptions mask_keeps.
Print Assumptions embed_kwpassable.
Print Assumptions C04_exec_sound.
Print Assumptions C04_exec_exact_defaults_kept.
Print Assumptions C04_exec_exact.
Print Assumptions accepts_optional.
Print Assumptions C04_partial_sound.
Print Assumptions C04_partial_exact.
Print Assumptions C04_raises_mask.
Print Assumptions C04_raises_incompatible.
Print Assumptions C04_raises_valueerror_refuted.
Print Assumptions C04_nonvacuous.
Print Assumptions C04_partial_nonvacuous.
