(* Proofs/Wrappers.v — C13: decorator / wrapper_decorator / Combination are
   call-transparent; wrappers() order; method binding; reported signatures
   validate.  All statements are for every stack depth / list length / call. *)
From Sigtools.Model Require Import Base Bind Roles Algebra Wrappers.
From Sigtools.Proofs Require Import SmallModel Basics.
From Coq Require Import Lia.

(* ------------------------------------------------------------------ *)
(* calls: the decorated object is the hand-written composition          *)

(* value-level binding only ever removes keywords *)
Lemma take_kw_sub k' kws v kws' k :
  take_kw k' kws = Some (v, kws') -> has_kw k kws' = true -> has_kw k kws = true.
Proof.
  revert v kws'. induction kws as [|[k0 v0] kws IH]; intros v kws' H Hk; simpl in *; [discriminate|].
  destruct (N.eqb k' k0).
  - injection H as <- <-. rewrite Hk. apply orb_true_r.
  - destruct (take_kw k' kws) as [[r rest]|]; [|discriminate].
    injection H as <- <-. simpl in Hk. apply orb_true_iff in Hk. apply orb_true_iff.
    destruct Hk as [Hk|Hk]; [left; exact Hk | right; eapply IH; [reflexivity | exact Hk]].
Qed.

Lemma bind_named_kws ps k : forall pos kws acc vals rest restk,
  bind_named ps pos kws acc = Some (vals, rest, restk) ->
  has_kw k restk = true -> has_kw k kws = true.
Proof.
  induction ps as [|p ps IH]; intros pos kws acc vals rest restk H Hk; simpl in H.
  - injection H as <- <- <-. exact Hk.
  - destruct (pkind p).
    + destruct pos as [|v pos']; [destruct (default_of p); [|discriminate]|]; eapply IH; eauto.
    + destruct pos as [|v pos'].
      * destruct (take_kw (pname p) kws) as [[v kws']|] eqn:E.
        -- eapply take_kw_sub; [exact E|]. eapply IH; eauto.
        -- destruct (default_of p); [|discriminate]. eapply IH; eauto.
      * destruct (has_kw (pname p) kws); [discriminate|]. eapply IH; eauto.
    + eapply IH; eauto.
    + destruct (take_kw (pname p) kws) as [[v kws']|] eqn:E.
      * eapply take_kw_sub; [exact E|]. eapply IH; eauto.
      * destruct (default_of p); [|discriminate]. eapply IH; eauto.
    + eapply IH; eauto.
Qed.

Lemma has_kw_app k a b : has_kw k (a ++ b) = has_kw k a || has_kw k b.
Proof.
  induction a as [|[k0 v0] a IH]; simpl; [reflexivity|]. rewrite IH. apply orb_assoc.
Qed.

(* equality of the two callables themselves (hence of every result term and
   every escaping exception), for any wrapper behaviours and any depth.  Each
   layer is entered through  def __call__(self, *args, **kwargs)  and therefore
   refuses a keyword named `self` *)
Theorem stack_call ls f : call (stack ls f) = compose_guarded (map snd ls) (call f).
Proof.
  induction ls as [|l ls IH]; simpl; [reflexivity|].
  rewrite IH. reflexivity.
Qed.

Corollary stack_raises ls f c e :
  call (stack ls f) c = Raise e <-> compose_guarded (map snd ls) (call f) c = Raise e.
Proof. rewrite stack_call. tauto. Qed.

(* the property as stated (the plain composition) fails on the pinned tree:
   a keyword named `self` cannot be passed through a decorated object *)
Example compose_refuted :
  let w := mkW 1 call_sig (fun g => g) in
  let f := Plain 100 call_sig (app_behaviour 100) in
  let c := mkV [] [(n_self, Val 5)] in
  call (stack [(Declared, mkF 0 [], w)] f) c = Raise type_error
  /\ compose [w] (call f) c = App 100 [] [(n_self, Val 5)].
Proof. split; reflexivity. Qed.

Theorem compose_refuted_ex :
  exists ls f c, call (stack ls f) c <> compose (map snd ls) (call f) c.
Proof.
  exists [(Declared, mkF 0 [], mkW 1 call_sig (fun g => g))],
         (Plain 100 call_sig (app_behaviour 100)), (mkV [] [(n_self, Val 5)]).
  vm_compute. discriminate.
Qed.

(* ... and holds for calls without that keyword through wrappers that do not
   invent it: w only needs its callee on calls without keyword `self` *)
Definition selfless (c : vcall) : bool := negb (has_kw n_self (vkws c)).
Definition agree_selfless (g g' : behaviour) : Prop := forall c, selfless c = true -> g c = g' c.
Definition kw_preserving (w : wrapperT) : Prop :=
  forall g g' c, selfless c = true -> agree_selfless g g' -> w_run w g c = w_run w g' c.

Lemma self_guard_selfless g c : selfless c = true -> self_guard g c = g c.
Proof.
  unfold selfless, self_guard. destruct (has_kw n_self (vkws c)); [discriminate | reflexivity].
Qed.

Theorem compose_guarded_selfless ws b :
  Forall kw_preserving ws -> agree_selfless (compose_guarded ws b) (compose ws b).
Proof.
  intros HF. induction HF as [|w ws Hw HF IH]; simpl; intros c Hc; [reflexivity|].
  rewrite (self_guard_selfless _ c Hc). apply Hw; assumption.
Qed.

Theorem stack_call_partial ls f c :
  Forall kw_preserving (map snd ls) -> selfless c = true ->
  call (stack ls f) c = compose (map snd ls) (call f) c.
Proof. intros HF Hc. rewrite stack_call. apply compose_guarded_selfless; assumption. Qed.

Example stack_call_sat :
  let w := mkW 1 call_sig (fun g c => tup 1 [g c]) in
  call (stack [(Simple, mkF 0 [], w); (Declared, mkF 0 [], w)] (Plain 100 call_sig (app_behaviour 100)))
       (mkV [Val 5] [])
  = Tup 1 [Tup 1 [App 100 [Val 5] []]].
Proof. reflexivity. Qed.

(* the generated bodies are keyword-preserving when their literal keywords do
   not include `self` *)
Theorem wrapper_behaviour_kw_preserving id sg tag fparam own lits klits mode :
  has_kw n_self klits = false ->
  kw_preserving (mkW id sg (wrapper_behaviour tag fparam own lits klits mode)).
Proof.
  intros Hk g g' c Hc Hg. simpl. unfold wrapper_behaviour.
  destruct (bind_named (fparam :: own) (Val 0 :: vpos c) (vkws c) []) as [[[vals rest] restk]|] eqn:E;
    [|reflexivity].
  destruct vals as [|v0 vals]; [reflexivity|].
  assert (Hs : selfless (mkV (lits ++ rest) (klits ++ restk)) = true).
  { unfold selfless. simpl. rewrite has_kw_app, Hk. simpl.
    destruct (has_kw n_self restk) eqn:Er; [|reflexivity].
    pose proof (bind_named_kws _ n_self _ _ _ _ _ _ E Er) as Hx.
    unfold selfless in Hc. rewrite Hx in Hc. discriminate. }
  rewrite (Hg _ Hs). reflexivity.
Qed.

Example kw_preserving_sat :
  Forall kw_preserving
    [mkW 1 call_sig (wrapper_behaviour 1 (plain_param 18 PK) [plain_param 14 PK] [] [(2, Val 9)] Return)].
Proof. constructor; [apply wrapper_behaviour_kw_preserving; reflexivity | constructor]. Qed.

(* one generated layer hands the callee's exception on *)
Lemma find_raise_app vals r :
  forallb (fun t => negb (is_raise t)) vals = true ->
  find is_raise (vals ++ [r]) = if is_raise r then Some r else None.
Proof.
  induction vals as [|v vals IH]; simpl; intros H.
  - destruct (is_raise r); reflexivity.
  - apply andb_true_iff in H. destruct H as [Hv H]. destruct (is_raise v); [discriminate|].
    apply IH. exact H.
Qed.

Theorem wrapper_behaviour_propagates tag fparam own lits klits g c v0 vals rest restk e :
  bind_named (fparam :: own) (Val 0 :: vpos c) (vkws c) [] = Some (v0 :: vals, rest, restk) ->
  forallb (fun t => negb (is_raise t)) vals = true ->
  existsb (fun kv => has_kw (fst kv) restk) klits = false ->
  g (mkV (lits ++ rest) (klits ++ restk)) = Raise e ->
  wrapper_behaviour tag fparam own lits klits Return g c = Raise e.
Proof.
  intros Hb Hv Hk Hg. unfold wrapper_behaviour. rewrite Hb, Hk, Hg.
  unfold tup. rewrite (find_raise_app vals (Raise e) Hv). reflexivity.
Qed.

Example wrapper_behaviour_propagates_sat :
  wrapper_behaviour 1 (plain_param 18 PK) [plain_param 1 PK] [] [] Return (fun _ => Raise 7) (mkV [Val 5; Val 6] [])
  = Raise 7.
Proof. reflexivity. Qed.

(* pass-through layers (no own parameters, nothing added) of any depth: the
   innermost exception escapes the whole stack *)
Definition passthrough (tag : N) : behaviour -> behaviour :=
  wrapper_behaviour tag (plain_param 18 PO) [] [] [] Return.

Lemma passthrough_raise tag g c e : g c = Raise e -> passthrough tag g c = Raise e.
Proof.
  intros H. unfold passthrough, wrapper_behaviour. simpl.
  destruct c as [p k]. simpl in *. rewrite H. reflexivity.
Qed.

Theorem passthrough_stack_raise ls f c e :
  Forall (fun l => exists tag, w_run (snd l) = passthrough tag) ls ->
  selfless c = true ->
  call f c = Raise e ->
  call (stack ls f) c = Raise e.
Proof.
  intros HF Hc Hf. induction HF as [|l ls [tag Hl] HF IH]; simpl; [exact Hf|].
  rewrite (self_guard_selfless _ c Hc).
  rewrite Hl. apply passthrough_raise. exact IH.
Qed.

(* ------------------------------------------------------------------ *)
(* Combination                                                          *)

Lemma combination_raise fs e rest kw : combination fs (Raise e) rest kw = Raise e.
Proof. induction fs as [|f fs IH]; simpl; [reflexivity|]. exact IH. Qed.

Lemma combination_absorb fs a rest kw : is_raise a = true -> combination fs a rest kw = a.
Proof. destruct a; try discriminate. intros _. apply combination_raise. Qed.

(* the loop, one function at a time *)
Theorem combination_cons f fs arg rest kw :
  combination (f :: fs) arg rest kw = combination fs (comb_step rest kw arg f) rest kw.
Proof. reflexivity. Qed.

Theorem combination_app fs gs arg rest kw :
  combination (fs ++ gs) arg rest kw = combination gs (combination fs arg rest kw) rest kw.
Proof. unfold combination. apply fold_left_app. Qed.

(* the chained call  fn(...f2(f1(arg, *rest, **kw), *rest, **kw)..., *rest, **kw) *)
Fixpoint chained (fs : list behaviour) (arg : term) (rest : list term) (kw : list (name * term)) : term :=
  match fs with
  | [] => arg
  | f :: fs' => if is_raise arg then arg else chained fs' (f (mkV (arg :: rest) kw)) rest kw
  end.

Theorem combination_chained fs arg rest kw : combination fs arg rest kw = chained fs arg rest kw.
Proof.
  revert arg. induction fs as [|f fs IH]; intros arg; [reflexivity|].
  rewrite combination_cons. cbn [chained]. unfold comb_step.
  destruct (is_raise arg) eqn:E.
  - apply combination_absorb. exact E.
  - apply IH.
Qed.

Lemma comb_bind_pos arg rest kw :
  has_kw n_arg kw = false -> comb_bind (mkV (arg :: rest) kw) = Some (arg, rest, kw).
Proof. intros H. unfold comb_bind. simpl. rewrite H. reflexivity. Qed.

Theorem comb_call fs arg rest kw :
  has_kw n_arg kw = false -> has_kw n_self kw = false ->
  call (Comb fs) (mkV (arg :: rest) kw) = chained (map call fs) arg rest kw.
Proof.
  intros H Hs. simpl. unfold self_guard. simpl. rewrite Hs.
  rewrite (comb_bind_pos arg rest kw H). apply combination_chained.
Qed.

Example comb_call_sat :
  call (Comb [Plain 100 call_sig (app_behaviour 100); Plain 101 call_sig (app_behaviour 101)])
       (mkV [Val 1; Val 2] [(3, Val 4)])
  = App 101 [App 100 [Val 1; Val 2] [(3, Val 4)]; Val 2] [(3, Val 4)].
Proof. reflexivity. Qed.

(* without exceptions it is the plain left fold of the property statement *)
Theorem combination_fold fs arg rest kw :
  (forall a f, In f fs -> is_raise (f (mkV (a :: rest) kw)) = false) ->
  is_raise arg = false ->
  combination fs arg rest kw = fold_left (fun a f => f (mkV (a :: rest) kw)) fs arg.
Proof.
  revert arg. induction fs as [|f fs IH]; intros arg H Ha; [reflexivity|].
  rewrite combination_cons. cbn [fold_left]. unfold comb_step. rewrite Ha. apply IH.
  - intros a g Hg. apply H. right. exact Hg.
  - apply H. left. reflexivity.
Qed.

(* Combination(Combination(..), ..) splices the member lists; a nested
   Combination called as a member behaves as its spliced members *)
Definition splice (f : obj) : list obj := match f with Comb gs => gs | _ => [f] end.

Lemma splice_call f arg rest kw :
  has_kw n_arg kw = false -> has_kw n_self kw = false ->
  combination (map call (splice f)) arg rest kw = comb_step rest kw arg (call f).
Proof.
  intros Hk Hs. destruct f; simpl; try reflexivity.
  unfold comb_step. destruct (is_raise arg) eqn:E.
  - apply combination_absorb. exact E.
  - unfold self_guard. simpl. rewrite Hs. rewrite (comb_bind_pos arg rest kw Hk). reflexivity.
Qed.

(* keyword names of a call are distinct, so once `arg` is bound no keyword
   `arg` is left; this is the only fact about the call that is used *)
Definition arg_bound_once (c : vcall) : Prop :=
  match comb_bind c with Some (_, _, kw) => has_kw n_arg kw = false | None => True end.

Theorem mk_comb_call fs c : arg_bound_once c -> call (mk_comb fs) c = call (Comb fs) c.
Proof.
  unfold arg_bound_once, mk_comb. simpl. unfold self_guard.
  destruct (has_kw n_self (vkws c)) eqn:Hs; [reflexivity|].
  destruct (comb_bind c) as [[[arg rest] kw]|] eqn:Eb; [|reflexivity].
  intros Hk.
  assert (Hs' : has_kw n_self kw = false).
  { destruct (has_kw n_self kw) eqn:E; [|reflexivity].
    unfold comb_bind in Eb.
    destruct (bind_named [mkParam n_arg PK None None UEmpty] (vpos c) (vkws c) [])
      as [[[vals rest'] kw']|] eqn:E2; [|discriminate].
    destruct vals as [|a [|a' vals]]; try discriminate. injection Eb as <- <- <-.
    rewrite (bind_named_kws _ n_self _ _ _ _ _ _ E2 E) in Hs. discriminate. }
  clear Eb. revert arg.
  induction fs as [|f fs IH]; intros arg; simpl; [reflexivity|].
  change (match f with Comb gs => gs | _ => [f] end) with (splice f).
  rewrite map_app, combination_app, (splice_call f arg rest kw Hk Hs').
  apply IH.
Qed.

Example arg_bound_once_sat : arg_bound_once (mkV [Val 1; Val 2] [(3, Val 4)]).
Proof. reflexivity. Qed.

Example mk_comb_sat :
  let f i := Plain i call_sig (app_behaviour i) in
  mk_comb [Comb [f 100; f 101]; f 102] = Comb [f 100; f 101; f 102].
Proof. reflexivity. Qed.

(* ------------------------------------------------------------------ *)
(* wrappers(): outermost first, one entry per layer                     *)

Theorem wrappers_stack ls f :
  wrappers (stack ls f) = map (fun l => w_id (snd l)) ls ++ wrappers f.
Proof. induction ls as [|l ls IH]; simpl; [reflexivity|]. rewrite IH. reflexivity. Qed.

Definition undecorated (o : obj) : Prop := match o with Deco _ _ _ _ => False | _ => True end.

Lemma wrappers_undecorated o : undecorated o -> wrappers o = [].
Proof. destruct o; simpl; tauto. Qed.

Theorem wrappers_order ls f :
  undecorated f ->
  wrappers (stack ls f) = map (fun l => w_id (snd l)) ls /\
  length (wrappers (stack ls f)) = length ls.
Proof.
  intros H. rewrite wrappers_stack, (wrappers_undecorated f H), app_nil_r, map_length. auto.
Qed.

Example wrappers_order_sat :
  let w i := mkW i call_sig (fun g => g) in
  wrappers (stack [(Simple, mkF 0 [], w 1); (Declared, mkF 0 [], w 2)] (Plain 100 call_sig (app_behaviour 100)))
  = [1; 2].
Proof. reflexivity. Qed.

(* ------------------------------------------------------------------ *)
(* descriptor rebinding                                                 *)

(* __get__ of a stack rebinds the innermost object and keeps every layer *)
Theorem get_stack ls f inst cls : get (stack ls f) inst cls = stack ls (get f inst cls).
Proof. induction ls as [|l ls IH]; simpl; [reflexivity|]. unfold decorate. simpl. rewrite IH. reflexivity. Qed.

(* a decorated method called on an instance: the composition around the
   function with the instance prepended *)
Theorem method_call ls id s b v cls c :
  call (get (stack ls (Plain id s b)) (Some v) cls) c
  = compose_guarded (map snd ls) (fun c' => b (mkV (v :: vpos c') (vkws c'))) c.
Proof. rewrite get_stack. simpl. rewrite stack_call. reflexivity. Qed.

(* on the class nothing is bound; staticmethod below the stack likewise *)
Theorem class_access_call ls id s b cls :
  call (get (stack ls (Plain id s b)) None cls) = call (stack ls (Plain id s b)).
Proof. rewrite get_stack. reflexivity. Qed.

Theorem static_call ls x inst cls :
  call (get (stack ls (Static x)) inst cls) = compose_guarded (map snd ls) (call x).
Proof. rewrite get_stack. simpl. apply stack_call. Qed.

(* staticmethod / classmethod applied on top of the stack *)
Theorem static_outer_call ls f inst cls : get (Static (stack ls f)) inst cls = stack ls f.
Proof. reflexivity. Qed.

Theorem classmethod_outer_call ls id s b inst cls c :
  ls <> [] \/ True ->
  call (get (ClassM (stack ls (Plain id s b))) inst cls) c
  = compose_guarded (map snd ls) (fun c' => b (mkV (cls :: vpos c') (vkws c'))) c.
Proof.
  intros _. destruct ls as [|l ls]; [reflexivity|].
  change (get (ClassM (stack (l :: ls) (Plain id s b))) inst cls)
    with (get (stack (l :: ls) (Plain id s b)) (Some cls) cls).
  apply method_call.
Qed.

Theorem wrappers_get ls f inst cls :
  undecorated (get f inst cls) ->
  wrappers (get (stack ls f) inst cls) = map (fun l => w_id (snd l)) ls.
Proof. intros H. rewrite get_stack. apply wrappers_order. exact H. Qed.

(* signature of the rebound object: the same layers over the bound function *)
Theorem sig_get_stack ls id s b v cls :
  sig_of (get (stack ls (Plain id s b)) (Some v) cls)
  = sig_of (stack ls (Bound (Plain id s b) v)).
Proof. rewrite get_stack. reflexivity. Qed.

Theorem sig_bound id s b v : sig_of (Bound (Plain id s b) v) = bound_sig s.
Proof. reflexivity. Qed.

(* ------------------------------------------------------------------ *)
(* binding removes exactly the first parameter                          *)

Lemma validate_aux_mono ps : forall top sd seen top' sd' seen',
  validate_aux ps top sd seen = true ->
  (top' <= top)%nat -> (sd' = true -> sd = true) ->
  (forall x, mem x seen' = true -> mem x seen = true) ->
  validate_aux ps top' sd' seen' = true.
Proof.
  induction ps as [|p ps IH]; intros top sd seen top' sd' seen' H Ht Hs Hm; simpl in *; [reflexivity|].
  destruct (Nat.ltb (kind_rank (pkind p)) top) eqn:E1; [discriminate|].
  apply Nat.ltb_ge in E1.
  assert (E1' : Nat.ltb (kind_rank (pkind p)) top' = false) by (apply Nat.ltb_ge; lia).
  rewrite E1'.
  destruct (is_positional p && negb (has_def p) && sd) eqn:E2; [discriminate|].
  assert (E2' : is_positional p && negb (has_def p) && sd' = false).
  { destruct sd'; [|apply andb_false_r]. rewrite (Hs eq_refl) in E2. exact E2. }
  rewrite E2'.
  destruct (mem (pname p) seen) eqn:E3; [discriminate|].
  assert (E3' : mem (pname p) seen' = false).
  { destruct (mem (pname p) seen') eqn:E; [|reflexivity]. rewrite (Hm _ E) in E3. discriminate. }
  rewrite E3'.
  eapply IH; [exact H | lia | |].
  - intros Hx. apply orb_true_iff in Hx. apply orb_true_iff. destruct Hx as [Hx|Hx]; [left; auto | right; exact Hx].
  - intros x Hx. simpl in *. apply orb_true_iff in Hx. apply orb_true_iff.
    destruct Hx as [Hx|Hx]; [left; exact Hx | right; auto].
Qed.

Lemma validate_tl p ps : validate (p :: ps) = true -> validate ps = true.
Proof.
  unfold validate. simpl. intros H.
  rewrite andb_false_r in H.
  eapply validate_aux_mono; [exact H | lia | discriminate | discriminate].
Qed.

Lemma valid_sig_parts ps : valid_sig ps = true ->
  validate ps = true /\ (count_kind VP ps <= 1)%nat /\ (count_kind VK ps <= 1)%nat.
Proof.
  unfold valid_sig. intros H. apply andb_true_iff in H. destruct H as [H H3].
  apply andb_true_iff in H. destruct H as [H1 H2].
  apply Nat.leb_le in H2. apply Nat.leb_le in H3. auto.
Qed.

Lemma mask_names_nil pm hv st : mask_names pm hv st [] = Ok st.
Proof. reflexivity. Qed.

(* the first parameter is positional: PO or PK *)
Theorem mask1_tl s p ps :
  valid_sig (params s) = true ->
  params s = p :: ps -> is_positional p = true ->
  exists r, mask s 1 [] nohide = Ok r /\ params r = ps.
Proof.
  intros Hv Hp Hpos.
  pose proof (sort_flatten_roundtrip s Hv) as Hfl.
  destruct (valid_sig_parts _ Hv) as [Hval _].
  rewrite Hp in Hval. pose proof (validate_tl _ _ Hval) as Hvt.
  unfold mask, mask_gen. simpl.
  remember (sort_params s) as so eqn:Eso.
  unfold flatten in Hfl. rewrite Hp in Hfl.
  (* where does p sit: posargs or pokargs *)
  destruct (posargs so) as [|a pos'] eqn:Epos.
  - destruct (pokargs so) as [|a pok'] eqn:Epok.
    + (* no positional parameter at all: p would be a star or keyword-only parameter *)
      exfalso. simpl in Hfl.
      assert (Hk : is_positional p = false).
      { unfold sort_params in Eso.
        pose proof (f_equal posargs Eso) as E1. pose proof (f_equal pokargs Eso) as E2.
        rewrite Epos in E1. rewrite Epok in E2.
        rewrite Hp in E1, E2. simpl in E1, E2. unfold is_positional.
        destruct (pkind p) eqn:K; try reflexivity; exfalso.
        - clear E2. revert E1. generalize ps.
          assert (G : forall qs acc, posargs acc <> [] -> posargs (sort_aux qs acc) <> []).
          { induction qs as [|q qs IHq]; intros acc Hne; simpl; [exact Hne|].
            apply IHq. destruct (pkind q); simpl; try exact Hne.
            destruct (posargs acc); simpl; discriminate. }
          intros qs E. symmetry in E. revert E. apply G. simpl. discriminate.
        - clear E1. revert E2. generalize ps.
          assert (G : forall qs acc, pokargs acc <> [] -> pokargs (sort_aux qs acc) <> []).
          { induction qs as [|q qs IHq]; intros acc Hne; simpl; [exact Hne|].
            apply IHq. destruct (pkind q); simpl; try exact Hne.
            destruct (pokargs acc); simpl; discriminate. }
          intros qs E. symmetry in E. revert E. apply G. simpl. discriminate. }
      rewrite Hk in Hpos. discriminate.
    + simpl in Hfl. injection Hfl as Ea Eps. subst a.
      simpl. unfold apply_params, flatten. simpl.
      rewrite Eps, Hvt. eexists. split; [reflexivity|]. reflexivity.
  - simpl in Hfl. injection Hfl as Ea Eps. subst a.
    simpl. unfold apply_params, flatten. simpl.
    rewrite Eps, Hvt. eexists. split; reflexivity.
Qed.

Example mask1_tl_sat :
  exists r, mask call_sig 1 [] nohide = Ok r
            /\ params r = [plain_param n_args VP; plain_param n_kwargs VK].
Proof. apply (mask1_tl call_sig (plain_param n_self PK)); reflexivity. Qed.

Corollary bound_removes_first s p ps :
  valid_sig (params s) = true -> params s = p :: ps -> is_positional p = true ->
  exists r, bound_sig s = Ok r /\ params r = tl (params s).
Proof. intros Hv Hp Hk. rewrite Hp. simpl. apply (mask1_tl s p ps); assumption. Qed.

(* ------------------------------------------------------------------ *)
(* reported signatures validate                                         *)

Lemma simple_sig_wf w fa xs r : simple_sig w fa xs = Ok r -> validate (params r) = true.
Proof.
  unfold simple_sig. intros H.
  destruct (is_crash xs); [discriminate|].
  match type of H with (match ?X with Ok _ => _ | Err _ => _ end) = _ => destruct X as [r0|e] eqn:E end;
    [|discriminate].
  injection H as <-.
  apply bind_ok in E. destruct E as [q' [_ E]].
  unfold via_call in E.
  apply bind_ok in E. destruct E as [r1 [_ E]].
  apply bind_ok in E. destruct E as [r2 [_ E]].
  eapply mask_wf. exact E.
Qed.

Lemma declared_sig_wf w fa xs r : declared_sig w fa xs = Ok r -> validate (params r) = true.
Proof.
  unfold declared_sig. intros H.
  apply bind_ok in H. destruct H as [q [_ H]].
  apply bind_ok in H. destruct H as [x [_ H]].
  eapply forwards_wf. exact H.
Qed.

(* plain functions reached without passing a decorating layer *)
Fixpoint top_valid (o : obj) : bool :=
  match o with
  | Plain _ s _ => validate (params s)
  | Fwd _ _ s _ _ => validate (params s)
  | Static x => top_valid x
  | _ => true
  end.

Theorem sig_of_wf o : forall r, top_valid o = true -> sig_of o = Ok r -> validate (params r) = true.
Proof.
  induction o as [id s b | id d s n x IH | fl fa w x IH | fs | x IH | x IH | x IH v];
    intros r Ht H; simpl in *.
  - injection H as <-. exact Ht.
  - destruct d.
    + apply bind_ok in H. destruct H as [xs [_ H]]. eapply forwards_wf. exact H.
    + match type of H with (match ?X with Ok _ => _ | Err _ => _ end) = _ =>
        destruct X as [r0|e] eqn:E end.
      * injection H as <-. apply bind_ok in E. destruct E as [xs [_ E]].
        apply bind_ok in E. destruct E as [r1 [_ E]]. eapply apply_params_valid. exact E.
      * match type of H with (if ?B then _ else _) = _ => destruct B end; [discriminate|].
        injection H as <-. exact Ht.
  - destruct fl; [eapply simple_sig_wf | eapply declared_sig_wf]; exact H.
  - apply bind_ok in H. destruct H as [ss [_ H]]. apply (merge_wf (comb_self_sig :: ss)). exact H.
  - apply IH; assumption.
  - discriminate.
  - apply bind_ok in H. destruct H as [s [_ H]]. eapply mask_wf. exact H.
Qed.

Theorem inspect_sig_wf o r : top_valid o = true -> inspect_sig o = Ok r -> validate (params r) = true.
Proof.
  destruct o; try apply sig_of_wf.
  intros _ H. simpl in H. injection H as <-. reflexivity.
Qed.

Example sig_of_wf_sat :
  let w := mkW 1 (sig_of_params [plain_param 18 PK; plain_param 14 PK; plain_param n_args VP; plain_param n_kwargs VK])
               (fun g => g) in
  let f := Plain 100 (sig_of_params [plain_param 1 PK]) (app_behaviour 100) in
  shape (sig_of (Deco Simple (mkF 0 []) w f)) = Some [(14, 1%nat, false); (1, 1%nat, false)]
  /\ shape (sig_of (Deco Declared (mkF 0 []) w f)) = Some [(14, 1%nat, false); (1, 1%nat, false)].
Proof. vm_compute. split; reflexivity. Qed.

(* the delimited defect of the pinned tree: a parameter named `self` reaching
   the discovery through _SimpleWrapped.__call__(self, ...) kills the retrieval *)
Example self_collision :
  let w := mkW 1 (sig_of_params [plain_param 18 PK; plain_param n_args VP; plain_param n_kwargs VK])
               (fun g => g) in
  let f := Plain 100 (sig_of_params [plain_param n_self PK; plain_param 1 PK]) (app_behaviour 100) in
  sig_of (Deco Simple (mkF 0 []) w f) = Err crash
  /\ shape (sig_of (Deco Declared (mkF 0 []) w f)) = Some [(n_self, 1%nat, false); (1, 1%nat, false)].
Proof. vm_compute. split; reflexivity. Qed.
