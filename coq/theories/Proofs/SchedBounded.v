(* C17 - bounded, exhaustive statements about the scheduler model, by
   computation inside Coq (vm_compute + forallb_forall).  Every theorem carries
   its bound in the statement: threads, <= 2 preemptions, preemption positions
   1..70 (no thread of these scenarios has more than 66 steps, see
   [solo_steps_le_66]), the listed scenarios. *)
From Coq Require Import List NArith Bool Arith Lia.
Import ListNotations.
Require Import Sigtools.Model.Sched.
Open Scope nat_scope.

(* scenario constants of harness/props/c17.py *)
Definition cfg_star : cfg := mkCfg true false false.      (* the wrapper has *args, **kwargs *)
Definition cfg_nostar : cfg := mkCfg false false false.
Definition i_w : store := mkStore (Some 7%N) None.          (* functools.wraps *)
Definition i_ws : store := mkStore (Some 7%N) (Some 8%N).   (* functools.wraps + explicit __signature__ *)
Definition i_s : store := mkStore None (Some 8%N).          (* only __signature__ *)

Definition preemptions (p : plan) : nat :=
  length (filter (fun s => match snd s with Some _ => true | None => false end) p).

(* the verdict on one plan: nothing lost; and either every answer is the
   sequential one, or the plan lets windows overlap and every wrong answer is a
   plain view of the same function (the window race) *)
Definition wrong_is_plain_view (c : cfg) (init : store) (th : thread) : bool :=
  thread_seq_ok c init th || is_plain_answer th.

Definition plan_verdict (c : cfg) (init : store) (ks : list kind) (p : plan) : bool :=
  match run_plan c (init_state init ks) p with
  | None => true
  | Some st =>
      store_eqb (g_store st) init
      && (answers_ok c init st
          || (negb (plan_excl c (init_state init ks) p)
              && forallb (wrong_is_plain_view c init) (g_threads st)))
  end.

Definition violates (c : cfg) (init : store) (ks : list kind) (p : plan) : bool :=
  match run_plan c (init_state init ks) p with
  | None => false
  | Some st => negb (answers_ok c init st)
  end.

Lemma forall_plans_In : forall K n b f,
  forall_plans K n b f = true -> forall p, In p (all_plans K n b) -> f p = true.
Proof.
  intros K n b f H p Hin. unfold forall_plans in H. unfold all_plans in Hin.
  apply in_flat_map in Hin. destruct Hin as [first [Hf Hp]].
  apply in_map_iff in Hp. destruct Hp as [r [E Hr]]. subst p.
  rewrite forallb_forall in H. specialize (H _ Hf). rewrite forallb_forall in H. apply H. exact Hr.
Qed.


Definition configs2 : list (cfg * store * list kind) :=
  [ (cfg_star, i_w, [KSig; KSig]); (cfg_star, i_w, [KSig; KPlain]);
    (cfg_star, i_ws, [KSig; KSig]); (cfg_star, i_ws, [KSig; KPlain]);
    (cfg_nostar, i_w, [KSig; KSig]); (cfg_nostar, i_w, [KSig; KPlain]);
    (cfg_nostar, i_s, [KSig; KSig]); (cfg_nostar, i_s, [KSig; KPlain]) ].

Definition configs3 : list (cfg * store * list kind) :=
  [ (cfg_star, i_w, [KSig; KSig; KSig]) ].

Definition verdict_on (x : cfg * store * list kind) (p : plan) : bool :=
  plan_verdict (fst (fst x)) (snd (fst x)) (snd x) p.

Lemma bounded2_b : forallb (fun x => forall_plans 70 2 2 (verdict_on x)) configs2 = true.
Proof. vm_compute. reflexivity. Qed.

Lemma bounded3_b : forallb (fun x => forall_plans 70 3 2 (verdict_on x)) configs3 = true.
Proof. vm_compute. reflexivity. Qed.

(** 2 threads, <= 2 preemptions at positions 1..45, the eight listed scenarios:
    nothing is lost, and a plan yields a non-sequential answer only if it lets
    the windows overlap, and then the wrong answer is a plain view of the same
    function. *)
Theorem bounded_2threads : forall x p,
  In x configs2 -> In p (all_plans 70 2 2) -> verdict_on x p = true.
Proof.
  intros x p Hx Hp. pose proof bounded2_b as H. rewrite forallb_forall in H.
  exact (forall_plans_In _ _ _ _ (H x Hx) p Hp).
Qed.

Theorem bounded_3threads : forall x p,
  In x configs3 -> In p (all_plans 70 3 2) -> verdict_on x p = true.
Proof.
  intros x p Hx Hp. pose proof bounded3_b as H. rewrite forallb_forall in H.
  exact (forall_plans_In _ _ _ _ (H x Hx) p Hp).
Qed.

Lemma all_plans_le2_2 : forall p, In p (all_plans 70 2 2) -> preemptions p <= 2.
Proof.
  intros p Hp. apply Nat.leb_le.
  apply (forall_plans_In 70 2 2 (fun q => Nat.leb (preemptions q) 2)); [vm_compute; reflexivity | exact Hp].
Qed.

Lemma all_plans_le2_3 : forall p, In p (all_plans 70 3 2) -> preemptions p <= 2.
Proof.
  intros p Hp. apply Nat.leb_le.
  apply (forall_plans_In 70 3 2 (fun q => Nat.leb (preemptions q) 2)); [vm_compute; reflexivity | exact Hp].
Qed.

(* no thread of the scenarios needs more than 66 steps when it runs alone, so
   positions 1..70 cover every place a preemption can happen *)
Example solo_steps_le_66 :
  forallb (fun x => all_done (run_done 66 (fst (fst x)) (init_state (snd (fst x)) [KSig]) 0)) configs2 = true.
Proof. vm_compute. reflexivity. Qed.

(** The window race: thread 0 is preempted after 25 steps (it has deleted
    __wrapped__ and stored it in saved_attrs), thread 1 runs 26 steps (its
    getattr fails, it saves nothing) and is preempted, thread 0 finishes
    (restores __wrapped__), thread 1 reads the wrapped function's own signature. *)
Definition witness_plan : plan := [(0, Some 25); (1, Some 26); (0, None); (1, None)].

Theorem sequential_refuted :
  exists p st th,
    preemptions p <= 2
    /\ run_plan cfg_star (init_state i_w [KSig; KSig]) p = Some st
    /\ nth_error (g_threads st) 1 = Some th
    /\ th_ans th = Some (APlain VWrapped)
    /\ seq_answer cfg_star i_w (th_kind th) = AFwd VRaw
    /\ g_store st = i_w.
Proof.
  exists witness_plan.
  destruct (run_plan cfg_star (init_state i_w [KSig; KSig]) witness_plan) as [st|] eqn:E;
    [|vm_compute in E; discriminate].
  exists st. vm_compute in E. inversion E; subst; clear E.
  eexists. repeat split; try reflexivity; try (vm_compute; lia).
Qed.

(* a plain inspect.signature inside the window sees the wrapper's own signature *)
Theorem sequential_refuted_reader :
  exists p st th,
    preemptions p <= 1
    /\ run_plan cfg_star (init_state i_w [KSig; KPlain]) p = Some st
    /\ nth_error (g_threads st) 1 = Some th
    /\ th_ans th = Some (APlain VRaw)
    /\ seq_answer cfg_star i_w (th_kind th) = APlain VWrapped.
Proof.
  exists [(0, Some 27); (1, None); (0, None)].
  destruct (run_plan cfg_star (init_state i_w [KSig; KPlain]) [(0, Some 27); (1, None); (0, None)]) as [st|] eqn:E;
    [|vm_compute in E; discriminate].
  exists st. vm_compute in E. inversion E; subst; clear E.
  eexists. repeat split; try reflexivity; try (vm_compute; lia).
Qed.

(* ------------------------------------------------------------------ *)
(** Machine G (as_forged recursion guard) *)

(** Thread 0 runs 5 steps (it has added o to currently_computing), thread 1
    runs alone: its guard check finds o and inspect.signature falls back to the
    signature of type(o).__call__ (answer 2 instead of 1). *)
Theorem guard_refuted :
  exists p st th,
    preemptions p <= 1
    /\ grun_plan (ginit 2) p = Some st
    /\ g_any_out st = false
    /\ nth_error (gs_threads st) 1 = Some th
    /\ g_ans th = 2%N
    /\ gs_guard st = false.
Proof.
  exists [(0, Some 5); (1, None); (0, None)].
  destruct (grun_plan (ginit 2) [(0, Some 5); (1, None); (0, None)]) as [st|] eqn:E;
    [|vm_compute in E; discriminate].
  exists st. vm_compute in E. inversion E; subst; clear E.
  eexists. repeat split; try reflexivity; try (vm_compute; lia).
Qed.

(* every plan inside the modelled region: the guard set is empty at the end, and
   a wrong answer is always "2" with the three-line trace of a guard hit *)
Definition g_verdict (n : nat) (p : plan) : bool :=
  match grun_plan (ginit n) p with
  | None => true
  | Some st =>
      g_any_out st
      || (negb (gs_guard st)
          && forallb (fun th => N.eqb (g_ans th) 1
                                || (N.eqb (g_ans th) 2 && listN_eqb (rev (g_trace th)) [601; 602; 603]%N))
                     (gs_threads st))
  end.

Lemma g_bounded_b : forall_plans 25 2 2 (g_verdict 2) && forall_plans 25 3 2 (g_verdict 3) = true.
Proof. vm_compute. reflexivity. Qed.

Theorem guard_bounded_2threads : forall p, In p (all_plans 25 2 2) -> g_verdict 2 p = true.
Proof.
  intros p Hp. pose proof g_bounded_b as H. apply andb_true_iff in H. destruct H as [H _].
  exact (forall_plans_In _ _ _ _ H p Hp).
Qed.

Theorem guard_bounded_3threads : forall p, In p (all_plans 25 3 2) -> g_verdict 3 p = true.
Proof.
  intros p Hp. pose proof g_bounded_b as H. apply andb_true_iff in H. destruct H as [_ H].
  exact (forall_plans_In _ _ _ _ H p Hp).
Qed.
