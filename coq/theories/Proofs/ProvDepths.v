(* ProvDepths.v — C08, depths of whole operations in closed form.

   '+depths' of every result of merge / embed / mask / signature(partial) /
   forwards as a function of the inputs' depth maps, for ALL inputs; and the
   per-callable reading: the outermost signature keeps its depths (or gets
   smaller ones), every callable reached only through the k-th embedded
   signature is exactly k deeper than in that signature, a callable reached
   twice keeps the smaller depth. *)
From Coq Require Import List NArith Bool Arith Lia.
From Sigtools.Model Require Import Base Bind Roles Algebra.
From Sigtools.Proofs Require Import SmallModel Basics Prov Annot ProvKeys ContribEmbed.
Import ListNotations.
Open Scope N_scope.

Lemma apply_params_deps base acc r : apply_params base acc = Ok r -> deps r = sdep acc.
Proof. unfold apply_params. destruct (validate (flatten acc)); intros E; inversion E; subst. reflexivity. Qed.

Lemma sort_params_sdep s : sdep (sort_params s) = deps s.
Proof. unfold sort_params. rewrite (proj2 (sort_aux_src _ _)). reflexivity. Qed.

Lemma merger_sdep l r s : merger l r = Ok s -> sdep s = merge_depths (sdep l) (sdep r).
Proof.
  unfold merger. intros E.
  apply bind_ok in E. destruct E as [[[st3 il] ir] [_ E]].
  apply bind_ok in E. destruct E as [st4 [_ E]].
  apply bind_ok in E. destruct E as [st5 [_ E]].
  apply bind_ok in E. destruct E as [st6 [_ E]].
  destruct (add_star l r _ _ (varargs l) (varargs r) (normalise_pok st6)) as [va st8].
  destruct (add_star l r _ _ (varkwargs l) (varkwargs r) st8) as [vk st9].
  inversion E; subst. reflexivity.
Qed.

(* ---- merge ---- *)
Lemma merge_steps_sdep ss : forall acc r,
  merge_steps acc ss = Ok r -> sdep r = fold_left merge_depths (map deps ss) (sdep acc).
Proof.
  induction ss as [|s ss IH]; intros acc r; cbn [merge_steps map fold_left].
  - intros E; inversion E; subst. reflexivity.
  - intros E. apply bind_ok in E. destruct E as [acc' [E1 E2]]. apply to_incompatible_ok in E1.
    rewrite (IH _ _ E2), (merger_sdep _ _ _ E1), sort_params_sdep. reflexivity.
Qed.

(* '+depths' of merge: the depth maps merged left to right *)
Theorem merge_deps s0 ss r :
  merge (s0 :: ss) = Ok r -> deps r = fold_left merge_depths (map deps ss) (deps s0).
Proof.
  cbn [merge]. intros E. apply bind_ok in E. destruct E as [acc [E1 E2]].
  rewrite (apply_params_deps _ _ _ E2), (merge_steps_sdep _ _ _ E1), sort_params_sdep. reflexivity.
Qed.

(* per callable: the smallest depth listed in any input *)
Fixpoint min_all (ds : list depths) (f : N) : option N :=
  match ds with [] => None | d :: ds' => opt_min (rmin d f) (min_all ds' f) end.

Lemma fold_merge_depths_get ds : forall d f,
  dep_get (fold_left merge_depths ds d) f = opt_min (dep_get d f) (min_all ds f).
Proof.
  induction ds as [|d0 ds IH]; intros d f; cbn [fold_left min_all].
  - destruct (dep_get d f); reflexivity.
  - rewrite IH, merge_depths_get, opt_min_assoc. reflexivity.
Qed.

Theorem merge_depth_of s0 ss r f :
  merge (s0 :: ss) = Ok r ->
  dep_get (deps r) f = opt_min (dep_get (deps s0) f) (min_all (map deps ss) f).
Proof. intros E. rewrite (merge_deps _ _ _ E). apply fold_merge_depths_get. Qed.

(* ---- embed ---- *)
Lemma merge_depths_nil l : merge_depths l [] = l.
Proof. reflexivity. Qed.

Lemma embed_step_sdep outer inner uva uvk depth s :
  embed_step outer inner uva uvk depth = Ok s ->
  sdep s = merge_depths (sdep outer) (dep_incr depth (sdep inner)).
Proof.
  unfold embed_step. intros E.
  apply bind_ok in E. destruct E as [i [Ei E]]. apply merger_sdep in Ei. cbn [sdep] in Ei.
  apply bind_ok in E. destruct E as [n1 [_ E]].
  apply bind_ok in E. destruct E as [n2 [_ E]].
  apply bind_ok in E. destruct E as [[[e_pos e_pok] n3] [_ E]].
  apply bind_ok in E. destruct E as [n4 [_ E]].
  apply bind_ok in E. destruct E as [n5 [_ E]].
  apply bind_ok in E. destruct E as [n6 [_ E]].
  inversion E; subst. cbn [sdep]. rewrite Ei. reflexivity.
Qed.

(* the k-th embedded signature is k deeper *)
Fixpoint embed_deps (d : depths) (ss : list sigT) (k : N) : depths :=
  match ss with
  | [] => d
  | s :: ss' => embed_deps (merge_depths d (dep_incr k (deps s))) ss' (k + 1)
  end.

Lemma embed_steps_sdep ss : forall acc uva uvk k r,
  embed_steps acc ss uva uvk k = Ok r -> sdep r = embed_deps (sdep acc) ss k.
Proof.
  induction ss as [|s ss IH]; intros acc uva uvk k r; cbn [embed_steps embed_deps].
  - intros E; inversion E; subst. reflexivity.
  - intros E. apply bind_ok in E. destruct E as [acc' [E1 E2]]. apply to_incompatible_ok in E1.
    rewrite (IH _ _ _ _ _ E2), (embed_step_sdep _ _ _ _ _ _ E1), sort_params_sdep. reflexivity.
Qed.

Theorem embed_deps_spec s0 ss uva uvk r :
  embed (s0 :: ss) uva uvk = Ok r -> deps r = embed_deps (deps s0) ss 1.
Proof.
  cbn [embed]. intros E. apply bind_ok in E. destruct E as [acc [E1 E2]].
  rewrite (apply_params_deps _ _ _ E2), (embed_steps_sdep _ _ _ _ _ _ E1), sort_params_sdep. reflexivity.
Qed.

Theorem embed2_deps o i uva uvk r :
  embed [o; i] uva uvk = Ok r -> deps r = merge_depths (deps o) (dep_incr 1 (deps i)).
Proof. intros E. rewrite (embed_deps_spec _ _ _ _ _ E). reflexivity. Qed.

Lemma rmin_incr k d f : rmin (dep_incr k d) f = option_map (fun v => v + k) (rmin d f).
Proof.
  induction d as [|[g v] d IH]; cbn [dep_incr map rmin fst snd]; [reflexivity|].
  fold (dep_incr k d). rewrite IH. destruct (N.eqb f g); [|reflexivity].
  destruct (rmin d f) as [w|]; cbn; [f_equal; lia | reflexivity].
Qed.

(* per callable, embed of two: the outer depth, or one more than the inner
   depth, whichever is smaller *)
Theorem embed2_depth_of o i uva uvk r f :
  embed [o; i] uva uvk = Ok r ->
  dep_get (deps r) f = opt_min (dep_get (deps o) f) (option_map (fun v => v + 1) (rmin (deps i) f)).
Proof. intros E. rewrite (embed2_deps _ _ _ _ _ E), merge_depths_get, rmin_incr. reflexivity. Qed.

(* n-ary: the j-th embedded signature (j = 0 for the first after the outer one)
   contributes its depths plus j + 1 *)
Fixpoint embed_min (ss : list sigT) (k : N) (f : N) : option N :=
  match ss with
  | [] => None
  | s :: ss' => opt_min (option_map (fun v => v + k) (rmin (deps s) f)) (embed_min ss' (k + 1) f)
  end.

Lemma embed_deps_get ss : forall d k f,
  dep_get (embed_deps d ss k) f = opt_min (dep_get d f) (embed_min ss k f).
Proof.
  induction ss as [|s ss IH]; intros d k f; cbn [embed_deps embed_min].
  - destruct (dep_get d f); reflexivity.
  - rewrite IH, merge_depths_get, rmin_incr, opt_min_assoc. reflexivity.
Qed.

Theorem embed_depth_of s0 ss uva uvk r f :
  embed (s0 :: ss) uva uvk = Ok r ->
  dep_get (deps r) f = opt_min (dep_get (deps s0) f) (embed_min ss 1 f).
Proof. intros E. rewrite (embed_deps_spec _ _ _ _ _ E). apply embed_deps_get. Qed.

(* strictly deeper along the chain: a callable the outer signature does not
   list is exactly one deeper than in the embedded signature *)
Corollary embed2_strictly_deeper o i uva uvk r f v :
  embed [o; i] uva uvk = Ok r -> dep_get (deps o) f = None -> rmin (deps i) f = Some v ->
  dep_get (deps r) f = Some (v + 1) /\ (v < v + 1)%N.
Proof.
  intros E Ho Hi. rewrite (embed2_depth_of _ _ _ _ _ f E), Ho, Hi. cbn. split; [reflexivity | lia].
Qed.

(* the outer callables never get deeper *)
Corollary embed_outer_depth_kept s0 ss uva uvk r f d :
  embed (s0 :: ss) uva uvk = Ok r -> dep_get (deps s0) f = Some d ->
  exists d', dep_get (deps r) f = Some d' /\ (d' <= d)%N.
Proof.
  intros E H. rewrite (embed_depth_of _ _ _ _ _ f E), H.
  destruct (embed_min ss 1 f) as [w|]; cbn; eexists; split; try reflexivity; lia.
Qed.

(* with one entry per callable (what every operation produces from default
   sources), the smallest listed depth is the listed depth *)
Lemma rmin_dep_get d f : NoDup (map fst d) -> rmin d f = dep_get d f.
Proof.
  induction d as [|[g v] d IH]; intros H; [reflexivity|]. cbn [map fst] in H. inversion H as [|? ? Hg Hd]; subst.
  cbn [rmin dep_get]. destruct (N.eqb_spec f g) as [->|]; [|apply IH; exact Hd].
  assert (E : rmin d g = None).
  { clear -Hg. induction d as [|[h w] d IH]; [reflexivity|]. cbn [rmin]. cbn [map fst] in Hg.
    destruct (N.eqb_spec g h) as [->|]; [exfalso; apply Hg; left; reflexivity|].
    apply IH. intros Hin. apply Hg. right. exact Hin. }
  rewrite E. reflexivity.
Qed.

(* ---- mask / partial ---- *)
Theorem mask_gen_deps s n h named pm r :
  mask_gen s n h named pm = Ok r ->
  deps r = match pm with Some pobj => dep_set (dep_incr 1 (deps s)) pobj 0 | None => deps s end.
Proof.
  unfold mask_gen. intros E.
  apply bind_ok in E. destruct E as [[[pos1 pok1] consumed] [_ E]].
  destruct (if h_args h || h_varargs h then _ else _) as [va1 src2].
  destruct (if h_kwargs h then _ else _) as [[[pok2 kwo2] src3] named2].
  apply bind_ok in E. destruct E as [st [_ E]].
  destruct (if h_kwargs h || h_varkwargs h then _ else _) as [vk3 src4].
  destruct pm as [pobj|]; cbv beta iota in E; rewrite (apply_params_deps _ _ _ E); cbn [sdep];
    rewrite sort_params_sdep; reflexivity.
Qed.

Theorem mask_deps s n names0 h r : mask s n names0 h = Ok r -> deps r = deps s.
Proof. unfold mask. intros E. rewrite (mask_gen_deps _ _ _ _ _ _ E). reflexivity. Qed.

(* signature(partial): the partial object at depth 0, everything else one deeper *)
Theorem sig_partial_deps s n kw pobj r :
  sig_partial s n kw pobj = Ok r -> deps r = dep_set (dep_incr 1 (deps s)) pobj 0.
Proof. unfold sig_partial. intros E. rewrite (mask_gen_deps _ _ _ _ _ _ E). reflexivity. Qed.

Theorem sig_partial_depth_of s n kw pobj r f :
  sig_partial s n kw pobj = Ok r ->
  dep_get (deps r) f = if N.eqb f pobj then Some 0 else option_map (fun v => v + 1) (dep_get (deps s) f).
Proof. intros E. rewrite (sig_partial_deps _ _ _ _ _ E), dep_get_set, dep_incr_get. reflexivity. Qed.

(* ---- forwards ---- *)
Theorem forwards_deps o i n names0 ha hk uva uvk pt r :
  forwards o i n names0 ha hk uva uvk pt = Ok r -> deps r = merge_depths (deps o) (dep_incr 1 (deps i)).
Proof.
  unfold forwards. intros E. apply bind_ok in E. destruct E as [m [Em E]].
  rewrite (embed2_deps _ _ _ _ _ E), (mask_deps _ _ _ _ _ Em). destruct pt; reflexivity.
Qed.

Theorem forwards_depth_of o i n names0 ha hk uva uvk pt r f :
  forwards o i n names0 ha hk uva uvk pt = Ok r ->
  dep_get (deps r) f = opt_min (dep_get (deps o) f) (option_map (fun v => v + 1) (rmin (deps i) f)).
Proof. intros E. rewrite (forwards_deps _ _ _ _ _ _ _ _ _ _ E), merge_depths_get, rmin_incr. reflexivity. Qed.

(* ---- a chain: w forwards to g forwards to h ---- *)
Example depth_chain :
  exists r1 r2,
    forwards (dsig 101 [bp 1 PK; bp 9 VP; bp 10 VK]) (dsig 102 [bp 2 PK]) 0 [] false false true true false = Ok r1 /\
    forwards (dsig 100 [bp 3 PK; bp 9 VP; bp 10 VK]) r1 0 [] false false true true false = Ok r2 /\
    deps r2 = [(100, 0); (101, 1); (102, 2)].
Proof. eexists. eexists. split; [vm_compute; reflexivity|]. split; vm_compute; reflexivity. Qed.

Print Assumptions merge_deps.
Print Assumptions merge_depth_of.
Print Assumptions embed_deps_spec.
Print Assumptions embed2_deps.
Print Assumptions embed2_depth_of.
Print Assumptions embed_depth_of.
Print Assumptions embed2_strictly_deeper.
Print Assumptions embed_outer_depth_kept.
Print Assumptions rmin_dep_get.
Print Assumptions mask_gen_deps.
Print Assumptions mask_deps.
Print Assumptions sig_partial_deps.
Print Assumptions sig_partial_depth_of.
Print Assumptions forwards_deps.
Print Assumptions forwards_depth_of.
Print Assumptions depth_chain.
