(* VisitorTotal.v — the walker model never runs out of fuel: visit_function is
   total (C07, totality of the AST walker on every tree, whatever constructs it
   contains: everything without a handler is an NOpaque node). *)
From Sigtools.Model Require Import Base Visitor.
From Coq Require Import Lia.

(* ---- induction principle for the nested inductive [node] ---- *)
Section NodeInd.
Variable P : node -> Prop.
Hypothesis HName : forall id c, P (NName id c).
Hypothesis HAttr : forall v a, P v -> P (NAttr v a).
Hypothesis HCall : forall f args kws, P f -> Forall P args -> Forall P kws -> P (NCall f args kws).
Hypothesis HStar : forall v, P v -> P (NStarred v).
Hypothesis HKw : forall a v, P v -> P (NKeyword a v).
Hypothesis HFunc : forall a k va kw body, Forall P body -> P (NFunc a k va kw body).
Hypothesis HNl : forall names, P (NNonlocal names).
Hypothesis HOp : forall ch, Forall P ch -> P (NOpaque ch).

Fixpoint node_rect' (n : node) : P n :=
  let fix all (l : list node) : Forall P l :=
    match l with
    | [] => Forall_nil P
    | x :: l' => Forall_cons x (node_rect' x) (all l')
    end in
  match n with
  | NName id c => HName id c
  | NAttr v a => HAttr v a (node_rect' v)
  | NCall f args kws => HCall f args kws (node_rect' f) (all args) (all kws)
  | NStarred v => HStar v (node_rect' v)
  | NKeyword a v => HKw a v (node_rect' v)
  | NFunc a k va kw body => HFunc a k va kw body (all body)
  | NNonlocal names => HNl names
  | NOpaque ch => HOp ch (all ch)
  end.
End NodeInd.

(* ---- what every step preserves ---- *)
(* [keeps st st'] : the revisiting flag is unchanged; while revisiting, the
   work list is unchanged; in any case it grew by at most [k] entries *)
Definition keeps (k : nat) (st st' : vstate) : Prop :=
  v_rev st' = v_rev st /\
  (v_rev st = true -> v_todo st' = v_todo st) /\
  (length (v_todo st') <= length (v_todo st) + k)%nat.

Lemma keeps_refl st : keeps 0 st st.
Proof. unfold keeps. repeat split; auto; lia. Qed.

Lemma keeps_trans a b st1 st2 st3 :
  keeps a st1 st2 -> keeps b st2 st3 -> keeps (a + b) st1 st3.
Proof.
  intros [A1 [A2 A3]] [B1 [B2 B3]]. unfold keeps. repeat split.
  - congruence.
  - intros H. rewrite B2 by congruence. apply A2. exact H.
  - lia.
Qed.

Lemma keeps_weaken a b st st' : (a <= b)%nat -> keeps a st st' -> keeps b st st'.
Proof. intros H [A1 [A2 A3]]. unfold keeps. repeat split; auto. lia. Qed.

(* a state transformer that only touches frames / cur / calls / taint / next / stars *)
Definition inert (f : vstate -> vstate) : Prop :=
  forall st, v_rev (f st) = v_rev st /\ v_todo (f st) = v_todo st.

Lemma inert_keeps f st : inert f -> keeps 0 st (f st).
Proof. intros H. destruct (H st) as [A B]. unfold keeps. rewrite A, B. repeat split; auto; lia. Qed.

Lemma inert_set_frames fs : inert (fun st => set_frames st fs). Proof. intros st; split; reflexivity. Qed.
Lemma inert_set_cur c : inert (fun st => set_cur st c). Proof. intros st; split; reflexivity. Qed.
Lemma inert_add_call c : inert (fun st => add_call st c). Proof. intros st; split; reflexivity. Qed.
Lemma inert_add_taint u : inert (fun st => add_taint st u). Proof. intros st; split; reflexivity. Qed.
Lemma inert_bump : inert bump. Proof. intros st; split; reflexivity. Qed.
Lemma inert_set_stars a b : inert (fun st => set_stars st a b). Proof. intros st; split; reflexivity. Qed.
Lemma inert_ns_set name m : inert (fun st => ns_set st name m). Proof. intros st; split; reflexivity. Qed.
Lemma inert_ns_set_immutable name : inert (fun st => ns_set_immutable st name).
Proof. intros st; split; reflexivity. Qed.
Lemma inert_ns_add_nonlocal name : inert (fun st => ns_add_nonlocal st name).
Proof.
  intros st. unfold ns_add_nonlocal.
  destruct (find_ancestor _ _ _ _); split; reflexivity.
Qed.
Lemma inert_visit_name id c : inert (visit_name id c).
Proof. intros st. unfold visit_name. destruct (_ && _); split; reflexivity. Qed.

Lemma inert_comp f g : inert f -> inert g -> inert (fun st => g (f st)).
Proof. intros Hf Hg st. destruct (Hf st) as [A B]. destruct (Hg (f st)) as [C D]. split; congruence. Qed.

Lemma inert_fold {A} (f : vstate -> A -> vstate) l :
  (forall a, inert (fun st => f st a)) -> inert (fun st => fold_left f l st).
Proof.
  intros H. induction l as [|a l IH]; intros st; simpl; [split; reflexivity|].
  destruct (H a st) as [A1 A2]. destruct (IH (f st a)) as [B1 B2]. split; congruence.
Qed.

Lemma inert_process_parameters main a k va kw : inert (process_parameters main a k va kw).
Proof.
  intros st. unfold process_parameters.
  set (bind_one := fun (st0 : vstate) (name : N) =>
                     if main then let '(m, st1) := fresh_arg st0 name in ns_set st1 name m
                     else ns_set st0 name MUnknown).
  assert (Hb : forall name, inert (fun s => bind_one s name)).
  { intros name s. unfold bind_one, fresh_arg. destruct main; split; reflexivity. }
  destruct (inert_fold bind_one a Hb st) as [A1 A2].
  destruct (inert_fold bind_one k Hb (fold_left bind_one a st)) as [B1 B2].
  set (st2 := fold_left bind_one k (fold_left bind_one a st)) in *.
  destruct va as [nv|]; destruct kw as [nk|]; unfold fresh_arg; cbn [fst snd];
    destruct main; cbn; split; congruence.
Qed.

(* ---- named versions of the loops inside [walk] ---- *)
Definition walk_list : list node -> vstate -> vstate :=
  fix go (l : list node) (s : vstate) : vstate :=
    match l with [] => s | x :: l' => go l' (walk false x s) end.

Definition args_loop : list node -> vstate -> list marker * vstate :=
  fix go (l : list node) (s : vstate) : list marker * vstate :=
    match l with
    | [] => ([], s)
    | NStarred _ :: l' => go l' s
    | a :: l' =>
        let '(m, s1) := res_with (walk false) resolve_na a false false s in
        let '(ms, s2) := go l' s1 in (m :: ms, s2)
    end.

Definition kws_loop : list node -> vstate -> list (N * marker) * vstate :=
  fix go (l : list node) (s : vstate) : list (N * marker) * vstate :=
    match l with
    | [] => ([], s)
    | NKeyword (Some k) v :: l' =>
        let '(m, s1) := res_with (walk false) resolve_na v false false s in
        let '(ms, s2) := go l' s1 in ((k, m) :: ms, s2)
    | _ :: l' => go l' s
    end.

Definition star_one : list node -> nat -> vstate -> option marker * vstate :=
  fix one (l : list node) (seen : nat) (s : vstate) : option marker * vstate :=
    match l with
    | [] => (None, s)
    | NStarred v :: l' =>
        match seen with
        | O =>
            if is_empty (starred_values l') then
              let r := res_with (walk false) resolve_na v true false s in (Some (fst r), snd r)
            else (Some MUnknown, s)
        | S _ => (Some MUnknown, s)
        end
    | _ :: l' => one l' seen s
    end.

Definition dstar_one : list node -> vstate -> option marker * vstate :=
  fix one (l : list node) (s : vstate) : option marker * vstate :=
    match l with
    | [] => (None, s)
    | NKeyword None v :: l' =>
        if is_empty (dstar_values l') then
          let r := res_with (walk false) resolve_na v true false s in (Some (fst r), snd r)
        else (Some MUnknown, s)
    | _ :: l' => one l' s
    end.

Definition count_list : list node -> nat :=
  fix go (l : list node) : nat := match l with [] => O | x :: l' => (count_calls x + go l')%nat end.

Definition process_call (wrappedst : marker * vstate) (args kws : list node) : vstate :=
  let '(wrapped, st1) := wrappedst in
  let st2 :=
    if is_attr wrapped then
      match attr_base wrapped with
      | MArg u _ => add_taint st1 u
      | _ => st1
      end
    else st1 in
  let '(margs, st3) := args_loop args st2 in
  let '(mkws, st4) := kws_loop kws st3 in
  let '(mva, st5) := star_one args O st4 in
  let '(mvk, st6) := dstar_one kws st5 in
  let '(uva, ha) := has_hide mva (v_varargs st6) in
  let '(uvk, hk) := has_hide mvk (v_varkwargs st6) in
  add_call st6 (mkCallRec wrapped margs mkws mva mvk uva uvk ha hk).

Lemma walk_call_eq force f args kws st :
  walk force (NCall f args kws) st =
  if negb force && negb (v_rev st) && is_some (f_parent (get_frame (v_frames st) (v_cur st))) then
    set_todo st (v_todo st ++ [(NCall f args kws, v_cur st)])
  else process_call (res_with (walk false) resolve_na f true true st) args kws.
Proof. reflexivity. Qed.

Lemma walk_func_eq force a k va kw body st :
  walk force (NFunc a k va kw body) st =
  let fs := v_frames st in
  let st1 := set_cur (set_frames st (fs ++ [empty_frame (Some (v_cur st))])) (length fs) in
  let st2 := process_parameters false a k va kw st1 in
  let st3 := walk_list body st2 in
  match f_parent (get_frame (v_frames st3) (v_cur st3)) with
  | Some p => set_cur st3 p
  | None => st3
  end.
Proof. reflexivity. Qed.

Lemma walk_opaque_eq force ch st : walk force (NOpaque ch) st = walk_list ch st.
Proof. reflexivity. Qed.

Lemma count_call_eq f args kws :
  count_calls (NCall f args kws) = S (count_calls f + count_list args + count_list kws).
Proof. reflexivity. Qed.
Lemma count_func_eq a k va kw body : count_calls (NFunc a k va kw body) = count_list body.
Proof. reflexivity. Qed.
Lemma count_opaque_eq ch : count_calls (NOpaque ch) = count_list ch.
Proof. reflexivity. Qed.

(* ---- the invariant, by induction on the tree ---- *)
Definition Q (n : node) : Prop :=
  (forall force st, keeps (count_calls n) st (walk force n st)) /\
  (forall ro t st, keeps (count_calls n) st (snd (resolve_na n ro t st))).

(* for the wrappers NStarred / NKeyword the child is needed too *)
Definition P (n : node) : Prop :=
  Q n /\ match n with NStarred v | NKeyword _ v => Q v | _ => True end.

Lemma Q_res n ro t st : Q n -> keeps (count_calls n) st (snd (res_with (walk false) resolve_na n ro t st)).
Proof.
  intros [H1 H2]. unfold res_with. destruct n; try apply H2; cbn [snd]; apply H1.
Qed.

Lemma walk_list_keeps l : Forall P l -> forall s, keeps (count_list l) s (walk_list l s).
Proof.
  induction 1 as [|x l [[Hx _] _] _ IH]; intros s; cbn [walk_list count_list].
  - apply keeps_refl.
  - eapply keeps_trans; [apply Hx | apply IH].
Qed.

(* how much of the children list the two positional loops visit *)
Definition nonstar_count : list node -> nat :=
  fix go (l : list node) : nat :=
    match l with [] => O | NStarred _ :: l' => go l' | x :: l' => (count_calls x + go l')%nat end.
Definition star_count : list node -> nat :=
  fix go (l : list node) : nat :=
    match l with [] => O | NStarred v :: l' => (count_calls v + go l')%nat | _ :: l' => go l' end.
Lemma star_split l : (nonstar_count l + star_count l = count_list l)%nat.
Proof.
  induction l as [|x l IH]; [reflexivity|].
  destruct x; cbn [nonstar_count star_count count_list count_calls] in *; lia.
Qed.

Definition named_count : list node -> nat :=
  fix go (l : list node) : nat :=
    match l with [] => O | NKeyword (Some _) v :: l' => (count_calls v + go l')%nat | _ :: l' => go l' end.
Definition dstar_count : list node -> nat :=
  fix go (l : list node) : nat :=
    match l with [] => O | NKeyword None v :: l' => (count_calls v + go l')%nat | _ :: l' => go l' end.
Lemma dstar_split l : (named_count l + dstar_count l <= count_list l)%nat.
Proof.
  induction l as [|x l IH]; [cbn; lia|].
  destruct x as [| | | |a v| | |]; try destruct a; cbn [named_count dstar_count count_list count_calls] in *; lia.
Qed.

Lemma args_loop_keeps l : Forall P l -> forall s, keeps (nonstar_count l) s (snd (args_loop l s)).
Proof.
  induction 1 as [|x l [Hx _] _ IH]; intros s; [apply keeps_refl|].
  destruct x; cbn [args_loop nonstar_count];
    try (destruct (res_with (walk false) resolve_na _ false false s) as [m s1] eqn:E;
         specialize (IH s1); destruct (args_loop l s1) as [ms s2]; cbn [snd] in *;
         eapply keeps_trans; [|exact IH];
         pose proof (Q_res _ false false s Hx) as HQ; rewrite E in HQ; exact HQ).
  apply IH.
Qed.

Lemma kws_loop_keeps l : Forall P l -> forall s, keeps (named_count l) s (snd (kws_loop l s)).
Proof.
  induction 1 as [|x l [_ Hc] _ IH]; intros s; [apply keeps_refl|].
  destruct x as [| | | |a v| | |]; cbn [kws_loop named_count]; try apply IH.
  destruct a as [k|]; [|apply IH].
  destruct (res_with (walk false) resolve_na v false false s) as [m s1] eqn:E.
  specialize (IH s1). destruct (kws_loop l s1) as [ms s2]. cbn [snd] in *.
  eapply keeps_trans; [|exact IH].
  pose proof (Q_res v false false s Hc) as HQ. rewrite E in HQ. exact HQ.
Qed.

Lemma star_one_keeps l : Forall P l -> forall seen s, keeps (star_count l) s (snd (star_one l seen s)).
Proof.
  induction 1 as [|x l [_ Hc] _ IH]; intros seen s; [apply keeps_refl|].
  destruct x; cbn [star_one star_count]; try apply IH.
  destruct seen; [|cbn [snd]; eapply keeps_weaken; [|apply keeps_refl]; lia].
  destruct (is_empty (starred_values l)); cbn [snd].
  - eapply keeps_weaken; [|apply (Q_res x true false s Hc)]. lia.
  - eapply keeps_weaken; [|apply keeps_refl]. lia.
Qed.

Lemma dstar_one_keeps l : Forall P l -> forall s, keeps (dstar_count l) s (snd (dstar_one l s)).
Proof.
  induction 1 as [|x l [_ Hc] _ IH]; intros s; [apply keeps_refl|].
  destruct x as [| | | |a v| | |]; cbn [dstar_one dstar_count]; try apply IH.
  destruct a as [k|]; [apply IH|].
  destruct (is_empty (dstar_values l)); cbn [snd].
  - eapply keeps_weaken; [|apply (Q_res v true false s Hc)]. lia.
  - eapply keeps_weaken; [|apply keeps_refl]. lia.
Qed.

Lemma process_call_keeps w st0 st1 f args kws :
  Forall P args -> Forall P kws ->
  keeps (count_calls f) st0 st1 ->
  keeps (count_calls f + count_list args + count_list kws) st0 (process_call (w, st1) args kws).
Proof.
  intros Ha Hk H0. unfold process_call.
  set (st2 := if is_attr w then match attr_base w with MArg u _ => add_taint st1 u | _ => st1 end else st1).
  assert (H2 : keeps 0 st1 st2).
  { unfold st2. destruct (is_attr w); [|apply keeps_refl].
    destruct (attr_base w); try apply keeps_refl. apply (inert_keeps _ st1 (inert_add_taint uid)). }
  pose proof (args_loop_keeps args Ha st2) as H3. destruct (args_loop args st2) as [margs st3].
  pose proof (kws_loop_keeps kws Hk st3) as H4. destruct (kws_loop kws st3) as [mkws st4].
  pose proof (star_one_keeps args Ha O st4) as H5. destruct (star_one args O st4) as [mva st5].
  pose proof (dstar_one_keeps kws Hk st5) as H6. destruct (dstar_one kws st5) as [mvk st6].
  cbn [snd] in *.
  destruct (has_hide mva (v_varargs st6)) as [uva ha]. destruct (has_hide mvk (v_varkwargs st6)) as [uvk hk].
  pose proof (inert_keeps _ st6 (inert_add_call (mkCallRec w margs mkws mva mvk uva uvk ha hk))) as H7.
  pose proof (star_split args). pose proof (dstar_split kws).
  eapply keeps_weaken; [|eapply keeps_trans; [exact H0|eapply keeps_trans; [exact H2|
    eapply keeps_trans; [exact H3|eapply keeps_trans; [exact H4|eapply keeps_trans; [exact H5|
    eapply keeps_trans; [exact H6|exact H7]]]]]]].
  lia.
Qed.

Theorem walk_keeps : forall n, P n.
Proof.
  apply node_rect'.
  - (* NName *) intros id c. split; [|exact I]. split.
    + intros force st. cbn [walk count_calls]. apply inert_keeps. apply inert_visit_name.
    + intros ro t st. cbn [resolve_na snd count_calls]. destruct ro; [apply keeps_refl|].
      apply inert_keeps. apply inert_visit_name.
  - (* NAttr *) intros v a [[H1 H2] _]. split; [|exact I]. split.
    + intros force st. cbn [walk]. eapply keeps_weaken; [|apply keeps_refl]. lia.
    + intros ro t st. cbn [resolve_na count_calls].
      destruct v; cbn [snd];
        try (match goal with |- context [resolve_na ?x true t st] =>
               pose proof (H2 true t st) as HH; destruct (resolve_na x true t st) as [mv s1]; exact HH end);
        try apply H1.
  - (* NCall *) intros f args kws [Hf _] Ha Hk. split; [|exact I]. split.
    + intros force st. rewrite walk_call_eq, count_call_eq.
      destruct (negb force && negb (v_rev st) && is_some (f_parent (get_frame (v_frames st) (v_cur st)))) eqn:Hc.
      * apply andb_true_iff in Hc. destruct Hc as [Hc _]. apply andb_true_iff in Hc. destruct Hc as [_ Hc].
        apply negb_true_iff in Hc. unfold keeps. cbn [set_todo v_rev v_todo]. repeat split.
        -- intros HH. congruence.
        -- rewrite app_length. cbn [length]. lia.
      * destruct (res_with (walk false) resolve_na f true true st) as [w st1] eqn:E.
        pose proof (Q_res f true true st Hf) as H0. rewrite E in H0. cbn [snd] in H0.
        eapply keeps_weaken; [|apply (process_call_keeps w st st1 f args kws Ha Hk H0)]. lia.
    + intros ro t st. cbn [resolve_na snd]. eapply keeps_weaken; [|apply keeps_refl]. lia.
  - (* NStarred *) intros v [Hv _]. split; [|exact Hv]. destruct Hv as [H1 H2]. split.
    + intros force st. cbn [walk count_calls]. apply H1.
    + intros ro t st. cbn [resolve_na snd]. eapply keeps_weaken; [|apply keeps_refl]. lia.
  - (* NKeyword *) intros a v [Hv _]. split; [|exact Hv]. destruct Hv as [H1 H2]. split.
    + intros force st. cbn [walk count_calls]. apply H1.
    + intros ro t st. cbn [resolve_na snd]. eapply keeps_weaken; [|apply keeps_refl]. lia.
  - (* NFunc *) intros a k va kw body Hb. split; [|exact I]. split.
    + intros force st. rewrite walk_func_eq, count_func_eq. cbv zeta.
      set (st1 := set_cur (set_frames st (v_frames st ++ [empty_frame (Some (v_cur st))])) (length (v_frames st))).
      set (st2 := process_parameters false a k va kw st1).
      pose proof (walk_list_keeps body Hb st2) as H3.
      set (st3 := walk_list body st2) in *.
      assert (H1 : keeps 0 st st1).
      { apply (inert_keeps (fun s => set_cur (set_frames s (v_frames st ++ [empty_frame (Some (v_cur st))])) (length (v_frames st)))).
        intros s. split; reflexivity. }
      assert (H2 : keeps 0 st1 st2) by (apply inert_keeps; apply inert_process_parameters).
      assert (H4 : keeps 0 st3 (match f_parent (get_frame (v_frames st3) (v_cur st3)) with
                                | Some p => set_cur st3 p | None => st3 end)).
      { destruct (f_parent _); [apply (inert_keeps _ st3 (inert_set_cur n))|apply keeps_refl]. }
      eapply keeps_weaken; [|eapply keeps_trans; [exact H1|eapply keeps_trans; [exact H2|
        eapply keeps_trans; [exact H3|exact H4]]]]. lia.
    + intros ro t st. cbn [resolve_na snd]. eapply keeps_weaken; [|apply keeps_refl]. lia.
  - (* NNonlocal *) intros names. split; [|exact I]. split.
    + intros force st. cbn [walk count_calls].
      apply (inert_keeps (fun s => fold_left ns_add_nonlocal names s)).
      apply inert_fold. intros nm. apply inert_ns_add_nonlocal.
    + intros ro t st. cbn [resolve_na snd]. apply keeps_refl.
  - (* NOpaque *) intros ch Hc. split; [|exact I]. split.
    + intros force st. rewrite walk_opaque_eq, count_opaque_eq. apply walk_list_keeps. exact Hc.
    + intros ro t st. cbn [resolve_na snd]. eapply keeps_weaken; [|apply keeps_refl]. lia.
Qed.

(* ---- the deferred work list is drained within its fuel ---- *)
Lemma Forall_P l : Forall P l.
Proof. induction l; constructor; auto using walk_keeps. Qed.

Lemma drain_total fuel : forall st,
  v_rev st = true -> (length (v_todo st) <= fuel)%nat -> drain fuel st <> None.
Proof.
  induction fuel as [|fuel IH]; intros st Hr Hl.
  - destruct (v_todo st) eqn:E; [|cbn in Hl; lia]. cbn. rewrite E. discriminate.
  - cbn [drain]. destruct (v_todo st) as [|[n ns] rest] eqn:E; [discriminate|].
    set (st' := set_cur (set_todo st rest) ns).
    assert (Hr' : v_rev st' = true) by exact Hr.
    destruct (walk_keeps n) as [[H1 _] _]. destruct (H1 true st') as [A [B _]].
    apply IH.
    + rewrite A. exact Hr'.
    + rewrite (B Hr'). cbn. cbn in Hl. lia.
Qed.

Lemma fold_walk_list body st : fold_left (fun s x => walk false x s) body st = walk_list body st.
Proof. revert st. induction body as [|x l IH]; intros st; [reflexivity|]. cbn. apply IH. Qed.

Lemma fold_count body a :
  fold_left (fun a x => (a + count_calls x)%nat) body a = (a + count_list body)%nat.
Proof.
  revert a. induction body as [|x l IH]; intros a; cbn [fold_left count_list]; [lia|].
  rewrite IH. lia.
Qed.

(* C07: the walker is total on every tree — CallListerVisitor(func) in the model
   never runs out of fuel, whatever the body contains *)
Theorem visit_function_total fargs fkwonly va kw body :
  visit_function fargs fkwonly va kw body <> None.
Proof.
  unfold visit_function.
  set (st1 := process_parameters true fargs fkwonly va kw init_state).
  rewrite fold_walk_list, fold_count. cbn [Nat.add].
  pose proof (walk_list_keeps body (Forall_P body) st1) as [A [_ C]].
  set (st2 := walk_list body st1) in *.
  assert (Ht : v_todo st1 = []).
  { destruct (inert_process_parameters true fargs fkwonly va kw init_state) as [_ X]. exact X. }
  assert (Hd : drain (S (count_list body)) (set_rev st2 true) <> None).
  { apply drain_total; [reflexivity|]. cbn [set_rev v_todo]. unfold st1 in *. rewrite Ht in C. cbn in C. lia. }
  destruct (drain (S (count_list body)) (set_rev st2 true)); [discriminate|contradiction].
Qed.
