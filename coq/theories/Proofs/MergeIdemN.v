(* MergeIdemN.v - idempotence of merge for ANY number of copies (C09): the binary step generalised to two
   sorted signatures with the same buckets (their provenance may differ, as it does between an accumulator
   and the next copy), then lifted through the n-ary fold. *)
From Sigtools.Model Require Import Base Bind Roles Algebra.
From Sigtools.Proofs Require Import SmallModel Basics MaskLaws MaskExact MergeNeutral MergeIdem FoldLaw.
From Coq Require Import Lia.

Section IdemG.
Variable l l' : sorted.
Hypothesis Ekwo : kwoargs l' = kwoargs l.
Hypothesis Hwf : forall p, In p (flatten l) -> ann_wf p.

(* matched keyword-only parameters *)
Lemma kwo_match_self_g lk : forall st,
  (forall p, In p lk -> find_param (pname p) (kwoargs l) = Some p /\ ann_wf p) ->
  shp (kwo_match l l' lk st) =
  (m_pos st, m_pok st, od_update (m_kwo st) lk, m_xva_l st, m_xvk_l st, m_lunm st, m_runm st).
Proof.
  induction lk as [|p lk IH]; intros st H; [reflexivity|].
  cbn [kwo_match]. destruct (H p (or_introl eq_refl)) as [Hf Hw]. rewrite Ekwo, Hf.
  rewrite IH by (intros q Hq; apply H; right; exact Hq).
  rewrite (concile_self p Hw). reflexivity.
Qed.

Lemma zip_pos_self_g lp : forall il ir st,
  (forall p, In p lp -> ann_wf p) ->
  exists st', zip_pos l l' lp lp il ir st = Ok (st', il, ir) /\
    shp st' = (m_pos st ++ lp, m_pok st, m_kwo st, m_xva_l st, m_xvk_l st, m_lunm st, m_runm st).
Proof.
  induction lp as [|p lp IH]; intros il ir st H.
  - exists st. split; [reflexivity|]. unfold shp. rewrite app_nil_r. reflexivity.
  - cbn [zip_pos]. rewrite N.eqb_refl, (concile_self p (H p (or_introl eq_refl))).
    match goal with |- context [zip_pos l l' lp lp il ir ?s] =>
      destruct (IH il ir s) as [st' [E Hs]]; [intros q Hq; apply H; right; exact Hq|] end.
    exists st'. split; [exact E|]. rewrite Hs. unfold shp. cbn. rewrite <- app_assoc. reflexivity.
Qed.

Lemma zip_pok_self_g il : forall st,
  (forall p, In p il -> ann_wf p) ->
  exists st', zip_pok l l' il il st = Ok st' /\
    shp st' = (m_pos st, m_pok st ++ il, m_kwo st, m_xva_l st, m_xvk_l st, m_lunm st, m_runm st).
Proof.
  induction il as [|p il IH]; intros st H.
  - exists st. split; [reflexivity|]. unfold shp. rewrite app_nil_r. reflexivity.
  - cbn [zip_pok]. rewrite N.eqb_refl, (concile_self p (H p (or_introl eq_refl))).
    match goal with |- context [zip_pok l l' il il ?s] =>
      destruct (IH s) as [st' [E Hs]]; [intros q Hq; apply H; right; exact Hq|] end.
    exists st'. split; [exact E|]. rewrite Hs. unfold shp. cbn. rewrite <- app_assoc. reflexivity.
Qed.
End IdemG.

Lemma find_param_self_g lk p :
  NoDup (names_of lk) -> In p lk -> find_param (pname p) lk = Some p.
Proof.
  induction lk as [|q lk IH]; intros Hn Hp; [destruct Hp|]. cbn in Hn. inversion Hn as [|? ? Hq Hn']; subst.
  cbn [find_param]. destruct Hp as [->|Hp]; [rewrite N.eqb_refl; reflexivity|].
  destruct (N.eqb_spec (pname p) (pname q)) as [E|_]; [|apply IH; assumption].
  exfalso. apply Hq. rewrite <- E. unfold names_of. apply in_map. exact Hp.
Qed.

Lemma r_unmatched_self_g l l' : kwoargs l' = kwoargs l -> NoDup (names_of (kwoargs l)) -> r_unmatched l l' = [].
Proof.
  intros Ekwo Hn. unfold r_unmatched. rewrite Ekwo.
  assert (G : forall sub, incl sub (kwoargs l) ->
              filter (fun p => negb (isSome (find_param (pname p) (kwoargs l)))) sub = []).
  { induction sub as [|p sub IH]; intros Hi; [reflexivity|]. cbn [filter].
    rewrite (find_param_self_g _ p Hn) by (apply Hi; left; reflexivity). cbn.
    apply IH. intros x Hx. apply Hi. right. exact Hx. }
  apply G. apply incl_refl.
Qed.

Theorem merger_idem_g l l' :
  posargs l' = posargs l -> pokargs l' = pokargs l -> varargs l' = varargs l ->
  kwoargs l' = kwoargs l -> varkwargs l' = varkwargs l ->
  (forall p, In p (flatten l) -> ann_wf p) ->
  Forall (fun p => pkind p = PK) (pokargs l) -> NoDup (names_of (kwoargs l)) ->
  exists res, merger l l' = Ok res /\
    posargs res = posargs l /\ pokargs res = pokargs l /\ varargs res = varargs l /\
    kwoargs res = kwoargs l /\ varkwargs res = varkwargs l.
Proof.
  intros Epos Epok Eva Ekwo Evk Hwf Hpk Hnd. unfold merger. rewrite Epos, Epok, Eva, Evk.
  set (st0 := mkM [] [] [] [] false false false false [] []).
  assert (Hk : forall p, In p (kwoargs l) -> find_param (pname p) (kwoargs l) = Some p /\ ann_wf p).
  { intros p Hp. split; [apply find_param_self_g; assumption|]. apply Hwf. unfold flatten.
    apply in_or_app. right. apply in_or_app. right. apply in_or_app. right. apply in_or_app. left. exact Hp. }
  pose proof (kwo_match_self_g l l' Ekwo (kwoargs l) st0 Hk) as H1.
  set (st1 := kwo_match l l' (kwoargs l) st0) in *.
  cbn [st0 m_pos m_pok m_kwo m_xva_l m_xvk_l m_lunm m_runm] in H1.
  assert (Hkw : od_update [] (kwoargs l) = kwoargs l).
  { rewrite od_update_fresh; [reflexivity|exact Hnd|intros x _ []]. }
  rewrite Hkw in H1. rewrite (r_unmatched_self_g l l' Ekwo Hnd).
  set (st2 := set_unm st1 R []).
  assert (H2 : shp st2 = ([], [], kwoargs l, false, false, [], [])).
  { apply shp_inv in H1. destruct H1 as (A1 & A2 & A3 & A4 & A5 & A6 & A7).
    apply shp_intro; unfold st2; cbn; assumption || reflexivity. }
  assert (Wpos : forall p, In p (posargs l) -> ann_wf p).
  { intros p Hp. apply Hwf. unfold flatten. apply in_or_app. left. exact Hp. }
  assert (Wpok : forall p, In p (pokargs l) -> ann_wf p).
  { intros p Hp. apply Hwf. unfold flatten. apply in_or_app. right. apply in_or_app. left. exact Hp. }
  destruct (zip_pos_self_g l l' (posargs l) (pokargs l) (pokargs l) st2 Wpos) as [st3 [E3 H3]].
  rewrite E3. cbn [bind].
  destruct (zip_pok_self_g l l' (pokargs l) st3 Wpok) as [st4 [E4 H4]]. rewrite E4. cbn [bind].
  apply shp_inv in H2. destruct H2 as (A1 & A2 & A3 & A4 & A5 & A6 & A7).
  rewrite A1, A2, A3, A4, A5, A6, A7 in H3. cbn [app] in H3.
  apply shp_inv in H3. destruct H3 as (B1 & B2 & B3 & B4 & B5 & B6 & B7).
  rewrite B1, B2, B3, B4, B5, B6, B7 in H4. cbn [app] in H4.
  apply shp_inv in H4. destruct H4 as (C1 & C2 & C3 & C4 & C5 & C6 & C7).
  assert (E5 : unmatched_kwo l l' L st4 = Ok st4) by (unfold unmatched_kwo; cbn [unm]; rewrite C6; reflexivity).
  rewrite E5. cbn [bind].
  assert (E6 : unmatched_kwo l l' R st4 = Ok st4) by (unfold unmatched_kwo; cbn [unm]; rewrite C7; reflexivity).
  rewrite E6. cbn [bind].
  assert (H7 : shp (normalise_pok st4) = (posargs l, pokargs l, kwoargs l, false, false, [], [])).
  { unfold normalise_pok. rewrite C2, (split_po_prefix_pk _ Hpk).
    apply shp_intro; cbn [set_pok set_pos m_pos m_pok m_kwo m_xva_l m_xvk_l m_lunm m_runm];
      try assumption; try reflexivity. rewrite C1, app_nil_r. reflexivity. }
  set (st7 := normalise_pok st4) in *.
  assert (Hstar : forall (o : option param) xl xr st,
             (forall a, o = Some a -> ann_wf a) ->
             exists st', add_star l l' xl xr o o st = (o, st') /\ shp st' = shp st).
  { intros o xl xr st Ho. unfold add_star. destruct o as [a|]; [|exists st; split; reflexivity].
    rewrite (concile_self a (Ho a eq_refl)), N.eqb_refl.
    destruct xl, xr; cbn [negb andb]; eexists; split; reflexivity. }
  assert (Wva : forall a, varargs l = Some a -> ann_wf a).
  { intros a Ha. apply Hwf. unfold flatten. rewrite Ha. apply in_or_app. right. apply in_or_app. right.
    apply in_or_app. left. left. reflexivity. }
  assert (Wvk : forall a, varkwargs l = Some a -> ann_wf a).
  { intros a Ha. apply Hwf. unfold flatten. rewrite Ha. repeat (apply in_or_app; right). left. reflexivity. }
  destruct (Hstar (varargs l) (m_xva_l st7) (m_xva_r st7) st7 Wva) as [st8 [E8 H8]]. rewrite E8.
  destruct (Hstar (varkwargs l) (m_xvk_l st8) (m_xvk_r st8) st8 Wvk) as [st9 [E9 H9]]. rewrite E9.
  eexists. split; [reflexivity|]. cbn [posargs pokargs varargs kwoargs varkwargs].
  rewrite H8, H7 in H9. apply shp_inv in H9. destruct H9 as (D1 & D2 & D3 & _).
  rewrite D1, D2, D3. repeat split; reflexivity.
Qed.


(* ---- the n-ary lift ---- *)
Definition same_buckets (a b : sorted) : Prop :=
  posargs a = posargs b /\ pokargs a = pokargs b /\ varargs a = varargs b /\
  kwoargs a = kwoargs b /\ varkwargs a = varkwargs b.

Lemma same_buckets_flatten a b : same_buckets a b -> flatten a = flatten b.
Proof. intros (E1 & E2 & E3 & E4 & E5). unfold flatten. rewrite E1, E2, E3, E4, E5. reflexivity. Qed.

(* sorting reads the parameters only: provenance and depths do not influence the buckets *)
Lemma sort_aux_same_buckets ps : forall a b, same_buckets a b -> same_buckets (sort_aux ps a) (sort_aux ps b).
Proof.
  induction ps as [|p ps IH]; intros a b H; [exact H|].
  destruct H as (E1 & E2 & E3 & E4 & E5).
  cbn [sort_aux]. apply IH. unfold same_buckets.
  destruct (pkind p); cbn [posargs pokargs varargs kwoargs varkwargs]; rewrite ?E1, ?E2, ?E3, ?E4, ?E5;
    repeat split; reflexivity.
Qed.

Lemma sort_params_same_buckets x s : params x = params s -> same_buckets (sort_params x) (sort_params s).
Proof.
  intros E. unfold sort_params. rewrite E. apply sort_aux_same_buckets. repeat split; reflexivity.
Qed.

Section Nary.
Variable s : sigT.
Hypothesis Hv : valid_sig (params s) = true.
Hypothesis Hw : forall p, In p (params s) -> ann_wf p.

Lemma merge_steps_same_params ss : forall acc,
  Forall (fun x => params x = params s) ss ->
  same_buckets acc (sort_params s) ->
  exists res, merge_steps acc ss = Ok res /\ same_buckets res (sort_params s).
Proof.
  pose proof (sort_flatten_roundtrip s Hv) as Hf.
  destruct (sort_params_kinds s) as (_ & Hpk & _).
  assert (Hval : validate (params s) = true).
  { unfold valid_sig in Hv. apply andb_true_iff in Hv. destruct Hv as [Hv' _]. apply andb_true_iff in Hv'. tauto. }
  assert (Hnd : NoDup (names_of (flatten (sort_params s)))) by (rewrite Hf; apply validate_nodup; exact Hval).
  induction ss as [|x ss IH]; intros acc Hall Hacc.
  - exists acc. split; [reflexivity|exact Hacc].
  - inversion Hall as [|? ? Hx Hall']; subst.
    pose proof (sort_params_same_buckets x s Hx) as Hxs.
    destruct Hacc as (A1 & A2 & A3 & A4 & A5). destruct Hxs as (X1 & X2 & X3 & X4 & X5).
    assert (Hfl : flatten acc = flatten (sort_params s))
      by (apply same_buckets_flatten; repeat split; assumption).
    assert (W : forall p, In p (flatten acc) -> ann_wf p).
    { intros p Hp. apply Hw. rewrite <- Hf, <- Hfl. exact Hp. }
    assert (K : Forall (fun p => pkind p = PK) (pokargs acc)) by (rewrite A2; exact Hpk).
    assert (D : NoDup (names_of (kwoargs acc))) by (rewrite A4; apply (nodup_kwo _ Hnd)).
    destruct (merger_idem_g acc (sort_params x) ltac:(congruence) ltac:(congruence) ltac:(congruence)
                ltac:(congruence) ltac:(congruence) W K D) as [res [E (E1 & E2 & E3 & E4 & E5)]].
    cbn [merge_steps]. rewrite E. cbn [to_incompatible bind]. apply IH; [exact Hall'|].
      repeat split; congruence.
Qed.

(* merging any number of signatures that all have the parameters of s (their provenance, depths and
   return annotations may differ) gives the parameters of s *)
Theorem merge_same_params ss :
  Forall (fun x => params x = params s) ss ->
  exists r, merge (s :: ss) = Ok r /\ params r = params s.
Proof.
  intros Hall.
  destruct (merge_steps_same_params ss (sort_params s) Hall) as [res [E Hb]]; [repeat split; reflexivity|].
  pose proof (sort_flatten_roundtrip s Hv) as Hf.
  assert (Hval : validate (params s) = true).
  { unfold valid_sig in Hv. apply andb_true_iff in Hv. destruct Hv as [Hv' _]. apply andb_true_iff in Hv'. tauto. }
  cbn [merge]. rewrite E. cbn [bind]. unfold apply_params.
  rewrite (same_buckets_flatten _ _ Hb), Hf, Hval. eexists. split; reflexivity.
Qed.

(* merge(s, s, ..., s) = s, any number of copies *)
Theorem merge_idempotent_n n : exists r, merge (s :: repeat s n) = Ok r /\ params r = params s.
Proof.
  apply merge_same_params. induction n as [|n IH]; cbn [repeat]; constructor; [reflexivity|exact IH].
Qed.
End Nary.

(* non-vacuity: three copies of (a, /, b=1, *args, c, **kwargs) *)
Example merge_idempotent_n_example :
  let s := {| params := [ {| pname := 1; pkind := PO; pdef := None; pann := None; puann := UEmpty |};
                          {| pname := 2; pkind := PK; pdef := Some 1%N; pann := None; puann := UEmpty |};
                          {| pname := 10; pkind := VP; pdef := None; pann := None; puann := UEmpty |};
                          {| pname := 3; pkind := KO; pdef := None; pann := None; puann := UEmpty |};
                          {| pname := 11; pkind := VK; pdef := None; pann := None; puann := UEmpty |} ];
              ret := None; uret := UEmpty; srcs := []; deps := [] |} in
  valid_sig (params s) = true /\
  match merge [s; s; s] with Ok r => params r = params s | Err _ => False end.
Proof. vm_compute. split; reflexivity. Qed.

(* the same through the public binary function applied repeatedly: merge(merge(merge(s, x1), x2), ...) *)
Lemma merge_nested_from_same_params ps ss : forall acc,
  params acc = ps -> valid_sig ps = true -> (forall p, In p ps -> ann_wf p) ->
  Forall (fun x => params x = ps) ss ->
  exists r, merge_nested_from acc ss = Ok r /\ params r = ps.
Proof.
  induction ss as [|x ss IH]; intros acc Ea Hv Hw Hall.
  - exists acc. split; [reflexivity|exact Ea].
  - inversion Hall as [|? ? Hx Hall']; subst.
    destruct (merge_same_params acc Hv Hw [x]) as [r1 [E1 P1]]; [constructor; [exact Hx|constructor]|].
    cbn [merge_nested_from]. rewrite E1. cbn [bind]. apply IH; assumption.
Qed.

Theorem merge_nested_same_params s ss :
  valid_sig (params s) = true -> (forall p, In p (params s) -> ann_wf p) ->
  Forall (fun x => params x = params s) ss ->
  exists r, merge_nested (s :: ss) = Ok r /\ params r = params s.
Proof.
  intros Hv Hw Hall. cbn [merge_nested]. apply merge_nested_from_same_params; auto.
Qed.

(* consequently the flat and the nested form agree on such inputs, parameter for parameter *)
Theorem merge_nested_flat_same_params s ss :
  valid_sig (params s) = true -> (forall p, In p (params s) -> ann_wf p) ->
  Forall (fun x => params x = params s) ss ->
  exists r1 r2, merge (s :: ss) = Ok r1 /\ merge_nested (s :: ss) = Ok r2 /\ params r1 = params r2.
Proof.
  intros Hv Hw Hall.
  destruct (merge_same_params s Hv Hw ss Hall) as [r1 [E1 P1]].
  destruct (merge_nested_same_params s ss Hv Hw Hall) as [r2 [E2 P2]].
  exists r1, r2. repeat split; congruence.
Qed.

(* the hypothesis on annotations cannot be dropped: a parameter without annotation that still carries an
   upgraded annotation (impossible for parameters sigtools builds) is not a fixed point of conciliation *)
Theorem merge_idempotent_needs_ann_wf :
  exists s, valid_sig (params s) = true /\
    match merge [s; s] with Ok r => params r <> params s | Err _ => True end.
Proof.
  exists {| params := [ {| pname := 1; pkind := PK; pdef := None; pann := None; puann := UPre 5%N |} ];
            ret := None; uret := UEmpty; srcs := []; deps := [] |}.
  vm_compute. split; [reflexivity|]. discriminate.
Qed.
