(* Proofs/InvarianceDiscover.v -- C06, invariance of the DISCOVERED SIGNATURE under irrelevant
   variation of the wrapper body, for the statement grammar [stmt] of Model/Exec.v: the
   flag-level theorems of Proofs/Exec.v lifted to the full call records of the walker and from
   there to [discover] (Model/Discover.v), for ANY way of resolving a recorded call to a callee
   signature, any own / plain signature, ANY position -- at the top of the body or inside
   branches at any depth ([plug] of a context [bctx]).

   - [walker_records_insert_neutral]: inserting an unrelated call f(<constant>) or a call
     f( *args ) that hands the (immutable) tuple to other code inserts ONE record with all-false
     flags in the walker's output and leaves every other RECORD literally unchanged;
   - [discover_neutral_anywhere]: hence the discovered signature is literally the same;
   - [walker_branch_anywhere] / [discover_branch_anywhere]: wrapping statements a ++ b in
     `if <constant>: a else: b` does not change the walker's output at all;
   - [discover_branch_neutral_arm_anywhere]: a two-way branch whose other arm consists of
     unrelated statements;
   - FALSE of the model (and of the library, rightly so): inserting f( **kwargs ) -- SPass f SK,
     the dict may be mutated by f -- [discover_pass_kwargs_refuted]; the flag-level theorem
     C06_alias_args_invariant does NOT lift to signatures: `y = args` for a y that is the name
     of a later callee makes that callee unresolvable -- [discover_alias_refuted]. *)
From Sigtools.Model Require Import Base Bind Roles Algebra Visitor Discover Exec ExecNested.
From Sigtools.Proofs Require Import VisitorTotal Exec ExecNested Discover DiscoverSoundWalk DiscoverSound WalkRel.
From Coq Require Import Lia.

(* ------------------------------------------------------------------ *)
(* discovery ignores a record that forwards nothing                     *)

Lemma forward_sigs_insert own a c b :
  relevant c = false -> forward_sigs own (a ++ c :: b) = forward_sigs own (a ++ b).
Proof.
  intros Hc. induction a as [|x a IH]; cbn [app].
  - apply forward_sigs_skip. exact Hc.
  - rewrite !(forward_sigs_cons own x), IH. reflexivity.
Qed.

Lemma discover_insert own plain have_ast a c b :
  relevant c = false -> discover own plain have_ast (a ++ c :: b) = discover own plain have_ast (a ++ b).
Proof. intros Hc. unfold discover, autoforwards. rewrite (forward_sigs_insert own a c b Hc). reflexivity. Qed.

Lemma dflags_irrelevant c r : fl c = dflags -> relevant (info_of c r) = false.
Proof.
  unfold fl, dflags. intros H.
  assert (H1 : c_use_varargs c = false) by congruence.
  assert (H2 : c_use_varkwargs c = false) by congruence.
  unfold relevant, info_of. cbn [ci_use_varargs ci_use_varkwargs]. rewrite H1, H2. reflexivity.
Qed.

(* what discovery reports for  def w( *va, **vk ): <block>  when a recorded call resolves to
   [res c];  None: the walker fails (never, see visit_function_total) *)
Definition discovered (va vk : N) (res : callrec -> resolved) (own plain : sigT) (have_ast : bool)
           (l : list stmt) : option sigT :=
  match visit_function [] [] (Some va) (Some vk) (compile_block va vk l) with
  | Some recs => Some (discover own plain have_ast (map (fun c => info_of c (res c)) recs))
  | None => None
  end.

(* ------------------------------------------------------------------ *)
(* positions: at the top of a block or inside branches, at any depth    *)

Inductive bctx :=
| CHere (l1 l2 : list stmt)                              (* l1 ++ [.] ++ l2 *)
| CThen (l1 : list stmt) (c : bctx) (b l2 : list stmt)    (* l1 ++ SIf c[.] b :: l2 *)
| CElse (l1 a : list stmt) (c : bctx) (l2 : list stmt).   (* l1 ++ SIf a c[.] :: l2 *)

Fixpoint plug (c : bctx) (ins : list stmt) : list stmt :=
  match c with
  | CHere l1 l2 => l1 ++ ins ++ l2
  | CThen l1 c b l2 => l1 ++ SIf (plug c ins) b :: l2
  | CElse l1 a c l2 => l1 ++ SIf a (plug c ins) :: l2
  end.

(* the statements the walker meets before / after the hole *)
Fixpoint pre (c : bctx) : list stmt :=
  match c with
  | CHere l1 _ => l1
  | CThen l1 c _ _ => l1 ++ pre c
  | CElse l1 a c _ => l1 ++ a ++ pre c
  end.
Fixpoint post (c : bctx) : list stmt :=
  match c with
  | CHere _ l2 => l2
  | CThen _ c b l2 => post c ++ b ++ l2
  | CElse _ _ c l2 => post c ++ l2
  end.

(* statements that do not mention **kwargs, do not bind anything and only read *args *)
Definition neutral (s : stmt) : bool :=
  match s with SOther _ => true | SPass _ SA => true | _ => false end.

Section Walk.
Variables va vk : N.
Hypothesis Hne : va <> vk.

Notation cb := (compile_block va vk).
Notation bok := (block_ok va vk).

Definition nm0 : list (N * marker) := [(va, MArg 0 va); (vk, MArg 1 vk)].
Definition st0 : vstate := mst va vk nm0 [va] [] [] 2%nat false.

Lemma E0 : process_parameters true [] [] (Some va) (Some vk) init_state = st0.
Proof.
  assert (Eb : N.eqb vk va = false) by (apply N.eqb_neq; congruence).
  cbv -[N.eqb]. rewrite !Eb. reflexivity.
Qed.

Lemma G0 : Good va vk nm0 [va] [] (true, true).
Proof.
  assert (Eb : N.eqb vk va = false) by (apply N.eqb_neq; congruence).
  unfold Good, W, view, nm0. cbn [assoc mem fst snd]. rewrite !N.eqb_refl, !Eb. cbn.
  split; [|repeat split; auto].
  constructor; [right; left; reflexivity|constructor; [right; right; reflexivity|constructor]].
Qed.

Lemma cb_simple l : bok l = true -> simple_list (cb l) = true.
Proof.
  induction l as [|s l IH]; intros H; [reflexivity|]. cbn [block_ok forallb] in H.
  apply andb_true_iff in H as [H1 H2]. cbn [compile_block map]. rewrite simple_list_cons.
  rewrite (compile_simple va vk s (names_ok_flat va vk s H1)). exact (IH H2).
Qed.

Lemma wl_app l1 l2 st : walk_list (cb (l1 ++ l2)) st = walk_list (cb l2) (walk_list (cb l1) st).
Proof. unfold compile_block. rewrite map_app. apply walk_list_app. Qed.

Lemma wl_if a b l st :
  walk_list (cb (SIf a b :: l)) st = walk_list (cb l) (walk_list (cb b) (walk_list (cb a) st)).
Proof.
  cbn [compile_block map walk_list]. rewrite compile_if, walk_opaque_eq.
  change (walk_list (const :: cb a ++ cb b) st) with (walk_list (cb a ++ cb b) st).
  rewrite walk_list_app. reflexivity.
Qed.

(* the walker's output on a program of the grammar is what the walk of its own scope recorded *)
Lemma vf_flat l : bok l = true ->
  visit_function [] [] (Some va) (Some vk) (cb l) = Some (v_calls (walk_list (cb l) st0)).
Proof.
  intros Hok. unfold visit_function. rewrite E0, fold_walk_list.
  destruct (step_block va vk l (Forall_all _ (step_all va vk Hne) l) _ _ [] _ 2%nat false _ G0 Hok)
    as (nm' & im' & tn' & cs & E & _ & _).
  fold st0 in E. rewrite E. cbn [app]. unfold set_rev, mst.
  cbn [v_frames v_cur v_calls v_todo v_taint v_next v_varargs v_varkwargs].
  cbn [drain v_todo v_calls]. reflexivity.
Qed.

(* ---- positions inside branches ---- *)
Lemma plug_walk c ins : forall st, walk_list (cb (plug c ins)) st = walk_list (cb (pre c ++ ins ++ post c)) st.
Proof.
  induction c as [l1 l2|l1 c IH b l2|l1 a c IH l2]; intros st; cbn [plug pre post].
  - reflexivity.
  - rewrite wl_app, wl_if, IH. rewrite !wl_app. reflexivity.
  - rewrite wl_app, wl_if, IH. rewrite !wl_app. reflexivity.
Qed.

Lemma bok_cons s l : bok (s :: l) = names_ok va vk s && bok l.
Proof. reflexivity. Qed.

Lemma plug_ok c ins : bok (plug c ins) = bok (pre c ++ ins ++ post c).
Proof.
  induction c as [l1 l2|l1 c IH b l2|l1 a c IH l2]; cbn [plug pre post].
  - reflexivity.
  - rewrite !block_ok_app, bok_cons, names_ok_if, IH, !block_ok_app.
    repeat match goal with |- context [block_ok va vk ?l] => destruct (block_ok va vk l) end; reflexivity.
  - rewrite !block_ok_app, bok_cons, names_ok_if, IH, !block_ok_app.
    repeat match goal with |- context [block_ok va vk ?l] => destruct (block_ok va vk l) end; reflexivity.
Qed.

(* the walker does not see the branch structure *)
Theorem vf_plug c ins : bok (plug c ins) = true ->
  visit_function [] [] (Some va) (Some vk) (cb (plug c ins))
  = visit_function [] [] (Some va) (Some vk) (cb (pre c ++ ins ++ post c)).
Proof.
  intros Hok. pose proof Hok as Hok2. rewrite plug_ok in Hok2.
  rewrite (vf_flat _ Hok), (vf_flat _ Hok2), plug_walk. reflexivity.
Qed.

(* ---- the invariant: a star tuple that is no longer immutable is bound to Unknown ---- *)
Definition Jinv (nm : list (N * marker)) (im : list N) : Prop :=
  mem va im = false -> assoc va nm = Some MUnknown.

Lemma Jinv_set id nm im : Jinv nm im -> Jinv (assoc_set id MUnknown nm) (remove_N id im).
Proof.
  intros H. unfold Jinv. destruct (N.eq_dec id va) as [->|Hd].
  - intros _. apply assoc_set_same.
  - rewrite mem_remove_other by congruence. rewrite assoc_set_other by congruence. exact H.
Qed.

Lemma assoc_set_id {A} k (v : A) l : assoc k l = Some v -> assoc_set k v l = l.
Proof.
  induction l as [|[k' v'] l IH]; cbn [assoc assoc_set]; [discriminate|].
  destruct (N.eqb_spec k k') as [->|Hd]; [intros [= ->]; reflexivity|].
  intros H. rewrite (IH H). reflexivity.
Qed.

Lemma remove_N_notin k l : mem k l = false -> remove_N k l = l.
Proof.
  induction l as [|x l IH]; cbn [mem remove_N]; [reflexivity|].
  destruct (N.eqb k x); cbn [orb]; [discriminate|]. intros H. rewrite (IH H). reflexivity.
Qed.

Lemma load_args_noop nm im calls tn nx rev :
  Jinv nm im -> visit_name va Load (mst va vk nm im calls tn nx rev) = mst va vk nm im calls tn nx rev.
Proof.
  intros HJ. rewrite visit_name_mst, Bool.andb_true_r. destruct (mem va im) eqn:E; [reflexivity|].
  rewrite (assoc_set_id va MUnknown nm (HJ E)), (remove_N_notin va im E). reflexivity.
Qed.

(* a neutral statement records one call that forwards nothing and leaves the state alone *)
Lemma neutral_step x nm im calls tn nx rev k :
  Good va vk nm im tn k -> Jinv nm im -> neutral x = true ->
  exists c, walk false (compile va vk x) (mst va vk nm im calls tn nx rev) = mst va vk nm im (calls ++ [c]) tn nx rev
            /\ fl c = dflags.
Proof.
  intros G HJ Hn. pose proof G as (HW & _).
  destruct x as [| | | | | |f s| |f| |]; try discriminate Hn.
  - destruct s; [|discriminate Hn]. eexists. split.
    + cbn [compile]. rewrite walk_opaque_eq. cbn [walk_list]. rewrite walk_call_eq.
      cbn [mst v_rev v_frames v_cur get_frame nth f_parent is_some]. rewrite Bool.andb_false_r.
      fold (mst va vk nm im calls tn nx rev).
      unfold res_with. cbn [resolve_na]. unfold process_call.
      rewrite (ns_get_not_attr va vk nm im calls tn nx rev f HW).
      cbn [args_loop]. unfold res_with. cbn [resolve_na sname]. rewrite (load_args_noop nm im calls tn nx rev HJ).
      reflexivity.
    + reflexivity.
  - eexists. split.
    + cbn [compile]. rewrite walk_opaque_eq. cbn [walk_list]. rewrite walk_call_eq.
      cbn [mst v_rev v_frames v_cur get_frame nth f_parent is_some]. rewrite Bool.andb_false_r.
      fold (mst va vk nm im calls tn nx rev).
      unfold res_with. cbn [resolve_na]. unfold process_call.
      rewrite (ns_get_not_attr va vk nm im calls tn nx rev f HW).
      reflexivity.
    + reflexivity.
Qed.

(* ---- one neutral statement inserted at the top of the body: the records ---- *)
Theorem walker_records_insert_neutral l1 x l2 :
  bok (l1 ++ l2) = true -> names_ok va vk x = true -> neutral x = true ->
  exists r1 r2 c,
    visit_function [] [] (Some va) (Some vk) (cb (l1 ++ l2)) = Some (r1 ++ r2) /\
    visit_function [] [] (Some va) (Some vk) (cb (l1 ++ x :: l2)) = Some (r1 ++ c :: r2) /\
    fl c = dflags /\ length r1 = ncalls_block l1.
Proof.
  intros Hok Hx Hn. pose proof Hok as Hok0.
  rewrite block_ok_app in Hok. apply andb_true_iff in Hok as [H1 H2].
  assert (Hok2 : bok (l1 ++ x :: l2) = true).
  { rewrite block_ok_app, H1, bok_cons, Hx, H2. reflexivity. }
  rewrite (vf_flat _ Hok0), (vf_flat _ Hok2). rewrite !wl_app.
  change (cb (x :: l2)) with (compile va vk x :: cb l2). cbn [walk_list].
  (* the state after l1 *)
  destruct (step_block va vk l1 (Forall_all _ (step_all va vk Hne) l1) _ _ [] _ 2%nat false _ G0 H1)
    as (nm1 & im1 & tn1 & cs1 & E1 & G1 & F1).
  fold st0 in E1. cbn [app] in E1.
  assert (HJ : Jinv nm1 im1).
  { assert (HI : Iown Jinv (walk_list (cb l1) st0)).
    { apply (walk_list_inv Jinv Jinv_set); [exact (cb_simple l1 H1)|].
      exists nm0, [va], [], [], [], 2%nat, (Some (MArg 0 va)), (Some (MArg 1 vk)), false.
      split; [reflexivity|]. intros H. cbn [mem] in H. rewrite N.eqb_refl in H. discriminate H. }
    destruct HI as (nm & im & calls & T & tn & nx & sa & sk & rv & E & HJ). rewrite E1 in E.
    unfold mst in E. inversion E; subst. exact HJ. }
  rewrite E1.
  destruct (neutral_step x nm1 im1 cs1 tn1 2%nat false _ G1 HJ Hn) as [c [Ex Fc]]. rewrite Ex.
  (* the rest of the walk does not look at the recorded calls *)
  destruct (walk_list_calls_frame cs1 (cs1 ++ [c]) (cb l2) (mst va vk nm1 im1 cs1 tn1 2 false) []
              (cb_simple l2 H2)) as (D' & V1 & V2).
  { cbn [mst v_calls]. rewrite app_nil_r. reflexivity. }
  assert (Ew : withc (mst va vk nm1 im1 cs1 tn1 2 false) ((cs1 ++ [c]) ++ [])
               = mst va vk nm1 im1 (cs1 ++ [c]) tn1 2 false) by (rewrite app_nil_r; reflexivity).
  rewrite Ew in V2. rewrite V2, V1. cbn [withc v_calls].
  exists cs1, D', c. split; [reflexivity|]. split; [rewrite <- app_assoc; reflexivity|]. split; [exact Fc|].
  destruct (shape_b l1 (true, true)) as [_ Len]. rewrite <- F1, map_length in Len. exact Len.
Qed.
End Walk.

(* ------------------------------------------------------------------ *)
(* the discovered signature                                             *)

Section Disc.
Variables va vk : N.
Hypothesis Hne : va <> vk.
Variable res : callrec -> resolved.
Variables own plain : sigT.
Variable have_ast : bool.

Notation disc := (discovered va vk res own plain have_ast).
Notation bok := (block_ok va vk).

Lemma bok3 a b c : bok a = true -> bok b = true -> bok c = true -> bok (a ++ b ++ c) = true.
Proof. intros Ha Hb Hc. rewrite !block_ok_app, Ha, Hb, Hc. reflexivity. Qed.

Lemma disc_of_vf l l' :
  visit_function [] [] (Some va) (Some vk) (compile_block va vk l)
  = visit_function [] [] (Some va) (Some vk) (compile_block va vk l') -> disc l = disc l'.
Proof. unfold discovered. intros ->. reflexivity. Qed.

Theorem discover_insert_neutral_top l1 x l2 :
  bok (l1 ++ l2) = true -> names_ok va vk x = true -> neutral x = true ->
  disc (l1 ++ x :: l2) = disc (l1 ++ l2).
Proof.
  intros Hok Hx Hn.
  destruct (walker_records_insert_neutral va vk Hne l1 x l2 Hok Hx Hn) as (r1 & r2 & c & A & B & Fc & _).
  unfold discovered. rewrite A, B. f_equal. rewrite !map_app. cbn [map].
  apply discover_insert. apply dflags_irrelevant. exact Fc.
Qed.

Theorem discover_insert_neutrals_top ins : forall l1 l2,
  bok (l1 ++ l2) = true -> bok ins = true -> forallb neutral ins = true ->
  disc (l1 ++ ins ++ l2) = disc (l1 ++ l2).
Proof.
  induction ins as [|x ins IH]; intros l1 l2 Hok Hi Hn; [reflexivity|].
  cbn [block_ok forallb] in Hi, Hn. apply andb_true_iff in Hi as [Hx Hi]. apply andb_true_iff in Hn as [Hnx Hn].
  cbn [app]. rewrite (discover_insert_neutral_top l1 x (ins ++ l2)); [exact (IH l1 l2 Hok Hi Hn)| |exact Hx|exact Hnx].
  rewrite block_ok_app in Hok. apply andb_true_iff in Hok as [H1 H2].
  rewrite block_ok_app, H1. exact (bok3 [] ins l2 eq_refl Hi H2).
Qed.

(* (c) unrelated statements, anywhere -- also inside branches at any depth *)
Theorem discover_neutral_anywhere c ins :
  bok (plug c []) = true -> bok ins = true -> forallb neutral ins = true ->
  disc (plug c ins) = disc (plug c []).
Proof.
  intros Hok Hi Hn. pose proof Hok as Hok0. rewrite plug_ok in Hok0. cbn [app] in Hok0.
  assert (Hok1 : bok (plug c ins) = true).
  { rewrite plug_ok. rewrite block_ok_app in Hok0. apply andb_true_iff in Hok0 as [H1 H2].
    exact (bok3 _ _ _ H1 Hi H2). }
  rewrite (disc_of_vf _ _ (vf_plug va vk Hne c ins Hok1)), (disc_of_vf _ _ (vf_plug va vk Hne c [] Hok)).
  exact (discover_insert_neutrals_top ins (pre c) (post c) Hok0 Hi Hn).
Qed.

Corollary discover_unrelated_call_anywhere c f :
  bok (plug c []) = true -> names_ok va vk (SOther f) = true ->
  disc (plug c [SOther f]) = disc (plug c []).
Proof.
  intros Hok Hf. apply discover_neutral_anywhere; [exact Hok| |reflexivity].
  cbn [block_ok forallb]. rewrite Hf. reflexivity.
Qed.

Corollary discover_pass_args_anywhere c f :
  bok (plug c []) = true -> names_ok va vk (SPass f SA) = true ->
  disc (plug c [SPass f SA]) = disc (plug c []).
Proof.
  intros Hok Hf. apply discover_neutral_anywhere; [exact Hok| |reflexivity].
  cbn [block_ok forallb]. rewrite Hf. reflexivity.
Qed.

(* (c) statement context: a ++ b under `if <constant>: a else: b`, anywhere; the walker's
   whole output (not only the flags) is the same *)
Theorem walker_branch_anywhere c a b :
  bok (plug c (a ++ b)) = true ->
  visit_function [] [] (Some va) (Some vk) (compile_block va vk (plug c [SIf a b]))
  = visit_function [] [] (Some va) (Some vk) (compile_block va vk (plug c (a ++ b))).
Proof.
  intros Hok. pose proof Hok as Hok0. rewrite plug_ok in Hok0.
  assert (Hok1 : bok (plug c [SIf a b]) = true).
  { rewrite plug_ok. rewrite !block_ok_app in Hok0.
    apply andb_true_iff in Hok0 as [Hp Hok0]. apply andb_true_iff in Hok0 as [Hab Hq].
    apply andb_true_iff in Hab as [Ha Hb].
    apply bok3; [exact Hp| |exact Hq]. rewrite bok_cons, names_ok_if, Ha, Hb. reflexivity. }
  rewrite (vf_plug va vk Hne c _ Hok1), (vf_plug va vk Hne c _ Hok).
  pose proof Hok1 as Hok2. rewrite plug_ok in Hok2.
  rewrite (vf_flat va vk Hne _ Hok2), (vf_flat va vk Hne _ Hok0). f_equal. f_equal.
  rewrite !wl_app. cbn [app]. rewrite wl_if. reflexivity.
Qed.

Theorem discover_branch_anywhere c a b :
  bok (plug c (a ++ b)) = true -> disc (plug c [SIf a b]) = disc (plug c (a ++ b)).
Proof. intros Hok. apply disc_of_vf. exact (walker_branch_anywhere c a b Hok). Qed.

(* (c) a two-way branch whose other arm consists of unrelated statements only, anywhere *)
Theorem discover_branch_neutral_arm_anywhere c a b :
  bok (plug c a) = true -> bok b = true -> forallb neutral b = true ->
  disc (plug c [SIf a b]) = disc (plug c a) /\ disc (plug c [SIf b a]) = disc (plug c a).
Proof.
  intros Hok Hb Hn. pose proof Hok as Hok0. rewrite plug_ok, !block_ok_app in Hok0.
  apply andb_true_iff in Hok0 as [Hp Hok0]. apply andb_true_iff in Hok0 as [Ha Hq].
  assert (Hab : bok (plug c (a ++ b)) = true) by (rewrite plug_ok, !block_ok_app, Hp, Ha, Hb, Hq; reflexivity).
  assert (Hba : bok (plug c (b ++ a)) = true) by (rewrite plug_ok, !block_ok_app, Hp, Ha, Hb, Hq; reflexivity).
  split.
  - rewrite (discover_branch_anywhere c a b Hab).
    rewrite (disc_of_vf _ _ (vf_plug va vk Hne c _ Hab)), (disc_of_vf _ _ (vf_plug va vk Hne c _ Hok)).
    replace (pre c ++ (a ++ b) ++ post c) with ((pre c ++ a) ++ b ++ post c) by (rewrite <- !app_assoc; reflexivity).
    replace (pre c ++ a ++ post c) with ((pre c ++ a) ++ post c) by (rewrite <- !app_assoc; reflexivity).
    apply discover_insert_neutrals_top; [|exact Hb|exact Hn].
    rewrite !block_ok_app, Hp, Ha, Hq. reflexivity.
  - rewrite (discover_branch_anywhere c b a Hba).
    rewrite (disc_of_vf _ _ (vf_plug va vk Hne c _ Hba)), (disc_of_vf _ _ (vf_plug va vk Hne c _ Hok)).
    replace (pre c ++ (b ++ a) ++ post c) with (pre c ++ b ++ (a ++ post c)) by (rewrite <- !app_assoc; reflexivity).
    apply discover_insert_neutrals_top; [|exact Hb|exact Hn].
    rewrite !block_ok_app, Hp, Ha, Hq. reflexivity.
Qed.
End Disc.

(* in the form of C05_end_to_end_discover (Proofs/DiscoverSound.v): callee names resolved
   through an environment of signatures *)
Corollary C06_discover_neutral_env va vk c ins (env : N -> sigT) own plain have_ast recs recs' :
  va <> vk -> block_ok va vk (plug c []) = true -> block_ok va vk ins = true -> forallb neutral ins = true ->
  visit_function [] [] (Some va) (Some vk) (compile_block va vk (plug c [])) = Some recs ->
  visit_function [] [] (Some va) (Some vk) (compile_block va vk (plug c ins)) = Some recs' ->
  discover own plain have_ast (calls_of env recs') = discover own plain have_ast (calls_of env recs).
Proof.
  intros Hne Hok Hi Hn Hv Hv'.
  pose proof (discover_neutral_anywhere va vk Hne (resolve env) own plain have_ast c ins Hok Hi Hn) as H.
  unfold discovered in H. rewrite Hv, Hv' in H. inversion H as [H']. exact H'.
Qed.

Corollary C06_discover_branch_env va vk c a b (env : N -> sigT) own plain have_ast recs recs' :
  va <> vk -> block_ok va vk (plug c (a ++ b)) = true ->
  visit_function [] [] (Some va) (Some vk) (compile_block va vk (plug c (a ++ b))) = Some recs ->
  visit_function [] [] (Some va) (Some vk) (compile_block va vk (plug c [SIf a b])) = Some recs' ->
  recs' = recs /\
  discover own plain have_ast (calls_of env recs') = discover own plain have_ast (calls_of env recs).
Proof.
  intros Hne Hok Hv Hv'. rewrite (walker_branch_anywhere va vk Hne c a b Hok), Hv in Hv'.
  inversion Hv'. split; reflexivity.
Qed.

(* the three flag-level theorems of Proofs/Exec.v in their own shape (top of the body), lifted
   to the discovered signature *)
Corollary discover_unrelated_call_invariant va vk res own plain have_ast l1 l2 f :
  va <> vk -> block_ok va vk (l1 ++ l2) = true -> names_ok va vk (SOther f) = true ->
  discovered va vk res own plain have_ast (l1 ++ SOther f :: l2)
  = discovered va vk res own plain have_ast (l1 ++ l2).
Proof. intros Hne Hok Hf. exact (discover_insert_neutral_top va vk Hne res own plain have_ast l1 (SOther f) l2 Hok Hf eq_refl). Qed.

Corollary discover_pass_args_invariant va vk res own plain have_ast l1 l2 f :
  va <> vk -> block_ok va vk (l1 ++ l2) = true -> names_ok va vk (SPass f SA) = true ->
  discovered va vk res own plain have_ast (l1 ++ SPass f SA :: l2)
  = discovered va vk res own plain have_ast (l1 ++ l2).
Proof. intros Hne Hok Hf. exact (discover_insert_neutral_top va vk Hne res own plain have_ast l1 (SPass f SA) l2 Hok Hf eq_refl). Qed.

Corollary discover_branch_context_invariant va vk res own plain have_ast l1 a b l2 :
  va <> vk -> block_ok va vk (l1 ++ a ++ b ++ l2) = true ->
  discovered va vk res own plain have_ast (l1 ++ SIf a b :: l2)
  = discovered va vk res own plain have_ast (l1 ++ a ++ b ++ l2).
Proof.
  intros Hne Hok.
  pose proof (discover_branch_anywhere va vk Hne res own plain have_ast (CHere l1 l2) a b) as H.
  cbn [plug app] in H. rewrite <- app_assoc in H. exact (H Hok).
Qed.

(* ------------------------------------------------------------------ *)
(* what is NOT invariant                                                *)

Definition plain0 : sigT := mkSig [] None UEmpty [] [].

(* f( **kwargs ) before callee( *args, **kwargs ): other code may mutate the dict; the walker hides
   **kwargs in the later call and the discovered signature changes
   (names: args=9 kwargs=10 callee=5 with signature (p, q=1), f=12) *)
Theorem discover_pass_kwargs_refuted :
  exists va vk l1 l2 f env,
    va <> vk /\ block_ok va vk (l1 ++ l2) = true /\ names_ok va vk (SPass f SK) = true /\
    (forall x, valid_sig (params (env x)) = true) /\
    discovered va vk (resolve env) (own_sig va vk) plain0 true (l1 ++ SPass f SK :: l2)
    <> discovered va vk (resolve env) (own_sig va vk) plain0 true (l1 ++ l2).
Proof.
  exists 9%N, 10%N, [], [SFwd 5 0 [] true true]%N, 12%N, ex_env.
  split; [discriminate|]. split; [reflexivity|]. split; [reflexivity|]. split; [exact ex_env_valid|].
  vm_compute. intros H. discriminate H.
Qed.

(* the flag-level theorem alias_args_invariant (y = args changes no flag) does not lift to the
   signature: binding the NAME OF A LATER CALLEE makes the walker record the callee as Unknown,
   discovery gives up and falls back to the plain signature *)
Theorem discover_alias_refuted :
  exists va vk l1 l2 y env,
    va <> vk /\ block_ok va vk (l1 ++ l2) = true /\ names_ok va vk (SAlias y SA) = true /\
    (forall x, valid_sig (params (env x)) = true) /\
    visitor_flags va vk (l1 ++ SAlias y SA :: l2) = visitor_flags va vk (l1 ++ l2) /\
    discovered va vk (resolve env) (own_sig va vk) plain0 true (l1 ++ SAlias y SA :: l2)
    <> discovered va vk (resolve env) (own_sig va vk) plain0 true (l1 ++ l2).
Proof.
  exists 9%N, 10%N, [], [SFwd 5 0 [] true true]%N, 5%N, ex_env.
  split; [discriminate|]. split; [reflexivity|]. split; [reflexivity|]. split; [exact ex_env_valid|].
  split; [vm_compute; reflexivity|]. vm_compute. intros H. discriminate H.
Qed.

(* ------------------------------------------------------------------ *)
(* the hypotheses are satisfiable: the wrapper of C05_end_to_end_example,
       if <c>: f5(<lit>, *args, **kwargs)  else: del args; [.]; f6(k=<lit>, **kwargs)
   with  g( <lit> ); h( *args )  inserted in the else branch *)
Definition ex_ctx : bctx :=
  CElse [] [SFwd 5 1 [] true true] (CHere [SDel SA] [SFwd 6 0 [7] false true]) []%N.
Definition ex_ins : list stmt := [SOther 12; SPass 13 SA]%N.

Example discover_neutral_example :
  (9 <> 10)%N /\ block_ok 9 10 (plug ex_ctx []) = true /\ block_ok 9 10 ex_ins = true /\
  forallb neutral ex_ins = true /\
  plug ex_ctx [] = ex_prog /\
  plug ex_ctx ex_ins = [SIf [SFwd 5 1 [] true true] [SDel SA; SOther 12; SPass 13 SA; SFwd 6 0 [7] false true]]%N /\
  (exists r, params r = [mkParam 2 KO (Some 1%N) None UEmpty] /\
     discovered 9 10 (resolve ex_env) (own_sig 9 10) plain0 true (plug ex_ctx []) = Some r /\
     discovered 9 10 (resolve ex_env) (own_sig 9 10) plain0 true (plug ex_ctx ex_ins) = Some r).
Proof.
  split; [discriminate|]. split; [reflexivity|]. split; [reflexivity|]. split; [reflexivity|].
  split; [reflexivity|]. split; [reflexivity|].
  eexists. split; [|split]; [|vm_compute; reflexivity|vm_compute; reflexivity]. reflexivity.
Qed.

Example discover_branch_example :
  block_ok 9 10 (plug (CHere [SFwd 5 1 [] true true] []) ([SFwd 6 0 [7] false true] ++ [SOther 12])%N) = true /\
  discovered 9 10 (resolve ex_env) (own_sig 9 10) plain0 true
    [SFwd 5 1 [] true true; SIf [SFwd 6 0 [7] false true] [SOther 12]]%N
  = discovered 9 10 (resolve ex_env) (own_sig 9 10) plain0 true
    [SFwd 5 1 [] true true; SFwd 6 0 [7] false true]%N.
Proof. split; [reflexivity|]. vm_compute. reflexivity. Qed.

Print Assumptions vf_plug.
Print Assumptions walker_records_insert_neutral.
Print Assumptions discover_insert_neutral_top.
Print Assumptions discover_neutral_anywhere.
Print Assumptions discover_unrelated_call_anywhere.
Print Assumptions discover_pass_args_anywhere.
Print Assumptions walker_branch_anywhere.
Print Assumptions discover_branch_anywhere.
Print Assumptions discover_branch_neutral_arm_anywhere.
Print Assumptions discover_unrelated_call_invariant.
Print Assumptions discover_pass_args_invariant.
Print Assumptions discover_branch_context_invariant.
Print Assumptions C06_discover_neutral_env.
Print Assumptions C06_discover_branch_env.
Print Assumptions discover_pass_kwargs_refuted.
Print Assumptions discover_alias_refuted.
Print Assumptions discover_neutral_example.
Print Assumptions discover_branch_example.
