(* Discover.v — theorems about forward_signatures / autoforwards_ast / the
   fallback (Model/Discover.v) and about the flags the walker emits. *)
From Sigtools.Model Require Import Base Bind Algebra Visitor Discover.
From Sigtools.Proofs Require Import SmallModel Basics.
From Coq Require Import Lia.

(* ---- the declaration equivalent to one call ---- *)
Definition relevant (c : callinfo) : bool := ci_use_varargs c || ci_use_varkwargs c.

(* forwards(wrapper, callee, n, *names, flags) for the call as written *)
Definition declared (own : sigT) (c : callinfo) : option (res sigT) :=
  match ci_res c with
  | RUnresolvable | RNoSig => None
  | RSig s partial =>
      if partial && Nat.eqb (ci_nargs c) 0 then None
      else Some (forwards own s (ci_nargs c - (if partial then 1 else 0)) (ci_kwnames c)
                          (ci_hide_args c) (ci_hide_kwargs c)
                          (ci_use_varargs c) (ci_use_varkwargs c) partial)
  end.

(* calls that forward neither star parameter are ignored *)
Theorem forward_sigs_skip own c cs :
  relevant c = false -> forward_sigs own (c :: cs) = forward_sigs own cs.
Proof. unfold relevant. intros H. simpl. rewrite H. reflexivity. Qed.

Lemma forward_sigs_cons own c cs :
  forward_sigs own (c :: cs) =
  if relevant c then
    match declared own c with
    | Some (Ok r) => option_map (cons r) (forward_sigs own cs)
    | _ => None
    end
  else forward_sigs own cs.
Proof.
  unfold relevant, declared. cbn [forward_sigs].
  destruct (ci_use_varargs c || ci_use_varkwargs c); cbn [negb]; [|reflexivity].
  destruct (ci_res c) as [| |s partial]; try reflexivity.
  destruct (partial && Nat.eqb (ci_nargs c) 0); [reflexivity|].
  destruct (forwards own s _ _ _ _ _ _ partial); [|reflexivity].
  destruct (forward_sigs own cs); reflexivity.
Qed.

(* the list computed by forward_signatures is exactly the list of declared
   forwards() results of the relevant calls, in order *)
Theorem forward_sigs_declared own calls sigs :
  forward_sigs own calls = Some sigs <->
  Forall2 (fun c r => declared own c = Some (Ok r)) (filter relevant calls) sigs.
Proof.
  revert sigs. induction calls as [|c cs IH]; intros sigs.
  - cbn. split; intros H; inversion H; [constructor|reflexivity].
  - rewrite forward_sigs_cons. cbn [filter]. destruct (relevant c) eqn:Hrel; [|apply IH].
    destruct (declared own c) as [[r|e]|] eqn:Hd.
    + destruct (forward_sigs own cs) as [rs|] eqn:Hrest; cbn [option_map].
      * split.
        -- intros H. inversion H; subst. constructor; [exact Hd|]. apply IH. reflexivity.
        -- intros H. inversion H as [|? ? ? ? Hd' Htl]; subst.
           rewrite Hd in Hd'. inversion Hd'; subst. apply IH in Htl. inversion Htl; subst. reflexivity.
      * split; [intros H; discriminate H|].
        intros H. inversion H as [|? ? ? ? Hd' Htl]; subst. apply IH in Htl. discriminate Htl.
    + split; [intros H; discriminate H|].
      intros H. inversion H as [|? ? ? ? Hd' Htl]; subst. rewrite Hd in Hd'. discriminate Hd'.
    + split; [intros H; discriminate H|].
      intros H. inversion H as [|? ? ? ? Hd' Htl]; subst. rewrite Hd in Hd'. discriminate Hd'.
Qed.

(* any relevant call whose callee cannot be resolved, has no signature, or
   whose declaration raises makes discovery give up *)
Theorem forward_sigs_fails own calls :
  forward_sigs own calls = None <->
  exists c, In c (filter relevant calls) /\ forall r, declared own c <> Some (Ok r).
Proof.
  induction calls as [|c cs IH].
  - cbn. split; [intros H; discriminate H|]. intros [c [[] _]].
  - rewrite forward_sigs_cons. cbn [filter]. destruct (relevant c) eqn:Hrel; [|exact IH].
    destruct (declared own c) as [[r|e]|] eqn:Hd.
    + destruct (forward_sigs own cs) as [rs|] eqn:Hrest; cbn [option_map].
      * split; [intros H; discriminate H|]. intros [c' [[<-|Hin] Hn]].
        -- exfalso. apply (Hn r). exact Hd.
        -- destruct IH as [_ IH2]. assert (X : @None (list sigT) = None) by reflexivity.
           exfalso. assert (Y : Some rs = None) by (apply IH2; exists c'; split; assumption).
           discriminate Y.
      * split; [|reflexivity]. intros _. destruct IH as [IH1 _].
        destruct (IH1 eq_refl) as [c' [Hin Hn]]. exists c'. split; [right; exact Hin|exact Hn].
    + split; [|reflexivity]. intros _. exists c. split; [left; reflexivity|].
      intros r. rewrite Hd. discriminate.
    + split; [|reflexivity]. intros _. exists c. split; [left; reflexivity|].
      intros r. rewrite Hd. discriminate.
Qed.

(* C06: discovery = the merge of the declared forwards of the relevant calls;
   nothing usable, an unresolvable / incompatible callee, no star parameter or
   no source => the plain signature *)
Theorem discover_spec own plain have_ast calls :
  (exists sigs r,
      has_star own = true /\ have_ast = true /\ sigs <> [] /\
      Forall2 (fun c s => declared own c = Some (Ok s)) (filter relevant calls) sigs /\
      merge sigs = Ok r /\ discover own plain have_ast calls = r)
  \/ discover own plain have_ast calls = plain.
Proof.
  unfold discover, autoforwards.
  destruct (has_star own) eqn:Hs; simpl; [|right; reflexivity].
  destruct have_ast; simpl; [|right; reflexivity].
  destruct (forward_sigs own calls) as [sigs|] eqn:Hf; [|right; reflexivity].
  destruct sigs as [|s0 sigs]; [right; reflexivity|].
  destruct (merge (s0 :: sigs)) as [r|e] eqn:Hm; [|right; reflexivity].
  left. exists (s0 :: sigs), r. repeat split; try reflexivity.
  - discriminate.
  - apply forward_sigs_declared. exact Hf.
  - exact Hm.
Qed.

(* C07: whatever the walker found, retrieval returns either the plain
   signature or a signature that went through the validating constructor *)
Theorem discover_total_wf own plain have_ast calls :
  discover own plain have_ast calls = plain \/
  validate (params (discover own plain have_ast calls)) = true.
Proof.
  destruct (discover_spec own plain have_ast calls) as [[sigs [r [_ [_ [_ [_ [Hm Hd]]]]]]]|H].
  - right. rewrite Hd. eapply merge_wf. exact Hm.
  - left. exact H.
Qed.

(* C06: adding calls that forward nothing (decoys) anywhere does not change
   the outcome *)
Theorem forward_sigs_decoys own calls :
  forward_sigs own (filter relevant calls) = forward_sigs own calls.
Proof.
  induction calls as [|c cs IH]; [reflexivity|].
  cbn [filter]. destruct (relevant c) eqn:Hrel.
  - rewrite !forward_sigs_cons, Hrel, IH. reflexivity.
  - rewrite forward_sigs_cons, Hrel. exact IH.
Qed.

Corollary discover_decoys own plain have_ast calls :
  discover own plain have_ast (filter relevant calls) = discover own plain have_ast calls.
Proof. unfold discover, autoforwards. rewrite forward_sigs_decoys. reflexivity. Qed.

(* ---- the flags the walker emits ---- *)

(* use_* is emitted only when the star argument of the call IS (object
   identity) the wrapper's own star parameter marker; any other star argument
   yields hide_* *)
Theorem has_hide_spec found original :
  has_hide found original =
  match found with
  | None => (false, false)
  | Some m => if same_object m original then (true, false) else (false, true)
  end.
Proof. reflexivity. Qed.

Theorem use_flag_identity found original :
  fst (has_hide found original) = true ->
  exists u n n', found = Some (MArg u n) /\ original = Some (MArg u n').
Proof.
  unfold has_hide. destruct found as [m|]; [|discriminate].
  destruct (same_object m original) eqn:H; [|discriminate]. intros _.
  unfold same_object in H. destruct m; try discriminate.
  destruct original as [[]|]; try discriminate.
  apply Nat.eqb_eq in H. subst. eauto.
Qed.

(* a tainted Arg marker is never handed out by an untainted resolution *)
Theorem get_untainted_tainted st u n :
  existsb (Nat.eqb u) (v_taint st) = true -> get_untainted st (MArg u n) = MUnknown.
Proof. intros H. unfold get_untainted. rewrite H. reflexivity. Qed.

Theorem untainted_arg_not_tainted st m u n :
  get_untainted st m = MArg u n -> existsb (Nat.eqb u) (v_taint st) = false.
Proof.
  unfold get_untainted. destruct m; try discriminate.
  destruct (existsb (Nat.eqb uid) (v_taint st)) eqn:H; [discriminate|].
  intros E. inversion E; subst. exact H.
Qed.

(* use and hide are mutually exclusive, and one of them holds exactly when a
   star argument is present *)
Theorem flags_exclusive found original :
  let '(u, h) := has_hide found original in
  (u && h = false) /\ (u || h = match found with Some _ => true | None => false end).
Proof.
  unfold has_hide. destruct found; [|split; reflexivity].
  destruct (same_object m original); split; reflexivity.
Qed.
