(* C17 - proofs about the scheduler model (Model/Sched.v).

   Unbounded results (any number of threads, any schedule):
     no_loss                : at quiescence the shared attributes are exactly the initial ones
     sequential_exclusive   : if no step that reads/changes the attributes is taken while
                              another thread is inside its delete/restore window, every
                              finished thread returned its sequential answer
   Refutations by vm_compute (the window race), bounded enumerations live in
   Proofs/SchedBounded.v. *)
From Coq Require Import List NArith Bool Arith Lia.
Import ListNotations.
Require Import Sigtools.Model.Sched.
Open Scope nat_scope.

Definition present (o : option N) : nat := match o with Some _ => 1 | None => 0 end.
Definition b2n (b : bool) : nat := if b then 1 else 0.

(* has not yet executed the setattr of attribute a *)
Definition before_restore (a : attr) (p : pc) : bool :=
  match p with
  | E444 _ | E445 _ | E445b _ | E446 _ | E446k _ | E446g _ | E447 _ | E448 _ | E449 _ | E451 _ | A473 | A460 | A459x => true
  | X454 (Some a') => attr_le a' a
  | X455 a' => attr_le a' a
  | _ => false
  end.

(* the thread owns the (deleted) attribute a and still has to put it back *)
Definition holding (a : attr) (th : thread) : bool :=
  match th_pc th with E451 a' => attr_eqb a a' | _ => false end
  || (match sget (th_saved th) a with Some _ => true | None => false end
      && before_restore a (th_pc th)).

Fixpoint holders (a : attr) (l : list thread) : nat :=
  match l with
  | [] => 0
  | th :: r => b2n (holding a th) + holders a r
  end.

Section WithInit.
Variable c : cfg.
Variable init : store.

Definition store_ok (s : store) : Prop :=
  forall a v, sget s a = Some v -> sget init a = Some v.

Definition thread_ok (th : thread) : Prop :=
  store_ok (th_saved th)
  /\ match th_pc th with
     | E447 a | E451 a => exists v, th_val th = Some v /\ sget init a = Some v
     | X455 a => sget (th_saved th) a <> None
     | _ => True
     end
  /\ match th_pc th with
     | E444 (Some a) | E445 a | E445b a | E446 a | E446k a | E446g a | E447 a | E448 a | E449 a | E451 a =>
         forall b, attr_le a b = true -> sget (th_saved th) b = None
     | PStart | PSeg _ (E444 _) => forall b, sget (th_saved th) b = None
     | PSeg _ A466 | PSeg _ F119 | PSeg _ PDone => True
     | PSeg _ _ => False                 (* segments only lead to these four places *)
     | _ => True
     end.

Definition Inv (st : state) : Prop :=
  store_ok (g_store st)
  /\ Forall thread_ok (g_threads st)
  /\ forall a, holders a (g_threads st) + present (sget (g_store st) a) = present (sget init a).

(* ---------------------------------------------------------------- lists *)
Lemma nth_error_update_same : forall {A} (l : list A) t x y,
  nth_error l t = Some y -> nth_error (update l t x) t = Some x.
Proof.
  intros A l; induction l as [|h r IH]; intros t x y Hn; destruct t; simpl in *; try discriminate; eauto.
Qed.

Lemma nth_error_update_other : forall {A} (l : list A) t u x,
  t <> u -> nth_error (update l t x) u = nth_error l u.
Proof.
  intros A l; induction l as [|h r IH]; intros t u x Hne; destruct t, u; simpl; try reflexivity; try congruence.
  apply IH; congruence.
Qed.

Lemma Forall_update : forall {A} (P : A -> Prop) (l : list A) t x,
  Forall P l -> P x -> Forall P (update l t x).
Proof.
  intros A P l; induction l as [|h r IH]; intros t x HF Hx; destruct t; simpl; auto;
    inversion HF; subst; constructor; auto.
Qed.

Lemma Forall_nth_error : forall {A} (P : A -> Prop) (l : list A) t x,
  Forall P l -> nth_error l t = Some x -> P x.
Proof.
  intros A P l t x HF Hn. rewrite Forall_forall in HF. apply HF. eapply nth_error_In; eauto.
Qed.

Lemma holders_update : forall a l t th th',
  nth_error l t = Some th ->
  holders a (update l t th') + b2n (holding a th) = holders a l + b2n (holding a th').
Proof.
  intros a l; induction l as [|h r IH]; intros t th th' Hn; destruct t; simpl in *; try discriminate.
  - inversion Hn; subst. lia.
  - specialize (IH _ _ th' Hn). lia.
Qed.

Lemma holders_ge : forall a l t th,
  nth_error l t = Some th -> holding a th = true -> 1 <= holders a l.
Proof.
  intros a l; induction l as [|h r IH]; intros t th Hn Hh; destruct t; simpl in *; try discriminate.
  - inversion Hn; subst. rewrite Hh. simpl. lia.
  - specialize (IH _ _ Hn Hh). lia.
Qed.

(* ---------------------------------------------------------------- one line *)
Lemma sget_sset_same : forall s a v, sget (sset s a v) a = v.
Proof. intros s [] v; reflexivity. Qed.

Lemma sget_sset_other : forall s a b v, a <> b -> sget (sset s a v) b = sget s b.
Proof. intros s [] [] v H; try reflexivity; congruence. Qed.

Lemma push_trace_pc : forall th, th_pc (push_trace th) = th_pc th.
Proof. intros th. unfold push_trace. destruct (th_pc th) eqn:E; simpl; auto. Qed.
Lemma push_trace_saved : forall th, th_saved (push_trace th) = th_saved th.
Proof. intros th. unfold push_trace. destruct (th_pc th); reflexivity. Qed.
Lemma push_trace_val : forall th, th_val (push_trace th) = th_val th.
Proof. intros th. unfold push_trace. destruct (th_pc th); reflexivity. Qed.
Lemma push_trace_sigv : forall th, th_sigv (push_trace th) = th_sigv th.
Proof. intros th. unfold push_trace. destruct (th_pc th); reflexivity. Qed.
Lemma push_trace_ans : forall th, th_ans (push_trace th) = th_ans th.
Proof. intros th. unfold push_trace. destruct (th_pc th); reflexivity. Qed.
Lemma push_trace_kind : forall th, th_kind (push_trace th) = th_kind th.
Proof. intros th. unfold push_trace. destruct (th_pc th); reflexivity. Qed.

Lemma holding_push : forall a th, holding a (push_trace th) = holding a th.
Proof. intros. unfold holding. rewrite push_trace_pc, push_trace_saved. reflexivity. Qed.

Lemma thread_ok_push : forall th, thread_ok th -> thread_ok (push_trace th).
Proof.
  intros th H. unfold thread_ok in *. rewrite push_trace_pc, push_trace_saved, push_trace_val. exact H.
Qed.

Lemma seg_cases : forall l k, seg l k = k \/ exists x r, seg l k = PSeg (x :: r) k.
Proof. intros [|x r] k; simpl; eauto. Qed.

Ltac crush :=
  simpl in *;
  repeat (match goal with
          | H : exists _, _ |- _ => destruct H
          | H : _ /\ _ |- _ => destruct H
          | H : true = true -> _ |- _ => specialize (H eq_refl)
          | H : false = true -> _ |- _ => clear H
          | H : forall v, Some ?n = Some v -> _ |- _ => specialize (H n eq_refl)
          | H : forall v, None = Some v -> _ |- _ => clear H
          | H : Some _ = Some _ |- _ => inversion H; subst; clear H
          | H : Some _ = None |- _ => discriminate H
          | H : None = Some _ |- _ => discriminate H
          | H : None <> None |- _ => exfalso; apply H; reflexivity
          | |- _ /\ _ => split
          | |- forall _, _ => intro
          | a : attr |- _ => destruct a
          | o : option N |- _ => destruct o
          | o : option attr |- _ => destruct o
          end; simpl in *);
  try discriminate; try congruence; try lia; eauto.

(* the effect of one line on ownership: what the thread gains, the store loses *)
Lemma exec_delta : forall s th s' th',
  thread_ok th -> store_ok s ->
  (forall a, holding a th = true -> sget s a = None) ->
  exec c s th = Some (s', th') ->
  thread_ok th' /\ store_ok s'
  /\ forall a, b2n (holding a th') + present (sget s' a) = b2n (holding a th) + present (sget s a).
Proof.
  intros s th s' th' [Hsv [Hval Hfresh]] Hs Hexcl Hex.
  destruct th as [k p [sw ss] vl sg an tr]. destruct s as [w0 s0].
  pose proof (Hs AW) as HsW. pose proof (Hs AS) as HsS.
  pose proof (Hsv AW) as HvW. pose proof (Hsv AS) as HvS.
  pose proof (Hexcl AW) as HxW. pose proof (Hexcl AS) as HxS.
  clear Hs Hsv Hexcl.
  unfold exec in Hex. unfold thread_ok, store_ok, holding in *. simpl in *.
  destruct p; simpl in *.
  - (* PStart *)
    pose proof (Hfresh AW); pose proof (Hfresh AS); clear Hfresh.
    destruct k; inversion Hex; subst; clear Hex; crush.
  - (* PSeg *)
    inversion Hex; subst; clear Hex.
    destruct (seg_cases (tl l) p) as [E | [x [r E]]]; rewrite E; clear E.
    + destruct p; try contradiction; try (pose proof (Hfresh AW); pose proof (Hfresh AS); clear Hfresh); crush.
    + destruct p; try contradiction; try (pose proof (Hfresh AW); pose proof (Hfresh AS); clear Hfresh); crush.
  - (* E444 *)
    destruct oa as [a0|]; inversion Hex; subst; clear Hex;
      try (pose proof (Hfresh AW); pose proof (Hfresh AS); clear Hfresh); crush.
  - (* E445 *)
    inversion Hex; subst; clear Hex. pose proof (Hfresh AW); pose proof (Hfresh AS); clear Hfresh. crush.
  - (* E445b *)
    inversion Hex; subst; clear Hex. pose proof (Hfresh AW); pose proof (Hfresh AS); clear Hfresh. crush.
  - (* E446 *)
    pose proof (Hfresh AW); pose proof (Hfresh AS); clear Hfresh.
    destruct a; simpl in *.
    + destruct w0; inversion Hex; subst; clear Hex; crush.
    + destruct s0; inversion Hex; subst; clear Hex; crush.
  - (* E446k *)
    inversion Hex; subst; clear Hex. pose proof (Hfresh AW); pose proof (Hfresh AS); clear Hfresh. crush.
  - (* E446g *)
    pose proof (Hfresh AW); pose proof (Hfresh AS); clear Hfresh.
    destruct a; simpl in *.
    + destruct w0; inversion Hex; subst; clear Hex; crush.
    + destruct s0; inversion Hex; subst; clear Hex; crush.
  - (* E447 *)
    pose proof (Hfresh AW); pose proof (Hfresh AS); clear Hfresh.
    destruct a; simpl in *.
    + destruct w0; inversion Hex; subst; clear Hex; crush.
    + destruct s0; inversion Hex; subst; clear Hex; crush.
  - (* E448 *)
    inversion Hex; subst; clear Hex. pose proof (Hfresh AW); pose proof (Hfresh AS); clear Hfresh. crush.
  - (* E449 *)
    inversion Hex; subst; clear Hex. pose proof (Hfresh AW); pose proof (Hfresh AS); clear Hfresh. crush.
  - (* E451 *)
    inversion Hex; subst; clear Hex. pose proof (Hfresh AW); pose proof (Hfresh AS); clear Hfresh. crush.
  - (* A473 *)
    inversion Hex; subst; clear Hex. crush.
  - (* A460 *)
    inversion Hex; subst; clear Hex. crush.
  - (* A459x *)
    inversion Hex; subst; clear Hex. crush.
  - (* X454 *)
    destruct oa as [a0|].
    + destruct a0; simpl in *; destruct sw; destruct ss; simpl in *; inversion Hex; subst; clear Hex; crush.
    + inversion Hex; subst; clear Hex. crush.
  - (* X455 *)
    inversion Hex; subst; clear Hex. crush.
  - (* A461 *)
    destruct (star c sg); inversion Hex; subst; clear Hex; crush.
  - (* A466 *)
    inversion Hex; subst; clear Hex. crush.
  - (* F119 *)
    inversion Hex; subst; clear Hex. crush.
  - discriminate.
Qed.

(* ---------------------------------------------------------------- steps *)
Lemma step_Inv : forall st t st', Inv st -> step c st t = Some st' -> Inv st'.
Proof.
  intros st t st' [Hs [HF Hcnt]] Hstep. unfold step in Hstep.
  destruct (nth_error (g_threads st) t) as [th|] eqn:Hn; try discriminate.
  unfold step_thread in Hstep.
  destruct (exec c (g_store st) th) as [[s1 th1]|] eqn:Hex; try discriminate.
  inversion Hstep; subst; clear Hstep.
  assert (Hok : thread_ok th) by (eapply Forall_nth_error; eauto).
  assert (Hexcl : forall a, holding a th = true -> sget (g_store st) a = None).
  { intros a Hh. pose proof (holders_ge a _ _ _ Hn Hh) as Hge. specialize (Hcnt a).
    destruct (sget (g_store st) a); auto. destruct (sget init a); simpl in *; lia. }
  destruct (exec_delta _ _ _ _ Hok Hs Hexcl Hex) as [Hok1 [Hs1 Hd]].
  split; [|split]; simpl; auto.
  - apply Forall_update; auto. apply thread_ok_push; auto.
  - intros a. pose proof (holders_update a _ _ _ (push_trace th1) Hn) as Hu.
    rewrite holding_push in Hu. specialize (Hd a). specialize (Hcnt a). lia.
Qed.

Lemma run_Inv : forall sched st, Inv st -> Inv (run c st sched).
Proof.
  induction sched as [|t r IH]; intros st HI; simpl; auto.
  destruct (step c st t) as [st'|] eqn:E; auto. apply IH. eapply step_Inv; eauto.
Qed.

Lemma holders_init : forall a kinds, holders a (map init_thread kinds) = 0.
Proof. intros a kinds; induction kinds as [|k r IH]; simpl; auto. rewrite IH. destruct a; reflexivity. Qed.

Lemma init_Inv : forall kinds, Inv (init_state init kinds).
Proof.
  intros kinds. split; [|split]; simpl.
  - intros a v H; exact H.
  - apply Forall_forall. intros th Hin. apply in_map_iff in Hin. destruct Hin as [k [E _]]. subst th.
    unfold thread_ok; simpl. split; [|split]; auto.
    + intros a v H. destruct a; discriminate.
    + intros b; destruct b; reflexivity.
  - intros a. rewrite holders_init. reflexivity.
Qed.

Lemma holders_done : forall a l, forallb is_done l = true -> holders a l = 0.
Proof.
  intros a l; induction l as [|th r IH]; simpl; auto. intros H.
  apply andb_true_iff in H. destruct H as [Hd Hr]. rewrite (IH Hr).
  unfold is_done in Hd. unfold holding. destruct (th_pc th); try discriminate. simpl.
  destruct (sget (th_saved th) a); reflexivity.
Qed.

Lemma Inv_quiescent : forall st, Inv st -> all_done st = true -> g_store st = init.
Proof.
  intros st [Hs [_ Hcnt]] Hd. unfold all_done in Hd.
  assert (He : forall a, sget (g_store st) a = sget init a).
  { intros a. specialize (Hcnt a). rewrite (holders_done a _ Hd) in Hcnt.
    destruct (sget (g_store st) a) as [v|] eqn:E.
    - symmetry. apply Hs. exact E.
    - destruct (sget init a); simpl in *; auto; lia. }
  pose proof (He AW) as H1. pose proof (He AS) as H2.
  destruct (g_store st), init. simpl in *. congruence.
Qed.

(** Unbounded: any number of threads of any kinds, any schedule. *)
Theorem no_loss : forall kinds sched,
  all_done (run c (init_state init kinds) sched) = true ->
  g_store (run c (init_state init kinds) sched) = init.
Proof.
  intros kinds sched Hd. apply Inv_quiescent; auto. apply run_Inv. apply init_Inv.
Qed.

(* stronger reading: at EVERY moment each initially present attribute is either
   on the function with its initial value or owned by exactly one thread that
   will still restore it *)
Theorem no_loss_always : forall kinds sched a,
  holders a (g_threads (run c (init_state init kinds) sched))
  + present (sget (g_store (run c (init_state init kinds) sched)) a) = present (sget init a).
Proof.
  intros kinds sched a. pose proof (run_Inv sched _ (init_Inv kinds)) as [_ [_ H]]. apply H.
Qed.

(* ---------------------------------------------------------------- partial *)
Lemma holding_in_window : forall a th, holding a th = true -> in_window (th_pc th) = true.
Proof.
  intros a th H. unfold holding in H. destruct (th_pc th); simpl in *; try reflexivity;
    destruct (sget (th_saved th) a); simpl in *; try discriminate.
Qed.

Lemma holders_outside : forall a l,
  forallb (fun th => negb (in_window (th_pc th))) l = true -> holders a l = 0.
Proof.
  intros a l; induction l as [|th r IH]; simpl; auto. intros H.
  apply andb_true_iff in H. destruct H as [Hd Hr]. rewrite (IH Hr).
  destruct (holding a th) eqn:E; auto.
  apply holding_in_window in E. rewrite E in Hd. discriminate.
Qed.

Definition no_window_open (st : state) : bool :=
  forallb (fun th => negb (in_window (th_pc th))) (g_threads st).

(** Unbounded delimiting statement: after ANY schedule, at a moment when no
    thread is between the first line of __enter__'s loop and the end of
    __exit__'s loop, the shared function carries exactly its initial attributes;
    hence a retrieval whose reads all happen at such moments sees what it sees
    alone.  (The reads are the single steps PStart of a KPlain thread, A460 and
    F119; see [plain_read_sequential] and [fallback_read_sequential].) *)
Theorem store_init_outside_windows : forall kinds sched,
  no_window_open (run c (init_state init kinds) sched) = true ->
  g_store (run c (init_state init kinds) sched) = init.
Proof.
  intros kinds sched Hd.
  pose proof (run_Inv sched _ (init_Inv kinds)) as [Hs [_ Hcnt]].
  set (st := run c (init_state init kinds) sched) in *.
  assert (He : forall a, sget (g_store st) a = sget init a).
  { intros a. specialize (Hcnt a). rewrite (holders_outside a _ Hd) in Hcnt.
    destruct (sget (g_store st) a) as [v|] eqn:E.
    - symmetry. apply Hs. exact E.
    - destruct (sget init a); simpl in *; auto; lia. }
  pose proof (He AW) as H1. pose proof (He AS) as H2.
  destruct (g_store st), init. simpl in *. congruence.
Qed.

(* a plain inspect.signature call scheduled when no window is open returns the sequential answer *)
Theorem plain_read_sequential : forall kinds sched t th st',
  let st := run c (init_state init kinds) sched in
  no_window_open st = true ->
  nth_error (g_threads st) t = Some th -> th_kind th = KPlain -> th_pc th = PStart ->
  step c st t = Some st' ->
  exists th', nth_error (g_threads st') t = Some th'
              /\ th_ans th' = Some (seq_answer c init KPlain) /\ th_pc th' = PDone.
Proof.
  intros kinds sched t th st' st Hno Hn Hk Hp Hstep.
  pose proof (store_init_outside_windows kinds sched Hno) as Hst. fold st in Hst.
  unfold step in Hstep. rewrite Hn in Hstep. unfold step_thread, exec in Hstep.
  rewrite Hp, Hk in Hstep. inversion Hstep; subst st'; clear Hstep. simpl.
  eexists. split; [eapply nth_error_update_same; eauto|].
  rewrite Hst. simpl. split; reflexivity.
Qed.

(* the fallback read of forged_signature (:119) scheduled when no window is open *)
Theorem fallback_read_sequential : forall kinds sched t th st',
  let st := run c (init_state init kinds) sched in
  no_window_open st = true ->
  nth_error (g_threads st) t = Some th -> th_pc th = F119 ->
  step c st t = Some st' ->
  exists th', nth_error (g_threads st') t = Some th'
              /\ th_ans th' = Some (APlain (view_of init)) /\ th_pc th' = PDone.
Proof.
  intros kinds sched t th st' st Hno Hn Hp Hstep.
  pose proof (store_init_outside_windows kinds sched Hno) as Hst. fold st in Hst.
  unfold step in Hstep. rewrite Hn in Hstep. unfold step_thread, exec in Hstep.
  rewrite Hp in Hstep. inversion Hstep; subst st'; clear Hstep. simpl.
  eexists. split; [eapply nth_error_update_same; eauto|].
  rewrite Hst. simpl. split; reflexivity.
Qed.

End WithInit.

(* the hypotheses of the theorems are satisfiable *)
Example no_loss_example :
  all_done (run (mkCfg true false false) (init_state (mkStore (Some 7%N) None) [KSig; KPlain])
                (repeat 0 80 ++ [1])) = true.
Proof. vm_compute. reflexivity. Qed.

Example outside_windows_example :
  no_window_open (run (mkCfg true false false) (init_state (mkStore (Some 7%N) None) [KSig; KPlain])
                      (repeat 0 10)) = true.
Proof. vm_compute. reflexivity. Qed.
