(* MaskNamesLib.v — helpers for Proofs/MaskNames.v (C03 / C19 with named arguments):
   a characterisation of the validating constructor, acceptance of a parameter
   list given by its five classified buckets, and how acceptance changes when
   one keyword is bound. *)
From Sigtools.Model Require Import Base Bind Roles Algebra.
From Sigtools.Proofs Require Import SmallModel Basics MaskLaws MaskExact MergeNeutral.
From Coq Require Import Lia Btauto.

(* ------------------------------------------------------------------ *)
(* validate = kinds in rank order + distinct names + no required positional
   after an optional one *)

Definition rank_le (a b : param) : Prop := (kind_rank (pkind a) <= kind_rank (pkind b))%nat.

Fixpoint ranks_sorted (l : list param) : Prop :=
  match l with
  | [] => True
  | p :: l' => Forall (rank_le p) l' /\ ranks_sorted l'
  end.

Fixpoint defs_ok (sd : bool) (l : list param) : Prop :=
  match l with
  | [] => True
  | p :: l' => (sd = true -> has_def p = true) /\ defs_ok (sd || has_def p) l'
  end.

Lemma validate_aux_iff ps : forall top sd seen,
  validate_aux ps top sd seen = true <->
  (Forall (fun p => (top <= kind_rank (pkind p))%nat) ps /\ ranks_sorted ps /\
   NoDup (names_of ps) /\ (forall x, In x (names_of ps) -> ~ In x seen) /\
   defs_ok sd (positional ps)).
Proof.
  induction ps as [|p ps IH]; intros top sd seen.
  - cbn. split; [intros _|reflexivity]. repeat split; auto; try constructor.
  - cbn [validate_aux].
    destruct (Nat.ltb (kind_rank (pkind p)) top) eqn:E1.
    { apply Nat.ltb_lt in E1. split; [discriminate|]. intros (H1 & _). inversion H1; subst. lia. }
    apply Nat.ltb_ge in E1. rewrite (Nat.max_l _ _ E1).
    assert (Epos : positional (p :: ps) = if is_positional p then p :: positional ps else positional ps).
    { unfold positional. cbn [filter]. reflexivity. }
    rewrite Epos. clear Epos.
    destruct (is_positional p && negb (has_def p) && sd) eqn:E2.
    { split; [discriminate|]. intros (_ & _ & _ & _ & H5).
      apply andb_true_iff in E2. destruct E2 as [E2 E2c]. apply andb_true_iff in E2. destruct E2 as [E2a E2b].
      rewrite E2a in H5. cbn [defs_ok] in H5. destruct H5 as [H5 _]. rewrite (H5 E2c) in E2b. discriminate. }
    destruct (mem (pname p) seen) eqn:E3.
    { split; [discriminate|]. intros (_ & _ & _ & H4 & _). apply mem_In in E3.
      exfalso. apply (H4 (pname p)); [left; reflexivity|exact E3]. }
    apply mem_false_In in E3. rewrite IH. clear IH. split.
    + intros (H1 & H2 & H3 & H4 & H5). repeat split.
      * constructor; [exact E1|]. eapply Forall_impl; [|exact H1]. cbv beta. intros a Ha. lia.
      * exact H1.
      * exact H2.
      * cbn [names_of map]. constructor; [|exact H3]. intros Hin. apply (H4 _ Hin). left. reflexivity.
      * intros x [<-|Hx]; [exact E3|]. intros Hs. apply (H4 _ Hx). right. exact Hs.
      * destruct (is_positional p) eqn:Ep.
        -- cbn [defs_ok]. split; [|cbn [andb] in H5; exact H5].
           intros Hsd. subst sd. cbn [andb] in E2. rewrite andb_true_r in E2.
           apply negb_false_iff in E2. exact E2.
        -- cbn [andb] in H5. rewrite orb_false_r in H5. exact H5.
    + intros (H1 & H2 & H3 & H4 & H5). cbn [ranks_sorted] in H2. destruct H2 as [H2a H2b].
      cbn [names_of map] in H3. inversion H3 as [|? ? Hn H3']; subst. repeat split.
      * exact H2a.
      * exact H2b.
      * exact H3'.
      * intros x Hx [<-|Hs]; [apply Hn; exact Hx|]. apply (H4 x); [right; exact Hx|exact Hs].
      * destruct (is_positional p) eqn:Ep.
        -- cbn [defs_ok] in H5. cbn [andb]. tauto.
        -- cbn [andb]. rewrite orb_false_r. exact H5.
Qed.

Lemma validate_iff ps :
  validate ps = true <->
  (ranks_sorted ps /\ NoDup (names_of ps) /\ defs_ok false (positional ps)).
Proof.
  unfold validate. rewrite validate_aux_iff. split.
  - intros (_ & H2 & H3 & _ & H5). auto.
  - intros (H2 & H3 & H5). repeat split; auto.
    + apply Forall_forall. intros. lia.
Qed.

Lemma ranks_sorted_app a b :
  ranks_sorted (a ++ b) <-> (ranks_sorted a /\ ranks_sorted b /\ forall x y, In x a -> In y b -> rank_le x y).
Proof.
  induction a as [|p a IH]; cbn [app ranks_sorted].
  - split; [intros H; repeat split; auto; intros x y []|tauto].
  - rewrite IH, Forall_app. split.
    + intros ((F1 & F2) & S1 & S2 & S3). repeat split; auto.
      intros x y [<-|Hx] Hy; [rewrite Forall_forall in F2; apply F2; exact Hy|apply S3; assumption].
    + intros ((F1 & S1) & S2 & S3). repeat split; auto.
      * apply Forall_forall. intros y Hy. apply S3; [left; reflexivity|exact Hy].
      * intros x y Hx Hy. apply S3; [right; exact Hx|exact Hy].
Qed.

Lemma ranks_sorted_uniform k l : Forall (fun p => pkind p = k) l -> ranks_sorted l.
Proof.
  induction 1 as [|p l Hp Hl IH]; cbn [ranks_sorted]; [exact I|]. split; [|exact IH].
  eapply Forall_impl; [|exact Hl]. cbv beta. intros a Ha. unfold rank_le. rewrite Hp, Ha. lia.
Qed.

Lemma defs_ok_app_l sd a b : defs_ok sd (a ++ b) -> defs_ok sd a.
Proof.
  revert sd. induction a as [|p a IH]; intros sd H; cbn [app defs_ok] in *; [exact I|].
  destruct H as [H1 H2]. split; [exact H1|]. apply IH. exact H2.
Qed.

Lemma defs_ok_weaken sd sd' l : (sd' = true -> sd = true) -> defs_ok sd l -> defs_ok sd' l.
Proof.
  revert sd sd'. induction l as [|p l IH]; intros sd sd' Hs H; cbn [defs_ok] in *; [exact I|].
  destruct H as [H1 H2]. split; [intros X; apply H1, Hs, X|].
  eapply IH; [|exact H2]. intros X. apply orb_true_iff in X. apply orb_true_iff. destruct X; auto.
Qed.

Lemma defs_ok_skipn n : forall sd l, defs_ok sd l -> defs_ok false (skipn n l).
Proof.
  induction n as [|n IH]; intros sd l H.
  - cbn [skipn]. eapply defs_ok_weaken; [|exact H]. discriminate.
  - destruct l as [|p l]; [exact I|]. cbn [skipn]. cbn [defs_ok] in H. eapply IH. exact (proj2 H).
Qed.

(* ------------------------------------------------------------------ *)
(* a parameter list given by its five buckets                           *)

Definition blk (pos pok : list param) (va : option param) (kwo : list param) (vk : option param)
  : list param := pos ++ pok ++ opt_list va ++ kwo ++ opt_list vk.

Definition kinds5 (pos pok : list param) (va : option param) (kwo : list param) (vk : option param)
  : Prop :=
  Forall (fun p => pkind p = PO) pos /\ Forall (fun p => pkind p = PK) pok /\
  (forall v, va = Some v -> pkind v = VP) /\ Forall (fun p => pkind p = KO) kwo /\
  (forall v, vk = Some v -> pkind v = VK).

Lemma filter_all {A} (f : A -> bool) l : Forall (fun x => f x = true) l -> filter f l = l.
Proof. induction 1 as [|x l Hx _ IH]; cbn [filter]; [reflexivity|]. rewrite Hx, IH. reflexivity. Qed.

Lemma filter_none {A} (f : A -> bool) l : Forall (fun x => f x = false) l -> filter f l = [].
Proof. induction 1 as [|x l Hx _ IH]; cbn [filter]; [reflexivity|]. rewrite Hx, IH. reflexivity. Qed.

Lemma existsb_none {A} (f : A -> bool) l : Forall (fun x => f x = false) l -> existsb f l = false.
Proof. induction 1 as [|x l Hx _ IH]; cbn [existsb]; [reflexivity|]. rewrite Hx, IH. reflexivity. Qed.

Lemma Forall_kind_f (f : param -> bool) k b l :
  (forall p, pkind p = k -> f p = b) -> Forall (fun p => pkind p = k) l -> Forall (fun p => f p = b) l.
Proof. intros Hf H. eapply Forall_impl; [|exact H]. cbv beta. intros a Ha. apply Hf. exact Ha. Qed.

Lemma Forall_opt (P : param -> Prop) (o : option param) :
  (forall v, o = Some v -> P v) -> Forall P (opt_list o).
Proof. destruct o as [v|]; cbn; intros H; constructor; auto. Qed.

Section Blk.
Variables (pos pok : list param) (va : option param) (kwo : list param) (vk : option param).
Hypothesis HK : kinds5 pos pok va kwo vk.

Lemma blk_positional : positional (blk pos pok va kwo vk) = pos ++ pok.
Proof.
  destruct HK as (H1 & H2 & H3 & H4 & H5). unfold blk, positional. rewrite !filter_app.
  rewrite (filter_all is_positional pos), (filter_all is_positional pok),
          (filter_none is_positional (opt_list va)), (filter_none is_positional kwo),
          (filter_none is_positional (opt_list vk)).
  - rewrite !app_nil_r. reflexivity.
  - apply Forall_opt. intros v Hv. unfold is_positional. rewrite (H5 v Hv). reflexivity.
  - eapply Forall_kind_f; [|exact H4]. intros p Hp. unfold is_positional. rewrite Hp. reflexivity.
  - apply Forall_opt. intros v Hv. unfold is_positional. rewrite (H3 v Hv). reflexivity.
  - eapply Forall_kind_f; [|exact H2]. intros p Hp. unfold is_positional. rewrite Hp. reflexivity.
  - eapply Forall_kind_f; [|exact H1]. intros p Hp. unfold is_positional. rewrite Hp. reflexivity.
Qed.

Lemma blk_kwonly : kwonly (blk pos pok va kwo vk) = kwo.
Proof.
  destruct HK as (H1 & H2 & H3 & H4 & H5). unfold blk, kwonly. rewrite !filter_app.
  rewrite (filter_none (is_kind KO) pos), (filter_none (is_kind KO) pok),
          (filter_none (is_kind KO) (opt_list va)), (filter_all (is_kind KO) kwo),
          (filter_none (is_kind KO) (opt_list vk)).
  - rewrite !app_nil_r. reflexivity.
  - apply Forall_opt. intros v Hv. unfold is_kind. rewrite (H5 v Hv). reflexivity.
  - eapply Forall_kind_f; [|exact H4]. intros p Hp. unfold is_kind. rewrite Hp. reflexivity.
  - apply Forall_opt. intros v Hv. unfold is_kind. rewrite (H3 v Hv). reflexivity.
  - eapply Forall_kind_f; [|exact H2]. intros p Hp. unfold is_kind. rewrite Hp. reflexivity.
  - eapply Forall_kind_f; [|exact H1]. intros p Hp. unfold is_kind. rewrite Hp. reflexivity.
Qed.

Lemma blk_has_vp : has_kind VP (blk pos pok va kwo vk) = isSome va.
Proof.
  destruct HK as (H1 & H2 & H3 & H4 & H5). unfold blk, has_kind. rewrite !existsb_app.
  rewrite (existsb_none (is_kind VP) pos), (existsb_none (is_kind VP) pok),
          (existsb_none (is_kind VP) kwo), (existsb_none (is_kind VP) (opt_list vk)).
  - rewrite !orb_false_r. cbn [orb]. destruct va as [v|]; cbn; [|reflexivity].
    unfold is_kind. rewrite (H3 v eq_refl). reflexivity.
  - apply Forall_opt. intros v Hv. unfold is_kind. rewrite (H5 v Hv). reflexivity.
  - eapply Forall_kind_f; [|exact H4]. intros p Hp. unfold is_kind. rewrite Hp. reflexivity.
  - eapply Forall_kind_f; [|exact H2]. intros p Hp. unfold is_kind. rewrite Hp. reflexivity.
  - eapply Forall_kind_f; [|exact H1]. intros p Hp. unfold is_kind. rewrite Hp. reflexivity.
Qed.

Lemma blk_has_vk : has_kind VK (blk pos pok va kwo vk) = isSome vk.
Proof.
  destruct HK as (H1 & H2 & H3 & H4 & H5). unfold blk, has_kind. rewrite !existsb_app.
  rewrite (existsb_none (is_kind VK) pos), (existsb_none (is_kind VK) pok),
          (existsb_none (is_kind VK) kwo), (existsb_none (is_kind VK) (opt_list va)).
  - cbn [orb]. destruct vk as [v|]; cbn; [|reflexivity].
    unfold is_kind. rewrite (H5 v eq_refl). reflexivity.
  - apply Forall_opt. intros v Hv. unfold is_kind. rewrite (H3 v Hv). reflexivity.
  - eapply Forall_kind_f; [|exact H4]. intros p Hp. unfold is_kind. rewrite Hp. reflexivity.
  - eapply Forall_kind_f; [|exact H2]. intros p Hp. unfold is_kind. rewrite Hp. reflexivity.
  - eapply Forall_kind_f; [|exact H1]. intros p Hp. unfold is_kind. rewrite Hp. reflexivity.
Qed.

(* the decision on one keyword *)
Definition kwok5 (P kwo' : list param) (hvk : bool) (m : nat) (k : name) : bool :=
  match (match kw_class_pos P m k with
         | Some c => c
         | None => if mem k (names_of kwo') then KDirect else KExtra
         end) with
  | KDirect => true
  | KDup => false
  | KExtra => hvk
  end.

Definition reqk (K : list name) (p : param) : bool := has_def p || mem (pname p) K.

Lemma accepts_blk m K :
  accepts (blk pos pok va kwo vk) (mkCall m K) =
  (Nat.leb m (length (pos ++ pok)) || isSome va)
  && forallb (kwok5 (pos ++ pok) kwo (isSome vk) m) K
  && req_pos (pos ++ pok) m K
  && forallb (reqk K) kwo.
Proof.
  unfold accepts, kw_ok, kw_class, req_kwo. cbn [npos kws].
  rewrite blk_positional, blk_kwonly, blk_has_vp, blk_has_vk. reflexivity.
Qed.

(* validity of the list from facts about the buckets *)
Lemma blk_validate :
  NoDup (names_of (blk pos pok va kwo vk)) -> defs_ok false (pos ++ pok) ->
  validate (blk pos pok va kwo vk) = true.
Proof.
  intros Hn Hd. apply validate_iff. rewrite blk_positional. split; [|split; assumption].
  destruct HK as (H1 & H2 & H3 & H4 & H5). unfold blk.
  assert (R : forall l k, Forall (fun p => pkind p = k) l -> forall x, In x l -> pkind x = k).
  { intros l k Hl x Hx. rewrite Forall_forall in Hl. apply Hl. exact Hx. }
  assert (Rva : forall x, In x (opt_list va) -> pkind x = VP).
  { intros x Hx. destruct va as [v|]; [|destruct Hx]. destruct Hx as [<-|[]]. apply H3. reflexivity. }
  assert (Rvk : forall x, In x (opt_list vk) -> pkind x = VK).
  { intros x Hx. destruct vk as [v|]; [|destruct Hx]. destruct Hx as [<-|[]]. apply H5. reflexivity. }
  repeat (apply ranks_sorted_app; split; [|split]);
    try (eapply ranks_sorted_uniform; eassumption);
    try (apply (ranks_sorted_uniform VP); apply Forall_forall; exact Rva);
    try (apply (ranks_sorted_uniform VK); apply Forall_forall; exact Rvk).
  all: intros x y Hx Hy; unfold rank_le;
    repeat (apply in_app_or in Hy; destruct Hy as [Hy|Hy]);
    first [rewrite (R _ _ H1 x Hx) | rewrite (R _ _ H2 x Hx) | rewrite (Rva x Hx)
          | rewrite (R _ _ H4 x Hx) | rewrite (Rvk x Hx)];
    first [rewrite (R _ _ H1 y Hy) | rewrite (R _ _ H2 y Hy) | rewrite (Rva y Hy)
          | rewrite (R _ _ H4 y Hy) | rewrite (Rvk y Hy)]; cbn; lia.
Qed.
End Blk.

(* ------------------------------------------------------------------ *)
(* kw_class_pos / req_pos over concatenations                           *)

Lemma kw_class_pos_app a b : forall m k,
  kw_class_pos (a ++ b) m k =
  match kw_class_pos a m k with
  | Some c => Some c
  | None => kw_class_pos b (m - length a) k
  end.
Proof.
  induction a as [|p a IH]; intros m k; cbn [app kw_class_pos length].
  - rewrite Nat.sub_0_r. reflexivity.
  - destruct (N.eqb k (pname p)); [reflexivity|]. rewrite IH.
    replace (Nat.pred m - length a)%nat with (m - S (length a))%nat by lia. reflexivity.
Qed.

Lemma req_pos_app a b : forall m K,
  req_pos (a ++ b) m K = req_pos a m K && req_pos b (m - length a) K.
Proof.
  induction a as [|p a IH]; intros m K; cbn [app req_pos length].
  - rewrite Nat.sub_0_r. reflexivity.
  - destruct m as [|m].
    + rewrite IH. cbn [Nat.sub]. rewrite andb_assoc. reflexivity.
    + rewrite IH. reflexivity.
Qed.

Lemma req_pos_zero b K :
  req_pos b 0 K = forallb (fun p => has_def p || (is_kind PK p && mem (pname p) K)) b.
Proof. induction b as [|p b IH]; cbn [req_pos forallb]; [reflexivity|]. rewrite IH. reflexivity. Qed.

Lemma kw_class_pos_pk_zero b k :
  Forall (fun p => pkind p = PK) b ->
  kw_class_pos b 0 k = if mem k (names_of b) then Some KDirect else None.
Proof.
  induction 1 as [|p b Hp _ IH]; cbn [kw_class_pos names_of map mem]; [reflexivity|].
  destruct (N.eqb k (pname p)); cbn [orb]; [rewrite Hp; reflexivity|]. cbn [Nat.pred]. exact IH.
Qed.

Lemma kw_class_pos_po a m k :
  Forall (fun p => pkind p = PO) a ->
  kw_class_pos a m k = None \/ kw_class_pos a m k = Some KExtra.
Proof.
  intros H. revert m. induction H as [|p a Hp _ IH]; intros m; cbn [kw_class_pos]; [left; reflexivity|].
  destruct (N.eqb k (pname p)); [right; rewrite Hp; reflexivity|]. apply IH.
Qed.

(* adding a keyword that names no positional-or-keyword parameter does not help
   the positional requirements *)
Lemma req_pos_cons_nonpk a x : forall m K,
  (forall q, In q a -> pname q = x -> is_kind PK q = false) ->
  req_pos a m (x :: K) = req_pos a m K.
Proof.
  induction a as [|p a IH]; intros m K H; cbn [req_pos]; [reflexivity|].
  assert (H' : forall q, In q a -> pname q = x -> is_kind PK q = false)
    by (intros q Hq; apply H; right; exact Hq).
  destruct m as [|m]; [|apply IH; exact H'].
  rewrite IH by exact H'. f_equal. f_equal. cbn [mem].
  destruct (N.eqb_spec (pname p) x) as [E|_]; [|reflexivity].
  rewrite (H p (or_introl eq_refl) E). reflexivity.
Qed.

Lemma req_pos_cons_foreign a x m K :
  ~ In x (names_of a) -> req_pos a m (x :: K) = req_pos a m K.
Proof.
  intros H. apply req_pos_cons_nonpk. intros q Hq E. exfalso. apply H. subst x.
  unfold names_of. apply in_map. exact Hq.
Qed.

Lemma reqk_cons_foreign x K l :
  ~ In x (names_of l) -> forallb (reqk (x :: K)) l = forallb (reqk K) l.
Proof.
  intros H. apply forallb_ext_in. intros p Hp. unfold reqk. cbn [mem].
  destruct (N.eqb_spec (pname p) x) as [E|_]; [|reflexivity].
  exfalso. apply H. subst x. unfold names_of. apply in_map. exact Hp.
Qed.

Lemma names_of_app (a b : list param) : names_of (a ++ b) = names_of a ++ names_of b.
Proof. unfold names_of. apply map_app. Qed.

Lemma names_of_set_kind k l : names_of (map (set_kind k) l) = names_of l.
Proof. unfold names_of. rewrite map_map. reflexivity. Qed.

Lemma accepts_bad_kw ps m K x : In x K -> kw_ok ps m x = false -> accepts ps (mkCall m K) = false.
Proof.
  intros Hin Hk. unfold accepts. cbn [npos kws].
  assert (E : forallb (kw_ok ps m) K = false).
  { destruct (forallb (kw_ok ps m) K) eqn:F; [|reflexivity].
    rewrite forallb_forall in F. rewrite (F x Hin) in Hk. discriminate. }
  rewrite E. rewrite andb_false_r. reflexivity.
Qed.
