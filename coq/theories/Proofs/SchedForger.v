(* C17 - machine F: the one-time lazy transform of _ForgerWrapper.__get__
   (sigtools/specifiers.py:155-163, with _transform :123-129).

   Every forwards_to_x(..., emulate=True) / set_signature_forger(..., emulate=True)
   puts ONE _ForgerWrapper descriptor in the class __dict__.  The first time the
   attribute is bound, __get__ re-applies Python's implicit classmethod /
   staticmethod transform to self.__wrapped__ on that shared descriptor and then
   raises the flag self._transformed:

       :158   if not self._transformed:
       :159       self.__wrapped__ = _transform(self.__wrapped__, type(owner))
       :160       self._transformed = True
       :161   return type(self)(
       :162       _util.safe_get(self.__wrapped__, instance, owner),
       :163       self._signature_forger)

   Shared: the flag and whether __wrapped__ is still the raw function (false) or
   its transformed form (true).  _transform is idempotent: applied to an already
   transformed value it returns it unchanged.  One transition = one source line
   (line events of __get__ and of the _transform frame it calls); line :159 is
   two transitions of shared effect: the read of self.__wrapped__ when the line
   starts (before _transform is entered) and the write when _transform's return
   line :129 is executed.  The value bound for the caller is read at :162.

   The model files are fixed, so the definitions of this machine live here,
   before the theorems.  [sw = false] is the statement order of the code;
   [sw = true] swaps :159 and :160 (flag first) - only used to show that the
   order matters ([forger_swapped_refuted]).

   Trace codes: 8xx = _ForgerWrapper.__get__ (def :155), 9xx = _transform (def :123). *)
From Coq Require Import List NArith Bool Arith Lia.
Import ListNotations.
From Sigtools.Model Require Import Sched.
Open Scope nat_scope.

Inductive fpc :=
| FStart
| L158          (* :158  if not self._transformed:                                *)
| L159          (* :159  (start) read self.__wrapped__, enter _transform           *)
| T124          (* :124  try:                                                      *)
| T125          (* :125  name = obj.__name__    (a classmethod object has no __name__: AttributeError) *)
| T126          (* :126  except AttributeError:                                    *)
| T127          (* :127  return obj             ; then :159 stores self.__wrapped__ (unchanged value) *)
| T128          (* :128  cls = meta('name', (object,), {name: obj})                *)
| T129          (* :129  return cls.__dict__[name]   ; then :159 stores self.__wrapped__ *)
| L160          (* :160  self._transformed = True                                  *)
| L161          (* :161  return type(self)(                                        *)
| L162          (* :162      _util.safe_get(self.__wrapped__, instance, owner),    *)
| L163          (* :163      self._signature_forger)                               *)
| L161b         (* :161  the call itself                                           *)
| FDone.

Definition fcode (p : fpc) : N :=
  match p with
  | FStart => 0 | L158 => 803 | L159 => 804 | T124 => 901 | T125 => 902 | T126 => 903 | T127 => 904 | T128 => 905
  | T129 => 906 | L160 => 805 | L161 => 806 | L162 => 807 | L163 => 808 | L161b => 806
  | FDone => 0
  end%N.

(* f_x: the value of self.__wrapped__ read when :159 starts (the argument obj of
   _transform; true = already transformed); f_val: the value read at :162;
   f_ans: 0 running, 1 = bound the transformed function (the sequential answer),
   2 = bound the raw function *)
Record fthread := mkF { f_pc : fpc; f_x : bool; f_val : bool; f_ans : N; f_trace : list N }.
Record fstate := mkFS { fs_flag : bool; fs_wrapped : bool; fs_threads : list fthread }.

(* with the statement order of the code the line after the flag test is the
   transform and the line after the transform's return is the flag; swapped:
   the flag line comes first and the transform's return leads to :161 *)
Definition fexec (sw : bool) (flag wrapped : bool) (th : fthread)
  : option (bool * bool * fpc * bool * bool) :=
  let x := f_x th in
  let v := f_val th in
  match f_pc th with
  | FStart => Some (flag, wrapped, L158, x, v)
  | L158 => Some (flag, wrapped, if flag then L161 else (if sw then L160 else L159), x, v)
  | L159 => Some (flag, wrapped, T124, wrapped, v)
  | T124 => Some (flag, wrapped, T125, x, v)
  | T125 => Some (flag, wrapped, if x then T126 else T128, x, v)
  | T126 => Some (flag, wrapped, T127, x, v)
  | T127 => Some (flag, x, if sw then L161 else L160, x, v)       (* _transform returned obj itself *)
  | T128 => Some (flag, wrapped, T129, x, v)
  | T129 => Some (flag, true, if sw then L161 else L160, x, v)    (* the classmethod built at :128 *)
  | L160 => Some (true, wrapped, if sw then L159 else L161, x, v)
  | L161 => Some (flag, wrapped, L162, x, v)
  | L162 => Some (flag, wrapped, L163, x, wrapped)
  | L163 => Some (flag, wrapped, L161b, x, v)
  | L161b => Some (flag, wrapped, FDone, x, v)
  | FDone => None
  end.

Definition fstep (sw : bool) (st : fstate) (t : nat) : option fstate :=
  match nth_error (fs_threads st) t with
  | None => None
  | Some th =>
      match fexec sw (fs_flag st) (fs_wrapped st) th with
      | None => None
      | Some (fl, wr, p', x, v) =>
          let tr := match p' with FDone => f_trace th | _ => fcode p' :: f_trace th end in
          let a := match p' with FDone => if v then 1%N else 2%N | _ => f_ans th end in
          Some (mkFS fl wr (update (fs_threads st) t (mkF p' x v a tr)))
      end
  end.

Fixpoint frun (sw : bool) (st : fstate) (sched : list nat) : fstate :=
  match sched with
  | [] => st
  | t :: r => match fstep sw st t with Some st' => frun sw st' r | None => frun sw st r end
  end.

(* n threads, a never bound descriptor *)
Definition finit (n : nat) : fstate := mkFS false false (repeat (mkF FStart false false 0%N []) n).

Definition f_is_done (th : fthread) : bool := match f_pc th with FDone => true | _ => false end.
Definition f_all_done (st : fstate) : bool := forallb f_is_done (fs_threads st).

(* plans, as for the other machines *)
Fixpoint frun_n (sw : bool) (st : fstate) (t n : nat) : option fstate :=
  match n with
  | O => Some st
  | S m => match fstep sw st t with Some st' => frun_n sw st' t m | None => None end
  end.

Fixpoint frun_done (fuel : nat) (sw : bool) (st : fstate) (t : nat) : fstate :=
  match fuel with
  | O => st
  | S f => match fstep sw st t with Some st' => frun_done f sw st' t | None => st end
  end.

Definition f_thread_done (st : fstate) (t : nat) : bool :=
  match nth_error (fs_threads st) t with Some th => f_is_done th | None => true end.

Fixpoint frun_plan (sw : bool) (st : fstate) (p : plan) : option fstate :=
  match p with
  | [] => if f_all_done st then Some st else None
  | (t, None) :: r => if f_thread_done st t then None else frun_plan sw (frun_done FUEL sw st t) r
  | (t, Some n) :: r =>
      match frun_n sw st t n with
      | Some st' => if f_thread_done st' t then None else frun_plan sw st' r
      | None => None
      end
  end.

Definition foutcome (st : fstate) : list (N * list N) * (bool * bool) :=
  (map (fun th => (f_ans th, rev (f_trace th))) (fs_threads st), (fs_flag st, fs_wrapped st)).

(* correspondence case for the harness: impl = None means the scheduler found the plan invalid *)
Definition fcase_agrees (n : nat) (p : plan) (impl : option (list (N * list N) * (bool * bool))) : bool :=
  match frun_plan false (finit n) p, impl with
  | None, None => true
  | Some st, Some (o, (fl, wr)) =>
      obs_eqb (fst (foutcome st)) o && Bool.eqb (fs_flag st) fl && Bool.eqb (fs_wrapped st) wr
  | _, _ => false
  end.

(* ------------------------------------------------------------------ *)
(** * Proofs *)

(* the transformed value, once stored, stays; the flag is only ever raised after it *)
Definition f_ok (wrapped : bool) (th : fthread) : Prop :=
  match f_pc th with
  | T126 | T127 => f_x th = true
  | L160 | L161 | L162 => wrapped = true
  | L163 | L161b => f_val th = true
  | FDone => f_ans th = 1%N
  | _ => True
  end.

Definition FInv (st : fstate) : Prop :=
  (fs_flag st = true -> fs_wrapped st = true)
  /\ Forall (f_ok (fs_wrapped st)) (fs_threads st).

Lemma f_ok_mono : forall th w, f_ok w th -> f_ok true th.
Proof. intros th w H. unfold f_ok in *. destruct (f_pc th); auto. Qed.

Lemma Forall_update_f : forall (P : fthread -> Prop) (l : list fthread) t x,
  Forall P l -> P x -> Forall P (update l t x).
Proof.
  intros P l; induction l as [|h r IH]; intros t x HF Hx; destruct t; simpl; auto;
    inversion HF; subst; constructor; auto.
Qed.

Lemma Forall_nth_error_f : forall (P : fthread -> Prop) (l : list fthread) t x,
  Forall P l -> nth_error l t = Some x -> P x.
Proof.
  intros P l t x HF Hn. rewrite Forall_forall in HF. apply HF. eapply nth_error_In; eauto.
Qed.

Lemma fstep_FInv : forall st t st', FInv st -> fstep false st t = Some st' -> FInv st'.
Proof.
  intros st t st' [Hfl HF] Hs. unfold fstep in Hs.
  destruct (nth_error (fs_threads st) t) as [th|] eqn:Hn; try discriminate.
  destruct (fexec false (fs_flag st) (fs_wrapped st) th) as [[[[[fl wr] p'] x] v]|] eqn:He; try discriminate.
  inversion Hs; subst st'; clear Hs. unfold FInv. simpl.
  assert (Hok : f_ok (fs_wrapped st) th) by (eapply Forall_nth_error_f; eauto).
  unfold fexec in He. unfold f_ok in Hok. destruct th as [p xv vl an tr]. simpl in *.
  destruct p; simpl in *; try discriminate;
    try (inversion He; subst; clear He; split; [exact Hfl|];
         apply Forall_update_f; auto; unfold f_ok; simpl; auto; fail).
  - (* L158 *)
    inversion He; subst; clear He. split; [exact Hfl|].
    apply Forall_update_f; auto. unfold f_ok; simpl.
    destruct (fs_flag st) eqn:Ef; simpl; auto.
  - (* T125 *)
    inversion He; subst; clear He. split; [exact Hfl|].
    apply Forall_update_f; auto. unfold f_ok; simpl. destruct x; simpl; auto.
  - (* T127: the store of the unchanged, already transformed value *)
    subst xv. inversion He; subst; clear He. split; [auto|].
    apply Forall_update_f.
    + eapply Forall_impl; [|exact HF]. intros a Ha. eapply f_ok_mono; eauto.
    + unfold f_ok; simpl; auto.
  - (* T129: the store of the transformed value *)
    inversion He; subst; clear He. split; [auto|].
    apply Forall_update_f.
    + eapply Forall_impl; [|exact HF]. intros a Ha. eapply f_ok_mono; eauto.
    + unfold f_ok; simpl; auto.
  - (* L160: the flag *)
    inversion He; subst; clear He. split; [auto|].
    apply Forall_update_f; auto.
Qed.

Lemma frun_FInv : forall sched st, FInv st -> FInv (frun false st sched).
Proof.
  induction sched as [|t r IH]; intros st HI; simpl; auto.
  destruct (fstep false st t) as [st'|] eqn:E; auto. apply IH. eapply fstep_FInv; eauto.
Qed.

Lemma finit_FInv : forall n, FInv (finit n).
Proof.
  intros n. split; simpl; [discriminate|].
  apply Forall_forall. intros th Hin. apply repeat_spec in Hin. subst th. exact I.
Qed.

(** With the statement order of the code: ANY number of threads performing the
    first bindings of the attribute concurrently, ANY interleaving: every
    thread that has finished bound the transformed function (the answer it
    gets alone); and the flag is never up while __wrapped__ is still raw. *)
Theorem forger_transform_sequential : forall n sched,
  (forall th, In th (fs_threads (frun false (finit n) sched)) -> f_is_done th = true -> f_ans th = 1%N)
  /\ (fs_flag (frun false (finit n) sched) = true -> fs_wrapped (frun false (finit n) sched) = true).
Proof.
  intros n sched. pose proof (frun_FInv sched _ (finit_FInv n)) as [Hfl HF]. split; auto.
  intros th Hin Hd. rewrite Forall_forall in HF. specialize (HF _ Hin).
  unfold f_ok in HF. unfold f_is_done in Hd. destruct (f_pc th); try discriminate. exact HF.
Qed.

(* alone, the first binding transforms, raises the flag and answers 1 *)
Example forger_solo :
  foutcome (frun false (finit 1) (repeat 0 20))
  = ([(1%N, [803; 804; 901; 902; 905; 906; 805; 806; 807; 808; 806]%N)], (true, true)).
Proof. vm_compute. reflexivity. Qed.

(* two threads may both run the transform (both see the flag down); harmless:
   here thread 0 has read the raw function before thread 1 stores the classmethod,
   builds its own classmethod and stores it over the first one *)
Example forger_both_transform :
  foutcome (frun false (finit 2) (repeat 0 3 ++ repeat 1 20 ++ repeat 0 20))
  = ([(1%N, [803; 804; 901; 902; 905; 906; 805; 806; 807; 808; 806]%N);
      (1%N, [803; 804; 901; 902; 905; 906; 805; 806; 807; 808; 806]%N)], (true, true)).
Proof. vm_compute. reflexivity. Qed.

(* ... and here thread 0 passed the flag test, then reads the already transformed
   value: _transform returns it unchanged (:126 :127) *)
Example forger_second_transform_idempotent :
  foutcome (frun false (finit 2) (repeat 0 2 ++ repeat 1 20 ++ repeat 0 20))
  = ([(1%N, [803; 804; 901; 902; 903; 904; 805; 806; 807; 808; 806]%N);
      (1%N, [803; 804; 901; 902; 905; 906; 805; 806; 807; 808; 806]%N)], (true, true)).
Proof. vm_compute. reflexivity. Qed.

(** The order matters: with the flag raised BEFORE the transform is stored a
    second thread sees the flag, skips the transform and binds the raw function
    (answer 2), although at quiescence everything is transformed. *)
Theorem forger_swapped_refuted :
  exists sched th,
    nth_error (fs_threads (frun true (finit 2) sched)) 1 = Some th
    /\ f_is_done th = true /\ f_ans th = 2%N
    /\ f_all_done (frun true (finit 2) sched) = true
    /\ fs_wrapped (frun true (finit 2) sched) = true.
Proof.
  exists (repeat 0 4 ++ repeat 1 20 ++ repeat 0 20).
  eexists. vm_compute. repeat split; reflexivity.
Qed.

Print Assumptions forger_transform_sequential.
Print Assumptions forger_swapped_refuted.
