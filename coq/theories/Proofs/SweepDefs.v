(* SweepDefs.v — the boolean sweeps behind the bounded reflective theorems, and
   their division into chunks that are proved (by vm_compute) in separate files
   so that make -j can run them in parallel. *)
From Sigtools.Model Require Import Universe.

Definition isNone {A} (o : option A) : bool := match o with None => true | Some _ => false end.

Lemma isNone_true {A} (o : option A) : isNone o = true -> o = None.
Proof. destruct o; simpl; [discriminate|reflexivity]. Qed.

Definition chunk {A} (size i : nat) (l : list A) : list A := firstn size (skipn (size * i) l).

Lemma forallb_flat_map {A B} (f : A -> list B) (P : B -> bool) l :
  forallb P (flat_map f l) = forallb (fun a => forallb P (f a)) l.
Proof. induction l; simpl; [reflexivity|]. rewrite forallb_app, IHl. reflexivity. Qed.

(* C01: soundness of merge for pure calls, and for every non-colliding call when
   the inputs are role-consistent *)
Definition merge_sound_check (ss : list (list param)) : bool :=
  match merge (map mk ss) with
  | Ok r => isNone (sound_pure_cex (params r) ss)
            && (negb (role_consistent ss) || isNone (sound_cex (params r) ss))
  | Err _ => true
  end.

(* C09: exactness for name-aligned role-consistent pairs *)
Definition merge_exact_check (a b : list param) : bool :=
  negb (name_aligned a b && role_consistent [a; b]) ||
  match merge [mk a; mk b] with
  | Ok r => isNone (exact_cex (params r) [a; b])
  | Err Incompatible => isNone (none_cex [a; b])
  | Err _ => false
  end.

Definition pair_check (a b : list param) : bool :=
  merge_sound_check [a; b] && merge_exact_check a b.

Definition pairs_sweep (la : list (list param)) : bool :=
  forallb (fun a => forallb (fun b => pair_check a b) U2ab) la.

Definition triples_sweep (la : list (list param)) : bool :=
  forallb (fun a => forallb (fun b => forallb (fun c => merge_sound_check [a; b; c]) U1ab) U1ab) la.

Definition PCH := 14%nat.   (* 16 chunks of 14 cover the 220 signatures of U2ab *)
Definition TCH := 4%nat.    (* 13 chunks of 4 cover the 52 signatures of U1ab *)

Lemma U2ab_chunks : flat_map (fun i => chunk PCH i U2ab) (seq 0 16) = U2ab.
Proof. vm_compute. reflexivity. Qed.

Lemma U1ab_chunks : flat_map (fun i => chunk TCH i U1ab) (seq 0 13) = U1ab.
Proof. vm_compute. reflexivity. Qed.
