(* Prov.v — provenance bookkeeping: depth maps (C08). *)
From Sigtools.Model Require Import Base Bind Roles Algebra.
From Coq Require Import Lia.

Definition opt_min (a b : option N) : option N :=
  match a, b with
  | Some x, Some y => Some (N.min x y)
  | Some x, None => Some x
  | None, b => b
  end.

(* smallest depth listed for f in r (r is a Python dict: at most one entry per
   key, but the lemma does not need that) *)
Fixpoint rmin (r : depths) (f : N) : option N :=
  match r with
  | [] => None
  | (g, d) :: r' => if N.eqb f g then opt_min (Some d) (rmin r' f) else rmin r' f
  end.

Lemma dep_get_set d f v g :
  dep_get (dep_set d f v) g = if N.eqb g f then Some v else dep_get d g.
Proof.
  induction d as [|[f' v'] d IH]; simpl.
  - destruct (N.eqb g f); reflexivity.
  - destruct (N.eqb_spec f f') as [->|Hff'].
    + simpl. destruct (N.eqb_spec g f'); reflexivity.
    + simpl. rewrite IH. destruct (N.eqb_spec g f') as [->|]; [|reflexivity].
      destruct (N.eqb_spec f' f); [congruence|reflexivity].
Qed.

Lemma opt_min_assoc a b c : opt_min (opt_min a b) c = opt_min a (opt_min b c).
Proof. destruct a, b, c; simpl; try reflexivity; f_equal; lia. Qed.

(* merge_depths keeps, for every callable, the smallest depth listed on either side *)
Theorem merge_depths_get l r f :
  dep_get (merge_depths l r) f = opt_min (dep_get l f) (rmin r f).
Proof.
  revert l. induction r as [|[g d] r IH]; intros l; simpl.
  - destruct (dep_get l f); reflexivity.
  - rewrite IH. clear IH.
    destruct (N.eqb_spec f g) as [->|Hfg].
    + destruct (dep_get l g) as [d0|] eqn:E; [destruct (N.ltb_spec d0 d) as [Hlt|Hge]|];
        rewrite ?E, ?dep_get_set, ?N.eqb_refl; destruct (rmin r g); simpl; f_equal; lia.
    + destruct (dep_get l g) as [d0|] eqn:E.
      * destruct (N.ltb d0 d); [reflexivity|].
        rewrite dep_get_set. destruct (N.eqb_spec f g); [congruence|reflexivity].
      * rewrite dep_get_set. destruct (N.eqb_spec f g); [congruence|reflexivity].
Qed.

Corollary merge_depths_le_left l r f d :
  dep_get l f = Some d -> exists d', dep_get (merge_depths l r) f = Some d' /\ (d' <= d)%N.
Proof.
  intros H. rewrite merge_depths_get, H. destruct (rmin r f); simpl; eexists; split; try reflexivity; lia.
Qed.

Corollary merge_depths_defined l r f :
  dep_get l f <> None \/ rmin r f <> None -> dep_get (merge_depths l r) f <> None.
Proof.
  rewrite merge_depths_get. destruct (dep_get l f), (rmin r f); simpl; intros [H|H]; congruence.
Qed.

Lemma dep_incr_get k d f : dep_get (dep_incr k d) f = option_map (fun v => (v + k)%N) (dep_get d f).
Proof.
  induction d as [|[g v] d IH]; simpl; [reflexivity|]. destruct (N.eqb f g); [reflexivity|exact IH].
Qed.

(* embed adds the step's depth to every callable of the inner signature, so a
   callable reached only through the i-th embedded signature is strictly deeper
   than the outermost ones *)
Theorem embed_depth_increase k d f v :
  (0 < k)%N -> dep_get d f = Some v ->
  exists v', dep_get (dep_incr k d) f = Some v' /\ (v < v')%N.
Proof. intros Hk H. rewrite dep_incr_get, H. simpl. eexists; split; [reflexivity|lia]. Qed.

(* source maps: the dictionary primitives *)
Lemma src_get_set m k v k' :
  src_get (src_set m k v) k' = if N.eqb k' k then v else src_get m k'.
Proof.
  induction m as [|[k0 v0] m IH]; simpl.
  - destruct (N.eqb k' k); reflexivity.
  - destruct (N.eqb_spec k k0) as [->|Hk].
    + simpl. destruct (N.eqb k' k0); reflexivity.
    + simpl. rewrite IH. destruct (N.eqb_spec k' k0) as [->|]; [|reflexivity].
      destruct (N.eqb_spec k0 k); [congruence|reflexivity].
Qed.

Lemma src_get_add m k vs k' :
  src_get (src_add m k vs) k' = if N.eqb k' k then src_get m k ++ vs else src_get m k'.
Proof.
  induction m as [|[k0 v0] m IH]; simpl.
  - destruct (N.eqb_spec k' k) as [->|]; [|reflexivity]. reflexivity.
  - destruct (N.eqb_spec k k0) as [->|Hk].
    + simpl. destruct (N.eqb_spec k' k0); reflexivity.
    + simpl. rewrite IH. destruct (N.eqb_spec k' k0) as [->|].
      * destruct (N.eqb_spec k0 k); [congruence|reflexivity].
      * reflexivity.
Qed.

Lemma src_get_pop m k k' :
  src_get (src_pop m k) k' = if N.eqb k' k then [] else src_get m k'.
Proof.
  induction m as [|[k0 v0] m IH]; simpl.
  - destruct (N.eqb k' k); reflexivity.
  - destruct (N.eqb_spec k k0) as [->|Hk].
    + rewrite IH. destruct (N.eqb_spec k' k0); reflexivity.
    + simpl. rewrite IH. destruct (N.eqb_spec k' k0) as [->|]; [|reflexivity].
      destruct (N.eqb_spec k0 k); [congruence|reflexivity].
Qed.

Lemma src_mem_pop m k k' : src_mem (src_pop m k) k' = src_mem m k' && negb (N.eqb k' k).
Proof.
  induction m as [|[k0 v0] m IH]; simpl; [reflexivity|].
  destruct (N.eqb_spec k k0) as [->|Hk].
  - rewrite IH. destruct (N.eqb_spec k' k0); simpl; [apply andb_false_r | reflexivity].
  - simpl. rewrite IH. destruct (N.eqb_spec k' k0) as [->|]; simpl; [|reflexivity].
    destruct (N.eqb_spec k0 k); [congruence|reflexivity].
Qed.

(* a popped name never has an entry again: mask removes the provenance of every
   parameter it removes *)
Theorem src_pop_all_mem m ks k :
  src_mem (src_pop_all m ks) k = src_mem m k && negb (mem k ks).
Proof.
  unfold src_pop_all. revert m. induction ks as [|k0 ks IH]; intros m; simpl.
  - rewrite andb_true_r. reflexivity.
  - rewrite IH, src_mem_pop. rewrite negb_orb. rewrite andb_assoc. reflexivity.
Qed.
