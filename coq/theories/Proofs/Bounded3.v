(* Bounded3.v — the algebraic laws on the finite universes (bounds in the statements). *)
From Sigtools.Model Require Import Universe.
From Sigtools.Proofs Require Import SweepDefs SweepDefs2 SweepDefs3 Bounded2.
From Sigtools.Proofs.Sweep Require ML.

Lemma fold_sweep_in l : fold_sweep l = true ->
  forall a b c, In a l -> In b U1ab -> In c U1ab -> fold_check a b c = true.
Proof. unfold fold_sweep. intros H. exact (forallb3_in' fold_check l U1ab U1ab H). Qed.

Lemma compose_sweep_in l : compose_sweep l = true ->
  forall s n m, In s l -> In n [0; 1; 2; 3]%nat -> In m [0; 1; 2; 3]%nat -> compose_check s n m = true.
Proof. unfold compose_sweep. intros H. exact (forallb3_in' compose_check l _ _ H). Qed.

Lemma assoc_sweep_in l : assoc_sweep l = true ->
  forall a b c f, In a l -> In b U1cd -> In c U1ef -> In f flagsets ->
                  assoc_check a b c (fst f) (snd f) = true.
Proof.
  unfold assoc_sweep. intros H a b c f Ha Hb Hc Hf.
  pose proof (forallb3_in' (fun a b c => forallb (fun f => assoc_check a b c (fst f) (snd f)) flagsets)
                           l U1cd U1ef H a b c Ha Hb Hc) as X.
  cbv beta in X. rewrite forallb_forall in X. exact (X f Hf).
Qed.

(* C09: merge(a, b, c) = merge(merge(a, b), c) in parameters and provenance for
   role-consistent triples of U(1,{a,b}) (52^3 triples, each input with its own callable) *)
Theorem merge_fold_law_U1 a b c :
  In a U1ab -> In b U1ab -> In c U1ab -> role_consistent [a; b; c] = true ->
  fold_check a b c = true.
Proof. intros Ha Hb Hc _. exact (fold_sweep_in U1ab ML.fold_all a b c Ha Hb Hc). Qed.

(* C02: embed(a, b, c) has the same parameters as embed(embed(a, b), c) *)
Theorem embed_assoc_U1 a b c uva uvk :
  In a U1ab -> In b U1cd -> In c U1ef ->
  match embed [mk a; mk b] uva uvk with
  | Ok ab => res_params_eqb (embed [mk a; mk b; mk c] uva uvk) (embed [ab; mk c] uva uvk) = true
  | Err _ => exists e, embed [mk a; mk b; mk c] uva uvk = Err e
  end.
Proof.
  intros Ha Hb Hc.
  assert (Hf : In (uva, uvk) flagsets) by (destruct uva, uvk; simpl; auto).
  pose proof (assoc_sweep_in U1ab ML.assoc_all a b c (uva, uvk) Ha Hb Hc Hf) as H.
  cbn [fst snd] in H. unfold assoc_check in H.
  destruct (embed [mk a; mk b] uva uvk) as [ab|e]; [exact H|].
  destruct (embed [mk a; mk b; mk c] uva uvk) as [r|e']; [discriminate|eauto].
Qed.

(* C03: mask(mask(sig, n), m) equals mask(sig, n + m) *)
Theorem mask_compose_U2 s n m :
  In s U2ab -> In n [0; 1; 2; 3]%nat -> In m [0; 1; 2; 3]%nat ->
  match mask (mk s) n [] nohide with
  | Ok r => res_params_eqb (mask r m [] nohide) (mask (mk s) (n + m) [] nohide) = true
  | Err _ => exists e, mask (mk s) (n + m) [] nohide = Err e
  end.
Proof.
  intros Hs Hn Hm. pose proof (compose_sweep_in U2ab ML.compose_all s n m Hs Hn Hm) as H.
  unfold compose_check in H.
  destruct (mask (mk s) n [] nohide) as [r|e]; [exact H|].
  destruct (mask (mk s) (n + m) [] nohide) as [r|e']; [discriminate|eauto].
Qed.

(* the boolean comparison used above is equality of parameter lists *)
Lemma param_eqb_eq a b : param_eqb a b = true -> a = b.
Proof.
  unfold param_eqb. intros H. repeat (apply andb_true_iff in H; destruct H as [H ?]).
  destruct a as [n1 k1 d1 a1 u1], b as [n2 k2 d2 a2 u2]; cbn in *.
  apply N.eqb_eq in H. subst n2.
  assert (k1 = k2) by (unfold kind_eqb in *; destruct k1, k2; cbn in *; congruence).
  assert (d1 = d2) by (unfold opt_N_eqb in *; destruct d1, d2; try congruence; try discriminate;
                       match goal with X : N.eqb _ _ = true |- _ => apply N.eqb_eq in X; congruence end).
  assert (a1 = a2) by (unfold opt_N_eqb in *; destruct a1, a2; try congruence; try discriminate;
                       match goal with X : N.eqb ?x ?y = true |- Some ?x = Some ?y => apply N.eqb_eq in X; congruence end).
  assert (u1 = u2).
  { unfold uann_eqb in *. destruct u1, u2; try congruence; try discriminate.
    - match goal with X : N.eqb v v0 = true |- _ => apply N.eqb_eq in X; congruence end.
    - match goal with X : (_ && _) = true |- _ => apply andb_true_iff in X; destruct X as [X1 X2];
        apply N.eqb_eq in X1; apply N.eqb_eq in X2; congruence end. }
  congruence.
Qed.

Lemma params_eqb_eq a b : params_eqb a b = true -> a = b.
Proof.
  unfold params_eqb. revert b. induction a as [|p a IH]; intros [|q b] H; cbn in *; try discriminate; [reflexivity|].
  apply andb_true_iff in H. destruct H as [Hl H]. apply andb_true_iff in H. destruct H as [Hp H].
  apply param_eqb_eq in Hp. subst q. f_equal. apply IH. rewrite Hl. exact H.
Qed.
