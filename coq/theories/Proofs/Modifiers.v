(* Proofs about Model/Modifiers.v (property C12). *)
From Coq Require Import List NArith Bool Arith Lia Permutation.
From Sigtools.Model Require Import Base Bind Algebra Modifiers.
Import ListNotations.

(* ------------------------------------------------------------------ basics *)
Lemma mem_In x l : mem x l = true <-> In x l.
Proof.
  induction l as [|y l IH]; simpl.
  - split; [discriminate | tauto].
  - rewrite orb_true_iff, IH, N.eqb_eq. split; intros [H|H]; auto.
Qed.

Lemma mem_false_In x l : mem x l = false <-> ~ In x l.
Proof. rewrite <- mem_In. destruct (mem x l); split; congruence. Qed.

Lemma klookup_kremove_same k kws : klookup k (kremove k kws) = None.
Proof.
  induction kws as [|[k' v] kws IH]; simpl; auto.
  destruct (N.eqb k k') eqn:E; auto. simpl. rewrite E. exact IH.
Qed.

Lemma klookup_kremove_other k x kws : x <> k -> klookup x (kremove k kws) = klookup x kws.
Proof.
  intros Hne. induction kws as [|[k' v] kws IH]; simpl; auto.
  destruct (N.eqb k k') eqn:E.
  - apply N.eqb_eq in E. subst k'. rewrite IH.
    destruct (N.eqb x k) eqn:E2; auto. apply N.eqb_eq in E2. contradiction.
  - simpl. rewrite IH. reflexivity.
Qed.


(* ------------------------------------------------------------------ facts from validity *)
Lemma validate_aux_ge ps : forall top sd seen,
  validate_aux ps top sd seen = true -> forall p, In p ps -> (top <= kind_rank (pkind p))%nat.
Proof.
  induction ps as [|q ps IH]; simpl; intros top sd seen H p Hin; [tauto|].
  destruct (Nat.ltb (kind_rank (pkind q)) top) eqn:E1; [discriminate|].
  apply Nat.ltb_ge in E1.
  destruct (is_positional q && negb (has_def q) && sd); [discriminate|].
  destruct (mem (pname q) seen); [discriminate|].
  destruct Hin as [->|Hin]; auto.
  specialize (IH _ _ _ H p Hin). lia.
Qed.

Lemma validate_aux_tail q ps top sd seen :
  validate_aux (q :: ps) top sd seen = true ->
  (top <= kind_rank (pkind q))%nat /\ mem (pname q) seen = false /\
  exists sd', validate_aux ps (kind_rank (pkind q)) sd' (pname q :: seen) = true.
Proof.
  simpl. intros H.
  destruct (Nat.ltb (kind_rank (pkind q)) top) eqn:E1; [discriminate|].
  apply Nat.ltb_ge in E1.
  destruct (is_positional q && negb (has_def q) && sd); [discriminate|].
  destruct (mem (pname q) seen) eqn:E3; [discriminate|].
  repeat split; auto. rewrite Nat.max_l in H by lia. eauto.
Qed.

Lemma validate_aux_nodup ps : forall top sd seen,
  validate_aux ps top sd seen = true ->
  NoDup (names_of ps) /\ forall x, In x (names_of ps) -> ~ In x seen.
Proof.
  induction ps as [|q ps IH]; intros top sd seen H.
  - split; [constructor | simpl; tauto].
  - apply validate_aux_tail in H. destruct H as (_ & Hm & sd' & H).
    apply IH in H. destruct H as [Hnd Hdis]. split.
    + simpl. constructor; auto. intro Hin. apply (Hdis _ Hin). left; reflexivity.
    + simpl. intros x [<-|Hin].
      * apply mem_false_In. exact Hm.
      * intro Hs. apply (Hdis _ Hin). right; exact Hs.
Qed.

Definition no_positional (ps : list param) : Prop := forall p, In p ps -> is_positional p = false.

(* positional parameters come first *)
Lemma validate_aux_pos_prefix ps : forall top sd seen,
  validate_aux ps top sd seen = true ->
  exists pos rest, ps = pos ++ rest /\ forallb is_positional pos = true /\ no_positional rest.
Proof.
  induction ps as [|q ps IH]; intros top sd seen H.
  - exists [], []. repeat split; auto. intros p [].
  - pose proof H as H0. apply validate_aux_tail in H. destruct H as (_ & _ & sd' & H).
    destruct (is_positional q) eqn:Eq.
    + destruct (IH _ _ _ H) as (pos & rest & -> & Hp & Hr).
      exists (q :: pos), rest. simpl. rewrite Eq, Hp. auto.
    + exists [], (q :: ps). repeat split; auto.
      intros p [<-|Hin]; auto.
      pose proof (validate_aux_ge _ _ _ _ H p Hin) as Hge.
      unfold is_positional in *. destruct (pkind q); try discriminate; destruct (pkind p); simpl in Hge; auto; lia.
Qed.

(* **kwargs, if any, is the last parameter *)
Lemma validate_aux_vk_last ps : forall top sd seen,
  validate_aux ps top sd seen = true -> (count_kind VK ps <= 1)%nat ->
  exists body vkl, ps = body ++ vkl /\ has_kind VK body = false /\
                   (vkl = [] \/ exists v, vkl = [v] /\ pkind v = VK).
Proof.
  induction ps as [|q ps IH]; intros top sd seen H Hc.
  - exists [], []. auto.
  - apply validate_aux_tail in H. destruct H as (_ & _ & sd' & H).
    destruct (is_kind VK q) eqn:Eq.
    + assert (Hq : pkind q = VK).
      { unfold is_kind, kind_eqb in Eq. destruct (pkind q); simpl in Eq; try discriminate; auto. }
      destruct ps as [|r ps].
      * exists [], [q]. repeat split; auto. right. eauto.
      * exfalso. pose proof (validate_aux_ge _ _ _ _ H r (or_introl eq_refl)) as Hge.
        rewrite Hq in Hge. simpl in Hge.
        assert (Hr : is_kind VK r = true).
        { unfold is_kind, kind_eqb. destruct (pkind r); simpl in *; auto; lia. }
        unfold count_kind in Hc. simpl in Hc. rewrite Eq, Hr in Hc. simpl in Hc. lia.
    + assert (Hc' : (count_kind VK ps <= 1)%nat).
      { unfold count_kind in *. simpl in Hc. rewrite Eq in Hc. exact Hc. }
      destruct (IH _ _ _ H Hc') as (body & vkl & -> & Hb & Hv).
      exists (q :: body), vkl. repeat split; auto.
      unfold has_kind in *. simpl. rewrite Eq. exact Hb.
Qed.

Lemma valid_sig_parts ps : valid_sig ps = true ->
  validate ps = true /\ (count_kind VK ps <= 1)%nat.
Proof.
  unfold valid_sig. rewrite !andb_true_iff. intros [[H1 _] H3].
  split; auto. apply Nat.leb_le. exact H3.
Qed.

(* ------------------------------------------------------------------ what _prepare computes *)
Section Prepare.
Variables posos kwos : list name.

Definition sel_p (p : param) : bool := is_kind PK p && mem (pname p) posos.
Definition sel_k (p : param) : bool :=
  is_kind PK p && negb (mem (pname p) posos) && mem (pname p) kwos.
Definition conv (p : param) : param := if sel_p p then set_kind PO p else p.

Fixpoint kwopos_from (i : nat) (ps : list param) : list (nat * param) :=
  match ps with
  | [] => []
  | p :: ps' => (if sel_k p then [(i, p)] else []) ++ kwopos_from (S i) ps'
  end.

(* the advertised parameters: the selected regular parameters become
   keyword-only and move (in order) behind everything except **kwargs; the
   others stay, positional-only where requested *)
Definition adv_spec (ps : list param) : list param :=
  map conv (filter (fun p => negb (sel_k p) && negb (is_kind VK p)) ps)
  ++ map (set_kind KO) (filter sel_k ps)
  ++ filter (is_kind VK) ps.

Lemma is_kind_PK p : is_kind PK p = true <-> pkind p = PK.
Proof. unfold is_kind, kind_eqb. destruct (pkind p); simpl; split; congruence. Qed.

Lemma prep_step_nonVK i p st st1 :
  is_kind VK p = false -> prep_step posos kwos i p st = Ok st1 ->
  st_params st1 = st_params st ++ (if sel_k p then [] else [conv p]) /\
  st_kwoparams st1 = st_kwoparams st ++ (if sel_k p then [set_kind KO p] else []) /\
  st_kwopos st1 = st_kwopos st ++ (if sel_k p then [(i, p)] else []) /\
  st_found_kws st1 = st_found_kws st.
Proof.
  intros Hvk. unfold prep_step, sel_k, conv, sel_p, is_kind in *.
  destruct (pkind p) eqn:Ek; simpl in *; try discriminate.
  - (* PO *)
    destruct (mem (pname p) (st_to_use st)); [destruct (mem (pname p) posos)|]; simpl;
      intros H; inversion H; subst; simpl; rewrite ?app_nil_r; auto.
  - (* PK *)
    destruct (mem (pname p) posos) eqn:E1; simpl.
    + destruct (st_found_pok st); [discriminate|]. intros H; inversion H; subst; simpl.
      rewrite ?app_nil_r; auto.
    + destruct (mem (pname p) kwos) eqn:E2; intros H; inversion H; subst; simpl;
        rewrite ?app_nil_r; auto.
  - (* VP *)
    destruct (mem (pname p) (st_to_use st)); simpl; [discriminate|].
    intros H; inversion H; subst; simpl; rewrite ?app_nil_r; auto.
  - (* KO *)
    destruct (mem (pname p) (st_to_use st)); [destruct (mem (pname p) kwos)|]; simpl;
      intros H; inversion H; subst; simpl; rewrite ?app_nil_r; auto.
Qed.

Lemma prep_step_VK i p st st1 :
  pkind p = VK -> prep_step posos kwos i p st = Ok st1 ->
  st_params st1 = (st_params st ++ st_kwoparams st) ++ [p] /\
  st_kwoparams st1 = st_kwoparams st /\ st_kwopos st1 = st_kwopos st /\
  st_found_kws st1 = true.
Proof.
  intros Ek. unfold prep_step. rewrite Ek. simpl.
  destruct (mem (pname p) (st_to_use st)); simpl; [discriminate|].
  intros H; inversion H; subst; simpl; auto.
Qed.

Lemma prep_loop_noVK ps : forall i st st',
  has_kind VK ps = false -> prep_loop posos kwos ps i st = Ok st' ->
  st_params st' = st_params st ++ map conv (filter (fun p => negb (sel_k p)) ps) /\
  st_kwoparams st' = st_kwoparams st ++ map (set_kind KO) (filter sel_k ps) /\
  st_kwopos st' = st_kwopos st ++ kwopos_from i ps /\
  st_found_kws st' = st_found_kws st.
Proof.
  induction ps as [|p ps IH]; intros i st st' Hvk H.
  - simpl in *. inversion H; subst. rewrite !app_nil_r. auto.
  - unfold has_kind in Hvk. simpl in Hvk. apply orb_false_iff in Hvk. destruct Hvk as [Hp Hps].
    simpl in H. destruct (prep_step posos kwos i p st) as [st1|e] eqn:E1; simpl in H; [|discriminate].
    destruct (prep_step_nonVK _ _ _ _ Hp E1) as (A1 & A2 & A3 & A4).
    destruct (IH _ _ _ Hps H) as (B1 & B2 & B3 & B4).
    rewrite B1, B2, B3, B4, A1, A2, A3, A4. simpl.
    destruct (sel_k p); simpl; rewrite <- ?app_assoc; simpl; rewrite ?app_nil_r; auto.
Qed.

Lemma prep_loop_app a : forall b i st,
  prep_loop posos kwos (a ++ b) i st =
  (do st1 <- prep_loop posos kwos a i st ;; prep_loop posos kwos b (i + length a) st1).
Proof.
  induction a as [|p a IH]; intros b i st; simpl.
  - rewrite Nat.add_0_r. reflexivity.
  - destruct (prep_step posos kwos i p st); simpl; auto.
    rewrite IH. replace (S i + length a)%nat with (i + S (length a))%nat by lia. reflexivity.
Qed.

Lemma sel_k_VK v : pkind v = VK -> sel_k v = false.
Proof. unfold sel_k, is_kind, kind_eqb. intros ->. reflexivity. Qed.
Lemma conv_VK v : pkind v = VK -> conv v = v.
Proof. unfold conv, sel_p, is_kind, kind_eqb. intros ->. reflexivity. Qed.

Lemma filter_ext_in' {A} (f g : A -> bool) l : (forall x, In x l -> f x = g x) -> filter f l = filter g l.
Proof.
  induction l as [|x l IH]; simpl; intros H; auto.
  rewrite (H x (or_introl eq_refl)), IH; auto.
Qed.

Lemma has_kind_false k ps : has_kind k ps = false -> forall p, In p ps -> is_kind k p = false.
Proof.
  unfold has_kind. induction ps as [|q ps IH]; simpl; intros H p Hin; [tauto|].
  apply orb_false_iff in H. destruct H as [H1 H2]. destruct Hin as [<-|Hin]; auto.
Qed.

Lemma has_kind_filter_nil k ps : has_kind k ps = false -> filter (is_kind k) ps = [].
Proof.
  unfold has_kind. induction ps as [|q ps IH]; simpl; intros H; auto.
  apply orb_false_iff in H. destruct H as [H1 H2]. rewrite H1. auto.
Qed.

Lemma kwopos_from_app a : forall i b, kwopos_from i (a ++ b) = kwopos_from i a ++ kwopos_from (i + length a) b.
Proof.
  induction a as [|p a IH]; intros i b; simpl.
  - rewrite Nat.add_0_r. reflexivity.
  - rewrite IH, <- app_assoc. replace (S i + length a)%nat with (i + S (length a))%nat by lia. reflexivity.
Qed.

(* C12_sig, first half: when _prepare succeeds on a valid signature it
   advertises exactly adv_spec and records the original positions of the moved
   parameters *)
Theorem prepare_spec ps adv kp :
  valid_sig ps = true -> prepare ps posos kwos = Ok (adv, kp) ->
  adv = adv_spec ps /\ kp = kwopos_from 0 ps.
Proof.
  intros Hv H. apply valid_sig_parts in Hv. destruct Hv as [Hval Hc].
  destruct (validate_aux_vk_last _ _ _ _ Hval Hc) as (body & vkl & -> & Hb & Hvk).
  unfold prepare in H.
  destruct (negb (is_nil (set_inter posos kwos))); [discriminate|].
  rewrite prep_loop_app in H.
  destruct (prep_loop posos kwos body 0 _) as [st1|e] eqn:E1; simpl in H; [|discriminate].
  destruct (prep_loop_noVK _ _ _ _ Hb E1) as (A1 & A2 & A3 & A4). simpl in A1, A2, A3, A4.
  assert (Hfb : filter (fun p => negb (sel_k p) && negb (is_kind VK p)) body
                = filter (fun p => negb (sel_k p)) body).
  { apply filter_ext_in'. intros x Hx. rewrite (has_kind_false _ _ Hb x Hx). apply andb_true_r. }
  assert (Hfv : filter (is_kind VK) body = []).
  { apply has_kind_filter_nil. exact Hb. }
  destruct Hvk as [->|(v & -> & Ev)].
  - simpl in H. rewrite A4 in H. simpl in H.
    destruct (negb (is_nil (st_to_use st1))); [discriminate|].
    destruct (validate (st_params st1 ++ st_kwoparams st1)); [|discriminate].
    inversion H; subst. unfold adv_spec. rewrite !app_nil_r, Hfb, Hfv, app_nil_r, A1, A2, A3.
    auto.
  - simpl in H. destruct (prep_step posos kwos _ v st1) as [st2|e] eqn:E2; simpl in H; [|discriminate].
    destruct (prep_step_VK _ _ _ _ Ev E2) as (B1 & B2 & B3 & B4).
    rewrite B4 in H. destruct (negb (is_nil (st_to_use st2))); [discriminate|].
    destruct (validate (st_params st2)); [|discriminate].
    inversion H; subst. unfold adv_spec.
    rewrite !filter_app, !map_app, Hfb, Hfv, B1, B3, A1, A2, A3. simpl.
    rewrite (sel_k_VK v Ev). simpl.
    assert (Ev' : is_kind VK v = true) by (unfold is_kind, kind_eqb; rewrite Ev; reflexivity).
    rewrite Ev'. simpl. rewrite kwopos_from_app. simpl. rewrite (sel_k_VK v Ev). simpl.
    rewrite !app_nil_r. rewrite <- !app_assoc. auto.
Qed.

End Prepare.


(* ------------------------------------------------------------------ __call__ *)
Lemma insert_at_app pre v l : insert_at (length pre) v (pre ++ l) = pre ++ v :: l.
Proof. induction pre as [|x pre IH]; simpl; [destruct l; reflexivity | rewrite IH; reflexivity]. Qed.

(* relation between the binding of the original positional parameters (o), of
   the advertised positional parameters (a) and of the moved keyword-only
   parameters (k): same bindings, same left-over positional arguments, and the
   original call fails exactly when the advertised one does *)
Definition R3 (o a k : option (env * list N)) : Prop :=
  match o, a, k with
  | Some (eo, ro), Some (ea, ra), Some (ek, _) => Permutation eo (ea ++ ek) /\ ro = ra
  | None, None, Some _ => True
  | _, _, _ => False
  end.

Lemma R3_both x o a k : R3 o a k -> R3 (opt_cons x o) (opt_cons x a) k.
Proof.
  destruct o as [[eo ro]|], a as [[ea ra]|], k as [[ek rk]|]; simpl; try tauto.
  intros [H1 H2]. split; [|exact H2]. simpl. apply perm_skip. exact H1.
Qed.

Lemma R3_moved x o a k : R3 o a k -> R3 (opt_cons x o) a (opt_cons x k).
Proof.
  destruct o as [[eo ro]|], a as [[ea ra]|], k as [[ek rk]|]; simpl; try tauto.
  intros [H1 H2]. split; [|exact H2]. apply Permutation_cons_app. exact H1.
Qed.

Lemma R3_fail a k x : a = None -> (exists y, k = Some y) -> R3 None a (opt_cons x k).
Proof. intros -> [[ek rk] ->]. simpl. exact I. Qed.

Section Call.
Variables posos kwos : list name.
Notation selk := (sel_k posos kwos).
Notation selp := (sel_p posos).
Notation cnv := (conv posos).

(* what the insert loop computes, as a recursion over the original positional
   parameters: args are the positional arguments not yet placed *)
Fixpoint shufT (pos : list param) (args : list N) (kws : kwargs) : list N * kwargs :=
  match pos with
  | [] => (args, kws)
  | p :: pos' =>
      if selk p then
        match args with
        | [] => shufT pos' [] kws
        | _ :: _ =>
            match klookup (pname p) kws with
            | Some v => let r := shufT pos' args (kremove (pname p) kws) in (v :: fst r, snd r)
            | None => match pdef p with
                      | Some d => let r := shufT pos' args kws in (d :: fst r, snd r)
                      | None => shufT pos' args kws
                      end
            end
        end
      else
        match args with
        | [] => shufT pos' [] kws
        | a :: args' => let r := shufT pos' args' kws in (a :: fst r, snd r)
        end
  end.

(* no moved parameter lacks both a keyword argument and a default *)
Definition no_missing (pos : list param) (kws : kwargs) : Prop :=
  forall p, In p pos -> selk p = true -> pdef p = None -> klookup (pname p) kws <> None.

Lemma shufT_nil pos kws : shufT pos [] kws = ([], kws).
Proof. induction pos as [|p pos IH]; simpl; auto. destruct (selk p); exact IH. Qed.

Lemma shufT_lookup pos : forall args kws x,
  ~ In x (names_of pos) -> klookup x (snd (shufT pos args kws)) = klookup x kws.
Proof.
  induction pos as [|p pos IH]; intros args kws x Hx; simpl; auto.
  assert (Hne : x <> pname p) by (intro E; apply Hx; left; symmetry; exact E).
  assert (Hx' : ~ In x (names_of pos)) by (intro E; apply Hx; right; exact E).
  destruct (selk p).
  - destruct args as [|a args]; [apply IH; auto|].
    destruct (klookup (pname p) kws).
    + simpl. rewrite IH by auto. apply klookup_kremove_other. exact Hne.
    + destruct (pdef p); simpl; apply IH; auto.
  - destruct args as [|a args]; simpl; apply IH; auto.
Qed.

Lemma no_missing_tail p pos kws : no_missing (p :: pos) kws -> no_missing pos kws.
Proof. intros H q Hq. apply H. right; exact Hq. Qed.

Lemma no_missing_kremove x pos kws :
  ~ In x (names_of pos) -> no_missing pos kws -> no_missing pos (kremove x kws).
Proof.
  intros Hx H q Hq Hs Hd. rewrite klookup_kremove_other.
  - apply H; auto.
  - intro E. apply Hx. rewrite <- E. apply in_map. exact Hq.
Qed.

(* once the positional arguments are used up nothing is inserted any more *)
Lemma call_loop_short pos : forall i l kws m,
  (length l <= i)%nat -> no_missing pos kws ->
  call_loop (kwopos_from posos kwos i pos) l kws m = (l, kws, m).
Proof.
  induction pos as [|p pos IH]; intros i l kws m Hl Hm; simpl; auto.
  pose proof (no_missing_tail _ _ _ Hm) as Hm'.
  destruct (selk p) eqn:Es; simpl; [|apply IH; auto; lia].
  assert (Hlt : Nat.ltb i (length l) = false) by (apply Nat.ltb_ge; lia).
  destruct (klookup (pname p) kws) eqn:Ek.
  - rewrite Hlt. apply IH; auto; lia.
  - destruct (pdef p) eqn:Ed.
    + rewrite Hlt. apply IH; auto; lia.
    + exfalso. apply (Hm p (or_introl eq_refl) Es Ed). exact Ek.
Qed.

(* the insert loop refines shufT: pre is the part of the argument list that is
   already in its final place *)
Lemma call_loop_shufT pos : forall pre args kws m,
  NoDup (names_of pos) -> no_missing pos kws ->
  call_loop (kwopos_from posos kwos (length pre) pos) (pre ++ args) kws m
  = (pre ++ fst (shufT pos args kws), snd (shufT pos args kws), m).
Proof.
  induction pos as [|p pos IH]; intros pre args kws m Hnd Hm; simpl; auto.
  inversion Hnd as [|x l Hnotin Hnd']; subst.
  pose proof (no_missing_tail _ _ _ Hm) as Hm'.
  destruct (selk p) eqn:Es; simpl.
  - destruct args as [|a args].
    + rewrite shufT_nil. simpl. rewrite app_nil_r.
      assert (Hlt : Nat.ltb (length pre) (length pre) = false) by (apply Nat.ltb_ge; lia).
      destruct (klookup (pname p) kws) eqn:Ek.
      * rewrite Hlt. apply call_loop_short; auto.
      * destruct (pdef p) eqn:Ed.
        -- rewrite Hlt. apply call_loop_short; auto.
        -- exfalso. apply (Hm p (or_introl eq_refl) Es Ed). exact Ek.
    + assert (Hlt : Nat.ltb (length pre) (length (pre ++ a :: args)) = true).
      { apply Nat.ltb_lt. rewrite app_length. simpl. lia. }
      destruct (klookup (pname p) kws) eqn:Ek.
      * rewrite Hlt, insert_at_app.
        replace (pre ++ n :: a :: args) with ((pre ++ [n]) ++ a :: args) by (rewrite <- app_assoc; reflexivity).
        replace (S (length pre)) with (length (pre ++ [n])) by (rewrite app_length; simpl; lia).
        rewrite IH; auto.
        -- simpl. rewrite <- app_assoc. reflexivity.
        -- apply no_missing_kremove; auto.
      * destruct (pdef p) eqn:Ed.
        -- rewrite Hlt, insert_at_app.
           replace (pre ++ n :: a :: args) with ((pre ++ [n]) ++ a :: args) by (rewrite <- app_assoc; reflexivity).
           replace (S (length pre)) with (length (pre ++ [n])) by (rewrite app_length; simpl; lia).
           rewrite IH; auto. simpl. rewrite <- app_assoc. reflexivity.
        -- exfalso. apply (Hm p (or_introl eq_refl) Es Ed). exact Ek.
  - destruct args as [|a args].
    + rewrite shufT_nil. simpl. rewrite app_nil_r. apply call_loop_short; auto.
    + replace (pre ++ a :: args) with ((pre ++ [a]) ++ args) by (rewrite <- app_assoc; reflexivity).
      replace (S (length pre)) with (length (pre ++ [a])) by (rewrite app_length; simpl; lia).
      rewrite IH; auto. simpl. rewrite <- app_assoc. reflexivity.
Qed.


Definition A1 (pos : list param) : list param := map cnv (filter (fun p => negb (selk p)) pos).
Definition Kp (pos : list param) : list param := map (set_kind KO) (filter selk pos).

Lemma selk_PK p : selk p = true -> pkind p = PK.
Proof.
  unfold sel_k. rewrite !andb_true_iff. intros [[H _] _]. apply is_kind_PK. exact H.
Qed.

Lemma Kp_some pos : forall l kws a3,
  no_missing pos kws -> exists y, bind_params a3 (Kp pos) l kws = Some y.
Proof.
  induction pos as [|p pos IH]; intros l kws a3 Hm; unfold Kp in *; simpl; eauto.
  pose proof (no_missing_tail _ _ _ Hm) as Hm'.
  destruct (selk p) eqn:Es; simpl; [|apply IH; auto].
  destruct (IH l kws a3 Hm') as [[e r] Hy].
  destruct (klookup (pname p) kws) eqn:Ek.
  - rewrite Hy. simpl. eauto.
  - destruct (pdef p) eqn:Ed.
    + rewrite Hy. simpl. eauto.
    + exfalso. apply (Hm p (or_introl eq_refl) Es Ed). exact Ek.
Qed.

Lemma R3_none k : (exists y, k = Some y) -> R3 None None k.
Proof. intros [y ->]. simpl. exact I. Qed.

(* Routing of the positional part.  kwsc: the keyword arguments the loop
   currently holds; kws0: those of the call; kwsF: those finally passed on. *)
Lemma heart pos : forall args kwsc kws0 kwsF a1 a2 a3,
  forallb is_positional pos = true -> NoDup (names_of pos) ->
  (forall p, In p pos -> klookup (pname p) kwsc = klookup (pname p) kws0) ->
  (forall p, In p pos -> selp p = true -> klookup (pname p) kws0 = None) ->
  no_missing pos kwsc -> no_missing pos kws0 ->
  kwsF = snd (shufT pos args kwsc) ->
  R3 (bind_params a1 pos (fst (shufT pos args kwsc)) kwsF)
     (bind_params a2 (A1 pos) args kws0)
     (bind_params a3 (Kp pos) [] kws0).
Proof.
  induction pos as [|p pos IH]; intros args kwsc kws0 kwsF a1 a2 a3 Hpos Hnd Ha Hb Hm Hm0 HF.
  - simpl. split; auto.
  - simpl in Hpos. apply andb_true_iff in Hpos. destruct Hpos as [Hp Hpos].
    inversion Hnd as [|x l Hnotin Hnd']; subst x l.
    pose proof (no_missing_tail _ _ _ Hm) as Hm'.
    pose proof (no_missing_tail _ _ _ Hm0) as Hm0'.
    assert (Ha' : forall q, In q pos -> klookup (pname q) kwsc = klookup (pname q) kws0)
      by (intros q Hq; apply Ha; right; exact Hq).
    assert (Hb' : forall q, In q pos -> selp q = true -> klookup (pname q) kws0 = None)
      by (intros q Hq; apply Hb; right; exact Hq).
    pose proof (Ha p (or_introl eq_refl)) as Hap.
    assert (HK : forall l, exists y, bind_params a3 (Kp pos) l kws0 = Some y)
      by (intros l; apply Kp_some; exact Hm0').
    destruct (selk p) eqn:Es.
    + (* a moved parameter *)
      pose proof (selk_PK _ Es) as Ek.
      unfold A1, Kp. simpl filter. rewrite Es. simpl negb. cbv iota. simpl map.
      fold (A1 pos). fold (Kp pos).
      destruct args as [|a args].
      * simpl in HF. rewrite Es in HF. rewrite shufT_nil in HF. simpl in HF. subst kwsF.
        simpl shufT. rewrite Es. rewrite shufT_nil. simpl fst.
        specialize (IH [] kwsc kws0 kwsc a1 a2 a3 Hpos Hnd' Ha' Hb' Hm' Hm0').
        rewrite shufT_nil in IH. specialize (IH eq_refl). simpl in IH.
        simpl. rewrite Ek. rewrite Hap.
        destruct (klookup (pname p) kws0) eqn:E0.
        -- apply R3_moved. exact IH.
        -- destruct (pdef p) eqn:Ed.
           ++ apply R3_moved. exact IH.
           ++ exfalso. apply (Hm0 p (or_introl eq_refl) Es Ed). exact E0.
      * simpl in HF. rewrite Es in HF. simpl shufT. rewrite Es.
        destruct (klookup (pname p) kwsc) eqn:Ec.
        -- simpl in HF. simpl fst.
           assert (HlF : klookup (pname p) kwsF = None).
           { rewrite HF, shufT_lookup by exact Hnotin. apply klookup_kremove_same. }
           simpl. rewrite Ek. unfold kmem. rewrite HlF. simpl.
           rewrite <- Hap. apply R3_moved.
           apply IH; auto.
           ++ intros q Hq. rewrite klookup_kremove_other; [apply Ha'; exact Hq|].
              intro E. apply Hnotin. rewrite <- E. apply in_map. exact Hq.
           ++ apply no_missing_kremove; auto.
        -- destruct (pdef p) eqn:Ed.
           ++ simpl in HF. simpl fst.
              assert (HlF : klookup (pname p) kwsF = None).
              { rewrite HF, shufT_lookup by exact Hnotin. exact Ec. }
              simpl. rewrite Ek. unfold kmem. rewrite HlF. simpl.
              rewrite <- Hap, Ed. apply R3_moved. apply IH; auto.
           ++ exfalso. apply (Hm p (or_introl eq_refl) Es Ed). exact Ec.
    + (* a parameter that stays positional *)
      unfold A1, Kp. simpl filter. rewrite Es. simpl negb. cbv iota. simpl map.
      fold (A1 pos). fold (Kp pos).
      assert (HlF : klookup (pname p) kwsF = klookup (pname p) kws0).
      { rewrite HF. simpl. rewrite Es. destruct args; simpl; rewrite shufT_lookup by exact Hnotin; exact Hap. }
      unfold conv. destruct (selp p) eqn:Esp.
      * (* made positional-only *)
        assert (Ek : pkind p = PK).
        { unfold sel_p in Esp. apply andb_true_iff in Esp. destruct Esp as [H _]. apply is_kind_PK. exact H. }
        pose proof (Hb p (or_introl eq_refl) Esp) as Hnone. rewrite Hnone in HlF.
        simpl shufT. rewrite Es.
        destruct args as [|a args].
        -- rewrite shufT_nil. simpl fst. simpl. rewrite Ek, HlF.
           specialize (IH [] kwsc kws0 kwsF a1 a2 a3 Hpos Hnd' Ha' Hb' Hm' Hm0').
           rewrite shufT_nil in IH. simpl in IH.
           assert (HF2 : kwsF = kwsc).
           { rewrite HF. simpl. rewrite Es. rewrite shufT_nil. reflexivity. }
           specialize (IH HF2).
           destruct (pdef p).
           ++ apply R3_both. exact IH.
           ++ apply R3_none. apply HK.
        -- simpl fst. simpl. rewrite Ek. unfold kmem. rewrite HlF. simpl.
           apply R3_both. apply IH; auto.
           rewrite HF. simpl. rewrite Es. reflexivity.
      * (* unchanged *)
        simpl shufT. rewrite Es.
        destruct args as [|a args].
        -- rewrite shufT_nil. simpl fst.
           specialize (IH [] kwsc kws0 kwsF a1 a2 a3 Hpos Hnd' Ha' Hb' Hm' Hm0').
           rewrite shufT_nil in IH. simpl in IH.
           assert (HF2 : kwsF = kwsc).
           { rewrite HF. simpl. rewrite Es. rewrite shufT_nil. reflexivity. }
           specialize (IH HF2).
           simpl. unfold is_positional in Hp.
           destruct (pkind p) eqn:Ek; try discriminate.
           ++ destruct (pdef p); [apply R3_both; exact IH | apply R3_none; apply HK].
           ++ rewrite HlF. destruct (klookup (pname p) kws0).
              ** apply R3_both. exact IH.
              ** destruct (pdef p); [apply R3_both; exact IH | apply R3_none; apply HK].
        -- simpl fst.
           assert (IH' : R3 (bind_params a1 pos (fst (shufT pos args kwsc)) kwsF)
                            (bind_params a2 (A1 pos) args kws0) (bind_params a3 (Kp pos) [] kws0)).
           { apply IH; auto. rewrite HF. simpl. rewrite Es. reflexivity. }
           simpl. unfold is_positional in Hp.
           destruct (pkind p) eqn:Ek; try discriminate.
           ++ apply R3_both. exact IH'.
           ++ unfold kmem. rewrite HlF. destruct (klookup (pname p) kws0); simpl.
              ** apply R3_none. apply HK.
              ** apply R3_both. exact IH'.
Qed.


(* C12_call, positional core: the insert loop followed by CPython's binding of
   the original positional parameters gives the bindings CPython computes for
   the advertised positional parameters plus the moved keyword-only ones, and
   fails exactly when the advertised binding fails *)
Theorem call_positional pos args kws a1 a2 a3 :
  forallb is_positional pos = true -> NoDup (names_of pos) ->
  (forall p, In p pos -> selp p = true -> klookup (pname p) kws = None) ->
  no_missing pos kws ->
  exists args' kws',
    call_loop (kwopos_from posos kwos 0 pos) args kws [] = (args', kws', []) /\
    R3 (bind_params a1 pos args' kws') (bind_params a2 (A1 pos) args kws)
       (bind_params a3 (Kp pos) [] kws).
Proof.
  intros Hpos Hnd Hb Hm.
  exists (fst (shufT pos args kws)), (snd (shufT pos args kws)). split.
  - exact (call_loop_shufT pos [] args kws [] Hnd Hm).
  - apply heart; auto.
Qed.

End Call.



(* ------------------------------------------------------------------ _prepare only sees the name sets as sets *)
Definition same_set (a b : list name) : Prop := forall x, mem x a = mem x b.

Lemma mem_app x a b : mem x (a ++ b) = mem x a || mem x b.
Proof. induction a as [|y a IH]; simpl; auto. rewrite IH, orb_assoc. reflexivity. Qed.

Lemma mem_set_remove y x a : mem y (set_remove x a) = negb (N.eqb x y) && mem y a.
Proof.
  unfold set_remove. induction a as [|z a IH]; simpl.
  - rewrite andb_false_r. reflexivity.
  - destruct (N.eqb x z) eqn:Exz; simpl.
    + apply N.eqb_eq in Exz. subst z. rewrite IH.
      destruct (N.eqb x y) eqn:Exy; simpl; auto.
      rewrite N.eqb_sym, Exy. reflexivity.
    + rewrite IH. destruct (N.eqb y z) eqn:Eyz; simpl.
      * apply N.eqb_eq in Eyz. subst z. rewrite Exz. reflexivity.
      * reflexivity.
Qed.

Lemma mem_set_inter x a b : mem x (set_inter a b) = mem x a && mem x b.
Proof.
  unfold set_inter. induction a as [|z a IH]; simpl; auto.
  destruct (mem z b) eqn:Ez; simpl; rewrite IH.
  - destruct (N.eqb x z) eqn:Exz; simpl; auto. apply N.eqb_eq in Exz. subst z. rewrite Ez. reflexivity.
  - destruct (N.eqb x z) eqn:Exz; simpl; auto. apply N.eqb_eq in Exz. subst z. rewrite Ez.
    rewrite andb_false_r. reflexivity.
Qed.

Lemma same_set_is_nil a b : same_set a b -> is_nil a = is_nil b.
Proof.
  intros H. destruct a as [|x a], b as [|y b]; simpl; auto.
  - specialize (H y). simpl in H. rewrite N.eqb_refl in H. discriminate.
  - specialize (H x). simpl in H. rewrite N.eqb_refl in H. discriminate.
Qed.

Lemma same_set_remove x a b : same_set a b -> same_set (set_remove x a) (set_remove x b).
Proof. intros H y. rewrite !mem_set_remove, H. reflexivity. Qed.

Definition st_rel (s s' : pstate) : Prop :=
  st_params s = st_params s' /\ st_kwoparams s = st_kwoparams s' /\ st_kwopos s = st_kwopos s' /\
  st_found_pok s = st_found_pok s' /\ st_found_kws s = st_found_kws s' /\
  same_set (st_to_use s) (st_to_use s').

Definition res_rel (r r' : res pstate) : Prop :=
  match r, r' with
  | Ok s, Ok s' => st_rel s s'
  | Err e, Err e' => e = e'
  | _, _ => False
  end.

Lemma prep_step_rel P K P' K' i p s s' :
  same_set P P' -> same_set K K' -> st_rel s s' ->
  res_rel (prep_step P K i p s) (prep_step P' K' i p s').
Proof.
  intros HP HK Hs. destruct s as [a b c d e tu], s' as [a' b' c' d' e' tu'].
  unfold st_rel in Hs. simpl in Hs. destruct Hs as (<- & <- & <- & <- & <- & Htu).
  unfold prep_step. simpl.
  rewrite <- (HP (pname p)), <- (HK (pname p)), <- (Htu (pname p)).
  pose proof (same_set_remove (pname p) _ _ Htu) as Hrm.
  destruct (pkind p); simpl;
    destruct (mem (pname p) P); destruct (mem (pname p) K); destruct (mem (pname p) tu);
    try destruct d; simpl; unfold st_rel; simpl; auto 10.
Qed.

Lemma prep_loop_rel P K P' K' ps : forall i s s',
  same_set P P' -> same_set K K' -> st_rel s s' ->
  res_rel (prep_loop P K ps i s) (prep_loop P' K' ps i s').
Proof.
  induction ps as [|p ps IH]; intros i s s' HP HK Hs; simpl; auto.
  pose proof (prep_step_rel P K P' K' i p s s' HP HK Hs) as H1.
  destruct (prep_step P K i p s) as [s1|e1], (prep_step P' K' i p s') as [s1'|e1']; simpl in *;
    try tauto. apply IH; auto.
Qed.

(* the result of _prepare depends on posoarg_names / kwoarg_names only through
   membership: order and repetitions in the given names are irrelevant *)
Theorem prepare_set_invariant ps P K P' K' :
  same_set P P' -> same_set K K' -> prepare ps P K = prepare ps P' K'.
Proof.
  intros HP HK. unfold prepare.
  assert (Hi : is_nil (set_inter P K) = is_nil (set_inter P' K')).
  { apply same_set_is_nil. intro x. rewrite !mem_set_inter, HP, HK. reflexivity. }
  rewrite Hi. destruct (negb (is_nil (set_inter P' K'))); auto.
  assert (H0 : st_rel (mkPS [] [] [] false false (P ++ K)) (mkPS [] [] [] false false (P' ++ K'))).
  { unfold st_rel. simpl. repeat split; auto. intro x. rewrite !mem_app, HP, HK. reflexivity. }
  pose proof (prep_loop_rel P K P' K' ps 0%nat _ _ HP HK H0) as H.
  destruct (prep_loop P K ps 0 _) as [s|e], (prep_loop P' K' ps 0 _) as [s'|e']; simpl in *; try tauto.
  - destruct H as (E1 & E2 & E3 & E4 & E5 & E6).
    rewrite E1, E2, E3, E5, (same_set_is_nil _ _ E6). reflexivity.
  - subst. reflexivity.
Qed.

Example prepare_set_invariant_example :
  same_set [1; 2; 1] [2; 1] /\ prepare [mkParam 1 PK None None UEmpty; mkParam 2 PK None None UEmpty] [] [1; 2; 1]
  = prepare [mkParam 1 PK None None UEmpty; mkParam 2 PK None None UEmpty] [] [2; 1].
Proof.
  split; [|reflexivity]. intro x. simpl.
  destruct (N.eqb x 1), (N.eqb x 2); reflexivity.
Qed.

(* ------------------------------------------------------------------ the descriptor cache never aliases translators *)
Lemma ckey_eqb_eq a b : ckey_eqb a b = true <-> a = b.
Proof.
  destruct a as [a1 a2], b as [b1 b2]. unfold ckey_eqb. simpl.
  rewrite andb_true_iff, !N.eqb_eq. split; [intros [-> ->]; reflexivity | intros H; inversion H; auto].
Qed.

Lemma cache_get_set_same {V} (c : list (ckey * V)) k v : cache_get (cache_set c k v) k = Some v.
Proof.
  unfold cache_set. simpl. destruct (ckey_eqb k k) eqn:E; auto.
  assert (H : ckey_eqb k k = true) by (apply ckey_eqb_eq; reflexivity). congruence.
Qed.

Lemma cache_get_set_other {V} (c : list (ckey * V)) k k' v :
  k <> k' -> cache_get (cache_set c k' v) k = cache_get c k.
Proof.
  intros Hne. unfold cache_set. simpl. destruct (ckey_eqb k k') eqn:E; auto.
  apply ckey_eqb_eq in E. contradiction.
Qed.

(* storing a wrapper for one translator is invisible to every other translator,
   whatever functions they wrap *)
Theorem cache_no_alias {V} (c : list (ckey * V)) t t' f f' v :
  t <> t' -> cache_get (cache_set c (t', f') v) (t, f) = cache_get c (t, f).
Proof. intros Hne. apply cache_get_set_other. intro H. inversion H. contradiction. Qed.

Definition coherent {V} (build : N -> N -> V) (c : list (ckey * V)) : Prop :=
  forall k v, cache_get c k = Some v -> v = build (fst k) (snd k).

Lemma desc_get_correct {V} (build : N -> N -> V) c t f :
  coherent build c ->
  fst (desc_get build c t f) = build t f /\ coherent build (snd (desc_get build c t f)).
Proof.
  intros Hc. unfold desc_get. destruct (cache_get c (t, f)) as [v|] eqn:E; simpl.
  - split; auto. exact (Hc (t, f) v E).
  - split; auto. intros k v Hk.
    destruct (ckey_eqb k (t, f)) eqn:Ek.
    + apply ckey_eqb_eq in Ek. subst k. rewrite cache_get_set_same in Hk. inversion Hk. reflexivity.
    + rewrite cache_get_set_other in Hk.
      * exact (Hc k v Hk).
      * intro H. subst k. assert (H2 : ckey_eqb (t, f) (t, f) = true) by (apply ckey_eqb_eq; reflexivity).
        congruence.
Qed.

Lemma desc_gets_correct {V} (build : N -> N -> V) h : forall c,
  coherent build c ->
  fst (desc_gets build c h) = map (fun tf => build (fst tf) (snd tf)) h.
Proof.
  induction h as [|[t f] h IH]; intros c Hc; simpl; auto.
  destruct (desc_get_correct build c t f Hc) as [H1 H2].
  rewrite H1, IH; auto.
Qed.

(* every lookup of every history returns the wrapper of ITS translator for the
   function at hand: the order of earlier lookups, and other translators of the
   same function, have no influence *)
Theorem desc_history_independent {V} (build : N -> N -> V) h :
  fst (desc_gets build [] h) = map (fun tf => build (fst tf) (snd tf)) h.
Proof. apply desc_gets_correct. intros k v H. simpl in H. discriminate. Qed.

Example desc_history_example :
  fst (desc_gets (fun t f => t * 10 + f) [] [(1, 7); (2, 7); (1, 7); (2, 8)]) = [17; 27; 17; 28].
Proof. reflexivity. Qed.

Example call_positional_hyps_satisfiable :
  let pos := [mkParam 1 PK None None UEmpty; mkParam 2 PK (Some 102) None UEmpty;
              mkParam 3 PK None None UEmpty] in
  forallb is_positional pos = true /\ NoDup (names_of pos) /\
  (forall p, In p pos -> sel_p [1] p = true -> klookup (pname p) [(3, 303)] = None) /\
  no_missing [1] [2] pos [(3, 303)] /\
  prepare pos [1] [2] = Ok ([mkParam 1 PO None None UEmpty; mkParam 3 PK None None UEmpty;
                             mkParam 2 KO (Some 102) None UEmpty],
                            [(1%nat, mkParam 2 PK (Some 102) None UEmpty)]).
Proof.
  simpl. repeat split.
  - repeat constructor; simpl; intuition discriminate.
  - intros p [<-|[<-|[<-|[]]]]; simpl; intros; try discriminate; reflexivity.
  - intros p [<-|[<-|[<-|[]]]]; simpl; intros; discriminate.
Qed.

Example prepare_spec_hyps_satisfiable :
  valid_sig [mkParam 1 PK None None UEmpty; mkParam 2 PK None None UEmpty] = true /\
  prepare [mkParam 1 PK None None UEmpty; mkParam 2 PK None None UEmpty] [] [1]
  = Ok ([mkParam 2 PK None None UEmpty; mkParam 1 KO None None UEmpty],
        [(0%nat, mkParam 1 PK None None UEmpty)]).
Proof. split; reflexivity. Qed.

(* ------------------------------------------------------------------ full statements (not yet proved in full)

   C12_sig (full).  For valid_sig ps:
     (exists r, prepare ps posos kwos = Ok r)  <->  admissible ps posos kwos
   where admissible = posos and kwos are disjoint; every name of posos is a PO
   or PK parameter of ps and every name of kwos a KO or PK parameter; no PK
   parameter named in posos comes after a PK parameter named in neither set;
   and then  fst r = adv_spec posos kwos ps  (proved: prepare_spec).
   Missing: the "<-" direction, i.e. the to_use bookkeeping and that the
   trailing inspect validation never fails on adv_spec of a valid signature.

   C12_call (full).  For valid_sig ps, prepare ps posos kwos = Ok (adv, kp),
   NoDup (map fst kws), excluded adv kws = false:
     match decorated_call ps kp posos args kws, bindv adv args kws with
     | Some eo, Some ea => Permutation eo ea
     | None, None => True
     | _, _ => False
     end.
   Proved for all inputs: the insert loop refines shufT (call_loop_shufT) and
   the routing of every positional parameter, moved or not, with failure iff
   failure (heart / call_positional).  Missing glue: ps = positional ++ tail
   for valid signatures (validate_aux_pos_prefix is proved), binding of the
   tail (star parameters, native keyword-only ones) under the popped keywords,
   equality of the surplus keywords, the missing-argument and the named
   positional-only TypeError branches.  Those parts are compared with the
   implementation and with CPython on every run by harness/props/c12.py. *)
