(* AnnotTwins.v — C11, twin (PEP 563) invariance beyond merge.

   Proofs/Annot.v proves that the n-ary merge commutes with taking the eager
   twin (eagerize rho) for an injective environment rho.  This file does the
   same walk for embed, mask_gen (hence mask and sig_partial), forwards and
   the composition made by automatic discovery (Model/Discover.v), and states
   the results on `observe`, i.e. on what `evaluated` yields: the parameters
   (name, kind, default, evaluated annotation) and the evaluated return
   annotation.

   Hypotheses, and which input forces them
   * mask_gen / mask / sig_partial never compare annotations: no condition on
     rho at all (Section TwinAny).
   * embed / forwards / discover concile the star parameters of the inner
     signature with those of the outer one (`merger inner stars`), and discover
     then merges the per-call results: rho must be injective (two spellings of
     one object) and a function of the spelling alone (one spelling, two
     objects).  The witnesses embed_twin_refuted_* below are
       embed [ ( *args: T) of f100 ; ( *args: T) of f101 ]  with T = 1 / 2, and
       embed [ ( *args: T) ; ( *args: W) ]                  with T = W = 1.
   * Injectivity is only needed on the spellings that occur: Section Local
     derives, from injectivity on a list S containing every raw annotation of
     the inputs, the same theorems (a globally injective rho' agreeing with rho
     on S always exists). *)
From Coq Require Import List NArith Bool Arith Lia.
From Sigtools.Model Require Import Base Bind Algebra Annot Visitor Discover.
From Sigtools.Proofs Require Import Basics Annot.
Import ListNotations.
Open Scope N_scope.

(* ------------------------------------------------------------------ *)
(* Part A — what needs no condition on rho: lists, mask                *)
Section TwinAny.
Variable rho : N -> N.
Notation E := (eagerize_param rho).
Notation ES := (Annot.ES rho).
Notation Eo := (Annot.Eo rho).

Lemma names_of_E ps : names_of (map E ps) = names_of ps.
Proof. unfold names_of. rewrite map_map. reflexivity. Qed.

Lemma existsb_mem_E seen ps :
  existsb (fun p => mem (pname p) seen) (map E ps) = existsb (fun p => mem (pname p) seen) ps.
Proof. induction ps as [|p ps IH]; cbn [map existsb]; [reflexivity|]. rewrite IH. reflexivity. Qed.

Lemma check_no_dupes_E seen ps : check_no_dupes seen (map E ps) = check_no_dupes seen ps.
Proof. unfold check_no_dupes. rewrite existsb_mem_E, names_of_E. reflexivity. Qed.

Lemma clear_defaults_E ps : clear_defaults (map E ps) = map E (clear_defaults ps).
Proof. unfold clear_defaults. rewrite !map_map. reflexivity. Qed.

Lemma map_kind_E k ps : map (set_kind k) (map E ps) = map E (map (set_kind k) ps).
Proof. rewrite !map_map. reflexivity. Qed.

Lemma opt_if_E b o : opt_if b (Eo o) = Eo (opt_if b o).
Proof. destruct b; reflexivity. Qed.

Lemma isSome_Eo o : isSome (Eo o) = isSome o.
Proof. destruct o; reflexivity. Qed.

Lemma skipn_E n ps : skipn n (map E ps) = map E (skipn n ps).
Proof. apply skipn_map. Qed.

Lemma firstn_E n ps : firstn n (map E ps) = map E (firstn n ps).
Proof. apply firstn_map. Qed.

Lemma split_at_name_E x ps :
  split_at_name x (map E ps) =
  match split_at_name x ps with
  | Some (a, q, b) => Some (map E a, E q, map E b)
  | None => None
  end.
Proof.
  induction ps as [|p ps IH]; cbn [map split_at_name]; [reflexivity|].
  change (pname (E p)) with (pname p). destruct (N.eqb x (pname p)); [reflexivity|].
  rewrite IH. destruct (split_at_name x ps) as [[[a q] b]|]; reflexivity.
Qed.

(* ---- mask ---- *)
Definition Ek (st : kstate) : kstate :=
  mkK (map E (k_pok st)) (Eo (k_va st)) (map E (k_kwo st)) (k_src st) (k_consumed st).

Lemma mask_name_E pm hv st kv :
  mask_name pm hv (Ek st) kv = res_map Ek (mask_name pm hv st kv).
Proof.
  unfold mask_name. cbn [Ek k_consumed k_pok k_kwo k_va k_src].
  destruct (mem (fst kv) (k_consumed st)); [reflexivity|].
  rewrite split_at_name_E.
  destruct (split_at_name (fst kv) (k_pok st)) as [[[before p] after]|].
  - cbn [res_map]. f_equal. unfold Ek; cbn [k_pok k_va k_kwo k_src k_consumed]. f_equal.
    + rewrite map_kind_E, (od_update_E rho).
      destruct pm; [|reflexivity].
      change (set_def (Some (snd kv)) (set_kind KO (E p))) with (E (set_def (Some (snd kv)) (set_kind KO p))).
      apply (od_set_E rho).
    + destruct (k_va st) as [v|]; reflexivity.
  - rewrite (find_param_E rho). destruct (find_param (fst kv) (k_kwo st)) as [p|]; cbn [option_map].
    + destruct pm; cbn [res_map]; f_equal; unfold Ek; cbn [k_pok k_va k_kwo k_src k_consumed]; f_equal.
      * change (set_def (Some (snd kv)) (set_kind KO (E p))) with (E (set_def (Some (snd kv)) (set_kind KO p))).
        apply (od_set_E rho).
      * apply (remove_param_E rho).
    + destruct (negb hv); [reflexivity|].
      destruct pm; cbn [res_map]; f_equal; unfold Ek; cbn [k_pok k_va k_kwo k_src k_consumed]; f_equal.
      change (mkParam (fst kv) KO (Some (snd kv)) None UEmpty)
        with (E (mkParam (fst kv) KO (Some (snd kv)) None UEmpty)) at 1.
      apply (od_set_E rho).
Qed.

Lemma mask_names_E pm hv kvs : forall st,
  mask_names pm hv (Ek st) kvs = res_map Ek (mask_names pm hv st kvs).
Proof.
  induction kvs as [|kv kvs IH]; intros st; cbn [mask_names]; [reflexivity|].
  rewrite mask_name_E. destruct (mask_name pm hv st kv) as [st1|e]; cbn [res_map bind]; [apply IH | reflexivity].
Qed.

Theorem mask_gen_E s n h named pm :
  mask_gen (eagerize rho s) n h named pm = res_map (eagerize rho) (mask_gen s n h named pm).
Proof.
  unfold mask_gen. rewrite (sort_params_E rho).
  set (so := sort_params s).
  change (posargs (ES so)) with (map E (posargs so)).
  change (pokargs (ES so)) with (map E (pokargs so)).
  change (kwoargs (ES so)) with (map E (kwoargs so)).
  change (varargs (ES so)) with (Eo (varargs so)).
  change (varkwargs (ES so)) with (Eo (varkwargs so)).
  change (ssrc (ES so)) with (ssrc so). change (sdep (ES so)) with (sdep so).
  rewrite <- map_app, !names_of_E, !isSome_Eo, !map_length, !skipn_E, firstn_E, names_of_E.
  match goal with |- bind ?X ?F' = res_map _ (bind ?Y ?F) =>
    assert (HF : forall pos1 pok1 consumed,
               F' (map E pos1, map E pok1, consumed) = res_map (eagerize rho) (F (pos1, pok1, consumed)));
    [| assert (HX : X = match Y with
                        | Ok (a, b, c) => Ok (map E a, map E b, c)
                        | Err e => Err e end) ]
  end.
  - intros pos1 pok1 consumed. cbv beta iota.
    destruct (varargs so) as [va|], (varkwargs so) as [vk|]; cbn [Annot.Eo option_map isSome];
      destruct (h_args h || h_varargs h), (h_kwargs h), (h_varkwargs h); cbn [orb];
      destruct pm as [pobj|]; cbv beta iota; rewrite ?names_of_E;
      (match goal with |- bind (mask_names _ _ ?st' _) _ = res_map _ (bind (mask_names _ _ ?st _) _) =>
         change st' with (Ek st) end;
       rewrite mask_names_E;
       match goal with |- bind (res_map Ek ?M) _ = _ => destruct M as [st1|e] end;
       [cbn [bind res_map Ek k_pok k_va k_kwo k_src];
        match goal with |- apply_params _ ?x' = res_map _ (apply_params _ ?x) =>
          change x' with (ES x) end;
        apply (apply_params_E rho)
       | reflexivity]).
  - destruct (h_args h); [reflexivity|]. destruct (Nat.eqb n 0); [reflexivity|].
    destruct (_ && _); reflexivity.
  - rewrite HX. clear HX.
    match goal with |- bind (match ?Y with _ => _ end) _ = _ => destruct Y as [[[a b] c]|e] end;
      cbn [bind]; [apply HF | reflexivity].
Qed.

Theorem mask_E s n names0 h :
  mask (eagerize rho s) n names0 h = res_map (eagerize rho) (mask s n names0 h).
Proof. apply mask_gen_E. Qed.

Theorem sig_partial_E s n kw pobj :
  sig_partial (eagerize rho s) n kw pobj = res_map (eagerize rho) (sig_partial s n kw pobj).
Proof. apply mask_gen_E. Qed.
End TwinAny.
