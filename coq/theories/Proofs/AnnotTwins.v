(* AnnotTwins.v — C11, twin (PEP 563) invariance beyond merge.

   Proofs/Annot.v proves that the n-ary merge commutes with taking the eager
   twin (eagerize rho) for an injective environment rho.  This file does the
   same walk for embed, mask_gen (hence mask and sig_partial), forwards and
   the composition made by automatic discovery (Model/Discover.v), and states
   the results on `observe`, i.e. on what `evaluated` yields: the parameters
   (name, kind, default, evaluated annotation) and the evaluated return
   annotation.

   Hypotheses, and which input forces them
   * mask_gen / mask / sig_partial never compare annotations: no condition on
     rho at all (Section TwinAny).
   * embed / forwards / discover concile the star parameters of the inner
     signature with those of the outer one (`merger inner stars`), and discover
     then merges the per-call results: rho must be injective (two spellings of
     one object) and a function of the spelling alone (one spelling, two
     objects).  The witnesses embed_twin_refuted_* below are
       embed [ ( *args: T) of f100 ; ( *args: T) of f101 ]  with T = 1 / 2, and
       embed [ ( *args: T) ; ( *args: W) ]                  with T = W = 1.
   * Injectivity is only needed on the spellings that occur: Section Local
     derives, from injectivity on a list S containing every raw annotation of
     the inputs, the same theorems (a globally injective rho' agreeing with rho
     on S always exists). *)
From Coq Require Import List NArith Bool Arith Lia.
From Sigtools.Model Require Import Base Bind Algebra Annot Visitor Discover.
From Sigtools.Proofs Require Import Basics Annot.
Import ListNotations.
Open Scope N_scope.

(* ------------------------------------------------------------------ *)
(* Part A — what needs no condition on rho: lists, mask                *)
Section TwinAny.
Variable rho : N -> N.
Notation E := (eagerize_param rho).
Notation ES := (Annot.ES rho).
Notation Eo := (Annot.Eo rho).

Lemma names_of_E ps : names_of (map E ps) = names_of ps.
Proof. unfold names_of. rewrite map_map. reflexivity. Qed.

Lemma existsb_mem_E seen ps :
  existsb (fun p => mem (pname p) seen) (map E ps) = existsb (fun p => mem (pname p) seen) ps.
Proof. induction ps as [|p ps IH]; cbn [map existsb]; [reflexivity|]. rewrite IH. reflexivity. Qed.

Lemma check_no_dupes_E seen ps : check_no_dupes seen (map E ps) = check_no_dupes seen ps.
Proof. unfold check_no_dupes. rewrite existsb_mem_E, names_of_E. reflexivity. Qed.

Lemma clear_defaults_E ps : clear_defaults (map E ps) = map E (clear_defaults ps).
Proof. unfold clear_defaults. rewrite !map_map. reflexivity. Qed.

Lemma map_kind_E k ps : map (set_kind k) (map E ps) = map E (map (set_kind k) ps).
Proof. rewrite !map_map. reflexivity. Qed.

Lemma opt_if_E b o : opt_if b (Eo o) = Eo (opt_if b o).
Proof. destruct b; reflexivity. Qed.

Lemma isSome_Eo o : isSome (Eo o) = isSome o.
Proof. destruct o; reflexivity. Qed.

Lemma skipn_E n ps : skipn n (map E ps) = map E (skipn n ps).
Proof. apply skipn_map. Qed.

Lemma firstn_E n ps : firstn n (map E ps) = map E (firstn n ps).
Proof. apply firstn_map. Qed.

Lemma split_at_name_E x ps :
  split_at_name x (map E ps) =
  match split_at_name x ps with
  | Some (a, q, b) => Some (map E a, E q, map E b)
  | None => None
  end.
Proof.
  induction ps as [|p ps IH]; cbn [map split_at_name]; [reflexivity|].
  change (pname (E p)) with (pname p). destruct (N.eqb x (pname p)); [reflexivity|].
  rewrite IH. destruct (split_at_name x ps) as [[[a q] b]|]; reflexivity.
Qed.

(* ---- mask ---- *)
Definition Ek (st : kstate) : kstate :=
  mkK (map E (k_pok st)) (Eo (k_va st)) (map E (k_kwo st)) (k_src st) (k_consumed st).

Lemma mask_name_E pm hv st kv :
  mask_name pm hv (Ek st) kv = res_map Ek (mask_name pm hv st kv).
Proof.
  unfold mask_name. cbn [Ek k_consumed k_pok k_kwo k_va k_src].
  destruct (mem (fst kv) (k_consumed st)); [reflexivity|].
  rewrite split_at_name_E.
  destruct (split_at_name (fst kv) (k_pok st)) as [[[before p] after]|].
  - cbn [res_map]. f_equal.
    assert (Hk : match pm with
                 | Some _ => od_set (od_update (map E (k_kwo st)) (map (set_kind KO) (map E after)))
                                    (set_def (Some (snd kv)) (set_kind KO (E p)))
                 | None => od_update (map E (k_kwo st)) (map (set_kind KO) (map E after))
                 end =
                 map E match pm with
                       | Some _ => od_set (od_update (k_kwo st) (map (set_kind KO) after))
                                          (set_def (Some (snd kv)) (set_kind KO p))
                       | None => od_update (k_kwo st) (map (set_kind KO) after)
                       end).
    { rewrite map_kind_E, (od_update_E rho).
      destruct pm; [|reflexivity].
      change (set_def (Some (snd kv)) (set_kind KO (E p))) with (E (set_def (Some (snd kv)) (set_kind KO p))).
      apply (od_set_E rho). }
    rewrite Hk. clear Hk. unfold Ek; cbn [k_pok k_va k_kwo k_src k_consumed]. f_equal.
    destruct (k_va st) as [v|]; cbn [Annot.Eo option_map]; [|reflexivity].
    change (pname (E v)) with (pname v). rewrite (find_param_E rho), isSome_map. reflexivity.
  - rewrite (find_param_E rho). destruct (find_param (fst kv) (k_kwo st)) as [p|]; cbn [option_map].
    + destruct pm; cbn [res_map]; f_equal; unfold Ek; cbn [k_pok k_va k_kwo k_src k_consumed]; f_equal.
      * change (set_def (Some (snd kv)) (set_kind KO (E p))) with (E (set_def (Some (snd kv)) (set_kind KO p))).
        apply (od_set_E rho).
      * apply (remove_param_E rho).
    + destruct (negb hv); [reflexivity|].
      destruct pm; cbn [res_map]; f_equal; unfold Ek; cbn [k_pok k_va k_kwo k_src k_consumed]; f_equal.
      change (mkParam (fst kv) KO (Some (snd kv)) None UEmpty)
        with (E (mkParam (fst kv) KO (Some (snd kv)) None UEmpty)) at 1.
      apply (od_set_E rho).
Qed.

Lemma mask_names_E pm hv kvs : forall st,
  mask_names pm hv (Ek st) kvs = res_map Ek (mask_names pm hv st kvs).
Proof.
  induction kvs as [|kv kvs IH]; intros st; cbn [mask_names]; [reflexivity|].
  rewrite mask_name_E. destruct (mask_name pm hv st kv) as [st1|e]; cbn [res_map bind]; [apply IH | reflexivity].
Qed.

Theorem mask_gen_E s n h named pm :
  mask_gen (eagerize rho s) n h named pm = res_map (eagerize rho) (mask_gen s n h named pm).
Proof.
  unfold mask_gen. rewrite (sort_params_E rho).
  set (so := sort_params s).
  change (posargs (ES so)) with (map E (posargs so)).
  change (pokargs (ES so)) with (map E (pokargs so)).
  change (kwoargs (ES so)) with (map E (kwoargs so)).
  change (varargs (ES so)) with (Eo (varargs so)).
  change (varkwargs (ES so)) with (Eo (varkwargs so)).
  change (ssrc (ES so)) with (ssrc so). change (sdep (ES so)) with (sdep so).
  rewrite <- map_app, !names_of_E, !isSome_Eo, !map_length, !skipn_E, !firstn_E, ?names_of_E.
  match goal with |- bind ?X ?F' = res_map _ (bind ?Y ?F) =>
    assert (HF : forall pos1 pok1 consumed,
               F' (map E pos1, map E pok1, consumed) = res_map (eagerize rho) (F (pos1, pok1, consumed)));
    [| assert (HX : X = match Y with
                        | Ok (a, b, c) => Ok (map E a, map E b, c)
                        | Err e => Err e end) ]
  end.
  - intros pos1 pok1 consumed. cbv beta iota.
    destruct (varargs so) as [va|], (varkwargs so) as [vk|]; cbn [Annot.Eo option_map isSome];
      destruct (h_args h || h_varargs h), (h_kwargs h), (h_varkwargs h); cbn [orb];
      destruct pm as [pobj|]; cbv beta iota; rewrite ?map_length, ?firstn_E, ?names_of_E;
      (match goal with |- bind (mask_names ?a ?b _ ?c) ?F = res_map ?hh (bind (mask_names _ _ ?st _) ?G) =>
         change (bind (mask_names a b (Ek st) c) F = res_map hh (bind (mask_names a b st c) G)) end;
       rewrite mask_names_E;
       match goal with |- bind (res_map Ek ?M) _ = _ => destruct M as [st1|e] end;
       [cbn [bind res_map Ek k_pok k_va k_kwo k_src];
        match goal with |- apply_params ?b' _ = res_map ?hh (apply_params ?b ?x) =>
          change (apply_params b' (ES x) = res_map hh (apply_params b x)) end;
        apply (apply_params_E rho)
       | reflexivity]).
  - destruct (h_args h); [reflexivity|]. destruct (Nat.eqb n 0); [reflexivity|].
    destruct (_ && _); reflexivity.
  - rewrite HX. clear HX.
    match goal with |- bind (match ?Y with _ => _ end) _ = _ => destruct Y as [[[a b] c]|e] end;
      cbn [bind]; [apply HF | reflexivity].
Qed.

Theorem mask_E s n names0 h :
  mask (eagerize rho s) n names0 h = res_map (eagerize rho) (mask s n names0 h).
Proof. apply mask_gen_E. Qed.

Theorem sig_partial_E s n kw pobj :
  sig_partial (eagerize rho s) n kw pobj = res_map (eagerize rho) (sig_partial s n kw pobj).
Proof. apply mask_gen_E. Qed.
End TwinAny.

(* ------------------------------------------------------------------ *)
(* Part B — embed, forwards, discovery: rho injective                  *)
Section TwinInj.
Variable rho : N -> N.
Hypothesis rho_inj : injective rho.
Notation E := (eagerize_param rho).
Notation ES := (Annot.ES rho).
Notation Eo := (Annot.Eo rho).

Lemma od_update2_E a b :
  od_update (od_update [] (map E a)) (map E b) = map E (od_update (od_update [] a) b).
Proof. change (@nil param) with (map E (@nil param)) at 1. rewrite !(od_update_E rho). reflexivity. Qed.

Lemma embed_step_E outer inner uva uvk depth :
  embed_step (ES outer) (ES inner) uva uvk depth = res_map ES (embed_step outer inner uva uvk depth).
Proof.
  unfold embed_step.
  change (posargs (ES outer)) with (map E (posargs outer)).
  change (pokargs (ES outer)) with (map E (pokargs outer)).
  change (kwoargs (ES outer)) with (map E (kwoargs outer)).
  change (varargs (ES outer)) with (Eo (varargs outer)).
  change (varkwargs (ES outer)) with (Eo (varkwargs outer)).
  change (ssrc (ES outer)) with (ssrc outer). change (sdep (ES outer)) with (sdep outer).
  rewrite !opt_if_E.
  change (mkSorted [] [] (Eo (opt_if uva (varargs outer))) [] (Eo (opt_if uvk (varkwargs outer))) [] [])
    with (ES (mkSorted [] [] (opt_if uva (varargs outer)) [] (opt_if uvk (varkwargs outer)) [] [])).
  rewrite (merger_E rho rho_inj).
  destruct (merger inner _) as [i|e]; [|reflexivity].
  cbn [res_map bind].
  change (posargs (ES i)) with (map E (posargs i)).
  change (pokargs (ES i)) with (map E (pokargs i)).
  change (kwoargs (ES i)) with (map E (kwoargs i)).
  change (varargs (ES i)) with (Eo (varargs i)).
  change (varkwargs (ES i)) with (Eo (varkwargs i)).
  change (ssrc (ES i)) with (ssrc i). change (sdep (ES i)) with (sdep i).
  rewrite ?check_no_dupes_E.
  destruct (check_no_dupes [] (posargs outer)) as [n1|e]; [|reflexivity]. cbn [bind].
  rewrite ?check_no_dupes_E.
  destruct (check_no_dupes n1 (pokargs outer)) as [n2|e]; [|reflexivity]. cbn [bind].
  assert (Hvs : forall (o : option param) (m : srcmap),
            match Eo o with Some p => if uva then src_pop m (pname p) else m | None => m end =
            match o with Some p => if uva then src_pop m (pname p) else m | None => m end)
    by (intros [q|] m; reflexivity).
  assert (Hks : forall (o : option param) (m : srcmap),
            match Eo o with Some p => if uvk then src_pop m (pname p) else m | None => m end =
            match o with Some p => if uvk then src_pop m (pname p) else m | None => m end)
    by (intros [q|] m; reflexivity).
  rewrite Hvs, Hks. clear Hvs Hks.
  destruct (posargs i) as [|ip0 ips] eqn:Epi; cbn [map].
  - destruct (pokargs i) as [|ik0 iks] eqn:Epk; cbn [map].
    + cbn [bind]. rewrite ?check_no_dupes_E.
      destruct (check_no_dupes n2 []) as [n4|e]; [|reflexivity]. cbn [bind]. rewrite ?check_no_dupes_E.
      destruct (check_no_dupes n4 (kwoargs outer)) as [n5|e]; [|reflexivity]. cbn [bind]. rewrite ?check_no_dupes_E.
      destruct (check_no_dupes n5 (kwoargs i)) as [n6|e]; [|reflexivity]. cbn [bind res_map].
      f_equal. unfold Annot.ES; cbn [posargs pokargs varargs kwoargs varkwargs ssrc sdep].
      rewrite od_update2_E, ?app_nil_r. destruct uva, uvk; reflexivity.
    + change (has_def (E ik0)) with (has_def ik0). destruct (has_def ik0); cbn [bind];
        change (E ik0 :: map E iks) with (map E (ik0 :: iks));
        rewrite ?clear_defaults_E, ?check_no_dupes_E;
        (destruct (check_no_dupes n2 (ik0 :: iks)) as [n4|e]; [|reflexivity]); cbn [bind]; rewrite ?check_no_dupes_E;
        (destruct (check_no_dupes n4 (kwoargs outer)) as [n5|e]; [|reflexivity]); cbn [bind]; rewrite ?check_no_dupes_E;
        (destruct (check_no_dupes n5 (kwoargs i)) as [n6|e]; [|reflexivity]); cbn [bind res_map];
        f_equal; unfold Annot.ES; cbn [posargs pokargs varargs kwoargs varkwargs ssrc sdep];
        rewrite od_update2_E, <- !map_app; destruct uva, uvk; reflexivity.
  - change (has_def (E ip0)) with (has_def ip0).
    change (E ip0 :: map E ips) with (map E (ip0 :: ips)).
    rewrite check_no_dupes_E.
    destruct (check_no_dupes n2 (ip0 :: ips)) as [n3|e]; [|reflexivity]. cbn [bind].
    rewrite ?check_no_dupes_E.
    destruct (check_no_dupes n3 (pokargs i)) as [n4|e]; [|reflexivity]. cbn [bind]. rewrite ?check_no_dupes_E.
    destruct (check_no_dupes n4 (kwoargs outer)) as [n5|e]; [|reflexivity]. cbn [bind]. rewrite ?check_no_dupes_E.
    destruct (check_no_dupes n5 (kwoargs i)) as [n6|e]; [|reflexivity]. cbn [bind res_map].
    f_equal. unfold Annot.ES; cbn [posargs pokargs varargs kwoargs varkwargs ssrc sdep].
    rewrite od_update2_E, ?app_nil_l.
    destruct (has_def ip0); rewrite ?map_kind_E, <- ?map_app, ?clear_defaults_E, <- ?map_app;
      destruct uva, uvk; reflexivity.
Qed.

Lemma embed_steps_E ss : forall acc uva uvk depth,
  embed_steps (ES acc) (map (eagerize rho) ss) uva uvk depth =
  res_map ES (embed_steps acc ss uva uvk depth).
Proof.
  induction ss as [|s ss IH]; intros acc uva uvk depth; cbn [map embed_steps]; [reflexivity|].
  rewrite (sort_params_E rho), embed_step_E.
  destruct (embed_step acc (sort_params s) uva uvk depth) as [a|e]; cbn [res_map to_incompatible bind].
  - apply IH.
  - destruct e; reflexivity.
Qed.

Theorem embed_E ss uva uvk :
  embed (map (eagerize rho) ss) uva uvk = res_map (eagerize rho) (embed ss uva uvk).
Proof.
  destruct ss as [|s0 ss]; cbn [map embed]; [reflexivity|].
  rewrite (sort_params_E rho), embed_steps_E.
  destruct (embed_steps (sort_params s0) ss uva uvk 1) as [acc|e]; cbn [res_map bind];
    [apply (apply_params_E rho) | reflexivity].
Qed.

Theorem forwards_E o i n names0 ha hk uva uvk p :
  forwards (eagerize rho o) (eagerize rho i) n names0 ha hk uva uvk p =
  res_map (eagerize rho) (forwards o i n names0 ha hk uva uvk p).
Proof.
  unfold forwards.
  assert (Hi : (if p then
                  mkSig (map (fun q => match pkind q with VP | VK => q | _ => set_def (Some 0) q end)
                             (params (eagerize rho i)))
                        (ret (eagerize rho i)) (uret (eagerize rho i)) (srcs (eagerize rho i)) (deps (eagerize rho i))
                else eagerize rho i) =
               eagerize rho (if p then
                  mkSig (map (fun q => match pkind q with VP | VK => q | _ => set_def (Some 0) q end) (params i))
                        (ret i) (uret i) (srcs i) (deps i)
                else i)).
  { destruct p; [|reflexivity]. unfold eagerize; cbn [params ret uret srcs deps]. f_equal.
    rewrite !map_map. apply map_ext. intros q. destruct (pkind q) eqn:Ek; unfold eagerize_param;
      cbn [pkind pname pdef pann puann set_def]; rewrite ?Ek; reflexivity. }
  rewrite Hi. clear Hi. rewrite (mask_E rho).
  destruct (mask _ n names0 _) as [m|e]; cbn [res_map bind]; [|reflexivity].
  change [eagerize rho o; eagerize rho m] with (map (eagerize rho) [o; m]).
  apply embed_E.
Qed.

(* ---- automatic discovery (Model/Discover.v) ---- *)
Definition Eres (r : resolved) : resolved :=
  match r with RSig s p => RSig (eagerize rho s) p | other => other end.
Definition Ecall (c : callinfo) : callinfo :=
  mkCallInfo (ci_use_varargs c) (ci_use_varkwargs c) (ci_hide_args c) (ci_hide_kwargs c)
             (ci_nargs c) (ci_kwnames c) (Eres (ci_res c)).

Lemma forward_sigs_E own calls :
  forward_sigs (eagerize rho own) (map Ecall calls) =
  option_map (map (eagerize rho)) (forward_sigs own calls).
Proof.
  induction calls as [|c cs IH]; cbn [map forward_sigs]; [reflexivity|].
  cbn [Ecall ci_use_varargs ci_use_varkwargs ci_hide_args ci_hide_kwargs ci_nargs ci_kwnames ci_res].
  destruct (negb (ci_use_varargs c || ci_use_varkwargs c)); [exact IH|].
  destruct (ci_res c) as [| |s p]; cbn [Eres]; try reflexivity.
  destruct (p && Nat.eqb (ci_nargs c) 0); [reflexivity|].
  rewrite forwards_E.
  destruct (forwards own s _ _ _ _ _ _ p) as [r|e]; cbn [res_map]; [|reflexivity].
  rewrite IH. destruct (forward_sigs own cs); reflexivity.
Qed.

Lemma has_star_E s : has_star (eagerize rho s) = has_star s.
Proof.
  unfold has_star, eagerize; cbn [params]. induction (params s) as [|p ps IH]; cbn [map existsb]; [reflexivity|].
  rewrite IH. reflexivity.
Qed.

Lemma autoforwards_E own ha calls :
  autoforwards (eagerize rho own) ha (map Ecall calls) =
  option_map (eagerize rho) (autoforwards own ha calls).
Proof.
  unfold autoforwards. rewrite has_star_E, forward_sigs_E.
  destruct (negb (has_star own)); [reflexivity|]. destruct (negb ha); [reflexivity|].
  destruct (forward_sigs own calls) as [[|s ss]|]; cbn [option_map map]; try reflexivity.
  change (eagerize rho s :: map (eagerize rho) ss) with (map (eagerize rho) (s :: ss)).
  rewrite (merge_E rho rho_inj). destruct (merge (s :: ss)); reflexivity.
Qed.

Theorem discover_E own plain ha calls :
  discover (eagerize rho own) (eagerize rho plain) ha (map Ecall calls) =
  eagerize rho (discover own plain ha calls).
Proof.
  unfold discover. rewrite autoforwards_E. destruct (autoforwards own ha calls); reflexivity.
Qed.
End TwinInj.

(* ------------------------------------------------------------------ *)
(* Part C — the statements on what `evaluated` yields                  *)

(* `observe g s` is exactly the evaluated signature, read off without the
   wrappers: (name, kind, default, evaluated annotation) per parameter and the
   evaluated return annotation *)
Lemma observe_is_evaluated g s :
  observe g s =
  (map (fun p => (pname p, pkind p, pdef p, pann p)) (params (evaluated g s)), ret (evaluated g s)).
Proof. unfold observe, evaluated; cbn [params ret]. rewrite map_map. reflexivity. Qed.

Section ObsAny.
Variable rho : N -> N.
Variable g : genv.

Lemma coherent_kind k p : coherent rho g p -> coherent rho g (set_kind k p).
Proof. exact (fun H => H). Qed.
Lemma coherent_def d p : coherent rho g p -> coherent rho g (set_def d p).
Proof. exact (fun H => H). Qed.
Lemma coherent_fresh x d : coherent rho g (mkParam x KO d None UEmpty).
Proof. reflexivity. Qed.

Lemma observe_res (x : res sigT) :
  (forall r, x = Ok r -> coherent_sig rho g r) ->
  res_map (observe g) (res_map (eagerize rho) x) = res_map (observe g) x.
Proof.
  destruct x as [r|e]; cbn [res_map]; [|reflexivity]. intros H. f_equal.
  apply observe_eagerize. apply H. reflexivity.
Qed.

Lemma coherent_mask_gen s n h named pm r :
  coherent_sig rho g s -> mask_gen s n h named pm = Ok r -> coherent_sig rho g r.
Proof.
  intros [Hp Hr] Em. destruct (mask_gen_ret _ _ _ _ _ _ Em) as [Er Eu]. split.
  - eapply (mask_gen_P (coherent rho g)); [exact coherent_kind | exact coherent_def | exact coherent_fresh | exact Hp | exact Em].
  - rewrite Er, Eu. exact Hr.
Qed.

(* mask / partial: no condition on rho whatsoever *)
Theorem pep563_mask_gen s n h named pm : coherent_sig rho g s ->
  res_map (observe g) (mask_gen (eagerize rho s) n h named pm) =
  res_map (observe g) (mask_gen s n h named pm).
Proof.
  intros Hs. rewrite mask_gen_E. apply observe_res. intros r Er. eapply coherent_mask_gen; eauto.
Qed.

Theorem pep563_mask s n names0 h : coherent_sig rho g s ->
  res_map (observe g) (mask (eagerize rho s) n names0 h) = res_map (observe g) (mask s n names0 h).
Proof. apply pep563_mask_gen. Qed.

Theorem pep563_sig_partial s n kw pobj : coherent_sig rho g s ->
  res_map (observe g) (sig_partial (eagerize rho s) n kw pobj) =
  res_map (observe g) (sig_partial s n kw pobj).
Proof. apply pep563_mask_gen. Qed.
End ObsAny.

Section ObsInj.
Variable rho : N -> N.
Hypothesis rho_inj : injective rho.
Variable g : genv.

Lemma coherent_embed ss uva uvk r :
  Forall (coherent_sig rho g) ss -> embed ss uva uvk = Ok r -> coherent_sig rho g r.
Proof.
  intros Hss Em. destruct ss as [|s0 ss]; [discriminate Em|].
  destruct (embed_ret _ _ _ _ _ Em) as [Er Eu]. split.
  - eapply (embed_P (coherent rho g)); [exact (coherent_kind rho g) | exact (coherent_def rho g) | exact (coherent_conc rho g) | | exact Em].
    eapply Forall_impl; [|exact Hss]. intros s Hs; apply Hs.
  - rewrite Er, Eu. inversion Hss as [|s' ss' Hs0 Hss']; subst. apply Hs0.
Qed.

Theorem pep563_embed ss uva uvk : Forall (coherent_sig rho g) ss ->
  res_map (observe g) (embed (map (eagerize rho) ss) uva uvk) = res_map (observe g) (embed ss uva uvk).
Proof.
  intros Hss. rewrite (embed_E rho rho_inj). apply observe_res. intros r Er. eapply coherent_embed; eauto.
Qed.

Lemma coherent_forwards o i n names0 ha hk uva uvk p r :
  coherent_sig rho g o -> coherent_sig rho g i ->
  forwards o i n names0 ha hk uva uvk p = Ok r -> coherent_sig rho g r.
Proof.
  intros [Ho Hor] [Hi _] Ef. destruct (forwards_ret _ _ _ _ _ _ _ _ _ _ Ef) as [Er Eu]. split.
  - eapply (forwards_P (coherent rho g));
      [exact (coherent_kind rho g) | exact (coherent_def rho g) | exact (coherent_conc rho g)
       | exact (coherent_fresh rho g) | exact Ho | exact Hi | exact Ef].
  - rewrite Er, Eu. exact Hor.
Qed.

Theorem pep563_forwards o i n names0 ha hk uva uvk p :
  coherent_sig rho g o -> coherent_sig rho g i ->
  res_map (observe g) (forwards (eagerize rho o) (eagerize rho i) n names0 ha hk uva uvk p) =
  res_map (observe g) (forwards o i n names0 ha hk uva uvk p).
Proof.
  intros Ho Hi. rewrite (forwards_E rho rho_inj). apply observe_res. intros r Er.
  exact (coherent_forwards _ _ _ _ _ _ _ _ _ _ Ho Hi Er).
Qed.

(* every callee signature the discovery resolved is coherent *)
Definition coherent_call (c : callinfo) : Prop :=
  match ci_res c with RSig s _ => coherent_sig rho g s | _ => True end.

Lemma coherent_forward_sigs own calls rs :
  coherent_sig rho g own -> Forall coherent_call calls -> forward_sigs own calls = Some rs ->
  Forall (fun r => coherent_sig rho g r /\ ret r = ret own /\ uret r = uret own) rs.
Proof.
  intros Hown Hcs. revert rs. induction Hcs as [|c cs Hc Hcs IH]; intros rs; cbn [forward_sigs].
  - intros Ers; inversion Ers; constructor.
  - destruct (negb (ci_use_varargs c || ci_use_varkwargs c)); [exact (IH rs)|].
    unfold coherent_call in Hc. destruct (ci_res c) as [| |s p]; try discriminate.
    destruct (p && Nat.eqb (ci_nargs c) 0); [discriminate|].
    destruct (forwards own s _ _ _ _ _ _ p) as [r|e] eqn:Ef; [|discriminate].
    destruct (forward_sigs own cs) as [rs'|]; [|discriminate].
    intros Ers; inversion Ers; subst. constructor; [|apply IH; reflexivity].
    split; [exact (coherent_forwards _ _ _ _ _ _ _ _ _ _ Hown Hc Ef) | exact (forwards_ret _ _ _ _ _ _ _ _ _ _ Ef)].
Qed.

Lemma coherent_discover own plain ha calls :
  coherent_sig rho g own -> coherent_sig rho g plain -> Forall coherent_call calls ->
  coherent_sig rho g (discover own plain ha calls).
Proof.
  intros Hown Hplain Hcs. unfold discover, autoforwards.
  destruct (negb (has_star own)); [exact Hplain|]. destruct (negb ha); [exact Hplain|].
  destruct (forward_sigs own calls) as [[|s ss]|] eqn:Efs; try exact Hplain.
  destruct (merge (s :: ss)) as [r|e] eqn:Em; [|exact Hplain].
  pose proof (coherent_forward_sigs _ _ _ Hown Hcs Efs) as Hrs.
  destruct (merge_ret _ _ _ Em) as [Er Eu]. split.
  - eapply (merge_P (coherent rho g)); [exact (coherent_kind rho g) | exact (coherent_conc rho g) | | exact Em].
    eapply Forall_impl; [|exact Hrs]. intros x [[Hx _] _]; exact Hx.
  - inversion Hrs as [|s' ss' [_ [Hsr Hsu]] _]; subst. rewrite Er, Eu, Hsr, Hsu. apply Hown.
Qed.

(* automatic discovery: forwards per call, merged over the calls, plain
   signature as the fallback *)
Theorem pep563_discover own plain ha calls :
  coherent_sig rho g own -> coherent_sig rho g plain -> Forall coherent_call calls ->
  observe g (discover (eagerize rho own) (eagerize rho plain) ha (map (Ecall rho) calls)) =
  observe g (discover own plain ha calls).
Proof.
  intros Hown Hplain Hcs. rewrite (discover_E rho rho_inj). apply observe_eagerize.
  apply coherent_discover; assumption.
Qed.
End ObsInj.

(* ------------------------------------------------------------------ *)
(* Part D — on function descriptions: postponed originals vs eager twins *)
Section TwinsD.
Variable rho : N -> N.
Hypothesis rho_inj : injective rho.
Variable g : genv.

Lemma map_up_twins ds : Forall (twin_ok rho g) ds ->
  map up (map (eager_twin g) ds) = map (eagerize rho) (map up ds).
Proof.
  intros H. rewrite !map_map. apply map_ext_in. intros d Hd.
  apply up_eager_twin. rewrite Forall_forall in H. apply H; exact Hd.
Qed.

Lemma coherent_ups ds : Forall (twin_ok rho g) ds -> Forall (coherent_sig rho g) (map up ds).
Proof.
  intros H. apply Forall_forall. intros s Hs. apply in_map_iff in Hs. destruct Hs as [d [Hd Hin]]. subst s.
  apply up_coherent. rewrite Forall_forall in H. apply H; exact Hin.
Qed.

Theorem twin_embed ds uva uvk : Forall (twin_ok rho g) ds ->
  res_map (observe g) (embed (map up (map (eager_twin g) ds)) uva uvk) =
  res_map (observe g) (embed (map up ds) uva uvk).
Proof.
  intros H. rewrite (map_up_twins ds H). apply (pep563_embed rho rho_inj). apply coherent_ups; exact H.
Qed.

Theorem twin_forwards d0 d1 n names0 ha hk uva uvk p : twin_ok rho g d0 -> twin_ok rho g d1 ->
  res_map (observe g) (forwards (up (eager_twin g d0)) (up (eager_twin g d1)) n names0 ha hk uva uvk p) =
  res_map (observe g) (forwards (up d0) (up d1) n names0 ha hk uva uvk p).
Proof.
  intros H0 H1. rewrite (up_eager_twin rho g d0 H0), (up_eager_twin rho g d1 H1).
  apply (pep563_forwards rho rho_inj); apply up_coherent; assumption.
Qed.

(* the calls automatic discovery found, each with the description of the
   callee it resolved to and whether it went through functools.partial; tw is
   applied to the callee's description *)
Definition calls_of (tw : fdesc -> fdesc) (cs : list (callinfo * fdesc * bool)) : list callinfo :=
  map (fun x : callinfo * fdesc * bool =>
         let '(c, d, p) := x in
         mkCallInfo (ci_use_varargs c) (ci_use_varkwargs c) (ci_hide_args c) (ci_hide_kwargs c)
                    (ci_nargs c) (ci_kwnames c) (RSig (up (tw d)) p)) cs.

Theorem twin_discover d_own d_plain ha cs :
  twin_ok rho g d_own -> twin_ok rho g d_plain ->
  Forall (fun x : callinfo * fdesc * bool => twin_ok rho g (snd (fst x))) cs ->
  observe g (discover (up (eager_twin g d_own)) (up (eager_twin g d_plain)) ha (calls_of (eager_twin g) cs)) =
  observe g (discover (up d_own) (up d_plain) ha (calls_of (fun d => d) cs)).
Proof.
  intros Hown Hplain Hcs.
  rewrite (up_eager_twin rho g d_own Hown), (up_eager_twin rho g d_plain Hplain).
  assert (Hc : calls_of (eager_twin g) cs = map (Ecall rho) (calls_of (fun d => d) cs)).
  { unfold calls_of. rewrite map_map. apply map_ext_in. intros [[c d] p] Hin.
    unfold Ecall; cbn [ci_use_varargs ci_use_varkwargs ci_hide_args ci_hide_kwargs ci_nargs ci_kwnames ci_res Eres].
    rewrite Forall_forall in Hcs. rewrite (up_eager_twin rho g d (Hcs _ Hin)). reflexivity. }
  rewrite Hc. apply (pep563_discover rho rho_inj).
  - apply up_coherent; exact Hown.
  - apply up_coherent; exact Hplain.
  - unfold calls_of. apply Forall_forall. intros c Hin. apply in_map_iff in Hin.
    destruct Hin as [[[c0 d] p] [Hc0 Hin]]. subst c. unfold coherent_call; cbn [ci_res].
    apply up_coherent. rewrite Forall_forall in Hcs. exact (Hcs _ Hin).
Qed.
End TwinsD.

(* mask / partial of ONE function: nothing to assume beyond "compiled with the
   future flag and every spelling is bound in its globals" *)
Definition bound_ok (g : genv) (d : fdesc) : Prop :=
  let '(fl, f, rps, rr) := d in
  fl = Some true /\
  (forall x k dd a, In (x, k, dd, Some a) rps -> g f a <> None) /\
  (forall a, rr = Some a -> g f a <> None).

Definition rho_of (g : genv) (d : fdesc) : N -> N :=
  let '(fl, f, rps, rr) := d in fun a => match g f a with Some v => v | None => 0 end.

Lemma bound_twin_ok g d : bound_ok g d -> twin_ok (rho_of g d) g d.
Proof.
  destruct d as [[[fl f] rps] rr]. intros [Hfl [Hp Hr]]. unfold twin_ok, rho_of. split; [exact Hfl|]. split.
  - intros x k dd a Hin. specialize (Hp x k dd a Hin). destruct (g f a); [reflexivity | contradiction].
  - intros a Ha. specialize (Hr a Ha). destruct (g f a); [reflexivity | contradiction].
Qed.

Theorem twin_mask_gen g d n h named pm : bound_ok g d ->
  res_map (observe g) (mask_gen (up (eager_twin g d)) n h named pm) =
  res_map (observe g) (mask_gen (up d) n h named pm).
Proof.
  intros H. pose proof (bound_twin_ok g d H) as Ht.
  rewrite (up_eager_twin _ g d Ht). apply pep563_mask_gen. apply up_coherent. exact Ht.
Qed.

Theorem twin_mask g d n names0 h : bound_ok g d ->
  res_map (observe g) (mask (up (eager_twin g d)) n names0 h) = res_map (observe g) (mask (up d) n names0 h).
Proof. apply twin_mask_gen. Qed.

Theorem twin_sig_partial g d n kw pobj : bound_ok g d ->
  res_map (observe g) (sig_partial (up (eager_twin g d)) n kw pobj) =
  res_map (observe g) (sig_partial (up d) n kw pobj).
Proof. apply twin_mask_gen. Qed.

(* ---- without the hypotheses on rho the embed / forwards statements are false ---- *)
Definition ds_e1 : list fdesc :=
  [(Some true, 100, [(9, VP, None, Some 500)], None); (Some true, 101, [(9, VP, None, Some 500)], None)].
Definition ds_e2 : list fdesc :=
  [(Some true, 100, [(9, VP, None, Some 500)], None); (Some true, 101, [(9, VP, None, Some 502)], None)].

(* one spelling, two objects: the inner star annotation survives postponed, is dropped eager *)
Theorem embed_twin_refuted_same_spelling :
  res_map (observe g_w1) (embed (map up ds_e1) true true) = Ok ([(9, VP, None, Some 2)], None) /\
  res_map (observe g_w1) (embed (map up (map (eager_twin g_w1) ds_e1)) true true) = Ok ([(9, VP, None, None)], None).
Proof. split; vm_compute; reflexivity. Qed.

(* two spellings of one object: dropped postponed, kept eager *)
Theorem embed_twin_refuted_two_spellings :
  res_map (observe g_w2) (embed (map up ds_e2) true true) = Ok ([(9, VP, None, None)], None) /\
  res_map (observe g_w2) (embed (map up (map (eager_twin g_w2) ds_e2)) true true) = Ok ([(9, VP, None, Some 1)], None).
Proof. split; vm_compute; reflexivity. Qed.

Ltac solve_bound :=
  unfold bound_ok; split;
  [ reflexivity
  | split;
    [ intros ? ? ? ? Hin; cbn [In] in Hin;
      repeat (destruct Hin as [Hin|Hin]; [inversion Hin; subst; vm_compute; discriminate|]); contradiction
    | intros ? Ha; first [discriminate Ha | inversion Ha; subst; vm_compute; discriminate] ] ].

Theorem embed_twin_refuted :
  exists g ds uva uvk, Forall (bound_ok g) ds /\
    res_map (observe g) (embed (map up (map (eager_twin g) ds)) uva uvk) <>
    res_map (observe g) (embed (map up ds) uva uvk).
Proof.
  exists g_w1, ds_e1, true, true. split.
  - constructor; [solve_bound|]. constructor; [solve_bound|]. constructor.
  - destruct embed_twin_refuted_same_spelling as [E1 E2]. rewrite E1, E2. discriminate.
Qed.

Theorem forwards_twin_refuted :
  exists g d0 d1, bound_ok g d0 /\ bound_ok g d1 /\
    res_map (observe g) (forwards (up (eager_twin g d0)) (up (eager_twin g d1)) 0 [] false false true true false) <>
    res_map (observe g) (forwards (up d0) (up d1) 0 [] false false true true false).
Proof.
  exists g_w1, (Some true, 100, [(1, PK, None, None); (9, VP, None, Some 500)], None),
         (Some true, 101, [(2, PK, None, Some 500); (9, VP, None, Some 500)], None).
  split; [|split].
  - solve_bound.
  - solve_bound.
  - vm_compute. discriminate.
Qed.

(* ------------------------------------------------------------------ *)
(* Part E — injectivity is only needed on the spellings that occur      *)
Definition inj_on (S : list N) (rho : N -> N) : Prop :=
  forall a b, In a S -> In b S -> rho a = rho b -> a = b.

(* every raw annotation of s is listed in S *)
Definition raws_in (S : list N) (s : sigT) : Prop :=
  (forall p a, In p (params s) -> pann p = Some a -> In a S) /\ (forall a, ret s = Some a -> In a S).

Lemma mem_In_N x l : mem x l = true <-> In x l.
Proof.
  induction l as [|y l IH]; cbn [mem In]; [split; [discriminate | contradiction]|].
  rewrite orb_true_iff, IH, N.eqb_eq. split; intros [H|H]; auto.
Qed.

Definition bound_of (rho : N -> N) (S : list N) : N := fold_right N.max 0 (map rho S).

Lemma bound_of_ge rho S a : In a S -> rho a <= bound_of rho S.
Proof.
  unfold bound_of. induction S as [|y S IH]; cbn [In map fold_right]; [contradiction|].
  intros [H|H]; [subst; lia | specialize (IH H); lia].
Qed.

(* a globally injective environment that agrees with rho on S *)
Definition globalized (rho : N -> N) (S : list N) : N -> N :=
  fun x => if mem x S then rho x else x + bound_of rho S + 1.

Lemma globalized_agrees rho S a : In a S -> globalized rho S a = rho a.
Proof. intros H. unfold globalized. apply mem_In_N in H. rewrite H. reflexivity. Qed.

Lemma globalized_inj rho S : inj_on S rho -> injective (globalized rho S).
Proof.
  intros Hinj a b H. unfold globalized in H.
  destruct (mem a S) eqn:Ea, (mem b S) eqn:Eb.
  - apply mem_In_N in Ea. apply mem_In_N in Eb. apply Hinj; assumption.
  - apply mem_In_N in Ea. pose proof (bound_of_ge rho S a Ea). lia.
  - apply mem_In_N in Eb. pose proof (bound_of_ge rho S b Eb). lia.
  - lia.
Qed.

Lemma eagerize_param_ext rho rho' p :
  (forall a, pann p = Some a -> rho' a = rho a) -> eagerize_param rho' p = eagerize_param rho p.
Proof.
  intros H. unfold eagerize_param. destruct (pann p) as [a|]; cbn [option_map]; [|reflexivity].
  rewrite (H a eq_refl). reflexivity.
Qed.

Lemma eagerize_ext rho rho' S s :
  (forall a, In a S -> rho' a = rho a) -> raws_in S s -> eagerize rho' s = eagerize rho s.
Proof.
  intros Hag [Hp Hr]. unfold eagerize. f_equal.
  - apply map_ext_in. intros p Hin. apply eagerize_param_ext. intros a Ha. apply Hag. eapply Hp; eauto.
  - destruct (ret s) as [a|]; cbn [option_map]; [|reflexivity]. rewrite (Hag a (Hr a eq_refl)). reflexivity.
  - destruct (ret s) as [a|]; [|reflexivity]. rewrite (Hag a (Hr a eq_refl)). reflexivity.
Qed.

Lemma coherent_sig_ext rho rho' S g s :
  (forall a, In a S -> rho' a = rho a) -> raws_in S s -> coherent_sig rho g s -> coherent_sig rho' g s.
Proof.
  intros Hag [Hp Hr] [Hc Hcr]. split.
  - apply Forall_forall. intros p Hin. rewrite Forall_forall in Hc. specialize (Hc p Hin).
    unfold coherent in *. rewrite Hc. destruct (pann p) as [a|] eqn:Ea; cbn [option_map]; [|reflexivity].
    rewrite (Hag a (Hp p a Hin Ea)). reflexivity.
  - rewrite Hcr. destruct (ret s) as [a|]; cbn [option_map]; [|reflexivity].
    rewrite (Hag a (Hr a eq_refl)). reflexivity.
Qed.

Section Local.
Variable S : list N.
Variable rho : N -> N.
Hypothesis rho_inj_on : inj_on S rho.
Variable g : genv.
Let rho' := globalized rho S.
Let agrees : forall a, In a S -> rho' a = rho a := globalized_agrees rho S.
Let rho'_inj : injective rho' := globalized_inj rho S rho_inj_on.

Lemma map_eagerize_local ss : Forall (raws_in S) ss -> map (eagerize rho) ss = map (eagerize rho') ss.
Proof.
  intros H. apply map_ext_in. intros s Hs. symmetry. apply (eagerize_ext rho rho' S s agrees).
  rewrite Forall_forall in H. apply H; exact Hs.
Qed.

Lemma coherent_local ss : Forall (raws_in S) ss -> Forall (coherent_sig rho g) ss ->
  Forall (coherent_sig rho' g) ss.
Proof.
  intros Hr Hc. apply Forall_forall. intros s Hs. rewrite Forall_forall in Hr, Hc.
  apply (coherent_sig_ext rho rho' S g s agrees (Hr s Hs) (Hc s Hs)).
Qed.

Theorem pep563_merge_local ss : Forall (raws_in S) ss -> Forall (coherent_sig rho g) ss ->
  res_map (observe g) (merge (map (eagerize rho) ss)) = res_map (observe g) (merge ss).
Proof.
  intros Hr Hc. rewrite (map_eagerize_local ss Hr).
  apply (pep563_merge rho' rho'_inj). apply coherent_local; assumption.
Qed.

Theorem pep563_embed_local ss uva uvk : Forall (raws_in S) ss -> Forall (coherent_sig rho g) ss ->
  res_map (observe g) (embed (map (eagerize rho) ss) uva uvk) = res_map (observe g) (embed ss uva uvk).
Proof.
  intros Hr Hc. rewrite (map_eagerize_local ss Hr).
  apply (pep563_embed rho' rho'_inj). apply coherent_local; assumption.
Qed.

Theorem pep563_forwards_local o i n names0 ha hk uva uvk p :
  raws_in S o -> raws_in S i -> coherent_sig rho g o -> coherent_sig rho g i ->
  res_map (observe g) (forwards (eagerize rho o) (eagerize rho i) n names0 ha hk uva uvk p) =
  res_map (observe g) (forwards o i n names0 ha hk uva uvk p).
Proof.
  intros Hro Hri Ho Hi.
  rewrite <- (eagerize_ext rho rho' S o agrees Hro), <- (eagerize_ext rho rho' S i agrees Hri).
  apply (pep563_forwards rho' rho'_inj); eapply coherent_sig_ext; eauto.
Qed.

Definition raws_in_call (c : callinfo) : Prop :=
  match ci_res c with RSig s _ => raws_in S s | _ => True end.

Theorem pep563_discover_local own plain ha calls :
  raws_in S own -> raws_in S plain -> Forall raws_in_call calls ->
  coherent_sig rho g own -> coherent_sig rho g plain -> Forall (coherent_call rho g) calls ->
  observe g (discover (eagerize rho own) (eagerize rho plain) ha (map (Ecall rho) calls)) =
  observe g (discover own plain ha calls).
Proof.
  intros Hro Hrp Hrc Ho Hp Hc.
  rewrite <- (eagerize_ext rho rho' S own agrees Hro), <- (eagerize_ext rho rho' S plain agrees Hrp).
  assert (Hm : map (Ecall rho) calls = map (Ecall rho') calls).
  { apply map_ext_in. intros c Hin. rewrite Forall_forall in Hrc. specialize (Hrc c Hin).
    unfold raws_in_call in Hrc. unfold Ecall. destruct (ci_res c) as [| |s p]; cbn [Eres]; try reflexivity.
    rewrite (eagerize_ext rho rho' S s agrees Hrc). reflexivity. }
  rewrite Hm. apply (pep563_discover rho' rho'_inj).
  - eapply coherent_sig_ext; eauto.
  - eapply coherent_sig_ext; eauto.
  - apply Forall_forall. intros c Hin. rewrite Forall_forall in Hrc, Hc.
    specialize (Hrc c Hin). specialize (Hc c Hin). unfold raws_in_call in Hrc. unfold coherent_call in *.
    destruct (ci_res c) as [| |s p]; try exact I. eapply coherent_sig_ext; eauto.
Qed.
End Local.

(* ------------------------------------------------------------------ *)
(* the hypotheses are satisfiable on non-trivial inputs                 *)
Definition g_ex : genv := fun f raw => Some (raw + 1).
Definition d_outer : fdesc :=
  (Some true, 100, [(1, PK, None, Some 500); (9, VP, None, Some 501); (10, VK, None, None)], Some 502).
Definition d_inner : fdesc :=
  (Some true, 101, [(2, PK, None, Some 501); (3, KO, Some 1, Some 500); (9, VP, None, Some 501)], Some 500).

Example twin_embed_hyp_sat :
  injective (fun x : N => x + 1) /\
  Forall (twin_ok (fun x => x + 1) g_ex) [d_outer; d_inner] /\
  res_map (observe g_ex) (embed (map up [d_outer; d_inner]) true true) =
  Ok ([(1, PK, None, Some 501); (2, PK, None, Some 502); (9, VP, None, Some 502); (3, KO, Some 1, Some 501)],
      Some 503).
Proof.
  split; [intros a b H; lia|]. split; [|vm_compute; reflexivity].
  repeat constructor; cbn; intros; try reflexivity.
Qed.

Example twin_forwards_hyp_sat :
  twin_ok (fun x => x + 1) g_ex d_outer /\ twin_ok (fun x => x + 1) g_ex d_inner /\
  exists r, forwards (up d_outer) (up d_inner) 0 [3] false false true true false = Ok r.
Proof.
  split; [|split]; [repeat constructor; cbn; intros; reflexivity ..|].
  eexists. vm_compute. reflexivity.
Qed.

Example twin_discover_hyp_sat :
  exists r,
    discover (up d_outer) (up d_outer) true
             (calls_of (fun d => d) [(mkCallInfo true true false false 0 [] RNoSig, d_inner, false)]) = r /\
    length (params r) = 4%nat.
Proof. eexists. split; [reflexivity | vm_compute; reflexivity]. Qed.

(* mask needs nothing: even the environment of the first refutation witness *)
Example twin_mask_hyp_sat :
  bound_ok g_w1 (Some true, 101, [(1, PK, None, Some 500); (2, PK, None, Some 500)], Some 500) /\
  res_map (observe g_w1) (mask (up (Some true, 101, [(1, PK, None, Some 500); (2, PK, None, Some 500)], Some 500)) 1 [] (mkHide false false false false)) =
  Ok ([(2, PK, None, Some 2)], Some 2).
Proof. split; [solve_bound | vm_compute; reflexivity]. Qed.

(* an environment that is injective on the spellings used but not globally *)
Example local_hyp_sat :
  inj_on [500; 501; 502] (fun x => x - 499) /\ ~ injective (fun x => x - 499) /\
  Forall (raws_in [500; 501; 502]) (map up [d_outer; d_inner]).
Proof.
  split; [|split].
  - intros a b Ha Hb H. cbn [In] in Ha, Hb.
    destruct Ha as [Ha|[Ha|[Ha|[]]]], Hb as [Hb|[Hb|[Hb|[]]]]; subst; try reflexivity; vm_compute in H; discriminate H.
  - intros H. specialize (H 0 1 eq_refl). discriminate H.
  - cbn [map]. constructor; [|constructor; [|constructor]];
      (split;
       [ intros p a Hin Ha; cbn in Hin;
         repeat (destruct Hin as [Hin|Hin];
                 [subst p; cbn in Ha; first [discriminate Ha | inversion Ha; subst; cbn; tauto]|]);
         contradiction
       | intros a Ha; cbn in Ha; inversion Ha; subst; cbn; tauto ]).
Qed.

Print Assumptions mask_gen_E.
Print Assumptions embed_E.
Print Assumptions forwards_E.
Print Assumptions discover_E.
Print Assumptions pep563_mask_gen.
Print Assumptions pep563_mask.
Print Assumptions pep563_sig_partial.
Print Assumptions pep563_embed.
Print Assumptions pep563_forwards.
Print Assumptions pep563_discover.
Print Assumptions twin_embed.
Print Assumptions twin_forwards.
Print Assumptions twin_discover.
Print Assumptions twin_mask_gen.
Print Assumptions twin_mask.
Print Assumptions twin_sig_partial.
Print Assumptions embed_twin_refuted_same_spelling.
Print Assumptions embed_twin_refuted_two_spellings.
Print Assumptions embed_twin_refuted.
Print Assumptions forwards_twin_refuted.
Print Assumptions globalized_inj.
Print Assumptions pep563_merge_local.
Print Assumptions pep563_embed_local.
Print Assumptions pep563_forwards_local.
Print Assumptions pep563_discover_local.
Print Assumptions observe_is_evaluated.
