(* FoldLaw.v -- C09: the fold law of merge for ALL signatures and any number of
   inputs:  merge(a, b, rest...) = merge(merge(a, b), rest...)  -- the same result
   object (parameters, return annotation, provenance, depths), not only the same
   parameters -- whenever merge(a, b) does not fail in its validating constructor.

   Why it holds: the n-ary merge folds [merger] over classified ("sorted")
   accumulators and validates once at the end; the nested form validates and
   re-classifies after every step.  Every accumulator the merger returns is
   kind-consistent (positional-only-kinded parameters in the positional-only bucket,
   ... : this is what [normalise_pok] is for) and has duplicate-free keyword-only
   names, and for such an accumulator   sort_params (apply_params acc) = acc.
   No side condition on the inputs is needed (not even validity).

   With C15_rc_valid (RcValid.v) the side condition "merge(a, b) is not a plain
   ValueError" is discharged for valid role-consistent a, b:  [merge_fold_rc]. *)
From Sigtools.Model Require Import Base Bind Roles Algebra.
From Sigtools.Proofs Require Import SmallModel Basics MaskLaws MaskExact MergeNeutral Annot ValidateSpec RcValid.
From Coq Require Import Lia.

(* ---- every accumulator returned by the merger is kind-consistent ---- *)
Theorem merger_kinds l r res :
  kinds_ok l -> kinds_ok r -> merger l r = Ok res ->
  kinds_ok res /\ NoDup (names_of (kwoargs res)).
Proof.
  intros HKl HKr. unfold merger. fold st0. fold (st2 l r). intros E.
  apply bind_ok in E. destruct E as [[[st3 il] ir] [E3 E]].
  apply bind_ok in E. destruct E as [st4 [E4 E]].
  apply bind_ok in E. destruct E as [st5 [E5 E]].
  apply bind_ok in E. destruct E as [st6 [E6 E]].
  destruct (add_star l r (m_xva_l (normalise_pok st6)) (m_xva_r (normalise_pok st6)) (varargs l) (varargs r)
                     (normalise_pok st6)) as [va st8] eqn:E8.
  destruct (add_star l r (m_xvk_l st8) (m_xvk_r st8) (varkwargs l) (varkwargs r) st8) as [vk st9] eqn:E9.
  inversion E; subst res; clear E.
  pose proof (KI_st2 l r HKl) as K2.
  pose proof HKl as (L1 & L2 & _). pose proof HKr as (R1 & R2 & _).
  destruct (K_zip_pos l r (posargs l) (posargs r) (pokargs l) (pokargs r) _ st3 il ir K2 L1 R1 E3) as (K3 & Il & Ir).
  assert (Hil : Forall isPK il) by (apply Forall_forall; intros q Hq; rewrite Forall_forall in L2; apply L2, Il, Hq).
  assert (Hir : Forall isPK ir) by (apply Forall_forall; intros q Hq; rewrite Forall_forall in R2; apply R2, Ir, Hq).
  pose proof (K_zip_pok l r il ir st3 st4 K3 Hil Hir E4) as K4.
  pose proof (K_unmatched l r HKl HKr L st4 st5 K4 E5) as K5.
  pose proof (K_unmatched l r HKl HKr R st5 st6 K5 E6) as K6.
  destruct (normalise_spec l r st6 K6) as (N1 & N2 & N3 & N4).
  destruct (add_star_spec _ _ _ _ _ _ _ _ _ E8) as (S1 & S2 & S3 & S4).
  destruct (add_star_spec _ _ _ _ _ _ _ _ _ E9) as (T1 & T2 & T3 & T4).
  pose proof (star_witness l r VP _ _ _ (in_va_l l HKl) (in_va_r r HKr) S4) as Wva.
  pose proof (star_witness l r VK _ _ _ (in_vk_l l HKl) (in_vk_r r HKr) T4) as Wvk.
  destruct K6 as [_ _ Kkwo Knd _ _].
  unfold kinds_ok. cbn [posargs pokargs varargs kwoargs varkwargs]. rewrite T1, T2, T3, S1, S2, S3, N4.
  repeat split; auto.
  - intros p Hp. apply (Wva p Hp).
  - intros p Hp. apply (Wvk p Hp).
Qed.

(* ---- classification undoes flattening on kind-consistent accumulators ---- *)
Lemma sort_aux_app x : forall y acc, sort_aux (x ++ y) acc = sort_aux y (sort_aux x acc).
Proof. induction x as [|p x IH]; intros y acc; cbn [app sort_aux]; [reflexivity|apply IH]. Qed.

Lemma sort_aux_PO ps : forall acc, Forall (fun p => pkind p = PO) ps ->
  sort_aux ps acc = mkSorted (posargs acc ++ ps) (pokargs acc) (varargs acc) (kwoargs acc)
                             (varkwargs acc) (ssrc acc) (sdep acc).
Proof.
  induction ps as [|p ps IH]; intros acc H.
  - cbn [sort_aux]. rewrite app_nil_r. destruct acc; reflexivity.
  - cbn [sort_aux]. rewrite (Forall_inv H). rewrite (IH _ (Forall_inv_tail H)).
    cbn [posargs pokargs varargs kwoargs varkwargs ssrc sdep]. rewrite <- app_assoc. reflexivity.
Qed.

Lemma sort_aux_PK ps : forall acc, Forall (fun p => pkind p = PK) ps ->
  sort_aux ps acc = mkSorted (posargs acc) (pokargs acc ++ ps) (varargs acc) (kwoargs acc)
                             (varkwargs acc) (ssrc acc) (sdep acc).
Proof.
  induction ps as [|p ps IH]; intros acc H.
  - cbn [sort_aux]. rewrite app_nil_r. destruct acc; reflexivity.
  - cbn [sort_aux]. rewrite (Forall_inv H). rewrite (IH _ (Forall_inv_tail H)).
    cbn [posargs pokargs varargs kwoargs varkwargs ssrc sdep]. rewrite <- app_assoc. reflexivity.
Qed.

Lemma sort_aux_KO ps : forall acc, Forall (fun p => pkind p = KO) ps ->
  sort_aux ps acc = mkSorted (posargs acc) (pokargs acc) (varargs acc) (od_update (kwoargs acc) ps)
                             (varkwargs acc) (ssrc acc) (sdep acc).
Proof.
  induction ps as [|p ps IH]; intros acc H.
  - cbn [sort_aux od_update fold_left]. destruct acc; reflexivity.
  - cbn [sort_aux]. rewrite (Forall_inv H). rewrite (IH _ (Forall_inv_tail H)).
    cbn [posargs pokargs varargs kwoargs varkwargs ssrc sdep]. reflexivity.
Qed.

Theorem sort_flatten_inverse acc rt urt :
  kinds_ok acc -> NoDup (names_of (kwoargs acc)) ->
  sort_params (mkSig (flatten acc) rt urt (ssrc acc) (sdep acc)) = acc.
Proof.
  intros (H1 & H2 & H3 & H4 & H5) Hn. unfold sort_params, flatten. cbn [params srcs deps].
  rewrite !sort_aux_app.
  rewrite (sort_aux_PO _ _ H1). cbn [posargs pokargs varargs kwoargs varkwargs ssrc sdep app].
  rewrite (sort_aux_PK _ _ H2). cbn [posargs pokargs varargs kwoargs varkwargs ssrc sdep app].
  assert (Hkw : od_update [] (kwoargs acc) = kwoargs acc).
  { rewrite od_update_fresh; [reflexivity|exact Hn|intros x _ []]. }
  destruct acc as [pos pok va kwo vk sr dp]. cbn [posargs pokargs varargs kwoargs varkwargs ssrc sdep] in *.
  destruct va as [a|]; cbn [opt_list sort_aux]; [rewrite (H3 a eq_refl)|];
    rewrite (sort_aux_KO _ _ H4); cbn [posargs pokargs varargs kwoargs varkwargs ssrc sdep]; rewrite Hkw;
    (destruct vk as [k|]; cbn [opt_list sort_aux]; [rewrite (H5 k eq_refl)|]; reflexivity).
Qed.

(* ---- one step of the fold ---- *)
Lemma merge_pair_inv a b r1 :
  merge [a; b] = Ok r1 ->
  exists acc, merger (sort_params a) (sort_params b) = Ok acc /\
              r1 = mkSig (flatten acc) (ret a) (uret a) (ssrc acc) (sdep acc) /\
              sort_params r1 = acc.
Proof.
  cbn [merge merge_steps]. intros E. apply bind_ok in E. destruct E as [acc [E1 E2]].
  apply bind_ok in E1. destruct E1 as [acc' [E1 E1']]. inversion E1'; subst acc'. apply to_incompatible_ok in E1.
  unfold apply_params in E2. destruct (validate (flatten acc)); [|discriminate]. inversion E2; subst r1.
  exists acc. split; [exact E1|]. split; [reflexivity|].
  destruct (merger_kinds _ _ _ (sort_params_kinds a) (sort_params_kinds b) E1) as [K N].
  apply sort_flatten_inverse; assumption.
Qed.

Theorem merge_fold_step a b rest r1 :
  merge [a; b] = Ok r1 -> merge (a :: b :: rest) = merge (r1 :: rest).
Proof.
  intros E. destruct (merge_pair_inv a b r1 E) as [acc [E1 [Er Es]]].
  cbn [merge merge_steps]. rewrite E1, Es. cbn [to_incompatible bind].
  destruct (merge_steps acc rest) as [acc2|e]; cbn [bind]; [|reflexivity].
  unfold apply_params. rewrite Er. reflexivity.
Qed.

Theorem merge_fold_step_incompatible a b rest :
  merge [a; b] = Err Incompatible -> merge (a :: b :: rest) = Err Incompatible.
Proof.
  cbn [merge merge_steps]. destruct (to_incompatible (merger (sort_params a) (sort_params b))) as [acc|e]; cbn [bind].
  - unfold apply_params. destruct (validate (flatten acc)); discriminate.
  - intros E. inversion E. reflexivity.
Qed.

(* a result of merge is a fixed point of the unary merge *)
Lemma merge_result_single a b r1 : merge [a; b] = Ok r1 -> merge [r1] = Ok r1.
Proof.
  intros E. pose proof (merge_wf _ _ E) as V. destruct (merge_pair_inv a b r1 E) as [acc [E1 [Er Es]]].
  cbn [merge merge_steps bind]. rewrite Es. unfold apply_params. rewrite Er in V. cbn [params] in V. rewrite V.
  rewrite Er. reflexivity.
Qed.

(* ---- C09_fold, three inputs ---- *)
Theorem merge_fold_law a b c :
  merge [a; b] <> Err ValueErr -> merge_nested [a; b; c] = merge [a; b; c].
Proof.
  intros H. cbn [merge_nested merge_nested_from].
  pose proof (merge_only_value_errors a [b]) as B.
  destruct (merge [a; b]) as [r1|e] eqn:E; cbn [bind].
  - rewrite (merge_fold_step a b [c] r1 E). destruct (merge [r1; c]); reflexivity.
  - destruct e as [| |t]; [|contradiction|destruct B].
    symmetry. apply merge_fold_step_incompatible. exact E.
Qed.

(* the condition is discharged by C15_rc_valid: valid inputs a, b whose shared names
   keep their role; c is arbitrary *)
Theorem merge_fold_rc a b c :
  valid_sig (params a) = true -> valid_sig (params b) = true ->
  role_consistent [params a; params b] = true ->
  merge_nested [a; b; c] = merge [a; b; c].
Proof. intros Va Vb Hr. apply merge_fold_law. apply merge_rc_valid; assumption. Qed.

(* the form of DESIGN section 5 (C09_fold): role-consistent triples *)
Theorem merge_fold_rc_triple a b c :
  valid_sig (params a) = true -> valid_sig (params b) = true ->
  role_consistent [params a; params b; params c] = true ->
  merge_nested [a; b; c] = merge [a; b; c].
Proof.
  intros Va Vb Hr. apply merge_fold_rc; try assumption.
  cbn [role_consistent forallb] in *. apply andb_true_iff in Hr. destruct Hr as [H _].
  apply andb_true_iff in H. destruct H as [H _]. rewrite H. reflexivity.
Qed.

(* ---- any number of inputs ---- *)
Lemma merge_nested_from_ok ss : forall s0 r,
  merge [s0] = Ok s0 -> merge_nested_from s0 ss = Ok r -> merge (s0 :: ss) = Ok r.
Proof.
  induction ss as [|s ss IH]; intros s0 r H0 E; cbn [merge_nested_from] in E.
  - inversion E; subst. exact H0.
  - apply bind_ok in E. destruct E as [r1 [E1 E2]].
    rewrite (merge_fold_step s0 s ss r1 E1). apply IH; [|exact E2]. eapply merge_result_single. exact E1.
Qed.

Theorem merge_nested_ok s0 s1 ss r :
  merge_nested (s0 :: s1 :: ss) = Ok r -> merge (s0 :: s1 :: ss) = Ok r.
Proof.
  cbn [merge_nested merge_nested_from]. intros E. apply bind_ok in E. destruct E as [r1 [E1 E2]].
  rewrite (merge_fold_step s0 s1 ss r1 E1). apply merge_nested_from_ok; [|exact E2].
  eapply merge_result_single. exact E1.
Qed.

Lemma merge_nested_from_incompatible ss : forall s0,
  merge_nested_from s0 ss = Err Incompatible -> merge (s0 :: ss) = Err Incompatible.
Proof.
  induction ss as [|s ss IH]; intros s0 E; cbn [merge_nested_from] in E; [discriminate|].
  destruct (merge [s0; s]) as [r1|e] eqn:E1; cbn [bind] in E.
  - rewrite (merge_fold_step s0 s ss r1 E1). apply IH. exact E.
  - inversion E; subst e. apply merge_fold_step_incompatible. exact E1.
Qed.

Theorem merge_nested_incompatible ss :
  merge_nested ss = Err Incompatible -> merge ss = Err Incompatible.
Proof. destruct ss as [|s0 ss]; [discriminate|]. apply merge_nested_from_incompatible. Qed.

(* the two forms can only differ when an intermediate result is refused by the constructor *)
Theorem merge_nested_differs_only_on_value_error s0 s1 ss :
  merge_nested (s0 :: s1 :: ss) = merge (s0 :: s1 :: ss) \/ merge_nested (s0 :: s1 :: ss) = Err ValueErr.
Proof.
  destruct (merge_nested (s0 :: s1 :: ss)) as [r|e] eqn:E.
  - left. symmetry. apply merge_nested_ok. exact E.
  - destruct e as [| |t]; [left; symmetry; apply merge_nested_incompatible; exact E|right; reflexivity|].
    exfalso. revert E. cbn [merge_nested].
    assert (G : forall ss s, merge_nested_from s ss <> Err (OtherErr t)).
    { induction ss0 as [|x ss0 IH]; intros s E; cbn [merge_nested_from] in E; [discriminate|].
      pose proof (merge_only_value_errors s [x]) as B.
      destruct (merge [s; x]) as [r1|e1]; cbn [bind] in E; [exact (IH r1 E)|].
      inversion E; subst e1. exact B. }
    apply G.
Qed.

(* the side condition of the fold law is necessary: an intermediate plain ValueError
   that the n-ary form does not see (role-inconsistent a, b) *)
Theorem merge_fold_law_unconditional_refuted :
  exists a b c, valid_sig (params a) = true /\ valid_sig (params b) = true /\ valid_sig (params c) = true /\
                merge_nested [a; b; c] = Err ValueErr /\ merge [a; b; c] <> Err ValueErr.
Proof.
  exists (mkSig [mkParam 1 PO None None UEmpty; mkParam 10 VK None None UEmpty] None UEmpty [] []),
         (mkSig [mkParam 9 VP None None UEmpty; mkParam 1 KO None None UEmpty] None UEmpty [] []),
         (mkSig [mkParam 2 PO None None UEmpty] None UEmpty [] []).
  repeat split; try (vm_compute; reflexivity). vm_compute. discriminate.
Qed.

Example fold_law_example :
  let a := mkSig [mkParam 1 PK None None UEmpty; mkParam 9 VP None None UEmpty; mkParam 10 VK None None UEmpty]
                 None UEmpty [(1, [100]); (9, [100]); (10, [100])] [(100, 0)] in
  let b := mkSig [mkParam 2 PK None None UEmpty; mkParam 3 PK (Some 1) None UEmpty]
                 None UEmpty [(2, [101]); (3, [101])] [(101, 0)] in
  let c := mkSig [mkParam 2 PO None None UEmpty; mkParam 9 VP None None UEmpty]
                 None UEmpty [(2, [102]); (9, [102])] [(102, 0)] in
  merge [a; b] <> Err ValueErr /\ exists r, merge [a; b; c] = Ok r /\ merge_nested [a; b; c] = Ok r.
Proof. cbv zeta. split; [vm_compute; discriminate|]. eexists. split; vm_compute; reflexivity. Qed.

Print Assumptions merger_kinds.
Print Assumptions sort_flatten_inverse.
Print Assumptions merge_fold_step.
Print Assumptions merge_fold_step_incompatible.
Print Assumptions merge_fold_law.
Print Assumptions merge_fold_rc.
Print Assumptions merge_fold_rc_triple.
Print Assumptions merge_nested_ok.
Print Assumptions merge_nested_incompatible.
Print Assumptions merge_nested_differs_only_on_value_error.
Print Assumptions merge_fold_law_unconditional_refuted.
Print Assumptions fold_law_example.
