(* AnnotDiscover.v — C11, known finding C11:annotate-lost-in-discovery, on the model.

   modifiers.annotate stores the annotated signature as func.__signature__.
   Automatic discovery (autoforwards_function) sets __signature__ aside and
   reads the function's OWN signature; in Model/Discover.v this is
   `discover own plain ...` with own = the raw signature and plain = what
   signatures.signature reports (the annotated one).  Whenever discovery
   succeeds the result is built from `own`, so the value given to annotate is
   gone, although C11_annotate says the annotated signature reports it
   verbatim; when discovery gives up the annotated signature is returned. *)
From Coq Require Import List NArith Bool.
From Sigtools.Model Require Import Base Bind Algebra Annot Visitor Discover.
Import ListNotations.
Open Scope N_scope.

(* def callee(x, y, *, z)          -- function 100
   def w(a, *args, **kwargs): return callee( *args, **kwargs)   -- function 101, annotate(a=7) *)
Definition callee_sig : sigT :=
  upgrade_sig (Some false) 100 [(14, PK, None, None); (15, PK, None, None); (16, KO, None, None)] None.
Definition own_sig : sigT :=
  upgrade_sig (Some false) 101 [(1, PK, None, None); (9, VP, None, None); (10, VK, None, None)] None.
Definition the_call : callinfo := mkCallInfo true true false false 0 [] (RSig callee_sig false).

Definition ann_of (g : genv) (x : name) (s : sigT) : option N :=
  match find_param x (params s) with Some p => source_value g (puann p) | None => None end.

(* the annotated signature reports the given value; the discovered one has lost it,
   for the parameter and for the return annotation *)
Theorem annotate_lost_in_discovery_refuted :
  exists (g : genv) (own plain : sigT) (calls : list callinfo) (v r : N),
    annotate (Some (Some r)) [(1, Some v)] own = Ok plain /\
    ann_of g 1 plain = Some v /\ source_value g (uret plain) = Some r /\
    ann_of g 1 (discover own plain true calls) = None /\
    source_value g (uret (discover own plain true calls)) = None /\
    map pname (params (discover own plain true calls)) = [1; 14; 15; 16].
Proof.
  exists (fun _ _ => None), own_sig. eexists. exists [the_call], 7, 8.
  split; [vm_compute; reflexivity|]. repeat split; vm_compute; reflexivity.
Qed.

(* ... while forwarding from the annotated signature (what specifiers.forwards does) keeps it *)
Theorem annotate_kept_by_explicit_forwards :
  exists (g : genv) (plain r : sigT),
    annotate None [(1, Some 7)] own_sig = Ok plain /\
    forwards plain callee_sig 0 [] false false true true false = Ok r /\
    ann_of g 1 r = Some 7.
Proof.
  exists (fun _ _ => None). eexists. eexists.
  split; [vm_compute; reflexivity|]. split; vm_compute; reflexivity.
Qed.

(* when discovery gives up, the annotated signature is what is reported *)
Theorem discovery_fallback_is_annotated own plain ha calls :
  autoforwards own ha calls = None -> discover own plain ha calls = plain.
Proof. intros H. unfold discover. rewrite H. reflexivity. Qed.

(* and nothing of `plain` is looked at otherwise: the discovered signature is the same
   whatever annotate stored *)
Theorem discovery_ignores_annotated own plain plain' ha calls r :
  autoforwards own ha calls = Some r ->
  discover own plain ha calls = discover own plain' ha calls.
Proof. intros H. unfold discover. rewrite H. reflexivity. Qed.

Print Assumptions annotate_lost_in_discovery_refuted.
Print Assumptions annotate_kept_by_explicit_forwards.
Print Assumptions discovery_fallback_is_annotated.
Print Assumptions discovery_ignores_annotated.
