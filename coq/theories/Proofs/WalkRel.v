(* Proofs/WalkRel.v -- a relational frame rule for the walker on trees without nested scope
   ([simple] of Proofs/ExecNested.v): any relation between walker states that
     - forces equal observations (frames, current namespace, taints, the two star markers,
       the revisiting flag), and
     - is preserved by the four state updates the walker performs on such trees
       (visit_Name, tainting a marker, recording a call, deferring a call)
   is preserved by [walk] / [resolve_na], which moreover resolve to the same markers.

   Two instances:
     1. the list of recorded calls is write-only: walking from two states that differ only by a
        prefix of [v_calls] appends the same records to both ([walk_list_calls_frame]);
     2. unary invariants of the wrapper's own frame ([walk_list_inv]), used for
        "a star variable that is no longer immutable is bound to Unknown".
   Used by Proofs/InvarianceDiscover.v (C06). *)
From Sigtools.Model Require Import Base Visitor Exec ExecNested.
From Sigtools.Proofs Require Import VisitorTotal Exec ExecNested.
From Coq Require Import Lia.

Definition obs_eq (st st' : vstate) : Prop :=
  v_frames st = v_frames st' /\ v_cur st = v_cur st' /\ v_taint st = v_taint st' /\
  v_varargs st = v_varargs st' /\ v_varkwargs st = v_varkwargs st' /\ v_rev st = v_rev st'.

Section Rel.
Variable R : vstate -> vstate -> Prop.
Hypothesis R_obs : forall st st', R st st' -> obs_eq st st'.
Hypothesis R_name : forall id c st st', R st st' -> R (visit_name id c st) (visit_name id c st').
Hypothesis R_taint : forall u st st', R st st' -> R (add_taint st u) (add_taint st' u).
Hypothesis R_call : forall c st st', R st st' -> R (add_call st c) (add_call st' c).
Hypothesis R_todo : forall x st st', R st st' ->
  R (set_todo st (v_todo st ++ [x])) (set_todo st' (v_todo st' ++ [x])).

Lemma ns_get_rel id st st' : R st st' -> ns_get st id = ns_get st' id.
Proof. intros H. destruct (R_obs _ _ H) as (A & B & _). unfold ns_get. rewrite A, B. reflexivity. Qed.

Lemma get_untainted_rel m st st' : R st st' -> get_untainted st m = get_untainted st' m.
Proof. intros H. destruct (R_obs _ _ H) as (_ & _ & C & _). unfold get_untainted. rewrite C. reflexivity. Qed.

Definition Cr (n : node) : Prop := forall st st', R st st' ->
  (forall force, R (walk force n st) (walk force n st')) /\
  (forall ro t, fst (resolve_na n ro t st) = fst (resolve_na n ro t st')
                /\ R (snd (resolve_na n ro t st)) (snd (resolve_na n ro t st'))).

Definition Pr (n : node) : Prop :=
  simple n = true -> Cr n /\ match n with NStarred v | NKeyword _ v => Cr v | _ => True end.

Lemma Cr_res n ro t st st' : Cr n -> R st st' ->
  fst (res_with (walk false) resolve_na n ro t st) = fst (res_with (walk false) resolve_na n ro t st')
  /\ R (snd (res_with (walk false) resolve_na n ro t st)) (snd (res_with (walk false) resolve_na n ro t st')).
Proof.
  intros H HR. destruct (H st st' HR) as [H1 H2]. unfold res_with.
  destruct n; try apply H2; cbn [fst snd]; (split; [reflexivity|apply H1]).
Qed.

Lemma walk_list_rel l : Forall Pr l -> simple_list l = true -> forall st st', R st st' ->
  R (walk_list l st) (walk_list l st').
Proof.
  induction 1 as [|x l Hx _ IH]; intros Hs st st' HR; [exact HR|].
  rewrite simple_list_cons in Hs. apply andb_true_iff in Hs as [Hs1 Hs2].
  destruct (Hx Hs1) as [Hc _]. destruct (Hc st st' HR) as [H1 _].
  cbn [walk_list]. exact (IH Hs2 _ _ (H1 false)).
Qed.

Lemma args_loop_rel l : Forall Pr l -> simple_list l = true -> forall st st', R st st' ->
  fst (args_loop l st) = fst (args_loop l st') /\ R (snd (args_loop l st)) (snd (args_loop l st')).
Proof.
  induction 1 as [|x l Hx _ IH]; intros Hs st st' HR; [split; [reflexivity|exact HR]|].
  rewrite simple_list_cons in Hs. apply andb_true_iff in Hs as [Hs1 Hs2].
  destruct (Hx Hs1) as [Hc _].
  destruct x; cbn [args_loop];
    try (destruct (Cr_res _ false false st st' Hc HR) as [A B];
         destruct (res_with (walk false) resolve_na _ false false st) as [m s1];
         destruct (res_with (walk false) resolve_na _ false false st') as [m' s1']; cbn [fst snd] in A, B;
         destruct (IH Hs2 s1 s1' B) as [A2 B2];
         destruct (args_loop l s1) as [ms s2]; destruct (args_loop l s1') as [ms' s2']; cbn [fst snd] in *;
         split; [congruence|exact B2]).
  exact (IH Hs2 st st' HR).
Qed.

Lemma kws_loop_rel l : Forall Pr l -> simple_list l = true -> forall st st', R st st' ->
  fst (kws_loop l st) = fst (kws_loop l st') /\ R (snd (kws_loop l st)) (snd (kws_loop l st')).
Proof.
  induction 1 as [|x l Hx _ IH]; intros Hs st st' HR; [split; [reflexivity|exact HR]|].
  rewrite simple_list_cons in Hs. apply andb_true_iff in Hs as [Hs1 Hs2].
  destruct (Hx Hs1) as [_ Hc].
  destruct x as [| | | |a v| | |]; cbn [kws_loop]; try exact (IH Hs2 st st' HR).
  destruct a as [k|]; [|exact (IH Hs2 st st' HR)].
  destruct (Cr_res v false false st st' Hc HR) as [A B].
  destruct (res_with (walk false) resolve_na v false false st) as [m s1].
  destruct (res_with (walk false) resolve_na v false false st') as [m' s1']. cbn [fst snd] in A, B.
  destruct (IH Hs2 s1 s1' B) as [A2 B2].
  destruct (kws_loop l s1) as [ms s2]. destruct (kws_loop l s1') as [ms' s2']. cbn [fst snd] in *.
  split; [congruence|exact B2].
Qed.

Lemma star_one_rel l : Forall Pr l -> simple_list l = true -> forall seen st st', R st st' ->
  fst (star_one l seen st) = fst (star_one l seen st') /\ R (snd (star_one l seen st)) (snd (star_one l seen st')).
Proof.
  induction 1 as [|x l Hx _ IH]; intros Hs seen st st' HR; [split; [reflexivity|exact HR]|].
  rewrite simple_list_cons in Hs. apply andb_true_iff in Hs as [Hs1 Hs2].
  destruct (Hx Hs1) as [_ Hc].
  destruct x; cbn [star_one]; try exact (IH Hs2 seen st st' HR).
  destruct seen; [|split; [reflexivity|exact HR]].
  destruct (is_empty (starred_values l)); [|split; [reflexivity|exact HR]].
  destruct (Cr_res x true false st st' Hc HR) as [A B]. cbn [fst snd]. split; [congruence|exact B].
Qed.

Lemma dstar_one_rel l : Forall Pr l -> simple_list l = true -> forall st st', R st st' ->
  fst (dstar_one l st) = fst (dstar_one l st') /\ R (snd (dstar_one l st)) (snd (dstar_one l st')).
Proof.
  induction 1 as [|x l Hx _ IH]; intros Hs st st' HR; [split; [reflexivity|exact HR]|].
  rewrite simple_list_cons in Hs. apply andb_true_iff in Hs as [Hs1 Hs2].
  destruct (Hx Hs1) as [_ Hc].
  destruct x as [| | | |a v| | |]; cbn [dstar_one]; try exact (IH Hs2 st st' HR).
  destruct a as [k|]; [exact (IH Hs2 st st' HR)|].
  destruct (is_empty (dstar_values l)); [|split; [reflexivity|exact HR]].
  destruct (Cr_res v true false st st' Hc HR) as [A B]. cbn [fst snd]. split; [congruence|exact B].
Qed.

Lemma process_call_rel w st1 st1' args kws :
  Forall Pr args -> Forall Pr kws -> simple_list args = true -> simple_list kws = true -> R st1 st1' ->
  R (process_call (w, st1) args kws) (process_call (w, st1') args kws).
Proof.
  intros Ha Hk Sa Sk HR. unfold process_call.
  set (st2 := if is_attr w then match attr_base w with MArg u _ => add_taint st1 u | _ => st1 end else st1).
  set (st2' := if is_attr w then match attr_base w with MArg u _ => add_taint st1' u | _ => st1' end else st1').
  assert (H2 : R st2 st2').
  { unfold st2, st2'. destruct (is_attr w); [|exact HR]. destruct (attr_base w); auto. }
  destruct (args_loop_rel args Ha Sa st2 st2' H2) as [A3 B3].
  destruct (args_loop args st2) as [margs st3]. destruct (args_loop args st2') as [margs' st3']. cbn [fst snd] in *.
  destruct (kws_loop_rel kws Hk Sk st3 st3' B3) as [A4 B4].
  destruct (kws_loop kws st3) as [mkws st4]. destruct (kws_loop kws st3') as [mkws' st4']. cbn [fst snd] in *.
  destruct (star_one_rel args Ha Sa O st4 st4' B4) as [A5 B5].
  destruct (star_one args O st4) as [mva st5]. destruct (star_one args O st4') as [mva' st5']. cbn [fst snd] in *.
  destruct (dstar_one_rel kws Hk Sk st5 st5' B5) as [A6 B6].
  destruct (dstar_one kws st5) as [mvk st6]. destruct (dstar_one kws st5') as [mvk' st6']. cbn [fst snd] in *.
  destruct (R_obs _ _ B6) as (_ & _ & _ & Eva & Evk & _). rewrite <- Eva, <- Evk. subst margs' mkws' mva' mvk'.
  destruct (has_hide mva (v_varargs st6)) as [uva ha]. destruct (has_hide mvk (v_varkwargs st6)) as [uvk hk].
  apply R_call. exact B6.
Qed.

Lemma resolve_attr_eq v a ro t st :
  resolve_na (NAttr v a) ro t st =
  let '(mv, st1) := res_with (walk false) resolve_na v true t st in (MAttr mv a, st1).
Proof. destruct v; reflexivity. Qed.

Theorem walk_rel : forall n, Pr n.
Proof.
  apply node_rect'.
  - (* NName *) intros id c _. split; [|exact I]. intros st st' HR. split.
    + intros force. cbn [walk]. apply R_name. exact HR.
    + intros ro t. cbn [resolve_na fst snd].
      rewrite (ns_get_rel id st st' HR), (get_untainted_rel _ st st' HR).
      split; [reflexivity|]. destruct ro; [exact HR|apply R_name; exact HR].
  - (* NAttr *) intros v a Hv Hs. cbn [simple] in Hs. destruct (Hv Hs) as [Hc _]. split; [|exact I].
    intros st st' HR. split; [intros force; cbn [walk]; exact HR|].
    intros ro t. rewrite !resolve_attr_eq.
    destruct (Cr_res v true t st st' Hc HR) as [A B].
    destruct (res_with (walk false) resolve_na v true t st) as [mv s1].
    destruct (res_with (walk false) resolve_na v true t st') as [mv' s1']. cbn [fst snd] in *.
    split; [congruence|exact B].
  - (* NCall *) intros f args kws Hf Ha Hk Hs. rewrite simple_call_eq in Hs.
    apply andb_true_iff in Hs as [Hs Hsk]. apply andb_true_iff in Hs as [Hsf Hsa].
    destruct (Hf Hsf) as [Hcf _]. split; [|exact I]. intros st st' HR. split.
    + intros force. rewrite !walk_call_eq.
      destruct (R_obs _ _ HR) as (Ef & Ec & _ & _ & _ & Er). rewrite <- Ef, <- Ec, <- Er.
      destruct (negb force && negb (v_rev st) && is_some (f_parent (get_frame (v_frames st) (v_cur st)))).
      * apply R_todo. exact HR.
      * destruct (Cr_res f true true st st' Hcf HR) as [A B].
        destruct (res_with (walk false) resolve_na f true true st) as [w s1].
        destruct (res_with (walk false) resolve_na f true true st') as [w' s1']. cbn [fst snd] in A, B. subst w'.
        exact (process_call_rel w s1 s1' args kws Ha Hk Hsa Hsk B).
    + intros ro t. cbn [resolve_na fst snd]. split; [reflexivity|exact HR].
  - (* NStarred *) intros v Hv Hs. cbn [simple] in Hs. destruct (Hv Hs) as [Hc _]. split; [|exact Hc].
    intros st st' HR. destruct (Hc st st' HR) as [H1 _]. split; [intros force; cbn [walk]; apply H1|].
    intros ro t. cbn [resolve_na fst snd]. split; [reflexivity|exact HR].
  - (* NKeyword *) intros a v Hv Hs. cbn [simple] in Hs. destruct (Hv Hs) as [Hc _]. split; [|exact Hc].
    intros st st' HR. destruct (Hc st st' HR) as [H1 _]. split; [intros force; cbn [walk]; apply H1|].
    intros ro t. cbn [resolve_na fst snd]. split; [reflexivity|exact HR].
  - (* NFunc *) intros a k va kw body _ Hs. discriminate Hs.
  - (* NNonlocal *) intros names Hs. discriminate Hs.
  - (* NOpaque *) intros ch Hc Hs. rewrite simple_opaque_eq in Hs. split; [|exact I]. intros st st' HR. split.
    + intros force. rewrite !walk_opaque_eq. exact (walk_list_rel ch Hc Hs st st' HR).
    + intros ro t. cbn [resolve_na fst snd]. split; [reflexivity|exact HR].
Qed.

Lemma Forall_Pr l : Forall Pr l.
Proof. apply Forall_forall. intros x _. apply walk_rel. Qed.

Theorem walk_list_rel_all l st st' : simple_list l = true -> R st st' -> R (walk_list l st) (walk_list l st').
Proof. intros Hs HR. exact (walk_list_rel l (Forall_Pr l) Hs st st' HR). Qed.
End Rel.

(* ------------------------------------------------------------------ *)
(* instance 1: the recorded calls are write-only                        *)

Definition withc (st : vstate) (C : list callrec) : vstate :=
  mkV (v_frames st) (v_cur st) C (v_todo st) (v_taint st) (v_next st) (v_varargs st) (v_varkwargs st) (v_rev st).

(* [st] has recorded P ++ D, [st'] is the same state with P' ++ D recorded *)
Definition Rc (P P' : list callrec) (st st' : vstate) : Prop :=
  exists D, v_calls st = P ++ D /\ st' = withc st (P' ++ D).

Lemma visit_name_withc id c st C : visit_name id c (withc st C) = withc (visit_name id c st) C.
Proof.
  unfold visit_name, ns_is_immutable. cbn [withc v_frames v_cur].
  destruct (mem id (f_immut (get_frame (v_frames st) (target_of (v_frames st) (v_cur st) id)))
            && match c with Load => true | _ => false end); reflexivity.
Qed.

Lemma visit_name_calls id c st : v_calls (visit_name id c st) = v_calls st.
Proof.
  unfold visit_name. destruct (ns_is_immutable st id && match c with Load => true | _ => false end); reflexivity.
Qed.

Theorem walk_list_calls_frame P P' l st D :
  simple_list l = true -> v_calls st = P ++ D ->
  exists D', v_calls (walk_list l st) = P ++ D' /\
             walk_list l (withc st (P' ++ D)) = withc (walk_list l st) (P' ++ D').
Proof.
  intros Hs Hc.
  assert (H : Rc P P' (walk_list l st) (walk_list l (withc st (P' ++ D)))).
  { apply (walk_list_rel_all (Rc P P')); [| | | | |exact Hs|exists D; auto].
    - intros s s' (D0 & _ & ->). repeat split.
    - intros id c s s' (D0 & E & ->). exists D0. rewrite visit_name_calls, visit_name_withc. auto.
    - intros u s s' (D0 & E & ->). exists D0. split; [exact E|reflexivity].
    - intros c s s' (D0 & E & ->). exists (D0 ++ [c]). unfold add_call at 1. cbn [v_calls]. rewrite E, <- app_assoc.
      split; [reflexivity|]. unfold add_call, withc. cbn [v_frames v_cur v_calls v_todo v_taint v_next v_varargs v_varkwargs v_rev].
      rewrite <- app_assoc. reflexivity.
    - intros x s s' (D0 & E & ->). exists D0. split; [exact E|reflexivity]. }
  destruct H as (D' & E1 & E2). exists D'. auto.
Qed.

(* ------------------------------------------------------------------ *)
(* instance 2: invariants of the wrapper's own frame                    *)

Section Inv.
Variable J : list (N * marker) -> list N -> Prop.     (* names, immutable names *)
Hypothesis J_set : forall id nm im, J nm im -> J (assoc_set id MUnknown nm) (remove_N id im).

Definition Iown (st : vstate) : Prop :=
  exists nm im calls T tn nx sa sk rv,
    st = mkV [mkFrame None nm [] im] 0 calls T tn nx sa sk rv /\ J nm im.

Theorem walk_list_inv l st : simple_list l = true -> Iown st -> Iown (walk_list l st).
Proof.
  intros Hs HI.
  assert (H : (fun s s' => s = s' /\ Iown s) (walk_list l st) (walk_list l st)).
  { apply (walk_list_rel_all (fun s s' => s = s' /\ Iown s)); [| | | | |exact Hs|auto].
    - intros s s' [<- _]. repeat split.
    - intros id c s s' [<- (nm & im & calls & T & tn & nx & sa & sk & rv & -> & HJ)]. split; [reflexivity|].
      unfold visit_name, ns_is_immutable.
      cbn [v_frames v_cur target_of get_frame nth f_nonlocals assoc f_immut].
      destruct (mem id im && match c with Load => true | _ => false end).
      + repeat eexists. exact HJ.
      + unfold ns_set. cbn. repeat eexists. apply J_set. exact HJ.
    - intros u s s' [<- (nm & im & calls & T & tn & nx & sa & sk & rv & -> & HJ)]. split; [reflexivity|].
      repeat eexists. exact HJ.
    - intros c s s' [<- (nm & im & calls & T & tn & nx & sa & sk & rv & -> & HJ)]. split; [reflexivity|].
      repeat eexists. exact HJ.
    - intros x s s' [<- (nm & im & calls & T & tn & nx & sa & sk & rv & -> & HJ)]. split; [reflexivity|].
      repeat eexists. exact HJ. }
  exact (proj2 H).
Qed.
End Inv.

Print Assumptions walk_rel.
Print Assumptions walk_list_calls_frame.
Print Assumptions walk_list_inv.
