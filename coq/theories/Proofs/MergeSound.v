(* MergeSound.v -- C01 for ALL signatures (no size bound), binary and n-ary:
   a pure-positional or pure-keyword call accepted by merge(ss) is accepted by
   every signature of ss.

   Route (DESIGN section 5, C01): the summary invariants of MergeSoundInv.v are
   carried through every stage of the merger, generically in the observed side.
   They are packaged here as a relation [Sum acc s] between a classified result
   and a classified input which is transitive, so it composes along the fold
   [merge_steps] although the intermediate accumulators are never validated
   (they may even carry duplicate names).  MergeSoundBase.v gives the closed
   forms of [accepts] for the two call families.  The only hypotheses are the
   model's own [valid_sig] of the inputs. *)
From Sigtools.Model Require Import Base Bind Roles Algebra Universe.
From Sigtools.Proofs Require Import SmallModel Basics MaskLaws MaskExact MergeNeutral MergeIdem
     MergeSoundBase MergeSoundInv.
From Coq Require Import Lia.

(* The statements were first tested by computation: on all 2704 pairs of
   U(1,{a,b}) here; all pairs of U(2,{a,b}) and all triples of U(1,{a,b}) are
   Proofs/Bounded.v; outside Coq, with the extracted model, the 3.9 million
   pairs of U(3,{a,b,c}) and the 10.6 million triples of U(2,{a,b}) (both call
   families, and all non-colliding calls of role-consistent inputs). *)
Definition pure_pretest (ss : list (list param)) : bool :=
  match merge (map mk ss) with
  | Ok r => match sound_pure_cex (params r) ss with None => true | Some _ => false end
  | Err _ => true
  end.
Example pretest_pairs_U1 :
  forallb (fun a => forallb (fun b => pure_pretest [a; b]) U1ab) U1ab = true.
Proof. vm_compute. reflexivity. Qed.

(* ------------------------------------------------------------------ *)
(* the summary relation: A (a result) is at least as demanding as S      *)

Definition Pz (S : sorted) : list param := posargs S ++ pokargs S.

Record Sum (A S : sorted) : Prop := mkSum {
  u_va : isSome (varargs A) = true -> isSome (varargs S) = true;
  u_vk : isSome (varkwargs A) = true -> isSome (varkwargs S) = true;
  (* required positionals of S are matched by required positionals of A, or A
     has a required keyword-only parameter *)
  u_p1 : (nreq (Pz S) <= nreq (Pz A))%nat \/ exists q, In q (kwoargs A) /\ has_def q = false;
  (* #positional of A <= #positional of S, or S has star-args *)
  u_p3 : (length (Pz A) <= length (Pz S))%nat \/ isSome (varargs S) = true;
  (* a required positional of S is demanded by A: by a required positional-only
     parameter, or under the same name as positional-or-keyword / keyword-only *)
  u_k : forall p, In p (Pz S) -> has_def p = false ->
        (exists q, In q (Pz A) /\ has_def q = false /\
                   (pkind q = PO \/ (pkind p = PK /\ pname q = pname p)))
        \/ (pkind p = PK /\ exists q, In q (kwoargs A) /\ has_def q = false /\ pname q = pname p);
  (* every PK / KO name of A is a PK / KO name of S, or S has star-kwargs *)
  u_c : forall q, (In q (Pz A) /\ pkind q = PK) \/ In q (kwoargs A) ->
        In (pname q) (names_of (pokargs S ++ kwoargs S)) \/ isSome (varkwargs S) = true;
  (* a required keyword-only parameter of S is a required keyword-only one of A *)
  u_ko : forall p, In p (kwoargs S) -> has_def p = false ->
        exists q, In q (kwoargs A) /\ has_def q = false /\ pname q = pname p
}.

Lemma Sum_refl S : kinds_ok S -> Sum S S.
Proof.
  intros (K1 & K2 & _ & _ & _). rewrite Forall_forall in K1, K2. constructor.
  - auto.
  - auto.
  - left. lia.
  - left. lia.
  - intros p Hp Hd. left. exists p. split; [exact Hp|]. split; [exact Hd|].
    unfold Pz in Hp. apply in_app_or in Hp. destruct Hp as [Hp|Hp]; [left; auto|right; auto].
  - intros q [[Hq Hk]|Hq]; left; rewrite names_app; apply in_or_app.
    + left. unfold Pz in Hq. apply in_app_or in Hq. destruct Hq as [Hq|Hq]; [|apply in_names; exact Hq].
      rewrite (K1 q Hq) in Hk. discriminate.
    + right. apply in_names. exact Hq.
  - intros p Hp Hd. exists p. auto.
Qed.

Lemma Sum_trans A B C : kinds_ok B -> Sum A B -> Sum B C -> Sum A C.
Proof.
  intros (K1 & K2 & _ & _ & _) [a1 a2 a3 a4 a5 a6 a7] [b1 b2 b3 b4 b5 b6 b7].
  rewrite Forall_forall in K1, K2. constructor.
  - auto.
  - auto.
  - destruct a3 as [a3|a3]; [|right; exact a3]. destruct b3 as [b3|[q [Hq Hd]]]; [left; lia|].
    right. destruct (a7 q Hq Hd) as [q' [Hq' [Hd' _]]]. exists q'. auto.
  - destruct b4 as [b4|b4]; [|right; exact b4]. destruct a4 as [a4|a4]; [left; lia|right; auto].
  - intros p Hp Hd. destruct (b5 p Hp Hd) as [[q [Hq [Hqd Hqk]]]|[Hpk [q [Hq [Hqd Hqn]]]]].
    + destruct (a5 q Hq Hqd) as [[q' [Hq' [Hqd' Hqk']]]|[Hqpk [q' [Hq' [Hqd' Hqn']]]]].
      * left. exists q'. split; [exact Hq'|]. split; [exact Hqd'|].
        destruct Hqk' as [Hpo|[Hqpk Hn]]; [left; exact Hpo|].
        destruct Hqk as [Hqpo|[Hpk Hn']]; [congruence|]. right. split; [exact Hpk|congruence].
      * destruct Hqk as [Hqpo|[Hpk Hn']]; [congruence|].
        right. split; [exact Hpk|]. exists q'. split; [exact Hq'|]. split; [exact Hqd'|congruence].
    + right. split; [exact Hpk|]. destruct (a7 q Hq Hqd) as [q' [Hq' [Hqd' Hqn']]].
      exists q'. split; [exact Hq'|]. split; [exact Hqd'|congruence].
  - intros q Hq. destruct (a6 q Hq) as [Hn|Hv]; [|right; auto].
    rewrite names_app in Hn. apply in_app_or in Hn. destruct Hn as [Hn|Hn].
    + apply names_in in Hn. destruct Hn as [q1 [Hq1 En]]. rewrite <- En. apply b6. left.
      split; [unfold Pz; apply in_or_app; right; exact Hq1|apply K2; exact Hq1].
    + apply names_in in Hn. destruct Hn as [q1 [Hq1 En]]. rewrite <- En. apply b6. right. exact Hq1.
  - intros p Hp Hd. destruct (b7 p Hp Hd) as [q [Hq [Hqd Hqn]]].
    destruct (a7 q Hq Hqd) as [q' [Hq' [Hqd' Hqn']]]. exists q'. split; [exact Hq'|]. split; [exact Hqd'|congruence].
Qed.

(* ------------------------------------------------------------------ *)
(* what every accumulator of the fold satisfies                         *)

Definition Qacc (S : sorted) : Prop :=
  kinds_ok S /\ NoDup (names_of (pokargs S ++ kwoargs S)).

(* one merger step: both operands are summarised by the result, and the result
   can be the accumulator of the next step *)
Theorem merger_Sum l r res :
  Qacc l -> Qacc r -> merger l r = Ok res ->
  Sum res l /\ Sum res r /\ Qacc res.
Proof.
  intros [Kl Nl] [Kr Nr] Hm.
  destruct (merger_summary l r Kl Kr Nl Nr res Hm)
    as ((st & E1 & E2 & E3 & Eva & Evk & _ & _ & _ & HS & HR) & Kres & Nres).
  assert (G : forall o, Sum res (my l r o)).
  { intros o. destruct (HS o) as [S1 S3 Sk Sc _]. unfold Pz. rewrite ?E1, ?E2, ?E3.
    constructor; unfold Pz; rewrite ?E1, ?E2, ?E3; fold (RP st); auto.
    - rewrite Eva. intros H. apply andb_true_iff in H. destruct o; cbn [my]; tauto.
    - rewrite Evk. intros H. apply andb_true_iff in H. destruct o; cbn [my]; tauto.
    - exact (HR o). }
  split; [exact (G L)|]. split; [exact (G R)|]. split; assumption.
Qed.

(* ------------------------------------------------------------------ *)
(* from the summary to acceptance                                       *)

Lemma has_def_contra (qs : list param) q :
  forallb has_def qs = true -> In q qs -> has_def q = false -> False.
Proof. intros H Hq Hd. rewrite forallb_forall in H. rewrite (H q Hq) in Hd. discriminate. Qed.

(* pure-positional calls *)
Theorem sum_sound_pos A S n :
  wk A -> wk S -> mono false (Pz S) = true -> Sum A S ->
  accepts (flatten A) (mkCall n []) = true -> accepts (flatten S) (mkCall n []) = true.
Proof.
  intros WA WS Hmono [Uva _ U1 U3 _ _ Uko] H.
  rewrite (accepts_pos_closed A n WA) in H. rewrite (accepts_pos_closed S n WS).
  fold (Pz A) in H. fold (Pz S).
  apply andb_true_iff in H. destruct H as [H H3]. apply andb_true_iff in H. destruct H as [H1 H2].
  assert (Hn : (nreq (Pz S) <= n)%nat).
  { destruct U1 as [U1|[q [Hq Hd]]]; [|exfalso; exact (has_def_contra _ q H3 Hq Hd)].
    pose proof (skipn_all_def_nreq _ _ H2). lia. }
  apply andb_true_iff. split; [apply andb_true_iff; split|].
  - apply orb_true_iff in H1. apply orb_true_iff. destruct H1 as [H1|H1].
    + destruct U3 as [U3|U3]; [|right; exact U3]. left. apply Nat.leb_le. apply Nat.leb_le in H1. lia.
    + right. auto.
  - apply mono_skipn; assumption.
  - apply forallb_forall. intros p Hp. destruct (has_def p) eqn:Hd; [reflexivity|].
    destruct (Uko p Hp Hd) as [q [Hq [Hqd _]]]. exfalso. exact (has_def_contra _ q H3 Hq Hqd).
Qed.

(* pure-keyword calls *)
Theorem sum_sound_kw A S ks :
  wk A -> kinds_ok S -> NoDup (names_of (posargs S ++ pokargs S ++ kwoargs S)) -> Sum A S ->
  accepts (flatten A) (mkCall 0 ks) = true -> accepts (flatten S) (mkCall 0 ks) = true.
Proof.
  intros WA KS NS [_ Uvk _ _ Uk Uc Uko] H. pose proof (kinds_ok_wk S KS) as WS.
  rewrite (accepts_kw_closed A ks WA) in H. rewrite (accepts_kw_closed S ks WS).
  fold (Pz A) in H. fold (Pz S).
  apply andb_true_iff in H. destruct H as [H H3]. apply andb_true_iff in H. destruct H as [H1 H2].
  rewrite forallb_forall in H1, H2, H3.
  assert (Hc : forall q, (In q (Pz A) /\ pkind q = PK) \/ In q (kwoargs A) ->
             isSome (varkwargs S) = true \/
             (exists q', In q' (posargs S ++ pokargs S) /\ pkind q' = PK /\ pname q' = pname q) \/
             In (pname q) (names_of (kwoargs S))).
  { intros q Hq. destruct (Uc q Hq) as [Hk|Hv]; [|left; exact Hv]. right.
    rewrite names_app in Hk. apply in_app_or in Hk. destruct Hk as [Hk|Hk]; [left|right; exact Hk].
    apply names_in in Hk. destruct Hk as [q' [Hq' En]]. exists q'.
    split; [apply in_or_app; right; exact Hq'|]. split; [|exact En].
    destruct KS as (_ & K2 & _). rewrite Forall_forall in K2. apply K2. exact Hq'. }
  apply andb_true_iff. split; [apply andb_true_iff; split|].
  - apply forallb_forall. intros k Hk. apply (kw_ok_zero_intro S k WS NS).
    destruct (kw_ok_zero_inv A k WA (H1 k Hk)) as [Hv|[[q [Hq [Hqk Hqn]]]|Hn]].
    + left. auto.
    + rewrite <- Hqn. apply Hc. left. auto.
    + apply names_in in Hn. destruct Hn as [q [Hq <-]]. apply Hc. right. exact Hq.
  - apply forallb_forall. intros p Hp. destruct (has_def p) eqn:Hd; [reflexivity|]. cbn [orb].
    destruct (Uk p Hp Hd) as [[q [Hq [Hqd Hqk]]]|[Hpk [q [Hq [Hqd Hqn]]]]].
    + pose proof (H2 q Hq) as X. rewrite Hqd in X. cbn [orb] in X.
      apply andb_true_iff in X. destruct X as [X1 X2].
      destruct Hqk as [Hpo|[Hpk Hn]].
      * unfold is_kind in X1. rewrite Hpo in X1. discriminate.
      * unfold is_kind. rewrite Hpk, <- Hn. exact X2.
    + pose proof (H3 q Hq) as X. rewrite Hqd in X. cbn [orb] in X.
      unfold is_kind. rewrite Hpk, <- Hqn. exact X.
  - apply forallb_forall. intros p Hp. destruct (has_def p) eqn:Hd; [reflexivity|]. cbn [orb].
    destruct (Uko p Hp Hd) as [q [Hq [Hqd Hqn]]].
    pose proof (H3 q Hq) as X. rewrite Hqd in X. cbn [orb] in X. rewrite <- Hqn. exact X.
Qed.

(* ------------------------------------------------------------------ *)
(* from valid signatures to classified ones                             *)

Lemma nodup_drop_mid {A} (x y z : list A) : NoDup (x ++ y ++ z) -> NoDup (x ++ z).
Proof.
  induction y as [|a y IH]; intros H; [exact H|]. apply IH.
  cbn [app] in H. apply NoDup_remove_1 in H. exact H.
Qed.

Lemma valid_sig_validate ps : valid_sig ps = true -> validate ps = true.
Proof.
  unfold valid_sig. intros H. apply andb_true_iff in H. destruct H as [H _].
  apply andb_true_iff in H. tauto.
Qed.

Lemma sorted_named_nodup s :
  valid_sig (params s) = true ->
  NoDup (names_of (posargs (sort_params s) ++ pokargs (sort_params s) ++ kwoargs (sort_params s))).
Proof.
  intros Hv. pose proof (sort_flatten_roundtrip s Hv) as Hf.
  pose proof (validate_nodup _ (valid_sig_validate _ Hv)) as Hn. rewrite <- Hf in Hn.
  set (so := sort_params s) in *.
  unfold flatten in Hn. rewrite !names_app in Hn. rewrite !names_app.
  (* drop the two star entries *)
  rewrite !app_assoc in Hn. apply nodup_app_l in Hn. rewrite <- !app_assoc in Hn.
  rewrite (app_assoc (names_of (posargs so))) in Hn. apply nodup_drop_mid in Hn.
  rewrite <- app_assoc in Hn. exact Hn.
Qed.

Lemma sorted_Qacc s : valid_sig (params s) = true -> Qacc (sort_params s).
Proof.
  intros Hv. split; [apply sort_params_kinds|].
  pose proof (sorted_named_nodup s Hv) as H. rewrite names_app in H. apply nodup_app_r in H. exact H.
Qed.

Lemma sorted_mono s :
  valid_sig (params s) = true -> mono false (Pz (sort_params s)) = true.
Proof.
  intros Hv. pose proof (validate_mono _ (valid_sig_validate _ Hv)) as H.
  rewrite <- (sort_flatten_roundtrip s Hv) in H.
  rewrite (flat_positional _ (kinds_ok_wk _ (sort_params_kinds s))) in H. exact H.
Qed.

(* a call of either family accepted by a classified result summarising the
   valid signature s is accepted by s *)
Lemma sum_sound A s c :
  wk A -> valid_sig (params s) = true -> Sum A (sort_params s) ->
  (kws c = [] \/ npos c = 0%nat) ->
  accepts (flatten A) c = true -> accepts (params s) c = true.
Proof.
  intros WA Hv HS Hp Hc. rewrite <- (sort_flatten_roundtrip s Hv).
  destruct c as [n ks]. cbn [kws npos] in Hp. destruct Hp as [-> | ->].
  - apply (sum_sound_pos A (sort_params s) n WA (kinds_ok_wk _ (sort_params_kinds s)) (sorted_mono s Hv) HS Hc).
  - apply (sum_sound_kw A (sort_params s) ks WA (sort_params_kinds s) (sorted_named_nodup s Hv) HS Hc).
Qed.

(* ------------------------------------------------------------------ *)
(* the n-ary fold                                                       *)

Definition valid_s (s : sigT) : Prop := valid_sig (params s) = true.

Lemma to_incompatible_ok {A} (x : res A) a : to_incompatible x = Ok a -> x = Ok a.
Proof. destruct x as [y|[| |t]]; cbn; intros H; inversion H; reflexivity. Qed.

Lemma merge_steps_Sum ss : forall acc accN,
  Qacc acc -> Forall valid_s ss -> merge_steps acc ss = Ok accN ->
  Qacc accN /\ Sum accN acc /\ Forall (fun s => Sum accN (sort_params s)) ss.
Proof.
  induction ss as [|s ss IH]; intros acc accN Q Hv E.
  - cbn [merge_steps] in E. inversion E; subst accN. split; [exact Q|]. split; [|constructor].
    apply Sum_refl. apply Q.
  - cbn [merge_steps] in E. apply bind_ok in E. destruct E as [acc1 [E1 E2]].
    apply to_incompatible_ok in E1. inversion Hv as [|? ? Hs Hv']; subst.
    destruct (merger_Sum acc (sort_params s) acc1 Q (sorted_Qacc s Hs) E1) as (S1 & S2 & Q1).
    destruct (IH acc1 accN Q1 Hv' E2) as (QN & SN & FN).
    split; [exact QN|]. split; [exact (Sum_trans _ _ _ (proj1 Q1) SN S1)|].
    constructor; [exact (Sum_trans _ _ _ (proj1 Q1) SN S2)|exact FN].
Qed.

(* C01_pos_kw (DESIGN section 5): every signature list, every call of the two
   pure families *)
Theorem merge_sound_pos_kw ss r c :
  Forall (fun s => valid_sig (params s) = true) ss ->
  merge ss = Ok r ->
  (kws c = [] \/ npos c = 0%nat) ->
  accepts (params r) c = true ->
  Forall (fun s => accepts (params s) c = true) ss.
Proof.
  intros Hv Hm Hp Hc. destruct ss as [|s0 ss]; [constructor|].
  cbn [merge] in Hm. apply bind_ok in Hm. destruct Hm as [accN [E1 E2]].
  inversion Hv as [|? ? Hs0 Hv']; subst.
  destruct (merge_steps_Sum ss (sort_params s0) accN (sorted_Qacc s0 Hs0) Hv' E1) as (QN & SN & FN).
  assert (Hr : params r = flatten accN).
  { unfold apply_params in E2. destruct (validate (flatten accN)); inversion E2; reflexivity. }
  rewrite Hr in Hc. pose proof (kinds_ok_wk _ (proj1 QN)) as WN.
  constructor.
  - exact (sum_sound accN s0 c WN Hs0 SN Hp Hc).
  - rewrite Forall_forall in *. intros s Hs.
    exact (sum_sound accN s c WN (Hv' s Hs) (FN s Hs) Hp Hc).
Qed.

(* the binary case, in the shape asked for *)
Theorem merge2_sound_pos_kw a b r c :
  valid_sig (params a) = true -> valid_sig (params b) = true ->
  merge [a; b] = Ok r ->
  (kws c = [] \/ npos c = 0%nat) ->
  accepts (params r) c = true ->
  accepts (params a) c = true /\ accepts (params b) c = true.
Proof.
  intros Va Vb Hm Hp Hc.
  assert (Hv : Forall (fun s => valid_sig (params s) = true) [a; b]) by (repeat constructor; assumption).
  pose proof (merge_sound_pos_kw [a; b] r c Hv Hm Hp Hc) as H.
  inversion H as [|? ? Ha H']; subst. inversion H' as [|? ? Hb _]; subst. auto.
Qed.

(* the statement in the shape of Props/C01.v (C01_sound_pairs_U2, first clause)
   without the universe membership: parameter lists a b, signatures built as
   [Universe.mk] does *)
Corollary C01_pos_kw_pairs (a b : list param) r :
  valid_sig a = true -> valid_sig b = true ->
  merge [mkSig a None UEmpty [] []; mkSig b None UEmpty [] []] = Ok r ->
  forall c, (npos c = 0%nat \/ kws c = []) -> accepts (params r) c = true ->
            accepts a c = true /\ accepts b c = true.
Proof.
  intros Va Vb Hm c Hp Hc.
  apply (merge2_sound_pos_kw (mkSig a None UEmpty [] []) (mkSig b None UEmpty [] []) r c); auto. tauto.
Qed.

(* ... and of C01_sound_triples_U1 (first clause), for any number of inputs *)
Corollary C01_pos_kw_fold (ss : list (list param)) r :
  Forall (fun s => valid_sig s = true) ss ->
  merge (map (fun ps => mkSig ps None UEmpty [] []) ss) = Ok r ->
  forall c, (npos c = 0%nat \/ kws c = []) -> accepts (params r) c = true ->
            forallb (fun s => accepts s c) ss = true.
Proof.
  intros Hv Hm c Hp Hc.
  assert (Hv' : Forall (fun s => valid_sig (params s) = true) (map (fun ps => mkSig ps None UEmpty [] []) ss)).
  { rewrite Forall_map. exact Hv. }
  assert (Hp' : kws c = [] \/ npos c = 0%nat) by tauto.
  pose proof (merge_sound_pos_kw _ r c Hv' Hm Hp' Hc) as H. rewrite Forall_map in H. cbn [params] in H.
  apply forallb_forall. rewrite Forall_forall in H. exact H.
Qed.

(* merge(merge(...(a, b)...), z) through the public function: every intermediate
   result is validated, and valid again *)
Lemma merge_valid ss r :
  Forall (fun s => valid_sig (params s) = true) ss -> merge ss = Ok r -> valid_sig (params r) = true.
Proof.
  intros Hv Hm. destruct ss as [|s0 ss]; [discriminate|].
  pose proof (merge_wf _ _ Hm) as Hval.
  cbn [merge] in Hm. apply bind_ok in Hm. destruct Hm as [accN [E1 E2]].
  inversion Hv as [|? ? Hs0 Hv']; subst.
  destruct (merge_steps_Sum ss (sort_params s0) accN (sorted_Qacc s0 Hs0) Hv' E1) as (QN & _ & _).
  assert (Hr : params r = flatten accN).
  { unfold apply_params in E2. destruct (validate (flatten accN)); inversion E2; reflexivity. }
  pose proof (kinds_ok_wk _ (proj1 QN)) as (W1 & W2 & W3 & W4).
  unfold valid_sig. rewrite Hval. cbn [andb]. rewrite Hr.
  assert (Hopt : forall (f : param -> bool) o, (length (filter f (opt_list o)) <= 1)%nat).
  { intros f o. destruct o as [x|]; cbn [opt_list filter length]; [destruct (f x); cbn; lia|lia]. }
  assert (Hcount : forall k, (k = VP \/ k = VK) -> (count_kind k (flatten accN) <= 1)%nat).
  { intros k Hk. unfold count_kind. rewrite flatten_regroup.
    remember (posargs accN ++ pokargs accN) as P. rewrite !filter_app, !app_length.
    rewrite (filter_none _ P), (filter_none _ (kwoargs accN)).
    - cbn [length]. destruct Hk as [-> | ->].
      + rewrite (filter_none _ (opt_list (varkwargs accN))).
        * cbn [length]. pose proof (Hopt (is_kind VP) (varargs accN)). lia.
        * intros q Hq. apply opt_list_in in Hq. unfold is_kind. rewrite (W4 q Hq). reflexivity.
      + rewrite (filter_none _ (opt_list (varargs accN))).
        * cbn [length]. pose proof (Hopt (is_kind VK) (varkwargs accN)). lia.
        * intros q Hq. apply opt_list_in in Hq. unfold is_kind. rewrite (W3 q Hq). reflexivity.
    - intros q Hq. unfold is_kind. rewrite (W2 q Hq). destruct Hk as [-> | ->]; reflexivity.
    - intros q Hq. subst P. apply is_kind_positional; [apply W1; exact Hq|tauto]. }
  rewrite (proj2 (Nat.leb_le _ _) (Hcount VP (or_introl eq_refl))).
  rewrite (proj2 (Nat.leb_le _ _) (Hcount VK (or_intror eq_refl))). reflexivity.
Qed.

Lemma merge_nested_from_sound ss : forall acc r c,
  valid_sig (params acc) = true -> Forall (fun s => valid_sig (params s) = true) ss ->
  merge_nested_from acc ss = Ok r ->
  (kws c = [] \/ npos c = 0%nat) -> accepts (params r) c = true ->
  accepts (params acc) c = true /\ Forall (fun s => accepts (params s) c = true) ss.
Proof.
  induction ss as [|s ss IH]; intros acc r c Va Hv E Hp Hc.
  - cbn [merge_nested_from] in E. inversion E; subst r. auto.
  - cbn [merge_nested_from] in E. apply bind_ok in E. destruct E as [acc1 [E1 E2]].
    inversion Hv as [|? ? Hs Hv']; subst.
    assert (Hv2 : Forall (fun s => valid_sig (params s) = true) [acc; s]) by (repeat constructor; assumption).
    pose proof (merge_valid _ _ Hv2 E1) as Va1.
    destruct (IH acc1 r c Va1 Hv' E2 Hp Hc) as [H1 H2].
    destruct (merge2_sound_pos_kw acc s acc1 c Va Hs E1 Hp H1) as [H3 H4].
    split; [exact H3|constructor; assumption].
Qed.

Theorem merge_nested_sound_pos_kw ss r c :
  Forall (fun s => valid_sig (params s) = true) ss ->
  merge_nested ss = Ok r ->
  (kws c = [] \/ npos c = 0%nat) ->
  accepts (params r) c = true ->
  Forall (fun s => accepts (params s) c = true) ss.
Proof.
  intros Hv E Hp Hc. destruct ss as [|s0 ss]; [constructor|].
  inversion Hv as [|? ? Hs0 Hv']; subst. cbn [merge_nested] in E.
  destruct (merge_nested_from_sound ss s0 r c Hs0 Hv' E Hp Hc). constructor; assumption.
Qed.

(* the hypotheses are satisfiable on non-trivial inputs: (x, /, y=1, *, z=1) and
   (u, y=2, *args, **kw) merge to a signature accepting calls of both families;
   a triple whose intermediate accumulator (b, /, *, b=, **kw) is NOT a valid
   signature still merges, and the theorem covers it *)
Example merge_sound_nonvacuous :
  let a := mkSig [mkParam 1 PO None None UEmpty; mkParam 2 PK (Some 1) None UEmpty;
                  mkParam 3 KO (Some 1) None UEmpty] None UEmpty [] [] in
  let b := mkSig [mkParam 4 PK None None UEmpty; mkParam 2 PK (Some 2) None UEmpty;
                  mkParam 9 VP None None UEmpty; mkParam 10 VK None None UEmpty] None UEmpty [] [] in
  valid_sig (params a) = true /\ valid_sig (params b) = true /\
  exists r, merge [a; b] = Ok r /\
            accepts (params r) (mkCall 2 []) = true /\ accepts (params r) (mkCall 1 []) = true /\
            accepts (params r) (mkCall 0 [2]) = false /\
            params r = [mkParam 1 PO None None UEmpty; mkParam 2 PK (Some 0) None UEmpty;
                        mkParam 3 KO (Some 1) None UEmpty].
Proof. vm_compute. repeat split. eexists. repeat split. Qed.

Example merge_sound_invalid_intermediate :
  let a := mkSig [mkParam 2 PK None None UEmpty; mkParam 10 VK None None UEmpty] None UEmpty [] [] in
  let b := mkSig [mkParam 1 PK None None UEmpty; mkParam 2 KO (Some 1) None UEmpty;
                  mkParam 10 VK None None UEmpty] None UEmpty [] [] in
  let c := mkSig [mkParam 3 PK None None UEmpty] None UEmpty [] [] in
  Forall (fun s => valid_sig (params s) = true) [a; b; c] /\
  (exists acc, merger (sort_params a) (sort_params b) = Ok acc /\ validate (flatten acc) = false) /\
  exists r, merge [a; b; c] = Ok r /\ params r = [mkParam 2 PO None None UEmpty] /\
            accepts (params r) (mkCall 1 []) = true.
Proof.
  vm_compute. split; [repeat constructor|]. split; [eexists; split; reflexivity|].
  eexists. repeat split.
Qed.

Print Assumptions merger_Sum.
Print Assumptions sum_sound_pos.
Print Assumptions sum_sound_kw.
Print Assumptions merge_sound_pos_kw.
Print Assumptions merge2_sound_pos_kw.
Print Assumptions C01_pos_kw_pairs.
Print Assumptions C01_pos_kw_fold.
Print Assumptions merge_valid.
Print Assumptions merge_nested_sound_pos_kw.
Print Assumptions merge_sound_nonvacuous.
Print Assumptions merge_sound_invalid_intermediate.
