(* MaskHide.v — C03_hide for ALL valid signatures and all 16 hide-flag sets:
   (1) shape: each hide_* flag removes exactly its class of parameters
       (hide_args: every positional parameter and the star-args parameter;
        hide_kwargs: every keyword-passable parameter and the double-star one,
        the names being ignored; hide_varargs / hide_varkwargs: that star
        parameter), the rest being what the loop over the names leaves;
   (2) soundness: every non-colliding call the result accepts is accepted by the
       signature for some choice of the hidden arguments (any number m of leading
       positionals when hide_args, else n; any extra keyword set K when
       hide_kwargs, else none), in the form of the decider mask_hide_cex. *)
From Sigtools.Model Require Import Base Bind Roles Algebra.
From Sigtools.Proofs Require Import SmallModel Basics MaskLaws MaskExact MergeNeutral
     MaskNamesLib MaskNamesStep MaskNames MaskAlgebra.
From Coq Require Import Lia Permutation.

(* ------------------------------------------------------------------ *)
(* adding a star parameter only adds accepted calls                     *)

Lemma accepts_add_va pos pok va kwo vk c :
  kinds5 pos pok va kwo vk ->
  accepts (blk pos pok None kwo vk) c = true -> accepts (blk pos pok va kwo vk) c = true.
Proof.
  intros HK. destruct c as [m K].
  assert (HK0 : kinds5 pos pok None kwo vk).
  { destruct HK as (H1 & H2 & H3 & H4 & H5). repeat split; auto. discriminate. }
  rewrite (accepts_blk _ _ _ _ _ HK0), (accepts_blk _ _ _ _ _ HK). cbn [isSome]. rewrite orb_false_r.
  intros H. apply andb_true_iff in H. destruct H as [H H4]. apply andb_true_iff in H. destruct H as [H H3].
  apply andb_true_iff in H. destruct H as [H1 H2]. rewrite H1, H2, H3, H4. reflexivity.
Qed.

Lemma kwok5_add_vk P kwo m k b : kwok5 P kwo false m k = true -> kwok5 P kwo b m k = true.
Proof.
  unfold kwok5. destruct (kw_class_pos P m k) as [[]|]; try (intros; assumption); try discriminate.
  destruct (mem k (names_of kwo)); [intros; reflexivity|discriminate].
Qed.

Lemma accepts_add_vk pos pok va kwo vk c :
  kinds5 pos pok va kwo vk ->
  accepts (blk pos pok va kwo None) c = true -> accepts (blk pos pok va kwo vk) c = true.
Proof.
  intros HK. destruct c as [m K].
  assert (HK0 : kinds5 pos pok va kwo None).
  { destruct HK as (H1 & H2 & H3 & H4 & H5). repeat split; auto. discriminate. }
  rewrite (accepts_blk _ _ _ _ _ HK0), (accepts_blk _ _ _ _ _ HK). cbn [isSome].
  intros H. apply andb_true_iff in H. destruct H as [H H4]. apply andb_true_iff in H. destruct H as [H H3].
  apply andb_true_iff in H. destruct H as [H1 H2]. rewrite H1, H3, H4.
  assert (E : forallb (kwok5 (pos ++ pok) kwo (isSome vk) m) K = true).
  { rewrite forallb_forall in *. intros k Hk. apply kwok5_add_vk. exact (H2 k Hk). }
  rewrite E. reflexivity.
Qed.

Lemma names_blk_drop_vk pos pok va kwo vk y :
  In y (names_of (blk pos pok va kwo None)) -> In y (names_of (blk pos pok va kwo vk)).
Proof.
  unfold blk. rewrite !names_of_app. cbn [opt_list]. rewrite names_of_nil, app_nil_r, !in_app_iff. tauto.
Qed.

Lemma req_pos_po_any l : Forall (fun p => pkind p = PO) l ->
  forall t K, req_pos l t [] = true -> req_pos l t K = true.
Proof.
  induction 1 as [|p l Hp Hl IH]; intros t K Hreq; [reflexivity|].
  cbn [req_pos] in *. destruct t as [|t]; [|apply IH; assumption].
  apply andb_true_iff in Hreq. destruct Hreq as [H1 H2]. apply andb_true_iff. split; [|apply IH; assumption].
  unfold is_kind in *. rewrite Hp in *. cbn [kind_eqb kind_rank Nat.eqb andb] in *. exact H1.
Qed.

(* ------------------------------------------------------------------ *)
(* the two ways the hidden leading positionals are chosen                *)

Section Embed.
Variables (s : sigT).
Hypothesis Hv : valid_sig (params s) = true.
Let so := sort_params s.
Let A := posargs so ++ pokargs so.
Let B := rest_of so.

Lemma embed_facts :
  A ++ B = params s /\ all_positional A /\ none_positional B /\ NoDup (names_of (A ++ B)) /\
  kinds5 (posargs so) (pokargs so) (varargs so) (kwoargs so) (varkwargs so).
Proof.
  pose proof (params_AB s Hv) as Hf. destruct (kinds_split s) as [Ha Hb].
  fold (rest_of (sort_params s)) in Hb.
  split; [exact Hf|]. split; [exact Ha|]. split; [exact Hb|]. split.
  - unfold A, B, so. rewrite Hf. apply validate_nodup. apply valid_sig_validate. exact Hv.
  - exact (sort_params_kinds s).
Qed.

(* without hide_args: exactly n leading positionals are hidden *)
Lemma embed_n n va1 m K :
  (n <= length A)%nat \/ has_kind VP B = true ->
  (va1 = varargs so \/ va1 = None) ->
  (forall k, In k K -> ~ In k (names_of (firstn (n - length (posargs so)) (pokargs so)))) ->
  accepts (blk (skipn n (posargs so)) (skipn (n - length (posargs so)) (pokargs so)) va1
               (kwoargs so) (varkwargs so)) (mkCall m K) = true ->
  accepts (params s) (mkCall (n + m) K) = true.
Proof.
  intros Hfit Hva HK Hacc. destruct embed_facts as (Hf & Ha & Hb & Hn & (K1 & K2 & K3 & K4 & K5)).
  assert (Hacc' : accepts (blk (skipn n (posargs so)) (skipn (n - length (posargs so)) (pokargs so))
                               (varargs so) (kwoargs so) (varkwargs so)) (mkCall m K) = true).
  { destruct Hva as [->| ->]; [exact Hacc|]. apply accepts_add_va; [|exact Hacc].
    repeat split; auto using Forall_skipn. }
  assert (E : blk (skipn n (posargs so)) (skipn (n - length (posargs so)) (pokargs so))
                  (varargs so) (kwoargs so) (varkwargs so) = skipn n A ++ B).
  { unfold blk, A, B, rest_of. rewrite skipn_app, <- !app_assoc. reflexivity. }
  rewrite E in Hacc'. rewrite <- Hf.
  rewrite <- (consume_accepts_po A B n m K Ha Hb Hn Hfit); [exact Hacc'|].
  intros k Hk q Hq Eq. unfold A in Hq. rewrite firstn_app in Hq. apply in_app_or in Hq.
  destruct Hq as [Hq|Hq].
  - rewrite Forall_forall in K1. apply K1. rewrite <- (firstn_skipn n (posargs so)).
    apply in_or_app. left. exact Hq.
  - exfalso. apply (HK k Hk). rewrite <- Eq. apply in_names. exact Hq.
Qed.

(* with hide_args: all positional parameters are passed positionally *)
Lemma embed_args m K :
  (forall k, In k K -> ~ In k (names_of (pokargs so))) ->
  accepts (blk [] [] None (kwoargs so) (varkwargs so)) (mkCall m K) = true ->
  accepts (params s) (mkCall (length A + m) K) = true.
Proof.
  intros HK Hacc. destruct embed_facts as (Hf & Ha & Hb & Hn & (K1 & K2 & K3 & K4 & K5)).
  assert (Hacc' : accepts (blk [] [] (varargs so) (kwoargs so) (varkwargs so)) (mkCall m K) = true).
  { apply accepts_add_va; [|exact Hacc]. repeat split; auto. }
  assert (E : blk [] [] (varargs so) (kwoargs so) (varkwargs so) = skipn (length A) A ++ B).
  { rewrite skipn_all. reflexivity. }
  rewrite E in Hacc'. rewrite <- Hf.
  rewrite <- (consume_accepts_po A B (length A) m K Ha Hb Hn (or_introl (le_n _))); [exact Hacc'|].
  intros k Hk q Hq Eq. rewrite firstn_all in Hq. unfold A in Hq. apply in_app_or in Hq.
  destruct Hq as [Hq|Hq].
  - rewrite Forall_forall in K1. apply K1. exact Hq.
  - exfalso. apply (HK k Hk). rewrite <- Eq. apply in_names. exact Hq.
Qed.

(* with hide_kwargs: the remaining positional-or-keyword parameters and all
   keyword-only parameters are passed by keyword *)
Lemma embed_kwargs t :
  (t <= length A)%nat \/ isSome (varargs so) = true ->
  req_pos (posargs so) t [] = true ->
  accepts (params s)
          (mkCall t (names_of (skipn (t - length (posargs so)) (pokargs so)) ++ names_of (kwoargs so))) = true.
Proof.
  intros Har Hreq. destruct embed_facts as (Hf & Ha & Hb & Hn & HK).
  assert (Eb : params s = blk (posargs so) (pokargs so) (varargs so) (kwoargs so) (varkwargs so)).
  { rewrite <- Hf. unfold blk, A, B, rest_of. rewrite <- !app_assoc. reflexivity. }
  rewrite Hf in Hn. rewrite Eb in Hn. rewrite Eb, (accepts_blk _ _ _ _ _ HK). clear Eb.
  destruct HK as (K1 & K2 & K3 & K4 & K5).
  set (PO_ := posargs so) in *. set (PK_ := pokargs so) in *. set (KW := kwoargs so) in *.
  set (j := (t - length PO_)%nat).
  set (K := names_of (skipn j PK_) ++ names_of KW).
  unfold blk in Hn. rewrite !names_of_app in Hn.
  assert (HnPOPK : NoDup (names_of PO_ ++ names_of PK_)).
  { rewrite app_assoc in Hn. apply nodup_app_l in Hn. exact Hn. }
  assert (HnKW : forall k, In k (names_of KW) -> ~ In k (names_of (PO_ ++ PK_))).
  { intros k Hk X. rewrite names_of_app in X. rewrite app_assoc in Hn.
    apply (nodup_app_disjoint _ _ k Hn X). apply in_or_app. right. apply in_or_app. left. exact Hk. }
  apply andb_true_iff. split; [apply andb_true_iff; split; [apply andb_true_iff; split|]|].
  - apply orb_true_iff. destruct Har as [H|H]; [left; apply Nat.leb_le; exact H|right; exact H].
  - apply forallb_forall. intros k Hk. unfold kwok5, K in *. apply in_app_or in Hk. destruct Hk as [Hk|Hk].
    + (* a positional-or-keyword parameter at an index not reached by the t positionals *)
      assert (HkPO : ~ In k (names_of PO_)).
      { intros X. apply (nodup_app_disjoint _ _ k HnPOPK X).
        unfold names_of in *. apply in_map_iff in Hk. destruct Hk as [q [E Hq]]. apply in_map_iff.
        exists q. split; [exact E|]. rewrite <- (firstn_skipn j PK_). apply in_or_app. right. exact Hq. }
      rewrite kw_class_pos_app, (kw_class_pos_foreign _ _ k HkPO). fold j.
      assert (HkF : ~ In k (names_of (firstn j PK_))).
      { intros X. apply nodup_app_r in HnPOPK. rewrite <- (firstn_skipn j PK_), names_of_app in HnPOPK.
        exact (nodup_app_disjoint _ _ k HnPOPK X Hk). }
      assert (E0 : kw_class_pos PK_ j k = kw_class_pos (skipn j PK_) 0 k).
      { rewrite (kw_class_pos_skip PK_ j 0 k HkF), Nat.add_0_r. reflexivity. }
      rewrite E0.
      rewrite (kw_class_pos_pk_zero (skipn j PK_) k (Forall_skipn _ j _ K2)).
      assert (Em : mem k (names_of (skipn j PK_)) = true) by (apply mem_In; exact Hk). rewrite Em. reflexivity.
    + rewrite (kw_class_pos_foreign _ _ k (HnKW k Hk)).
      assert (Em : mem k (names_of KW) = true) by (apply mem_In; exact Hk). rewrite Em. reflexivity.
  - rewrite req_pos_app. fold j. apply andb_true_iff. split.
    + apply (req_pos_po_any _ K1). exact Hreq.
    + assert (G : forall l i, Forall (fun p => pkind p = PK) l ->
                    (forall q, In q (skipn i l) -> mem (pname q) K = true) -> req_pos l i K = true).
      { induction l as [|p l IH]; intros i Hl Hq; [reflexivity|]. cbn [req_pos].
        inversion Hl as [|? ? Hp Hl']; subst. destruct i as [|i]; [|apply IH; [exact Hl'|exact Hq]].
        apply andb_true_iff. split.
        - unfold is_kind. rewrite Hp. cbn [kind_eqb kind_rank Nat.eqb andb].
          rewrite (Hq p (or_introl eq_refl)). apply orb_true_r.
        - apply (IH 0%nat Hl'). intros q Hin. apply Hq. right. exact Hin. }
      apply (G PK_ j K2). intros q Hq. apply mem_In. unfold K. apply in_or_app. left. apply in_names. exact Hq.
  - apply forallb_forall. intros p Hp. unfold reqk.
    assert (Em : mem (pname p) K = true).
    { apply mem_In. unfold K. apply in_or_app. right. apply in_names. exact Hp. }
    rewrite Em. apply orb_true_r.
Qed.
End Embed.

(* ------------------------------------------------------------------ *)
(* soundness, names processed (hide_kwargs off)                         *)

Definition hidden_pos (ha : bool) (n m' : nat) : Prop := ha = false -> m' = n.

Lemma hide_core s n ha pos1 pok1 va1 vk3 bound src names0 :
  KInv pos1 (varkwargs (sort_params s)) (mkK pok1 va1 (kwoargs (sort_params s)) src bound) ->
  (vk3 = varkwargs (sort_params s) \/ vk3 = None) -> NoDup names0 ->
  (forall k, In k bound ->
     ~ In k (names_of (blk pos1 pok1 va1 (kwoargs (sort_params s)) (varkwargs (sort_params s))))) ->
  (forall k, In k bound -> In k (names_of (params s))) ->
  (forall m K, (forall k, In k K -> ~ In k bound) ->
      accepts (blk pos1 pok1 va1 (kwoargs (sort_params s)) (varkwargs (sort_params s))) (mkCall m K) = true ->
      exists m', hidden_pos ha n m' /\ accepts (params s) (mkCall (m' + m) K) = true) ->
  forall stf,
    mask_names None (isSome (varkwargs (sort_params s)))
               (mkK pok1 va1 (kwoargs (sort_params s)) src bound) (map (fun x => (x, 0)) names0) = Ok stf ->
    validate (kps pos1 vk3 stf) = true /\
    forall c, disjointb (kws c) names0 = true ->
              noncolliding c (kps pos1 vk3 stf) [params s] = true ->
              accepts (kps pos1 vk3 stf) c = true ->
              exists m', hidden_pos ha n m' /\
                         accepts (params s) (mkCall (m' + npos c) (names0 ++ kws c)) = true.
Proof.
  intros Hinv Hvk3 Hnd D2 D1 E stf Hok.
  set (vk := varkwargs (sort_params s)) in *. set (kwo := kwoargs (sort_params s)) in *.
  set (st0 := mkK pok1 va1 kwo src bound).
  pose proof (map_fst_pair (fun _ => 0) names0) as Emap.
  destruct (existsb (fun x => mem x bound) names0) eqn:Hex.
  - apply existsb_exists in Hex. destruct Hex as [x [Hx Hxc]]. apply mem_In in Hxc.
    unfold st0 in *. rewrite (mask_names_consumed_err None _ (map (fun x => (x, 0)) names0) _ x) in Hok;
      [discriminate| |exact Hxc].
    rewrite Emap. exact Hx.
  - assert (Hnc0 : forall x, In x names0 -> ~ In x bound).
    { intros x Hx Hin. apply mem_In in Hin.
      assert (X : existsb (fun x => mem x bound) names0 = true)
        by (apply existsb_exists; exists x; split; assumption).
      rewrite X in Hex. discriminate. }
    assert (Hnd' : NoDup (map fst (map (fun x => (x, 0)) names0))) by (rewrite Emap; exact Hnd).
    assert (Hnc0' : forall x, In x (map fst (map (fun x => (x, 0)) names0)) -> ~ In x (k_consumed st0))
      by (rewrite Emap; exact Hnc0).
    pose proof (mask_names_chain None (isSome vk) pos1 vk (map (fun x => (x, 0)) names0) st0 Hinv eq_refl
                                 Hnd' Hnc0' (fun H => False_ind _ (H eq_refl))) as Hch.
    unfold st0 in Hch. rewrite Hok in Hch.
    destruct Hch as (Hinvf & Hnmf & Haccf). rewrite Emap in Hnmf, Haccf.
    pose proof (KInv_vk3 _ _ _ vk3 Hinvf Hvk3) as Hinv3.
    split; [exact (KInv_validate _ _ _ Hinv3)|]. intros [m K] Hd Hnc Hacc. cbn [npos kws] in *.
    assert (Hsub : forall y, In y (names_of (kps pos1 vk3 stf)) -> In y (names_of (kps pos1 vk stf))).
    { destruct Hvk3 as [->| ->]; [auto|]. intros y. unfold kps. apply names_blk_drop_vk. }
    assert (Hacc' : accepts (kps pos1 vk stf) (mkCall m K) = true).
    { destruct Hvk3 as [->| ->]; [exact Hacc|]. unfold kps in *. apply accepts_add_vk; [|exact Hacc].
      destruct Hinvf as (HK & _). exact HK. }
    assert (HdK : forall x, In x names0 -> ~ In x K).
    { intros x Hx Hin. unfold disjointb in Hd. rewrite forallb_forall in Hd.
      specialize (Hd x Hin). apply negb_true_iff in Hd. apply mem_false_In in Hd. exact (Hd Hx). }
    rewrite (Haccf m K (fun _ => HdK)) in Hacc'.
    apply (E m (names0 ++ K)); [|exact Hacc'].
    intros k Hk. apply in_app_or in Hk. destruct Hk as [Hk|Hk]; [exact (Hnc0 k Hk)|].
    intros Hb. unfold noncolliding in Hnc. rewrite forallb_forall in Hnc. specialize (Hnc k Hk).
    apply orb_true_iff in Hnc. destruct Hnc as [Hkw|Hfor].
    + apply kwpassable_name_In in Hkw. apply Hsub in Hkw.
      destruct (Hnmf k Hkw) as [H0|[H0 _]]; [|exact (H0 eq_refl)].
      exact (D2 k Hb H0).
    + apply negb_true_iff in Hfor. apply mem_false_In in Hfor. apply Hfor.
      unfold all_names. cbn [flat_map]. rewrite app_nil_r. exact (D1 k Hb).
Qed.

(* ------------------------------------------------------------------ *)
(* soundness, hide_kwargs on: the result has positional-only parameters
   and possibly the star-args parameter only                             *)

Lemma accepts_posonly pos va m K :
  Forall (fun p => pkind p = PO) pos -> (forall v, va = Some v -> pkind v = VP) ->
  accepts (blk pos [] va [] None) (mkCall m K) = true ->
  K = [] /\ ((m <= length pos)%nat \/ isSome va = true) /\ req_pos pos m [] = true.
Proof.
  intros Hp Hva H.
  assert (HK : kinds5 pos [] va [] None) by (repeat split; auto; discriminate).
  rewrite (accepts_blk _ _ _ _ _ HK) in H. rewrite app_nil_r in H. cbn [isSome] in H.
  apply andb_true_iff in H. destruct H as [H _]. apply andb_true_iff in H. destruct H as [H H3].
  apply andb_true_iff in H. destruct H as [H1 H2].
  assert (EK : K = []).
  { destruct K as [|k K]; [reflexivity|]. cbn [forallb] in H2. apply andb_true_iff in H2. destruct H2 as [H2 _].
    unfold kwok5 in H2. cbn [names_of map mem] in H2.
    destruct (kw_class_pos_po pos m k Hp) as [E|E]; rewrite E in H2; discriminate. }
  subst K. split; [reflexivity|]. split; [|exact H3].
  apply orb_true_iff in H1. destruct H1 as [H1|H1]; [left; apply Nat.leb_le; exact H1|right; exact H1].
Qed.

Lemma disjointb_nil_r K : disjointb K [] = true.
Proof. unfold disjointb. induction K; cbn; auto. Qed.

(* the arity test of _mask *)
Definition fits (s : sigT) (n : nat) : Prop :=
  (n <= length (posargs (sort_params s) ++ pokargs (sort_params s)))%nat
  \/ has_kind VP (rest_of (sort_params s)) = true.

Lemma fits_of_check s n :
  Nat.ltb (length (posargs (sort_params s) ++ pokargs (sort_params s))) n
  && negb (isSome (varargs (sort_params s))) = false -> fits s n.
Proof.
  intros Hc. apply andb_false_iff in Hc. destruct Hc as [Hc|Hc].
  - left. apply Nat.ltb_ge in Hc. exact Hc.
  - right. rewrite (has_vp_rest s). apply negb_false_iff in Hc. exact Hc.
Qed.

(* hide_args off *)
Lemma hide_noargs s n va1 vk3 src names0 :
  valid_sig (params s) = true -> NoDup names0 -> fits s n ->
  (va1 = varargs (sort_params s) \/ va1 = None) ->
  (vk3 = varkwargs (sort_params s) \/ vk3 = None) ->
  forall stf,
    mask_names None (isSome (varkwargs (sort_params s)))
               (mkK (skipn (n - length (posargs (sort_params s))) (pokargs (sort_params s))) va1
                    (kwoargs (sort_params s)) src
                    (names_of (firstn (n - length (posargs (sort_params s))) (pokargs (sort_params s)))))
               (map (fun x => (x, 0)) names0) = Ok stf ->
    validate (kps (skipn n (posargs (sort_params s))) vk3 stf) = true /\
    forall c, disjointb (kws c) names0 = true ->
              noncolliding c (kps (skipn n (posargs (sort_params s))) vk3 stf) [params s] = true ->
              accepts (kps (skipn n (posargs (sort_params s))) vk3 stf) c = true ->
              exists m', hidden_pos false n m' /\
                         accepts (params s) (mkCall (m' + npos c) (names0 ++ kws c)) = true.
Proof.
  intros Hv Hnd Hfit Hva Hvk3.
  destruct (embed_facts s Hv) as (Hf & Ha & Hb & Hn & (K1 & K2 & K3 & K4 & K5)).
  set (so := sort_params s) in *. set (j := (n - length (posargs so))%nat).
  assert (Hcons : forall k, In k (names_of (firstn j (pokargs so))) ->
                            In k (names_of (firstn n (posargs so ++ pokargs so)))).
  { intros k Hk. rewrite firstn_app, names_of_app. apply in_or_app. right. exact Hk. }
  apply (hide_core s n false (skipn n (posargs so)) (skipn j (pokargs so)) va1 vk3
                   (names_of (firstn j (pokargs so))) src names0).
  - apply KInv_n; assumption.
  - exact Hvk3.
  - exact Hnd.
  - intros k Hk X. apply Hcons in Hk.
    assert (X' : In k (names_of (skipn n (posargs so ++ pokargs so) ++ rest_of so))).
    { unfold blk in X. rewrite skipn_app. fold j. unfold rest_of.
      rewrite !names_of_app in *. rewrite !in_app_iff in *.
      destruct X as [X|[X|[X|[X|X]]]]; try tauto.
      destruct Hva as [->| ->]; [tauto|destruct X]. }
    rewrite <- (firstn_skipn n (posargs so ++ pokargs so)), <- app_assoc, names_of_app in Hn.
    exact (nodup_app_disjoint _ _ k Hn Hk X').
  - intros k Hk. apply Hcons in Hk. rewrite <- Hf, names_of_app. apply in_or_app. left.
    rewrite <- (firstn_skipn n (posargs so ++ pokargs so)), names_of_app. apply in_or_app. left. exact Hk.
  - intros m K HK Hacc. exists n. split; [intros _; reflexivity|].
    exact (embed_n s Hv n va1 m K Hfit Hva HK Hacc).
Qed.

(* hide_args on *)
Lemma hide_withargs s n vk3 src names0 :
  valid_sig (params s) = true -> NoDup names0 ->
  (vk3 = varkwargs (sort_params s) \/ vk3 = None) ->
  forall stf,
    mask_names None (isSome (varkwargs (sort_params s)))
               (mkK [] None (kwoargs (sort_params s)) src (names_of (pokargs (sort_params s))))
               (map (fun x => (x, 0)) names0) = Ok stf ->
    validate (kps [] vk3 stf) = true /\
    forall c, disjointb (kws c) names0 = true ->
              noncolliding c (kps [] vk3 stf) [params s] = true ->
              accepts (kps [] vk3 stf) c = true ->
              exists m', hidden_pos true n m' /\
                         accepts (params s) (mkCall (m' + npos c) (names0 ++ kws c)) = true.
Proof.
  intros Hv Hnd Hvk3.
  destruct (embed_facts s Hv) as (Hf & Ha & Hb & Hn & (K1 & K2 & K3 & K4 & K5)).
  set (so := sort_params s) in *.
  apply (hide_core s n true [] [] None vk3 (names_of (pokargs so)) src names0).
  - apply KInv_hide_args. exact Hv.
  - exact Hvk3.
  - exact Hnd.
  - intros k Hk X.
    assert (X' : In k (names_of (rest_of so))).
    { unfold blk in X. unfold rest_of. cbn [app opt_list] in X. rewrite !names_of_app in *.
      rewrite !in_app_iff in *. tauto. }
    rewrite names_of_app in Hn. apply (nodup_app_disjoint _ _ k Hn); [|exact X'].
    rewrite names_of_app. apply in_or_app. right. exact Hk.
  - intros k Hk. rewrite <- Hf, !names_of_app. apply in_or_app. left. apply in_or_app. right. exact Hk.
  - intros m K HK Hacc. exists (length (posargs so ++ pokargs so)). split; [discriminate|].
    exact (embed_args s Hv m K HK Hacc).
Qed.

(* hide_kwargs on *)
Lemma hide_kw s n ha va1 pos1 :
  valid_sig (params s) = true ->
  (ha = true /\ pos1 = [] /\ va1 = None
   \/ ha = false /\ pos1 = skipn n (posargs (sort_params s)) /\ fits s n /\
      (va1 = varargs (sort_params s) \/ va1 = None)) ->
  forall c, accepts (blk pos1 [] va1 [] None) c = true ->
  exists m K, hidden_pos ha n m /\ disjointb K (kws c) = true /\
              accepts (params s) (mkCall (m + npos c) ([] ++ kws c ++ K)) = true.
Proof.
  intros Hv Hcase [mc Kc] Hacc. cbn [npos kws].
  destruct (embed_facts s Hv) as (Hf & Ha & Hb & Hn & (K1 & K2 & K3 & K4 & K5)).
  set (so := sort_params s) in *.
  assert (Hlen : length (posargs so ++ pokargs so) = (length (posargs so) + length (pokargs so))%nat)
    by apply app_length.
  destruct Hcase as [(-> & -> & ->)|(-> & -> & Hfit & Hva)].
  - destruct (accepts_posonly [] None mc Kc (Forall_nil _) ltac:(discriminate) Hacc) as (-> & Har & _).
    cbn [length isSome] in Har. assert (mc = 0%nat) by (destruct Har as [H|H]; [lia|discriminate]). subst mc.
    set (t := (length (posargs so ++ pokargs so) + 0)%nat).
    exists (length (posargs so ++ pokargs so)),
           (names_of (skipn (t - length (posargs so)) (pokargs so)) ++ names_of (kwoargs so)).
    split; [discriminate|]. split; [apply disjointb_nil_r|]. cbn [app]. fold t.
    apply (embed_kwargs s Hv t); [left; unfold t; subst so; lia|].
    apply req_pos_full. unfold t. subst so. rewrite Hlen. lia.
  - assert (Hva' : forall v, va1 = Some v -> pkind v = VP).
    { destruct Hva as [->| ->]; [exact K3|discriminate]. }
    destruct (accepts_posonly _ va1 mc Kc (Forall_skipn _ n _ K1) Hva' Hacc) as (-> & Har & Hreq).
    set (t := (n + mc)%nat).
    exists n, (names_of (skipn (t - length (posargs so)) (pokargs so)) ++ names_of (kwoargs so)).
    split; [intros _; reflexivity|]. split; [apply disjointb_nil_r|]. cbn [app]. fold t.
    apply (embed_kwargs s Hv t).
    + rewrite skipn_length in Har. destruct (varargs so) as [w|] eqn:Ew; [right; fold so; rewrite Ew; reflexivity|left].
      assert (Hva1 : isSome va1 = false) by (destruct Hva as [->| ->]; reflexivity).
      rewrite Hva1 in Har. destruct Har as [Har|Har]; [|discriminate].
      destruct Hfit as [Hfit|Hfit].
      * unfold t. subst so. lia.
      * rewrite (has_vp_rest s) in Hfit. fold so in Hfit. rewrite Ew in Hfit. discriminate.
    + unfold t. fold so. rewrite <- (req_pos_skip (posargs so) n mc []). exact Hreq.
Qed.

Lemma mask_names_err pm hv : forall kvs st e, mask_names pm hv st kvs = Err e -> e = ValueErr.
Proof.
  induction kvs as [|[x v] kvs IH]; intros st e H; cbn [mask_names] in H; [discriminate|].
  pose proof (mask_name_consumed pm hv st x v) as Hc.
  destruct (mask_name pm hv st (x, v)) as [st'|e']; cbn [bind] in H.
  - exact (IH st' e H).
  - inversion H; subst. reflexivity.
Qed.

Ltac finish_names Hval Hs :=
  match goal with |- context [validate ?l] => replace (validate l) with true by (symmetry; exact Hval) end;
  cbn [params]; intros c Hd Hnc Hacc;
  let m' := fresh "m'" in let Hh := fresh "Hh" in let Hm := fresh "Hm" in
  destruct (Hs c Hd Hnc Hacc) as (m' & Hh & Hm);
  exists m', []; split; [exact Hh|]; split; [reflexivity|]; split; [reflexivity|];
  rewrite app_nil_r; exact Hm.

Definition hide_names (h : hideflags) (names0 : list name) : list name :=
  if h_kwargs h then [] else names0.

(* C03_hide, soundness, in the form of the decider mask_hide_cex: every
   non-colliding call (keywords disjoint from the names, when they count) the
   result accepts is accepted by sig with m extra leading positionals (m = n
   unless hide_args), the names as keywords (unless hide_kwargs) and an extra
   keyword set K (empty unless hide_kwargs) *)
Theorem mask_hide_sound s n names0 h :
  valid_sig (params s) = true -> NoDup names0 ->
  match mask s n names0 h with
  | Ok r =>
      forall c, disjointb (kws c) (hide_names h names0) = true ->
                noncolliding c (params r) [params s] = true -> accepts (params r) c = true ->
                exists m K, (h_args h = false -> m = n) /\ (h_kwargs h = false -> K = []) /\
                            disjointb K (kws c) = true /\
                            accepts (params s) (mkCall (m + npos c) (hide_names h names0 ++ kws c ++ K)) = true
  | Err e => e = ValueErr
  end.
Proof.
  intros Hv Hnd. unfold mask, mask_gen, hide_names. destruct h as [ha hk hva hvk].
  cbn [h_args h_kwargs h_varargs h_varkwargs].
  destruct hk.
  - (* hide_kwargs: the names are ignored *)
    destruct ha.
    + cbn [bind orb mask_names]. unfold apply_params.
      match goal with |- context [validate ?l] => destruct (validate l) end; [|reflexivity].
      cbn [params]. intros c _ _ Hacc.
      destruct (hide_kw s n true None [] Hv (or_introl (conj eq_refl (conj eq_refl eq_refl))) c Hacc)
        as (m & K & H1 & H2 & H3).
      exists m, K. split; [discriminate|]. split; [discriminate|]. split; assumption.
    + cbn [orb]. destruct (Nat.eqb n 0) eqn:E0.
      * apply Nat.eqb_eq in E0. subst n.
        assert (Hfit : fits s 0) by (left; lia).
        destruct hva; cbn [bind mask_names]; unfold apply_params;
          (match goal with |- context [validate ?l] => destruct (validate l) end; [|reflexivity]);
          cbn [params]; intros c _ _ Hacc.
        -- destruct (hide_kw s 0 false None (skipn 0 (posargs (sort_params s))) Hv
                      (or_intror (conj eq_refl (conj eq_refl (conj Hfit (or_intror eq_refl))))) c Hacc)
             as (m & K & H1 & H2 & H3).
           exists m, K. split; [exact H1|]. split; [discriminate|]. split; assumption.
        -- destruct (hide_kw s 0 false (varargs (sort_params s)) (skipn 0 (posargs (sort_params s))) Hv
                      (or_intror (conj eq_refl (conj eq_refl (conj Hfit (or_introl eq_refl))))) c Hacc)
             as (m & K & H1 & H2 & H3).
           exists m, K. split; [exact H1|]. split; [discriminate|]. split; assumption.
      * match goal with |- context [Nat.ltb ?a n && ?b] => destruct (Nat.ltb a n && b) eqn:Hc end; [reflexivity|].
        apply fits_of_check in Hc.
        destruct hva; cbn [bind mask_names]; unfold apply_params;
          (match goal with |- context [validate ?l] => destruct (validate l) end; [|reflexivity]);
          cbn [params]; intros c _ _ Hacc.
        -- destruct (hide_kw s n false None (skipn n (posargs (sort_params s))) Hv
                      (or_intror (conj eq_refl (conj eq_refl (conj Hc (or_intror eq_refl))))) c Hacc)
             as (m & K & H1 & H2 & H3).
           exists m, K. split; [exact H1|]. split; [discriminate|]. split; assumption.
        -- destruct (hide_kw s n false (varargs (sort_params s)) (skipn n (posargs (sort_params s))) Hv
                      (or_intror (conj eq_refl (conj eq_refl (conj Hc (or_introl eq_refl))))) c Hacc)
             as (m & K & H1 & H2 & H3).
           exists m, K. split; [exact H1|]. split; [discriminate|]. split; assumption.
  - (* the names are processed *)
    destruct ha.
    + cbn [bind orb].
      match goal with |- context [mask_names None ?hv ?st0 ?l] => destruct (mask_names None hv st0 l) as [stf|e] eqn:Hok end;
        cbn [bind]; [|exact (mask_names_err _ _ _ _ _ Hok)].
      destruct hvk; cbn [orb]; unfold apply_params.
      * destruct (hide_withargs s n None _ names0 Hv Hnd (or_intror eq_refl) stf Hok) as [Hval Hs].
        finish_names Hval Hs.
      * destruct (hide_withargs s n (varkwargs (sort_params s)) _ names0 Hv Hnd (or_introl eq_refl) stf Hok) as [Hval Hs].
        finish_names Hval Hs.
    + cbn [orb]. destruct (Nat.eqb n 0) eqn:E0.
      * apply Nat.eqb_eq in E0. subst n.
        assert (Hfit : fits s 0) by (left; lia).
        destruct hva; cbn [bind];
        (match goal with |- context [mask_names None ?hv ?st0 ?l] => destruct (mask_names None hv st0 l) as [stf|e] eqn:Hok end;
         cbn [bind]; [|exact (mask_names_err _ _ _ _ _ Hok)]);
        destruct hvk; cbn [orb]; unfold apply_params.
        -- destruct (hide_noargs s 0 None None _ names0 Hv Hnd Hfit (or_intror eq_refl) (or_intror eq_refl) stf Hok) as [Hval Hs].
           finish_names Hval Hs.
        -- destruct (hide_noargs s 0 None (varkwargs (sort_params s)) _ names0 Hv Hnd Hfit (or_intror eq_refl) (or_introl eq_refl) stf Hok) as [Hval Hs].
           finish_names Hval Hs.
        -- destruct (hide_noargs s 0 (varargs (sort_params s)) None _ names0 Hv Hnd Hfit (or_introl eq_refl) (or_intror eq_refl) stf Hok) as [Hval Hs].
           finish_names Hval Hs.
        -- destruct (hide_noargs s 0 (varargs (sort_params s)) (varkwargs (sort_params s)) _ names0 Hv Hnd Hfit (or_introl eq_refl) (or_introl eq_refl) stf Hok) as [Hval Hs].
           finish_names Hval Hs.
      * match goal with |- context [Nat.ltb ?a n && ?b] => destruct (Nat.ltb a n && b) eqn:Hc end; [reflexivity|].
        apply fits_of_check in Hc.
        destruct hva; cbn [bind];
        (match goal with |- context [mask_names None ?hv ?st0 ?l] => destruct (mask_names None hv st0 l) as [stf|e] eqn:Hok end;
         cbn [bind]; [|exact (mask_names_err _ _ _ _ _ Hok)]);
        destruct hvk; cbn [orb]; unfold apply_params.
        -- destruct (hide_noargs s n None None _ names0 Hv Hnd Hc (or_intror eq_refl) (or_intror eq_refl) stf Hok) as [Hval Hs].
           finish_names Hval Hs.
        -- destruct (hide_noargs s n None (varkwargs (sort_params s)) _ names0 Hv Hnd Hc (or_intror eq_refl) (or_introl eq_refl) stf Hok) as [Hval Hs].
           finish_names Hval Hs.
        -- destruct (hide_noargs s n (varargs (sort_params s)) None _ names0 Hv Hnd Hc (or_introl eq_refl) (or_intror eq_refl) stf Hok) as [Hval Hs].
           finish_names Hval Hs.
        -- destruct (hide_noargs s n (varargs (sort_params s)) (varkwargs (sort_params s)) _ names0 Hv Hnd Hc (or_introl eq_refl) (or_introl eq_refl) stf Hok) as [Hval Hs].
           finish_names Hval Hs.
Qed.

(* ------------------------------------------------------------------ *)
(* shape: which parameters each flag removes                            *)

Lemma shape_core s pos1 pok1 va1 vk3 bound src (F : kstate -> srcmap) dep names0 r :
  KInv pos1 (varkwargs (sort_params s)) (mkK pok1 va1 (kwoargs (sort_params s)) src bound) ->
  (do st <- mask_names None (isSome (varkwargs (sort_params s)))
                       (mkK pok1 va1 (kwoargs (sort_params s)) src bound) (map (fun x => (x, 0)) names0) ;;
   apply_params s (mkSorted pos1 (k_pok st) (k_va st) (k_kwo st) vk3 (F st) dep)) = Ok r ->
  exists kwo_f,
    params r = blk pos1 (takew (nh names0) pok1) (va_form names0 pok1 va1) kwo_f vk3 /\
    Permutation kwo_f (kwo_form names0 pok1 (kwoargs (sort_params s))).
Proof.
  intros Hinv H.
  pose proof (mask_names_closed (isSome (varkwargs (sort_params s))) pos1 (varkwargs (sort_params s))
                                names0 _ Hinv eq_refl) as C.
  destruct (mask_names None _ _ (map (fun x => (x, 0)) names0)) as [stf|e]; cbn [bind] in H; [|discriminate].
  destruct C as (C1 & C2 & C3 & _). cbn [k_pok k_va k_kwo] in C1, C2, C3.
  unfold apply_params in H. destruct (validate _) in H; [|discriminate]. inversion H; subst r. cbn [params].
  exists (k_kwo stf). split; [|exact C3].
  unfold flatten, blk. cbn [posargs pokargs varargs kwoargs varkwargs]. rewrite C1, C2. reflexivity.
Qed.

Definition hide_pos (s : sigT) (n : nat) (h : hideflags) : list param :=
  if h_args h then [] else skipn n (posargs (sort_params s)).
Definition hide_pok (s : sigT) (n : nat) (h : hideflags) : list param :=
  if h_args h then [] else skipn (n - length (posargs (sort_params s))) (pokargs (sort_params s)).
Definition hide_va (s : sigT) (h : hideflags) : option param :=
  if h_args h || h_varargs h then None else varargs (sort_params s).
Definition hide_vk (s : sigT) (h : hideflags) : option param :=
  if h_kwargs h || h_varkwargs h then None else varkwargs (sort_params s).

(* C03_hide, shape.  hide_args: no positional parameter, no star-args parameter
   (and n is ignored); hide_varargs: no star-args parameter; hide_varkwargs: no
   double-star parameter; hide_kwargs: no positional-or-keyword, keyword-only or
   double-star parameter (and the names are ignored).  What is not removed is
   what mask without flags leaves: the positional-only parameters after the n
   consumed ones, the positional-or-keyword parameters up to the first named
   one, the star-args parameter unless a positional-or-keyword parameter is
   named, and as keyword-only parameters (in some order) the un-named
   keyword-only parameters and the positional-or-keyword ones after the first
   named one. *)
Theorem mask_hide_shape s n names0 h r :
  valid_sig (params s) = true -> mask s n names0 h = Ok r ->
  if h_kwargs h then params r = blk (hide_pos s n h) [] (hide_va s h) [] None
  else exists kwo_f,
         params r = blk (hide_pos s n h) (takew (nh names0) (hide_pok s n h))
                        (va_form names0 (hide_pok s n h) (hide_va s h)) kwo_f (hide_vk s h) /\
         Permutation kwo_f (kwo_form names0 (hide_pok s n h) (kwoargs (sort_params s))).
Proof.
  intros Hv H. unfold mask, mask_gen in H. unfold hide_pos, hide_pok, hide_va, hide_vk.
  destruct h as [ha hk hva hvk]. cbn [h_args h_kwargs h_varargs h_varkwargs] in *.
  destruct hk.
  - destruct ha.
    + cbn [bind orb mask_names] in H. unfold apply_params in H.
      destruct (validate _) in H; [|discriminate]. inversion H; subst r. reflexivity.
    + cbn [orb] in *. destruct (Nat.eqb n 0) eqn:E0.
      * apply Nat.eqb_eq in E0. subst n.
        destruct hva; cbn [bind mask_names] in H; unfold apply_params in H;
          (destruct (validate _) in H; [|discriminate]); inversion H; subst r; reflexivity.
      * match type of H with context [Nat.ltb ?a n && ?b] => destruct (Nat.ltb a n && b) end; [discriminate|].
        destruct hva; cbn [bind mask_names] in H; unfold apply_params in H;
          (destruct (validate _) in H; [|discriminate]); inversion H; subst r; reflexivity.
  - destruct ha.
    + cbn [bind orb] in *.
      destruct hvk; cbn [orb] in *;
        (eapply shape_core; [apply KInv_hide_args; exact Hv|exact H]).
    + cbn [orb] in *. destruct (Nat.eqb n 0) eqn:E0.
      * apply Nat.eqb_eq in E0. subst n. cbn [bind] in H.
        destruct hva, hvk; cbn [orb] in *;
          (eapply (shape_core s (skipn 0 (posargs (sort_params s)))); [apply (KInv_n s 0); auto|exact H]).
      * match type of H with context [Nat.ltb ?a n && ?b] => destruct (Nat.ltb a n && b) end; [discriminate|].
        cbn [bind] in H.
        destruct hva, hvk; cbn [orb] in *;
          (eapply shape_core; [apply (KInv_n s n); auto|exact H]).
Qed.

(* the statements are not vacuous: ex_sig is (1, /, 2, 3=1, *9, 4, **10) *)
Example mask_hide_nonvacuous :
  valid_sig (params ex_sig) = true /\ NoDup [4] /\
  res_names (mask ex_sig 1 [4] (mkHide true false false true)) = Some [] /\
  res_names (mask ex_sig 1 [4] (mkHide false true false false)) = Some [(9, VP)] /\
  res_names (mask ex_sig 1 [4] (mkHide false false true true)) = Some [(2, PK); (3, PK)] /\
  (exists r, mask ex_sig 1 [4] (mkHide false true false false) = Ok r /\
             noncolliding (mkCall 2 []) (params r) [params ex_sig] = true /\
             accepts (params r) (mkCall 2 []) = true).
Proof.
  split; [vm_compute; reflexivity|]. split; [constructor; [intros []|constructor]|].
  split; [vm_compute; reflexivity|]. split; [vm_compute; reflexivity|]. split; [vm_compute; reflexivity|].
  eexists. split; [vm_compute; reflexivity|]. split; vm_compute; reflexivity.
Qed.

Print Assumptions mask_hide_sound.
Print Assumptions mask_hide_shape.
Print Assumptions mask_hide_nonvacuous.
