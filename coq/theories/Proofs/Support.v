(* Proofs about Model/Support.v (C20). *)
From Coq Require Import List NArith Bool Arith Lia.
From Sigtools.Model Require Import Base Bind Algebra Support.
Import ListNotations.

(* ------------------------------------------------------------ dictionaries *)
Lemma dget_dset {A} (d : list (name * A)) k v x :
  dget (dset d k v) x = if N.eqb x k then Some v else dget d x.
Proof.
  induction d as [|[k' v'] d IH]; simpl.
  - reflexivity.
  - destruct (N.eqb k k') eqn:E; simpl.
    + apply N.eqb_eq in E. subst k'. destruct (N.eqb x k); reflexivity.
    + rewrite IH. destruct (N.eqb x k') eqn:E2; [|reflexivity].
      apply N.eqb_eq in E2. subst k'.
      destruct (N.eqb x k) eqn:E3; [|reflexivity].
      apply N.eqb_eq in E3. subst. rewrite N.eqb_refl in E. discriminate.
Qed.

Lemma dhas_dset {A} (d : list (name * A)) k v x :
  dhas (dset d k v) x = N.eqb x k || dhas d x.
Proof. unfold dhas. rewrite dget_dset. destruct (N.eqb x k); reflexivity. Qed.

Lemma dget_none_notin {A} (d : list (name * A)) k :
  dget d k = None <-> ~ In k (map fst d).
Proof.
  induction d as [|[k' v'] d IH]; simpl.
  - tauto.
  - destruct (N.eqb k k') eqn:E.
    + apply N.eqb_eq in E. subst. split; [discriminate|]. intros H. exfalso. apply H. auto.
    + apply N.eqb_neq in E. rewrite IH. split.
      * intros H [H1|H1]; [congruence|tauto].
      * intros H H1. apply H. auto.
Qed.

Lemma dset_fresh {A} (d : list (name * A)) k v :
  ~ In k (map fst d) -> dset d k v = d ++ [(k, v)].
Proof.
  induction d as [|[k' v'] d IH]; simpl; intros H.
  - reflexivity.
  - destruct (N.eqb k k') eqn:E.
    + apply N.eqb_eq in E. subst. exfalso. apply H. auto.
    + rewrite IH; [reflexivity|]. intros H1. apply H. auto.
Qed.

Lemma list_N_eqb_eq a b : list_N_eqb a b = true <-> a = b.
Proof.
  revert b. induction a as [|x a IH]; destruct b as [|y b]; simpl.
  - split; reflexivity.
  - split; discriminate.
  - split; discriminate.
  - rewrite andb_true_iff, N.eqb_eq, IH. split.
    + intros [H1 H2]. congruence.
    + intros H. inversion H. auto.
Qed.

Lemma firstn_eq_all (j : nat) (l : list N) : firstn j l = l <-> (length l <= j)%nat.
Proof.
  split.
  - intros H. rewrite <- H at 1. rewrite firstn_length. lia.
  - apply firstn_all2.
Qed.

(* ------------------------------------------------------------------ loop 1 *)
(* what the positional loop assigns to the name x *)
Fixpoint posval (ps : list param) (args : list N) (x : name) {struct args} : option bval :=
  match args, ps with
  | v :: args', p :: ps' =>
      match pkind p with
      | PO | PK => if N.eqb x (pname p) then Some (BV v) else posval ps' args' x
      | VP => if N.eqb x (pname p) then Some (BTuple (v :: args')) else None
      | _ => None
      end
  | _, _ => None
  end.

(* the positional loop and its else clause do not raise *)
Fixpoint pos_ok (ps : list param) (args : list N) {struct args} : bool :=
  match args, ps with
  | [], _ => true
  | _ :: _, [] => false
  | v :: args', p :: ps' =>
      match pkind p with
      | PO | PK => pos_ok ps' args'
      | VP => true
      | _ => false
      end
  end.

Lemma posval_notin ps args x : ~ In x (names_of ps) -> posval ps args x = None.
Proof.
  revert args. induction ps as [|p ps IH]; intros args H; destruct args as [|v args]; simpl; try reflexivity.
  simpl in H.
  assert (Hx : N.eqb x (pname p) = false) by (apply N.eqb_neq; intros ->; apply H; auto).
  rewrite Hx. destruct (pkind p); try reflexivity; apply IH; tauto.
Qed.

Lemma pos_loop_spec args : forall ps i a,
  NoDup (names_of ps) ->
  match pos_loop args ps i a with
  | PRaise => pos_ok ps args = false
  | PBreak a' => pos_ok ps args = true /\
                 forall x, dget a' x = match posval ps args x with Some r => Some r | None => dget a x end
  | PDone j a' => (i <= j)%nat /\ ((length args <= j - i)%nat <-> pos_ok ps args = true) /\
                  forall x, dget a' x = match posval ps args x with Some r => Some r | None => dget a x end
  end.
Proof.
  induction args as [|v args IH]; intros ps i a ND; simpl.
  - split; [lia|]. split; [|reflexivity]. split; auto. intros _. lia.
  - destruct ps as [|p ps]; simpl.
    + split; [lia|]. split; [|reflexivity]. split; [lia|discriminate].
    + inversion ND as [|? ? Hnot ND']; subst.
      destruct (pkind p) eqn:K.
      1,2: specialize (IH ps (S i) (dset a (pname p) (BV v)) ND');
           destruct (pos_loop args ps (S i) (dset a (pname p) (BV v))) as [a'| |j a'];
           [ destruct IH as [H1 H2]; split; [exact H1|]; intros x; rewrite H2, dget_dset;
             destruct (N.eqb x (pname p)) eqn:E; [apply N.eqb_eq in E; subst x; rewrite posval_notin by exact Hnot; reflexivity | reflexivity]
           | exact IH
           | destruct IH as [H0 [H1 H2]]; split; [lia|]; split;
             [ rewrite <- H1; lia
             | intros x; rewrite H2, dget_dset;
               destruct (N.eqb x (pname p)) eqn:E; [apply N.eqb_eq in E; subst x; rewrite posval_notin by exact Hnot; reflexivity | reflexivity] ] ].
      * split; [reflexivity|]. intros x. rewrite dget_dset. destruct (N.eqb x (pname p)); reflexivity.
      * reflexivity.
      * reflexivity.
Qed.

(* ------------------------------------------------------------------ loop 2 *)
Inductive kcls := CPo | CNamed | CExtra.

Definition cls (ps : list param) (key : name) : kcls :=
  match find_param key ps with
  | Some p => match pkind p with PO => CPo | PK | KO => CNamed | _ => CExtra end
  | None => CExtra
  end.

Definition kw_ok2 (ps : list param) (hasvk : bool) (a : asg) (key : name) : bool :=
  match cls ps key with CPo => false | CNamed => negb (dhas a key) | CExtra => hasvk end.

Definition named_lookup ps (kws : list (name * N)) (a : asg) (x : name) : option bval :=
  match dget a x with
  | Some r => Some r
  | None => match cls ps x with CNamed => option_map BV (dget kws x) | _ => None end
  end.

Definition is_cextra ps (kv : name * N) : bool :=
  match cls ps (fst kv) with CExtra => true | _ => false end.

Definition dict_of (d0 : list (name * N)) (l : list (name * N)) : list (name * N) :=
  fold_left (fun d kv => dset d (fst kv) (snd kv)) l d0.

Definition kw_post ps (vk : option param) kws (a : asg) (x : name) : option bval :=
  match vk with
  | Some q =>
      if N.eqb x (pname q)
      then match dget a x with
           | Some (BDict d0) => Some (BDict (dict_of d0 (filter (is_cextra ps) kws)))
           | o => o
           end
      else named_lookup ps kws a x
  | None => named_lookup ps kws a x
  end.

Lemma forallb_ext_in' {A} (f g : A -> bool) l :
  (forall x, In x l -> f x = g x) -> forallb f l = forallb g l.
Proof.
  induction l as [|y l IH]; simpl; intros H; [reflexivity|].
  rewrite (H y) by auto. rewrite IH; [reflexivity|]. intros x Hx. apply H. auto.
Qed.

Lemma kw_loop_spec ps vk kws : forall a,
  NoDup (map fst kws) ->
  (forall q, vk = Some q -> cls ps (pname q) = CExtra /\ exists d0, dget a (pname q) = Some (BDict d0)) ->
  match kw_loop ps vk kws a with
  | inl _ => forallb (kw_ok2 ps (is_some vk) a) (map fst kws) = false
  | inr a' => forallb (kw_ok2 ps (is_some vk) a) (map fst kws) = true /\
              forall x, dget a' x = kw_post ps vk kws a x
  end.
Proof.
  induction kws as [|[key value] kws IH]; intros a ND Hvk.
  - simpl. split; [reflexivity|]. intros x. unfold kw_post, named_lookup. simpl.
    destruct vk as [q|].
    + destruct (N.eqb x (pname q)) eqn:E.
      * destruct (dget a x) as [[ | |d0]|]; reflexivity.
      * destruct (dget a x); [reflexivity|]. destruct (cls ps x); reflexivity.
    + destruct (dget a x); [reflexivity|]. destruct (cls ps x); reflexivity.
  - simpl in ND. inversion ND as [|? ? Hnot ND']; subst.
    cbn [kw_loop map forallb fst].
    unfold kw_step. cbn [fst snd].
    assert (Hfall :
      cls ps key = CExtra ->
      match
        match match vk with Some q => kwargs_add a (pname q) key value | None => inl (EUnknown key) end with
        | inl e => inl e
        | inr a' => kw_loop ps vk kws a'
        end
      with
      | inl _ => kw_ok2 ps (is_some vk) a key && forallb (kw_ok2 ps (is_some vk) a) (map fst kws) = false
      | inr a' => kw_ok2 ps (is_some vk) a key && forallb (kw_ok2 ps (is_some vk) a) (map fst kws) = true /\
                  forall x, dget a' x = kw_post ps vk ((key, value) :: kws) a x
      end).
    { intros Hc.
      assert (Hk : kw_ok2 ps (is_some vk) a key = is_some vk) by (unfold kw_ok2; rewrite Hc; reflexivity).
      rewrite Hk. clear Hk.
      destruct vk as [q|]; [|reflexivity].
      destruct (Hvk q eq_refl) as [Hq [d0 Hd0]].
      unfold kwargs_add. rewrite Hd0.
      set (a2 := dset a (pname q) (BDict (dset d0 key value))).
      assert (Hsame : forall k, kw_ok2 ps true a2 k = kw_ok2 ps true a k).
      { intros k. unfold kw_ok2. destruct (cls ps k); try reflexivity.
        unfold a2. rewrite dhas_dset. destruct (N.eqb k (pname q)) eqn:E; [|reflexivity].
        apply N.eqb_eq in E. subst k. unfold dhas. rewrite Hd0. reflexivity. }
      specialize (IH a2 ND').
      assert (Hvk2 : forall q0, Some q = Some q0 ->
                cls ps (pname q0) = CExtra /\ exists d1, dget a2 (pname q0) = Some (BDict d1)).
      { intros q0 Hq0. inversion Hq0; subst q0. split; [exact Hq|].
        exists (dset d0 key value). unfold a2. rewrite dget_dset, N.eqb_refl. reflexivity. }
      specialize (IH Hvk2). simpl is_some in *.
      rewrite (forallb_ext_in' _ _ _ (fun k _ => Hsame k)) in IH.
      destruct (kw_loop ps (Some q) kws a2) as [e|a'].
      - simpl. exact IH.
      - destruct IH as [IH1 IH2]. split; [simpl; exact IH1|].
        intros x. rewrite IH2. unfold kw_post.
        destruct (N.eqb x (pname q)) eqn:E.
        + apply N.eqb_eq in E. subst x. unfold a2. rewrite dget_dset, N.eqb_refl, Hd0.
          simpl. unfold is_cextra at 2. simpl. rewrite Hc. reflexivity.
        + unfold named_lookup, a2. rewrite dget_dset, E.
          destruct (dget a x); [reflexivity|].
          destruct (cls ps x) eqn:Cx; try reflexivity.
          simpl. destruct (N.eqb x key) eqn:E2; [|reflexivity].
          apply N.eqb_eq in E2. subst x. congruence. }
    assert (Hnamed :
      cls ps key = CNamed ->
      match
        match (if dhas a key then inl (ETwice key) else inr (dset a key (BV value))) with
        | inl e => inl e
        | inr a' => kw_loop ps vk kws a'
        end
      with
      | inl _ => kw_ok2 ps (is_some vk) a key && forallb (kw_ok2 ps (is_some vk) a) (map fst kws) = false
      | inr a' => kw_ok2 ps (is_some vk) a key && forallb (kw_ok2 ps (is_some vk) a) (map fst kws) = true /\
                  forall x, dget a' x = kw_post ps vk ((key, value) :: kws) a x
      end).
    { intros Hc.
      assert (Hk : kw_ok2 ps (is_some vk) a key = negb (dhas a key)) by (unfold kw_ok2; rewrite Hc; reflexivity).
      rewrite Hk. clear Hk.
      destruct (dhas a key) eqn:Hd; [reflexivity|].
      set (a2 := dset a key (BV value)).
      assert (Hsame : forall k, In k (map fst kws) -> kw_ok2 ps (is_some vk) a2 k = kw_ok2 ps (is_some vk) a k).
      { intros k Hin. unfold kw_ok2. destruct (cls ps k); try reflexivity.
        unfold a2. rewrite dhas_dset. destruct (N.eqb k key) eqn:E; [|reflexivity].
        apply N.eqb_eq in E. subst k. contradiction. }
      specialize (IH a2 ND').
      assert (Hvk2 : forall q0, vk = Some q0 ->
                cls ps (pname q0) = CExtra /\ exists d1, dget a2 (pname q0) = Some (BDict d1)).
      { intros q0 Hq0. destruct (Hvk q0 Hq0) as [Hq [d0 Hd0]]. split; [exact Hq|].
        exists d0. unfold a2. rewrite dget_dset.
        destruct (N.eqb (pname q0) key) eqn:E; [|exact Hd0].
        apply N.eqb_eq in E. rewrite E in Hq. congruence. }
      specialize (IH Hvk2).
      rewrite (forallb_ext_in' _ _ _ Hsame) in IH.
      destruct (kw_loop ps vk kws a2) as [e|a'].
      - simpl. exact IH.
      - destruct IH as [IH1 IH2]. split; [simpl; exact IH1|].
        intros x. rewrite IH2. unfold kw_post.
        assert (Hnl : named_lookup ps kws a2 x = named_lookup ps ((key, value) :: kws) a x).
        { unfold named_lookup, a2. rewrite dget_dset. simpl.
          destruct (N.eqb x key) eqn:E.
          - apply N.eqb_eq in E. subst x. unfold dhas in Hd. destruct (dget a key); [discriminate|].
            rewrite Hc. reflexivity.
          - reflexivity. }
        assert (Hfl : filter (is_cextra ps) ((key, value) :: kws) = filter (is_cextra ps) kws).
        { simpl. unfold is_cextra at 1. simpl. rewrite Hc. reflexivity. }
        rewrite Hfl.
        destruct vk as [q|]; [|exact Hnl].
        destruct (N.eqb x (pname q)) eqn:E; [|exact Hnl].
        apply N.eqb_eq in E. subst x.
        destruct (Hvk q eq_refl) as [Hq _].
        unfold a2. rewrite dget_dset.
        destruct (N.eqb (pname q) key) eqn:E2; [|reflexivity].
        apply N.eqb_eq in E2. rewrite E2 in Hq. congruence. }
    destruct (find_param key ps) as [p|] eqn:F.
    2: { apply Hfall. unfold cls. rewrite F. reflexivity. }
    destruct (pkind p) eqn:K.
    + assert (Hk : kw_ok2 ps (is_some vk) a key = false) by (unfold kw_ok2, cls; rewrite F, K; reflexivity).
      rewrite Hk. reflexivity.
    + apply Hnamed. unfold cls. rewrite F, K. reflexivity.
    + apply Hfall. unfold cls. rewrite F, K. reflexivity.
    + apply Hnamed. unfold cls. rewrite F, K. reflexivity.
    + apply Hfall. unfold cls. rewrite F, K. reflexivity.
Qed.

(* ------------------------------------------------------------------ loop 3 *)
Definition fill_ok (a : asg) (p : param) : bool :=
  dhas a (pname p) || is_kind VP p || has_def p.

Definition fillval (p : param) : option bval :=
  match pkind p with VP => Some (BTuple []) | _ => option_map BV (pdef p) end.

Definition fill_post (ps : list param) (a : asg) (x : name) : option bval :=
  match dget a x with
  | Some r => Some r
  | None => match find_param x ps with Some p => fillval p | None => None end
  end.

Lemma fill_loop_spec ps : forall a,
  NoDup (names_of ps) ->
  match fill_loop ps a with
  | inl _ => forallb (fill_ok a) ps = false
  | inr a' => forallb (fill_ok a) ps = true /\ forall x, dget a' x = fill_post ps a x
  end.
Proof.
  induction ps as [|p ps IH]; intros a ND.
  - simpl. split; [reflexivity|]. intros x. unfold fill_post. simpl. destruct (dget a x); reflexivity.
  - simpl in ND. inversion ND as [|? ? Hnot ND']; subst.
    cbn [fill_loop forallb]. unfold fill_ok at 1 3.
    assert (Hstep : forall v, (is_kind VP p || has_def p = true) -> dhas a (pname p) = false ->
              fillval p = Some v ->
              match fill_loop ps (dset a (pname p) v) with
              | inl _ => forallb (fill_ok a) ps = false
              | inr a' => forallb (fill_ok a) ps = true /\ forall x, dget a' x = fill_post (p :: ps) a x
              end).
    { intros v Hk Hd Hv. specialize (IH (dset a (pname p) v) ND').
      assert (Hsame : forall q, In q ps -> fill_ok (dset a (pname p) v) q = fill_ok a q).
      { intros q Hq. unfold fill_ok. rewrite dhas_dset.
        destruct (N.eqb (pname q) (pname p)) eqn:E; [|reflexivity].
        apply N.eqb_eq in E. exfalso. apply Hnot. rewrite <- E. apply in_map. exact Hq. }
      rewrite (forallb_ext_in' _ _ _ Hsame) in IH.
      destruct (fill_loop ps (dset a (pname p) v)) as [e|a']; [exact IH|].
      destruct IH as [IH1 IH2]. split; [exact IH1|].
      intros x. rewrite IH2. unfold fill_post. rewrite dget_dset. simpl.
      destruct (N.eqb x (pname p)) eqn:E.
      - apply N.eqb_eq in E. subst x. unfold dhas in Hd. destruct (dget a (pname p)); [discriminate|].
        symmetry. exact Hv.
      - reflexivity. }
    destruct (dhas a (pname p)) eqn:Hd.
    + simpl. specialize (IH a ND'). destruct (fill_loop ps a) as [e|a']; [exact IH|].
      destruct IH as [IH1 IH2]. split; [exact IH1|]. intros x. rewrite IH2.
      unfold fill_post. simpl. destruct (dget a x) eqn:G; [reflexivity|].
      destruct (N.eqb x (pname p)) eqn:E; [|reflexivity].
      apply N.eqb_eq in E. subst x. unfold dhas in Hd. rewrite G in Hd. discriminate.
    + simpl. unfold is_kind, kind_eqb. destruct (pkind p) eqn:K; simpl.
      3: { apply (Hstep (BTuple [])); [unfold is_kind, kind_eqb; rewrite K; reflexivity | reflexivity
                                      | unfold fillval; rewrite K; reflexivity]. }
      all: unfold has_def; destruct (pdef p) as [d|] eqn:D; [|reflexivity];
           apply (Hstep (BV d)); [unfold has_def; rewrite D; apply orb_true_r | reflexivity
                                 | unfold fillval; rewrite K, D; reflexivity].
Qed.

(* ------------------------------------- the three loops on lookup functions *)
Definition lk := name -> option bval.

Definition kw_okL (ps : list param) (hasvk : bool) (L : lk) (key : name) : bool :=
  match cls ps key with CPo => false | CNamed => negb (is_some (L key)) | CExtra => hasvk end.

Definition named_lookupL ps (kws : list (name * N)) (L : lk) (x : name) : option bval :=
  match L x with
  | Some r => Some r
  | None => match cls ps x with CNamed => option_map BV (dget kws x) | _ => None end
  end.

Definition kw_postL ps (vk : option param) kws (L : lk) (x : name) : option bval :=
  match vk with
  | Some q =>
      if N.eqb x (pname q)
      then match L x with
           | Some (BDict d0) => Some (BDict (dict_of d0 (filter (is_cextra ps) kws)))
           | o => o
           end
      else named_lookupL ps kws L x
  | None => named_lookupL ps kws L x
  end.

Definition fill_okL (L : lk) (p : param) : bool :=
  is_some (L (pname p)) || is_kind VP p || has_def p.

Definition fill_postL (ps : list param) (L : lk) (x : name) : option bval :=
  match L x with
  | Some r => Some r
  | None => match find_param x ps with Some p => fillval p | None => None end
  end.

Lemma kw_okL_ext ps h (L L' : lk) k : (forall x, L x = L' x) -> kw_okL ps h L k = kw_okL ps h L' k.
Proof. intros H. unfold kw_okL. rewrite H. reflexivity. Qed.
Lemma kw_postL_ext ps vk kws (L L' : lk) x : (forall y, L y = L' y) -> kw_postL ps vk kws L x = kw_postL ps vk kws L' x.
Proof. intros H. unfold kw_postL, named_lookupL. rewrite H. reflexivity. Qed.
Lemma fill_okL_ext (L L' : lk) p : (forall x, L x = L' x) -> fill_okL L p = fill_okL L' p.
Proof. intros H. unfold fill_okL. rewrite H. reflexivity. Qed.
Lemma fill_postL_ext ps (L L' : lk) x : (forall y, L y = L' y) -> fill_postL ps L x = fill_postL ps L' x.
Proof. intros H. unfold fill_postL. rewrite H. reflexivity. Qed.

Definition a0_of (ps : list param) : asg :=
  match first_vk ps with Some q => [(pname q, BDict [])] | None => [] end.

Definition L1 ps args : lk :=
  fun x => match posval ps args x with Some r => Some r | None => dget (a0_of ps) x end.
Definition L2 ps args kws : lk := kw_postL ps (first_vk ps) kws (L1 ps args).
Definition L3 ps args kws : lk := fill_postL ps (L2 ps args kws).

(* bind_callsig succeeds exactly when [okA], and then its result is [L3] *)
Definition okA ps args kws : bool :=
  pos_ok ps args
  && forallb (kw_okL ps (is_some (first_vk ps)) (L1 ps args)) (map fst kws)
  && forallb (fill_okL (L2 ps args kws)) ps.

Lemma first_vk_cls ps q : NoDup (names_of ps) -> first_vk ps = Some q -> cls ps (pname q) = CExtra.
Proof.
  unfold first_vk, cls. induction ps as [|p ps IH]; simpl; intros ND H; [discriminate|].
  inversion ND as [|? ? Hnot ND']; subst.
  destruct (is_kind VK p) eqn:K.
  - inversion H; subst q. rewrite N.eqb_refl.
    unfold is_kind, kind_eqb in K. destruct (pkind p); simpl in K; try discriminate. reflexivity.
  - destruct (N.eqb (pname q) (pname p)) eqn:E.
    + apply N.eqb_eq in E. exfalso. apply Hnot. rewrite <- E.
      apply find_some in H. apply in_map. tauto.
    + apply IH; assumption.
Qed.

Lemma posval_first_vk ps q : forall args,
  NoDup (names_of ps) -> first_vk ps = Some q -> posval ps args (pname q) = None.
Proof.
  unfold first_vk. induction ps as [|p ps IH]; intros args ND H; [discriminate|].
  simpl in ND. inversion ND as [|? ? Hnot ND']; subst. simpl in H.
  destruct args as [|v args]; [reflexivity|]. simpl.
  destruct (is_kind VK p) eqn:K.
  - inversion H; subst q. unfold is_kind, kind_eqb in K.
    destruct (pkind p); simpl in K; try discriminate. reflexivity.
  - assert (E : N.eqb (pname q) (pname p) = false).
    { apply N.eqb_neq. intros E. apply Hnot. rewrite <- E. apply find_some in H. apply in_map. tauto. }
    rewrite E. destruct (pkind p); try reflexivity; apply IH; assumption.
Qed.

Theorem bind_callsig_spec ps args kws :
  NoDup (names_of ps) -> NoDup (map fst kws) ->
  match bind_callsig ps args kws with
  | BOk a => okA ps args kws = true /\ forall x, dget a x = L3 ps args kws x
  | BErr _ => okA ps args kws = false
  end.
Proof.
  intros ND NK. unfold bind_callsig, okA.
  fold (a0_of ps).
  pose proof (pos_loop_spec args ps 0 (a0_of ps) ND) as H1.
  assert (Hafter :
    match (match pos_loop args ps 0 (a0_of ps) with
           | PRaise => inl ETooMany
           | PBreak a => inr a
           | PDone i a => if list_N_eqb (firstn i args) args then inr a else inl ETooMany
           end) with
    | inl _ => pos_ok ps args = false
    | inr a1 => pos_ok ps args = true /\ forall x, dget a1 x = L1 ps args x
    end).
  { destruct (pos_loop args ps 0 (a0_of ps)) as [a1| |j a1].
    - exact H1.
    - exact H1.
    - destruct H1 as [_ [Hj Hl]].
      destruct (list_N_eqb (firstn j args) args) eqn:E.
      + apply list_N_eqb_eq in E. apply firstn_eq_all in E. split; [apply Hj; lia|exact Hl].
      + destruct (pos_ok ps args) eqn:Pk; [|reflexivity].
        assert (Hle : (length args <= j - 0)%nat) by (apply Hj; reflexivity).
        assert (E2 : firstn j args = args) by (apply firstn_eq_all; lia).
        apply list_N_eqb_eq in E2. congruence. }
  clear H1.
  destruct (match pos_loop args ps 0 (a0_of ps) with
            | PRaise => inl ETooMany
            | PBreak a => inr a
            | PDone i a => if list_N_eqb (firstn i args) args then inr a else inl ETooMany
            end) as [e|a1].
  { rewrite Hafter. reflexivity. }
  destruct Hafter as [Hp Hl1]. rewrite Hp. simpl andb.
  assert (Hvk : forall q, first_vk ps = Some q ->
            cls ps (pname q) = CExtra /\ exists d0, dget a1 (pname q) = Some (BDict d0)).
  { intros q Hq. split; [apply first_vk_cls; assumption|].
    exists []. rewrite Hl1. unfold L1.
    assert (Hc := first_vk_cls ps q ND Hq).
    assert (Hpv : posval ps args (pname q) = None) by (apply posval_first_vk; assumption).
    rewrite Hpv. unfold a0_of. rewrite Hq. simpl. rewrite N.eqb_refl. reflexivity. }
  pose proof (kw_loop_spec ps (first_vk ps) kws a1 NK Hvk) as H2.
  assert (Hk1 : forall k, kw_ok2 ps (is_some (first_vk ps)) a1 k
                          = kw_okL ps (is_some (first_vk ps)) (L1 ps args) k).
  { intros k. transitivity (kw_okL ps (is_some (first_vk ps)) (dget a1) k); [reflexivity|].
    apply kw_okL_ext. exact Hl1. }
  rewrite (forallb_ext_in' _ _ _ (fun k _ => Hk1 k)) in H2.
  destruct (kw_loop ps (first_vk ps) kws a1) as [e|a2].
  { rewrite H2. reflexivity. }
  destruct H2 as [H2 Hl2]. rewrite H2. simpl andb.
  assert (Hl2' : forall x, dget a2 x = L2 ps args kws x).
  { intros x. rewrite Hl2. unfold L2.
    transitivity (kw_postL ps (first_vk ps) kws (dget a1) x); [reflexivity|].
    apply kw_postL_ext. exact Hl1. }
  pose proof (fill_loop_spec ps a2 ND) as H3.
  assert (Hk3 : forall p, fill_ok a2 p = fill_okL (L2 ps args kws) p).
  { intros p. transitivity (fill_okL (dget a2) p); [reflexivity|]. apply fill_okL_ext. exact Hl2'. }
  rewrite (forallb_ext_in' _ _ _ (fun p _ => Hk3 p)) in H3.
  destruct (fill_loop ps a2) as [e|a3].
  { exact H3. }
  destruct H3 as [H3 Hl3]. split; [exact H3|].
  intros x. rewrite Hl3. unfold L3.
  transitivity (fill_postL ps (dget a2) x); [reflexivity|].
  apply fill_postL_ext. exact Hl2'.
Qed.

(* -------------------------------------------------------- make_up_callsigs *)
Inductive subseq : list name -> list name -> Prop :=
| sub_nil : subseq [] []
| sub_take x k l : subseq k l -> subseq (x :: k) (x :: l)
| sub_skip x k l : subseq k l -> subseq k (x :: l).

Lemma subseq_length k l : subseq k l -> (length k <= length l)%nat.
Proof. induction 1; simpl; lia. Qed.

Lemma combinations_complete k l : subseq k l -> In k (combinations l (length k)).
Proof.
  induction 1 as [|x k l H IH|x k l H IH]; simpl.
  - auto.
  - apply in_or_app. left. apply in_map. exact IH.
  - destruct k as [|y k]; simpl.
    + auto.
    + apply in_or_app. right. exact IH.
Qed.

Theorem make_up_callsigs_complete ps extra i K :
  (i <= length (mu_names ps extra))%nat ->
  subseq K (mu_kwnames ps extra) ->
  In (firstn i (mu_names ps extra), self_dict K) (make_up_callsigs ps extra).
Proof.
  intros Hi HK. unfold make_up_callsigs.
  apply in_flat_map. exists (firstn i (mu_names ps extra)). split.
  - apply in_map_iff. exists i. split; [reflexivity|]. apply in_seq. lia.
  - apply in_map. apply in_map. apply in_flat_map. exists (length K). split.
    + apply in_seq. pose proof (subseq_length _ _ HK). lia.
    + apply combinations_complete. exact HK.
Qed.

(* for duplicate-free keyword names the dict is the list itself *)
Lemma self_dict_nodup_aux K : forall d,
  NoDup (map fst d ++ K) ->
  fold_left (fun d n => dset d n n) K d = d ++ map (fun n => (n, n)) K.
Proof.
  induction K as [|n K IH]; intros d ND; simpl.
  - rewrite app_nil_r. reflexivity.
  - rewrite dset_fresh.
    + rewrite IH.
      * rewrite <- app_assoc. reflexivity.
      * rewrite map_app. simpl. rewrite <- app_assoc. exact ND.
    + apply NoDup_remove_2 in ND. intros H. apply ND. apply in_or_app. auto.
Qed.

Lemma self_dict_nodup K : NoDup K -> self_dict K = map (fun n => (n, n)) K.
Proof. intros H. unfold self_dict. rewrite self_dict_nodup_aux; [reflexivity|exact H]. Qed.

Example make_up_callsigs_example :
  In ([1], [(2, 2)]) (make_up_callsigs [pp 1 PK None None; pp 2 KO None None] 0).
Proof.
  apply (make_up_callsigs_complete [pp 1 PK None None; pp 2 KO None None] 0 1 [2]).
  - simpl. lia.
  - simpl. apply sub_skip. apply sub_take. apply sub_nil.
Qed.

(* ----------------------------------------------------------- sort_callsigs *)
Definition bound_ok ps (c : callsig) : bool :=
  match bind_callsig ps (fst c) (snd c) with BOk _ => true | BErr _ => false end.

Lemma sort_callsigs_valid ps cs c b :
  In (c, b) (fst (sort_callsigs ps cs)) <-> In c cs /\ bind_callsig ps (fst c) (snd c) = BOk b.
Proof.
  induction cs as [|c0 cs IH]; simpl.
  - tauto.
  - destruct (bind_callsig ps (fst c0) (snd c0)) eqn:E; simpl.
    + rewrite IH. split.
      * intros [H|H]. { inversion H; subst. auto. } tauto.
      * intros [[H|H] H2]. { subst. left. congruence. } tauto.
    + rewrite IH. split.
      * tauto.
      * intros [[H|H] H2]. { subst. congruence. } tauto.
Qed.

(* the two lists are the order-preserving partition of the input *)
Lemma sort_callsigs_partition ps cs :
  map fst (fst (sort_callsigs ps cs)) = filter (bound_ok ps) cs /\
  snd (sort_callsigs ps cs) = filter (fun c => negb (bound_ok ps c)) cs.
Proof.
  induction cs as [|c0 cs [IH1 IH2]]; simpl; [auto|].
  assert (E : bound_ok ps c0 = match bind_callsig ps (fst c0) (snd c0) with BOk _ => true | BErr _ => false end)
    by reflexivity.
  rewrite E.
  destruct (bind_callsig ps (fst c0) (snd c0)); simpl; rewrite IH1, IH2; split; reflexivity.
Qed.

(* ------------------------------------------------ bounded reflective results *)
From Sigtools.Model Require Import Universe.

Definition annot (ps : list param) : list param :=
  map (fun p => pp (pname p) (pkind p) (pdef p) (Some (20 + pname p))) ps.

(* C20_roundtrip, bounded to the universe U(2,{a,b}) (names a=1 b=2 args=9
   kwargs=10), without and with annotations / return annotation *)
Theorem roundtrip_native_U2 :
  forall ps, In ps (universe 2 [1; 2] 9 10) ->
    roundtrip_native ps None = true /\ roundtrip_native (annot ps) (Some 7) = true.
Proof.
  intros ps H.
  assert (E : forallb (fun ps => roundtrip_native ps None && roundtrip_native (annot ps) (Some 7))
                      (universe 2 [1; 2] 9 10) = true) by (vm_compute; reflexivity).
  rewrite forallb_forall in E. specialize (E ps H). apply andb_true_iff in E. exact E.
Qed.

(* value-level calls with distinguishable values: n <= 3 positionals 101.., every
   keyword subset of the names plus a foreign one, value 200 + name *)
Definition calls_for (ps : list param) : list (list N * list (name * N)) :=
  let ns := names_of ps ++ [fresh_for (names_of ps)] in
  flat_map (fun n => map (fun ks => (map (fun i => 101 + N.of_nat i) (seq 0 n),
                                     map (fun k => (k, 200 + k)) ks))
                         (sublists ns))
           (seq 0 4).

Theorem bind_agrees_U2 :
  forall ps, In ps (universe 2 [1; 2] 9 10) ->
  forall c, In c (calls_for ps) -> bind_agrees ps (fst c) (snd c) = true.
Proof.
  intros ps H c Hc.
  assert (E : forallb (fun ps => forallb (fun c => bind_agrees ps (fst c) (snd c)) (calls_for ps))
                      (universe 2 [1; 2] 9 10) = true) by (vm_compute; reflexivity).
  rewrite forallb_forall in E. specialize (E ps H).
  rewrite forallb_forall in E. exact (E c Hc).
Qed.
From Sigtools.Proofs Require Import SmallModel.

(* ===================================================== bindv against the spec *)
Definition highb (q : param) : bool := match pkind q with KO | VK => true | _ => false end.

Fixpoint wf (ps : list param) : Prop :=
  match ps with
  | [] => True
  | p :: ps' => ~ In (pname p) (names_of ps')
                /\ (highb p = true -> forallb highb ps' = true)
                /\ (pkind p = VK -> ps' = [])
                /\ wf ps'
  end.

Definition step_args (p : param) (args : list N) : list N :=
  match pkind p with PO | PK => tl args | VP => [] | _ => args end.

Definition headval (kws extras : list (name * N)) (p : param) (args : list N) : option bval :=
  match pkind p with
  | PO => match args with v :: _ => Some (BV v) | [] => option_map BV (pdef p) end
  | PK => match args with
          | v :: _ => if dhas kws (pname p) then None else Some (BV v)
          | [] => match dget kws (pname p) with
                  | Some v => Some (BV v)
                  | None => option_map BV (pdef p)
                  end
          end
  | VP => Some (BTuple args)
  | KO => match dget kws (pname p) with
          | Some v => Some (BV v)
          | None => option_map BV (pdef p)
          end
  | VK => Some (BDict extras)
  end.

Lemma bindv_go_cons p ps args kws extras :
  bindv_go (p :: ps) args kws extras =
  match headval kws extras p args with
  | Some v => opt_cons (pname p, v) (bindv_go ps (step_args p args) kws extras)
  | None => None
  end.
Proof.
  unfold headval, step_args. simpl.
  destruct (pkind p); destruct args as [|v args]; simpl; try reflexivity.
  - destruct (pdef p); reflexivity.
  - destruct (dget kws (pname p)); [reflexivity|]. destruct (pdef p); reflexivity.
  - destruct (dhas kws (pname p)); reflexivity.
  - destruct (dget kws (pname p)); [reflexivity|]. destruct (pdef p); reflexivity.
  - destruct (dget kws (pname p)); [reflexivity|]. destruct (pdef p); reflexivity.
Qed.

Definition L2g W ps args kws : lk := kw_postL W (first_vk ps) kws (L1 ps args).
Definition L3g W ps args kws : lk := fill_postL ps (L2g W ps args kws).
Definition okAg W (h : bool) ps args (kws : list (name * N)) : bool :=
  pos_ok ps args
  && forallb (kw_okL W h (L1 ps args)) (map fst kws)
  && forallb (fill_okL (L2g W ps args kws)) ps.

Lemma posval_high ps : forall args x, forallb highb ps = true -> posval ps args x = None.
Proof.
  intros args x H. destruct args as [|v args]; [reflexivity|].
  destruct ps as [|p ps]; [reflexivity|]. simpl in *.
  apply andb_true_iff in H. destruct H as [H _]. unfold highb in H.
  destruct (pkind p); try discriminate; reflexivity.
Qed.

Lemma pos_ok_high ps v args : forallb highb ps = true -> pos_ok ps (v :: args) = false.
Proof.
  intros H. destruct ps as [|p ps]; [reflexivity|]. simpl in *.
  apply andb_true_iff in H. destruct H as [H _]. unfold highb in H.
  destruct (pkind p); try discriminate; reflexivity.
Qed.

Lemma a0_notin ps x : ~ In x (names_of ps) -> dget (a0_of ps) x = None.
Proof.
  intros H. unfold a0_of. destruct (first_vk ps) as [q|] eqn:F; [|reflexivity].
  simpl. destruct (N.eqb x (pname q)) eqn:E; [|reflexivity].
  apply N.eqb_eq in E. subst x. exfalso. apply H. unfold first_vk in F.
  apply find_some in F. apply in_map. tauto.
Qed.

Lemma first_vk_cons p ps : pkind p <> VK -> first_vk (p :: ps) = first_vk ps.
Proof.
  intros H. unfold first_vk. simpl. unfold is_kind, kind_eqb.
  destruct (pkind p); simpl; try reflexivity. congruence.
Qed.

Lemma a0_cons p ps : pkind p <> VK -> a0_of (p :: ps) = a0_of ps.
Proof. intros H. unfold a0_of. rewrite first_vk_cons by exact H. reflexivity. Qed.

Lemma pos_ok_peel p ps args :
  (highb p = true -> forallb highb ps = true) -> (pkind p = VK -> ps = []) ->
  pos_ok (p :: ps) args = pos_ok ps (step_args p args).
Proof.
  intros Hh Hv. unfold step_args. unfold highb in Hh.
  destruct args as [|v args].
  - destruct (pkind p); destruct ps; reflexivity.
  - destruct (pkind p) eqn:K.
    + simpl. rewrite K. reflexivity.
    + simpl. rewrite K. reflexivity.
    + simpl. rewrite K. destruct ps; reflexivity.
    + rewrite (pos_ok_high ps v args) by (apply Hh; reflexivity). simpl. rewrite K. reflexivity.
    + rewrite (pos_ok_high ps v args) by (apply Hh; reflexivity). simpl. rewrite K. reflexivity.
Qed.

(* value loop 1 gives to the head parameter *)
Definition bound1 (p : param) (args : list N) : option bval :=
  match pkind p, args with
  | PO, v :: _ => Some (BV v)
  | PK, v :: _ => Some (BV v)
  | VP, _ :: _ => Some (BTuple args)
  | VK, _ => Some (BDict [])
  | _, _ => None
  end.

Lemma L1_head p ps args :
  ~ In (pname p) (names_of ps) -> L1 (p :: ps) args (pname p) = bound1 p args.
Proof.
  intros Hn. unfold L1, bound1.
  destruct (pkind p) eqn:K.
  5: { assert (Hp : posval (p :: ps) args (pname p) = None).
       { destruct args; simpl; [reflexivity|]. rewrite K. reflexivity. }
       rewrite Hp. unfold a0_of, first_vk. simpl. unfold is_kind, kind_eqb. rewrite K. simpl.
       rewrite N.eqb_refl. destruct args; reflexivity. }
  all: assert (Ha : dget (a0_of (p :: ps)) (pname p) = None)
         by (rewrite a0_cons by congruence; apply a0_notin; exact Hn).
  all: destruct args as [|v args]; simpl; rewrite ?K, ?N.eqb_refl; try reflexivity; try exact Ha.
Qed.

Lemma L1_tail p ps args x :
  x <> pname p -> (highb p = true -> forallb highb ps = true) -> (pkind p = VK -> ps = []) ->
  L1 (p :: ps) args x = L1 ps (step_args p args) x.
Proof.
  intros Hx Hh Hv. unfold L1, step_args, highb in *.
  assert (E : N.eqb x (pname p) = false) by (apply N.eqb_neq; exact Hx).
  destruct (pkind p) eqn:K.
  - rewrite a0_cons by congruence. destruct args as [|v args]; simpl; [reflexivity|]. rewrite K, E. reflexivity.
  - rewrite a0_cons by congruence. destruct args as [|v args]; simpl; [reflexivity|]. rewrite K, E. reflexivity.
  - rewrite a0_cons by congruence.
    assert (Hp : posval (p :: ps) args x = None).
    { destruct args as [|v args]; simpl; [reflexivity|]. rewrite K, E. reflexivity. }
    rewrite Hp. reflexivity.
  - rewrite a0_cons by congruence.
    assert (Hp : posval (p :: ps) args x = None).
    { destruct args as [|v args]; simpl; [reflexivity|]. rewrite K. reflexivity. }
    rewrite Hp. rewrite posval_high by (apply Hh; reflexivity). reflexivity.
  - rewrite (Hv eq_refl).
    assert (Hp : posval [p] args x = None).
    { destruct args as [|v args]; simpl; [reflexivity|]. rewrite K. reflexivity. }
    rewrite Hp.
    assert (Hq : posval [] args x = None) by (destruct args; reflexivity).
    rewrite Hq. unfold a0_of, first_vk. simpl. unfold is_kind, kind_eqb. rewrite K. simpl.
    rewrite E. reflexivity.
Qed.

Lemma find_param_in W p : NoDup (names_of W) -> In p W -> find_param (pname p) W = Some p.
Proof.
  induction W as [|q W IH]; simpl; intros ND H; [contradiction|].
  inversion ND as [|? ? Hnot ND']; subst. destruct H as [H|H].
  - subst q. rewrite N.eqb_refl. reflexivity.
  - destruct (N.eqb (pname p) (pname q)) eqn:E.
    + apply N.eqb_eq in E. exfalso. apply Hnot. rewrite <- E. apply in_map. exact H.
    + apply IH; assumption.
Qed.

Lemma cls_in W p : NoDup (names_of W) -> In p W ->
  cls W (pname p) = match pkind p with PO => CPo | PK | KO => CNamed | _ => CExtra end.
Proof. intros ND H. unfold cls. rewrite find_param_in by assumption. reflexivity. Qed.

Lemma forallb_point (f g : name -> bool) k0 l :
  (forall k, k <> k0 -> f k = g k) -> (In k0 l -> g k0 = true) ->
  forallb f l = (negb (mem k0 l) || f k0) && forallb g l.
Proof.
  intros Hfg. induction l as [|y l IH]; intros Hg; simpl.
  - reflexivity.
  - destruct (N.eqb k0 y) eqn:E.
    + apply N.eqb_eq in E. subst y. simpl.
      rewrite IH by (intros H; apply Hg; right; exact H).
      rewrite (Hg (or_introl eq_refl)).
      destruct (f k0), (mem k0 l), (forallb g l); reflexivity.
    + simpl. rewrite IH by (intros H; apply Hg; right; exact H).
      rewrite (Hfg y) by (apply N.eqb_neq in E; congruence).
      destruct (g y), (mem k0 l), (f k0), (forallb g l); reflexivity.
Qed.

Lemma dhas_mem (kws : list (name * N)) k : dhas kws k = mem k (map fst kws).
Proof.
  unfold dhas. induction kws as [|[k' v] kws IH]; simpl; [reflexivity|].
  destruct (N.eqb k k'); [reflexivity|exact IH].
Qed.

Lemma kw_okL_ext1 W h (L L' : lk) k : L k = L' k -> kw_okL W h L k = kw_okL W h L' k.
Proof. intros H. unfold kw_okL. rewrite H. reflexivity. Qed.
Lemma kw_postL_ext1 W vk kws (L L' : lk) x : L x = L' x -> kw_postL W vk kws L x = kw_postL W vk kws L' x.
Proof. intros H. unfold kw_postL, named_lookupL. rewrite H. reflexivity. Qed.

Lemma L2g_tail W p ps args kws x :
  x <> pname p -> (highb p = true -> forallb highb ps = true) -> (pkind p = VK -> ps = []) ->
  L2g W (p :: ps) args kws x = L2g W ps (step_args p args) kws x.
Proof.
  intros Hx Hh Hv. unfold L2g.
  assert (HL := L1_tail p ps args x Hx Hh Hv).
  destruct (pkind p) eqn:K.
  1,2,3,4: rewrite first_vk_cons by congruence; apply kw_postL_ext1; exact HL.
  rewrite (Hv eq_refl) in *.
  assert (F : first_vk [p] = Some p).
  { unfold first_vk. simpl. unfold is_kind, kind_eqb. rewrite K. reflexivity. }
  rewrite F. unfold kw_postL.
  assert (E : N.eqb x (pname p) = false) by (apply N.eqb_neq; exact Hx).
  rewrite E. simpl first_vk. unfold named_lookupL. rewrite HL. reflexivity.
Qed.

Section BindvSpec.
Variable W : list param.
Variable kws : list (name * N).
Variable h : bool.
Hypothesis HW : NoDup (names_of W).
Hypothesis G1 : forall k, In k (map fst kws) -> cls W k <> CPo.
Hypothesis G2 : forall k, In k (map fst kws) -> cls W k = CExtra -> h = true.
Let extras := dict_of [] (filter (is_cextra W) kws).

Lemma L2g_head p ps args :
  ~ In (pname p) (names_of ps) ->
  L2g W (p :: ps) args kws (pname p) =
  match pkind p with
  | VK => Some (BDict extras)
  | _ => named_lookupL W kws (fun _ => bound1 p args) (pname p)
  end.
Proof.
  intros Hn. unfold L2g, kw_postL.
  destruct (pkind p) eqn:K.
  5: { assert (F : first_vk (p :: ps) = Some p).
       { unfold first_vk. simpl. unfold is_kind, kind_eqb. rewrite K. reflexivity. }
       rewrite F, N.eqb_refl, L1_head by exact Hn. unfold bound1. rewrite K. reflexivity. }
  all: rewrite first_vk_cons by congruence.
  all: assert (HN : named_lookupL W kws (L1 (p :: ps) args) (pname p)
                    = named_lookupL W kws (fun _ => bound1 p args) (pname p))
         by (unfold named_lookupL; rewrite L1_head by exact Hn; reflexivity).
  all: destruct (first_vk ps) as [q|] eqn:F; [|exact HN].
  all: assert (E : N.eqb (pname p) (pname q) = false)
         by (apply N.eqb_neq; intros E; apply Hn; rewrite E; unfold first_vk in F;
             apply find_some in F; apply in_map; tauto).
  all: rewrite E; exact HN.
Qed.

Lemma head_peel p ps args :
  In p W -> ~ In (pname p) (names_of ps) ->
  (highb p = true -> forallb highb ps = true) -> (pkind p = VK -> ps = []) ->
  okAg W h (p :: ps) args kws
  = is_some (headval kws extras p args) && okAg W h ps (step_args p args) kws
  /\ (forall v, headval kws extras p args = Some v -> L3g W (p :: ps) args kws (pname p) = Some v).
Proof.
  intros Hin Hn Hh Hv.
  pose proof (cls_in W p HW Hin) as Hcls.
  assert (Hkey :
    forallb (kw_okL W h (L1 (p :: ps) args)) (map fst kws)
    = (negb (mem (pname p) (map fst kws)) || kw_okL W h (L1 (p :: ps) args) (pname p))
      && forallb (kw_okL W h (L1 ps (step_args p args))) (map fst kws)).
  { apply forallb_point.
    - intros k Hk. apply kw_okL_ext1. apply L1_tail; assumption.
    - intros Hk. unfold kw_okL.
      assert (HL : L1 ps (step_args p args) (pname p) = None).
      { unfold L1. rewrite posval_notin by exact Hn. apply a0_notin. exact Hn. }
      rewrite HL. destruct (cls W (pname p)) eqn:C.
      + exfalso. exact (G1 _ Hk C).
      + reflexivity.
      + exact (G2 _ Hk C). }
  assert (Hfill :
    forallb (fill_okL (L2g W (p :: ps) args kws)) ps
    = forallb (fill_okL (L2g W ps (step_args p args) kws)) ps).
  { apply forallb_ext_in'. intros q Hq. unfold fill_okL.
    rewrite L2g_tail; try assumption; [reflexivity|].
    intros E. apply Hn. rewrite <- E. apply in_map. exact Hq. }
  assert (Hcore :
    (negb (mem (pname p) (map fst kws)) || kw_okL W h (L1 (p :: ps) args) (pname p))
    && fill_okL (L2g W (p :: ps) args kws) p
    = is_some (headval kws extras p args)
    /\ (forall v, headval kws extras p args = Some v -> L3g W (p :: ps) args kws (pname p) = Some v)).
  { unfold fill_okL, L3g, fill_postL. rewrite (L2g_head p ps args Hn).
    simpl find_param. rewrite N.eqb_refl.
    unfold kw_okL. rewrite Hcls, (L1_head p ps args Hn).
    rewrite <- dhas_mem.
    unfold headval, bound1, named_lookupL, fillval, is_kind, kind_eqb, has_def.
    rewrite Hcls.
    assert (HhE : (pkind p = VP \/ pkind p = VK) -> dhas kws (pname p) = true -> h = true).
    { intros HK D. rewrite dhas_mem in D. apply mem_In in D. apply (G2 _ D).
      rewrite Hcls. destruct HK as [HK|HK]; rewrite HK; reflexivity. }
    destruct (pkind p) eqn:K; simpl.
    - (* PO *)
      assert (Hm : dhas kws (pname p) = false).
      { destruct (dhas kws (pname p)) eqn:D; [|reflexivity]. exfalso.
        rewrite dhas_mem in D. apply mem_In in D. exact (G1 _ D Hcls). }
      rewrite Hm. destruct args as [|v0 args]; destruct (pdef p); simpl; split; try reflexivity;
        intros v Hv0; exact Hv0.
    - (* PK *)
      unfold dhas. destruct args as [|v0 args]; destruct (dget kws (pname p)); destruct (pdef p);
        simpl; split; try reflexivity; intros v Hv0; try discriminate; exact Hv0.
    - (* VP *)
      assert (Hx : negb (dhas kws (pname p)) || h = true).
      { destruct (dhas kws (pname p)) eqn:D; [|reflexivity]. simpl. apply HhE; auto. }
      rewrite Hx. destruct args as [|v0 args]; simpl; split; try reflexivity; intros v Hv0; exact Hv0.
    - (* KO *)
      unfold dhas. destruct (dget kws (pname p)); destruct (pdef p);
        simpl; split; try reflexivity; intros v Hv0; try discriminate; exact Hv0.
    - (* VK *)
      assert (Hx : negb (dhas kws (pname p)) || h = true).
      { destruct (dhas kws (pname p)) eqn:D; [|reflexivity]. simpl. apply HhE; auto. }
      rewrite Hx. simpl. split; [reflexivity|]. intros v Hv0. exact Hv0. }
  destruct Hcore as [Hc1 Hc2]. split; [|exact Hc2].
  unfold okAg. rewrite pos_ok_peel by assumption. rewrite Hkey.
  cbn [forallb]. rewrite Hfill. rewrite <- Hc1.
  set (P := pos_ok ps (step_args p args)).
  set (G := forallb (kw_okL W h (L1 ps (step_args p args))) (map fst kws)).
  set (F := forallb (fill_okL (L2g W ps (step_args p args) kws)) ps).
  set (X := negb (mem (pname p) (map fst kws)) || kw_okL W h (L1 (p :: ps) args) (pname p)).
  set (Fh := fill_okL (L2g W (p :: ps) args kws) p).
  destruct P, G, F, X, Fh; reflexivity.
Qed.

Lemma L3g_tail p ps args x :
  x <> pname p -> (highb p = true -> forallb highb ps = true) -> (pkind p = VK -> ps = []) ->
  L3g W (p :: ps) args kws x = L3g W ps (step_args p args) kws x.
Proof.
  intros Hx Hh Hv. unfold L3g, fill_postL. rewrite L2g_tail by assumption.
  simpl find_param. assert (E : N.eqb x (pname p) = false) by (apply N.eqb_neq; exact Hx).
  rewrite E. reflexivity.
Qed.

Lemma find_param_notin x ps : ~ In x (names_of ps) -> find_param x ps = None.
Proof.
  induction ps as [|p ps IH]; simpl; intros H; [reflexivity|].
  destruct (N.eqb x (pname p)) eqn:E.
  - apply N.eqb_eq in E. exfalso. apply H. auto.
  - apply IH. tauto.
Qed.

Lemma bindv_go_spec : forall ps args pre, W = pre ++ ps -> wf ps ->
  match bindv_go ps args kws extras with
  | Some b => okAg W h ps args kws = true /\
              forall x, ~ In x (names_of pre) -> dget b x = L3g W ps args kws x
  | None => okAg W h ps args kws = false
  end.
Proof.
  induction ps as [|p ps IH]; intros args pre HWeq Hwf.
  - simpl. destruct args as [|v args]; [|reflexivity].
    split.
    + unfold okAg. simpl. rewrite andb_true_r. apply forallb_forall. intros k Hk.
      unfold kw_okL. destruct (cls W k) eqn:C.
      * exfalso. exact (G1 _ Hk C).
      * reflexivity.
      * exact (G2 _ Hk C).
    + intros x Hx. simpl. unfold L3g, fill_postL, L2g, kw_postL, named_lookupL. simpl.
      unfold cls. rewrite find_param_notin; [reflexivity|].
      rewrite HWeq, app_nil_r. exact Hx.
  - rewrite bindv_go_cons. simpl in Hwf. destruct Hwf as [Hn [Hh [Hv Hwf]]].
    assert (Hin : In p W) by (rewrite HWeq; apply in_or_app; right; left; reflexivity).
    destruct (head_peel p ps args Hin Hn Hh Hv) as [Hok Hhead].
    destruct (headval kws extras p args) as [v|] eqn:HV.
    + assert (HW2 : W = (pre ++ [p]) ++ ps) by (rewrite <- app_assoc; exact HWeq).
      specialize (IH (step_args p args) (pre ++ [p]) HW2 Hwf).
      destruct (bindv_go ps (step_args p args) kws extras) as [b|]; simpl.
      * destruct IH as [IH1 IH2]. split; [rewrite Hok, IH1; reflexivity|].
        intros x Hx. destruct (N.eqb x (pname p)) eqn:E.
        -- apply N.eqb_eq in E. subst x. symmetry. apply Hhead. reflexivity.
        -- rewrite L3g_tail; try assumption; [|apply N.eqb_neq; exact E].
           apply IH2. unfold names_of. rewrite map_app. intros H. apply in_app_or in H.
           destruct H as [H|H]; [exact (Hx H)|]. simpl in H. destruct H as [H|[]].
           apply N.eqb_neq in E. congruence.
      * rewrite Hok, IH. apply andb_false_r.
    + rewrite Hok. reflexivity.
Qed.

End BindvSpec.

(* ------------------------------------------------- from valid_sig to wf *)
Lemma validate_aux_wf ps : forall top sd seen,
  validate_aux ps top sd seen = true -> (count_kind VK ps <= 1)%nat ->
  wf ps /\ NoDup (names_of ps) /\
  forall q, In q ps -> (top <= kind_rank (pkind q))%nat /\ ~ In (pname q) seen.
Proof.
  induction ps as [|p ps IH]; intros top sd seen H Hc.
  - simpl. split; [exact I|]. split; [constructor|]. intros q [].
  - simpl in H.
    destruct (Nat.ltb (kind_rank (pkind p)) top) eqn:L; [discriminate|].
    destruct (is_positional p && negb (has_def p) && sd); [discriminate|].
    destruct (mem (pname p) seen) eqn:M; [discriminate|].
    apply Nat.ltb_ge in L. apply mem_false_In in M.
    assert (Hc' : (count_kind VK ps <= 1)%nat).
    { unfold count_kind in *. simpl in Hc. destruct (is_kind VK p); simpl in Hc; lia. }
    destruct (IH _ _ _ H Hc') as [Hwf [Hnd Hall]].
    assert (Hnot : ~ In (pname p) (names_of ps)).
    { intros Hi. unfold names_of in Hi. apply in_map_iff in Hi. destruct Hi as [q [Hq1 Hq2]].
      destruct (Hall q Hq2) as [_ Hq3]. apply Hq3. left. symmetry. exact Hq1. }
    split; [|split].
    + simpl. split; [exact Hnot|]. split; [|split; [|exact Hwf]].
      * intros Hp. apply forallb_forall. intros q Hq. destruct (Hall q Hq) as [Hr _].
        assert (Hr2 : (kind_rank (pkind p) <= kind_rank (pkind q))%nat) by lia.
        revert Hr2 Hp. unfold highb. destruct (pkind p), (pkind q); simpl; intros; try reflexivity; try discriminate; lia.
      * intros Hp. destruct ps as [|q ps']; [reflexivity|]. exfalso.
        destruct (Hall q (or_introl eq_refl)) as [Hr _].
        assert (Hr2 : (kind_rank (pkind p) <= kind_rank (pkind q))%nat) by lia.
        rewrite Hp in Hr2. simpl in Hr2.
        assert (Hq : pkind q = VK) by (destruct (pkind q); simpl in Hr2; try lia; reflexivity).
        unfold count_kind in Hc. simpl in Hc. unfold is_kind, kind_eqb in Hc. rewrite Hp, Hq in Hc.
        simpl in Hc. lia.
    + simpl. constructor; assumption.
    + intros q [Hq|Hq].
      * subst q. split; [exact L|exact M].
      * destruct (Hall q Hq) as [Hr Hs]. split; [lia|]. intros Hi. apply Hs. right. exact Hi.
Qed.

Lemma valid_sig_wf ps : valid_sig ps = true -> wf ps /\ NoDup (names_of ps).
Proof.
  unfold valid_sig, validate. intros H.
  apply andb_true_iff in H. destruct H as [H H3].
  apply andb_true_iff in H. destruct H as [H1 H2].
  apply Nat.leb_le in H3.
  destruct (validate_aux_wf ps _ _ _ H1 H3) as [A [B _]]. auto.
Qed.

Lemma existsb_find (f : param -> bool) k ps :
  NoDup (names_of ps) ->
  existsb (fun p => f p && N.eqb k (pname p)) ps
  = match find_param k ps with Some p => f p | None => false end.
Proof.
  induction ps as [|p ps IH]; simpl; intros ND; [reflexivity|].
  inversion ND as [|? ? Hnot ND']; subst.
  destruct (N.eqb k (pname p)) eqn:E.
  - apply N.eqb_eq in E. subst k. rewrite andb_true_r.
    assert (Hr : existsb (fun q => f q && N.eqb (pname p) (pname q)) ps = false).
    { rewrite IH by exact ND'. rewrite find_param_notin by exact Hnot. reflexivity. }
    rewrite Hr. apply orb_false_r.
  - rewrite andb_false_r. simpl. apply IH. exact ND'.
Qed.

Lemma kwpassable_cls ps k : NoDup (names_of ps) ->
  kwpassable_name ps k = match cls ps k with CNamed => true | _ => false end.
Proof.
  intros ND. unfold kwpassable_name, cls. rewrite existsb_find by exact ND.
  destruct (find_param k ps) as [p|]; [|reflexivity].
  unfold is_kwpassable. destruct (pkind p); reflexivity.
Qed.

Lemma po_name_cls ps k : NoDup (names_of ps) ->
  po_name ps k = match cls ps k with CPo => true | _ => false end.
Proof.
  intros ND. unfold po_name, cls. rewrite existsb_find by exact ND.
  destruct (find_param k ps) as [p|]; [|reflexivity].
  unfold is_kind, kind_eqb. destruct (pkind p); reflexivity.
Qed.

Lemma first_vk_has ps : is_some (first_vk ps) = has_kind VK ps.
Proof.
  unfold first_vk, has_kind. induction ps as [|p ps IH]; simpl; [reflexivity|].
  destruct (is_kind VK p); simpl; [reflexivity|exact IH].
Qed.

Lemma dict_of_nodup l : forall d0,
  NoDup (map fst d0 ++ map fst l) -> dict_of d0 l = d0 ++ l.
Proof.
  unfold dict_of. induction l as [|[k v] l IH]; intros d0 ND; simpl.
  - rewrite app_nil_r. reflexivity.
  - rewrite dset_fresh.
    + rewrite IH.
      * rewrite <- app_assoc. reflexivity.
      * rewrite map_app. simpl. rewrite <- app_assoc. exact ND.
    + simpl in ND. apply NoDup_remove_2 in ND. intros H. apply ND. apply in_or_app. auto.
Qed.

Lemma NoDup_map_filter {A} (f : A -> bool) (g : A -> N) l : NoDup (map g l) -> NoDup (map g (filter f l)).
Proof.
  induction l as [|x l IH]; simpl; intros ND; [constructor|].
  inversion ND as [|? ? Hnot ND']; subst.
  destruct (f x); simpl; [|apply IH; exact ND'].
  constructor; [|apply IH; exact ND'].
  intros H. apply Hnot. apply in_map_iff in H. destruct H as [y [Hy1 Hy2]].
  apply filter_In in Hy2. apply in_map_iff. exists y. tauto.
Qed.

(* ------------------------------------------------------------- C20_bind *)
Lemma okA_okAg ps args kws : okA ps args kws = okAg ps (is_some (first_vk ps)) ps args kws.
Proof. reflexivity. Qed.
Lemma L3_L3g ps args kws x : L3 ps args kws x = L3g ps ps args kws x.
Proof. reflexivity. Qed.

Lemma okA_false_key ps args kws k :
  In k (map fst kws) -> kw_okL ps (is_some (first_vk ps)) (L1 ps args) k = false ->
  okA ps args kws = false.
Proof.
  intros Hk Hf. unfold okA.
  assert (H : forallb (kw_okL ps (is_some (first_vk ps)) (L1 ps args)) (map fst kws) = false).
  { apply not_true_is_false. intros H. rewrite forallb_forall in H. rewrite (H k Hk) in Hf. discriminate. }
  rewrite H, andb_false_r. reflexivity.
Qed.

Theorem bind_callsig_bindv ps args kws :
  valid_sig ps = true -> NoDup (map fst kws) -> po_kw_collision ps kws = false ->
  match bind_callsig ps args kws, bindv ps args kws with
  | BOk a, Some b => forall x, dget a x = dget b x
  | BErr _, None => True
  | _, _ => False
  end.
Proof.
  intros Hv NK Hcol.
  destruct (valid_sig_wf ps Hv) as [Hwf ND].
  pose proof (bind_callsig_spec ps args kws ND NK) as HA.
  assert (Hextra_in : forall kv, In kv kws -> cls ps (fst kv) <> CNamed ->
                                 In kv (filter (kw_extra ps) kws)).
  { intros kv Hkv Hc. apply filter_In. split; [exact Hkv|].
    unfold kw_extra. rewrite kwpassable_cls by exact ND.
    destruct (cls ps (fst kv)); try reflexivity. congruence. }
  destruct (existsb (fun k => match cls ps k with CPo => true | _ => false end) (map fst kws)) eqn:EP.
  - (* a keyword names a positional-only parameter: both fail *)
    apply existsb_exists in EP. destruct EP as [k [Hk Hc]].
    destruct (cls ps k) eqn:C; try discriminate.
    assert (HokA : okA ps args kws = false).
    { apply (okA_false_key ps args kws k Hk). unfold kw_okL. rewrite C. reflexivity. }
    destruct (bind_callsig ps args kws) as [a|e]; [destruct HA as [HA _]; congruence|].
    apply in_map_iff in Hk. destruct Hk as [kv [Hkv1 Hkv2]]. subst k.
    assert (Hin : In kv (filter (kw_extra ps) kws)) by (apply Hextra_in; [exact Hkv2|congruence]).
    assert (Hvk : has_kind VK ps = false).
    { unfold po_kw_collision in Hcol. apply andb_false_iff in Hcol. destruct Hcol as [H|H]; [exact H|].
      exfalso. assert (H2 : existsb (fun kv0 => po_name ps (fst kv0)) kws = true).
      { apply existsb_exists. exists kv. split; [exact Hkv2|]. rewrite po_name_cls by exact ND.
        rewrite C. reflexivity. }
      congruence. }
    unfold bindv. destruct (filter (kw_extra ps) kws) as [|e0 l]; [contradiction|].
    rewrite Hvk. exact I.
  - assert (G1 : forall k, In k (map fst kws) -> cls ps k <> CPo).
    { intros k Hk C. assert (H : existsb (fun k => match cls ps k with CPo => true | _ => false end) (map fst kws) = true).
      { apply existsb_exists. exists k. split; [exact Hk|]. rewrite C. reflexivity. }
      congruence. }
    destruct (existsb (fun k => match cls ps k with CExtra => true | _ => false end) (map fst kws)
              && negb (is_some (first_vk ps))) eqn:EX.
    + (* an extra keyword and no **kwargs: both fail *)
      apply andb_true_iff in EX. destruct EX as [EX Hno].
      apply existsb_exists in EX. destruct EX as [k [Hk Hc]].
      destruct (cls ps k) eqn:C; try discriminate.
      apply negb_true_iff in Hno.
      assert (HokA : okA ps args kws = false).
      { apply (okA_false_key ps args kws k Hk). unfold kw_okL. rewrite C. exact Hno. }
      destruct (bind_callsig ps args kws) as [a|e]; [destruct HA as [HA _]; congruence|].
      apply in_map_iff in Hk. destruct Hk as [kv [Hkv1 Hkv2]]. subst k.
      assert (Hin : In kv (filter (kw_extra ps) kws)) by (apply Hextra_in; [exact Hkv2|congruence]).
      unfold bindv. destruct (filter (kw_extra ps) kws) as [|e0 l]; [contradiction|].
      rewrite <- first_vk_has, Hno. exact I.
    + assert (G2 : forall k, In k (map fst kws) -> cls ps k = CExtra -> is_some (first_vk ps) = true).
      { intros k Hk C. apply andb_false_iff in EX. destruct EX as [EX|EX].
        - exfalso. assert (H : existsb (fun k => match cls ps k with CExtra => true | _ => false end) (map fst kws) = true).
          { apply existsb_exists. exists k. split; [exact Hk|]. rewrite C. reflexivity. }
          congruence.
        - apply negb_false_iff in EX. exact EX. }
      assert (Hext : filter (kw_extra ps) kws = dict_of [] (filter (is_cextra ps) kws)).
      { rewrite dict_of_nodup by (simpl; apply NoDup_map_filter; exact NK). simpl.
        apply filter_ext_in. intros kv Hkv. unfold kw_extra, is_cextra.
        rewrite kwpassable_cls by exact ND.
        assert (Hk : In (fst kv) (map fst kws)) by (apply in_map; exact Hkv).
        specialize (G1 _ Hk). destruct (cls ps (fst kv)); try reflexivity. congruence. }
      assert (Hb : bindv ps args kws = bindv_go ps args kws (dict_of [] (filter (is_cextra ps) kws))).
      { unfold bindv. rewrite <- Hext.
        destruct (filter (kw_extra ps) kws) as [|kv l] eqn:F; [reflexivity|].
        assert (Hkv : In kv (filter (kw_extra ps) kws)) by (rewrite F; left; reflexivity).
        apply filter_In in Hkv. destruct Hkv as [Hkv1 Hkv2].
        unfold kw_extra in Hkv2. rewrite kwpassable_cls in Hkv2 by exact ND.
        assert (Hk : In (fst kv) (map fst kws)) by (apply in_map; exact Hkv1).
        assert (C : cls ps (fst kv) = CExtra).
        { specialize (G1 _ Hk). destruct (cls ps (fst kv)); try reflexivity; try congruence; discriminate. }
        rewrite <- first_vk_has, (G2 _ Hk C). reflexivity. }
      rewrite Hb.
      pose proof (bindv_go_spec ps kws (is_some (first_vk ps)) ND G1 G2 ps args [] eq_refl Hwf) as HB.
      rewrite okA_okAg in HA.
      destruct (bind_callsig ps args kws) as [a|e];
        destruct (bindv_go ps args kws (dict_of [] (filter (is_cextra ps) kws))) as [b|].
      * destruct HA as [_ HA]. destruct HB as [_ HB]. intros x.
        rewrite HA, L3_L3g. symmetry. apply HB. intros [].
      * destruct HA as [HA _]. congruence.
      * destruct HB as [HB _]. congruence.
      * exact I.
Qed.

Example bind_callsig_bindv_example :
  valid_sig [pp 1 PO None None; pp 2 PK (Some 5) None; pp 9 VP None None; pp 3 KO None None; pp 10 VK None None] = true
  /\ NoDup (map fst [(3, 201); (7, 202)])
  /\ po_kw_collision [pp 1 PO None None; pp 2 PK (Some 5) None; pp 9 VP None None; pp 3 KO None None; pp 10 VK None None]
                     [(3, 201); (7, 202)] = false
  /\ bindv [pp 1 PO None None; pp 2 PK (Some 5) None; pp 9 VP None None; pp 3 KO None None; pp 10 VK None None]
           [101; 102; 103] [(3, 201); (7, 202)]
     = Some [(1, BV 101); (2, BV 102); (9, BTuple [103]); (3, BV 201); (10, BDict [(7, 202)])].
Proof.
  split; [vm_compute; reflexivity|]. split; [|split; vm_compute; reflexivity].
  constructor; [simpl; intros [H|[]]; discriminate|]. constructor; [intros []|constructor].
Qed.

(* sort_callsigs partitions according to CPython's binding *)
Theorem sort_callsigs_cpython ps cs :
  valid_sig ps = true ->
  (forall c, In c cs -> NoDup (map fst (snd c)) /\ po_kw_collision ps (snd c) = false) ->
  (forall c b, In (c, b) (fst (sort_callsigs ps cs)) <->
               In c cs /\ exists b', bindv ps (fst c) (snd c) = Some b'
                                     /\ bind_callsig ps (fst c) (snd c) = BOk b
                                     /\ forall x, dget b x = dget b' x)
  /\ (forall c, In c (snd (sort_callsigs ps cs)) <-> In c cs /\ bindv ps (fst c) (snd c) = None).
Proof.
  intros Hv Hcs. split.
  - intros c b. rewrite sort_callsigs_valid. split.
    + intros [Hc Hb]. split; [exact Hc|]. destruct (Hcs c Hc) as [H1 H2].
      pose proof (bind_callsig_bindv ps (fst c) (snd c) Hv H1 H2) as H. rewrite Hb in H.
      destruct (bindv ps (fst c) (snd c)) as [b'|]; [|contradiction].
      exists b'. auto.
    + intros [Hc [b' [_ [Hb _]]]]. auto.
  - intros c. destruct (sort_callsigs_partition ps cs) as [_ Hp]. rewrite Hp.
    rewrite filter_In. split.
    + intros [Hc Hb]. split; [exact Hc|]. destruct (Hcs c Hc) as [H1 H2].
      pose proof (bind_callsig_bindv ps (fst c) (snd c) Hv H1 H2) as H.
      unfold bound_ok in Hb. destruct (bind_callsig ps (fst c) (snd c)); [discriminate|].
      destruct (bindv ps (fst c) (snd c)); [contradiction|reflexivity].
    + intros [Hc Hb]. split; [exact Hc|]. destruct (Hcs c Hc) as [H1 H2].
      pose proof (bind_callsig_bindv ps (fst c) (snd c) Hv H1 H2) as H.
      unfold bound_ok. rewrite Hb in H. destruct (bind_callsig ps (fst c) (snd c)); [contradiction|reflexivity].
Qed.
